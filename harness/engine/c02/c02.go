// Package c02: chained conditions select exactly the rows of their logical combination.
//
// Observation: ids returned by Find/First, the number reported by Count, ids whose
// marker column changed after Update, ids missing after Delete (SQLite behind recdrv).
// Oracle: three-valued reference evaluator (pred) over the in-memory copy of the table,
// units combined left to right, AND binding tighter than OR, Not per the statement.
package c02

import (
	"errors"
	"fmt"
	"strings"

	"gorm.io/gorm"

	"verif/core"
	"verif/pred"
	"verif/vdb"
)

var H *vdb.Handle

func initEnv(c *core.Ctx) {
	h, err := vdb.Open(vdb.Options{})
	if err != nil {
		panic(err)
	}
	if err := h.DB.AutoMigrate(&pred.Row{}, &CRow{}, &SRow{}); err != nil {
		panic(err)
	}
	H = h
}

// CRow is the composite-key twin of pred.Row: the key is (id, loc), two rows share every id, and the
// part named ID is the one gorm "prioritizes". uid identifies a row for the oracle.
type CRow struct {
	ID   int64  `gorm:"primaryKey;autoIncrement:false"`
	Loc  string `gorm:"primaryKey"`
	A    int64
	B    *int64
	S    string
	T    *string
	Mark int64
	UID  int64 `gorm:"column:uid"`
}

func (CRow) TableName() string { return "rwc" }

var locs = []string{"en", "de"}

// loadC fills rwc from a reference table whose Row.ID is the shared key part (index i -> uid i+1)
func loadC(rows []pred.Row) {
	if _, err := H.SQL.Exec("DELETE FROM rwc"); err != nil {
		panic(err)
	}
	for i, r := range rows {
		var b, t interface{}
		if r.B != nil {
			b = *r.B
		}
		if r.T != nil {
			t = *r.T
		}
		if _, err := H.SQL.Exec("INSERT INTO rwc(id,loc,a,b,s,t,mark,uid) VALUES (?,?,?,?,?,?,0,?)", r.ID, locs[i%2], r.A, b, r.S, t, i+1); err != nil {
			panic(err)
		}
	}
}

// runComposite: the primary key of the model value is a unit also when it has several parts
// (all non-zero parts count, whichever of them gorm prioritizes).
func runComposite(c *core.Ctx, st pred.Style, base []pred.Row) {
	r := c.R
	if len(base) < 2 {
		return
	}
	rows := append([]pred.Row(nil), base...)
	for i := range rows {
		rows[i].ID = int64(i/2 + 1)
	}
	loadC(rows)
	for k := 0; k < 2; k++ {
		cc := genChain(r, st, len(rows))
		fin := core.Pick(r, []string{"UpdateCPK", "UpdatesCPK", "DeleteCPK", "FirstCPK", "FindCPK"})
		pick := r.Intn(len(rows))
		key := CRow{ID: rows[pick].ID, Loc: locs[pick%2]}
		// keys with a zero part are not generated: gorm reads Model(&T{ID: 1}) as "id = 1" in an update and
		// Delete(&T{ID: 1}) as the key (1, ''), and the statement fixes neither reading
		partial := false
		if r.Chance(1, 6) {
			key.Loc = "fr" // a key that names no row although its prioritized part does
		}
		desc := fmt.Sprintf("%s on model %+v after %s", fin, struct {
			ID  int64
			Loc string
		}{key.ID, key.Loc}, strings.SplitN(cc.desc(), "."+finNames[cc.fin], 2)[0])
		c.Logf("CCHAIN %s", desc)
		// the key parts are further AND units at the end of the chain: under SQL precedence they
		// belong to the last OR group (exactly as the single-column key of the other finishers)
		exp := pred.Infix(cc.steps)
		lastOr := 0
		for i, s := range cc.steps {
			if s.Op == "or" {
				lastOr = i
			}
		}
		var before *pred.Node
		if lastOr > 0 {
			before = pred.Infix(cc.steps[:lastOr])
		}
		tail := append([]pred.GroupStep(nil), cc.steps[lastOr:]...)
		if tail[0].Op == "or" {
			tail[0].Op = "where"
		}
		last := pred.Infix(tail)
		var want []int64
		for i := range rows {
			keyOK := rows[i].ID == key.ID && (key.Loc == "" || key.Loc == locs[i%2])
			if (before != nil && before.Eval(&rows[i]) == pred.T) || (last.Eval(&rows[i]) == pred.T && keyOK) {
				want = append(want, int64(i+1))
			}
		}
		root := H.DB.Session(&gorm.Session{})
		var got []int64
		var err error
		var problems []string
		mutated := false
		switch fin {
		case "UpdateCPK", "UpdatesCPK":
			m := key
			var res *gorm.DB
			if fin == "UpdateCPK" {
				res = build(cc, root.Model(&m)).Update("mark", markVal)
			} else {
				res = build(cc, root.Model(&m)).Updates(map[string]interface{}{"mark": markVal})
			}
			mutated, err = true, res.Error
			got = vdb.Ints(H.SQL, "SELECT uid FROM rwc WHERE mark = ? ORDER BY uid", markVal)
			if err == nil && res.RowsAffected != int64(len(got)) {
				problems = append(problems, fmt.Sprintf("RowsAffected=%d but %d rows changed", res.RowsAffected, len(got)))
			}
		case "DeleteCPK":
			m := key
			res := build(cc, root).Delete(&m)
			mutated, err = true, res.Error
			left := map[int64]bool{}
			for _, id := range vdb.Ints(H.SQL, "SELECT uid FROM rwc") {
				left[id] = true
			}
			for i := range rows {
				if !left[int64(i+1)] {
					got = append(got, int64(i+1))
				}
			}
		case "FirstCPK":
			out := key
			res := build(cc, root).First(&out)
			if errors.Is(res.Error, gorm.ErrRecordNotFound) {
				got = nil
			} else if err = res.Error; err == nil {
				got = []int64{out.UID}
			}
		case "FindCPK":
			var out []CRow
			m := key
			res := build(cc, root.Model(&m)).Find(&out)
			err = res.Error
			// Model(value) with a key: the documented reading is that the model's key narrows updates and
			// deletes; for Find into another destination gorm adds no key condition - observe only, and
			// compare with the chain alone
			want = nil
			for i := range rows {
				if exp.Eval(&rows[i]) == pred.T {
					want = append(want, int64(i+1))
				}
			}
			for _, o := range out {
				got = append(got, o.UID)
			}
			pred.SortIDs(got)
		}
		c.Inc("composite_chains")
		c.Inc("fin_" + fin)
		if strings.HasPrefix(cc.finName(), "FindInBatches") {
			c.Inc("fin_Find_spelt_FindInBatches")
			if len(want) > cc.batchSize() {
				c.Inc("fin_Find_spelt_FindInBatches_several_batches")
			}
		}
		if err != nil {
			problems = append(problems, "error: "+err.Error())
		} else if fin == "FirstCPK" {
			// the lowest key among the matches; rows sharing the prioritized key part are not ordered
			if len(want) == 0 && len(got) != 0 {
				problems = append(problems, fmt.Sprintf("First returned uid %v, reference selects nothing", got))
			} else if len(want) > 0 {
				ok := false
				for _, w := range want {
					if len(got) == 1 && got[0] == w && rows[w-1].ID == rows[want[0]-1].ID {
						ok = true
					}
				}
				if !ok {
					problems = append(problems, fmt.Sprintf("First returned uid %v, reference selects %v (lowest key part id %d)", got, want, rows[want[0]-1].ID))
				}
			}
		} else if !pred.IDsEqual(got, want) {
			problems = append(problems, fmt.Sprintf("observed uids %v, reference uids %v", got, want))
		}
		if mutated {
			loadC(rows)
		}
		if len(problems) > 0 {
			tab := []string{}
			for i, rw := range rows {
				tab = append(tab, fmt.Sprintf("uid %d loc %s %s", i+1, locs[i%2], rw.String()))
			}
			c.Violation("composite/"+fin, map[string]interface{}{"chain": desc, "expected_predicate": exp.String(), "problems": problems, "table": tab})
			continue
		}
		if len(want) > 0 {
			c.Shape("composite", fin, partial, cc.shape())
			c.Inc("nontrivial_composite")
		}
	}
}

func load(rows []pred.Row) {
	if _, err := H.SQL.Exec("DELETE FROM rws"); err != nil {
		panic(err)
	}
	if q, args := pred.InsertSQL("rws", rows); q != "" {
		if _, err := H.SQL.Exec(q, args...); err != nil {
			panic(err)
		}
	}
}

var finNames = []string{"Find", "FindInline", "Count", "Update", "Delete", "FirstPK", "UpdatePK", "DeletePK", "Pluck", "FirstInline", "DeleteInline"}

// spellings of one finisher that share its meaning (cc.variant picks one)
var findVariants = []string{"Find", "Model.Scan", "Model.Rows", "FindInBatches"}

// batch size of the FindInBatches spelling: 1..3, so that most chains are read in several batches
func (cc chainCase) batchSize() int { return 1 + (cc.variant/len(findVariants))%3 }
var updateVariants = []string{"Update", "Updates(map)", "UpdateColumn", "UpdateColumns(map)"}

type chainCase struct {
	steps  []pred.GroupStep
	fin    int
	inline *pred.Unit
	pk     int64
	// variant: which spelling of the finisher is called
	variant int
}

func (cc chainCase) finName() string {
	switch finNames[cc.fin] {
	case "Find":
		if v := findVariants[cc.variant%len(findVariants)]; v == "FindInBatches" {
			return fmt.Sprintf("FindInBatches(%d)", cc.batchSize())
		} else {
			return v
		}
	case "Update", "UpdatePK":
		return finNames[cc.fin] + ":" + updateVariants[cc.variant%len(updateVariants)]
	}
	return finNames[cc.fin]
}

// emptyUnit: a condition value that adds no condition (empty map, zero struct). Only generated as a Where / inline
// unit behind a unit that does add one: alone it would leave an Or call first in its group.
func emptyUnit(r *core.Rand) *pred.Unit {
	var v interface{}
	desc := ""
	switch r.Intn(4) {
	case 0:
		v, desc = map[string]interface{}{}, "map[]"
	case 1:
		v, desc = pred.Row{}, "Row{}"
	case 2:
		v, desc = &pred.Row{}, "&Row{}"
	default:
		v, desc = map[string]string{}, "map[string]string{}"
	}
	return &pred.Unit{Form: "empty", Desc: desc, Canon: true, Pos: &pred.Node{Kind: pred.True},
		Query: func(*gorm.DB) (interface{}, []interface{}) { return v, nil }}
}

// genSteps: n condition calls; the first is never Or unless the steps continue a chain (cont)
func genSteps(r *core.Rand, st pred.Style, n int, cont bool) []pred.GroupStep {
	var steps []pred.GroupStep
	for i := 0; i < n; i++ {
		ops := []string{"where", "where", "not", "or"}
		if i == 0 && !cont {
			ops = []string{"where", "where", "not"}
		}
		op := core.Pick(r, ops)
		if op == "where" && (i > 0 || cont) && r.Chance(1, 12) {
			steps = append(steps, pred.GroupStep{Op: op, U: emptyUnit(r)})
			continue
		}
		var u *pred.Unit
		for try := 0; ; try++ {
			u = randUnit(r, st)
			if op != "not" || u.Neg != nil {
				break
			}
			if try > 8 {
				op = "where"
				break
			}
		}
		if op == "where" && (u.Form == "exprs" || u.Form == "clause") && r.Bool() {
			// plain expressions handed to Clauses are a unit like those handed to Where
			u = viaClauses(u)
		}
		steps = append(steps, pred.GroupStep{Op: op, U: u})
	}
	return steps
}

func genChain(r *core.Rand, st pred.Style, nrows int) chainCase {
	var cc chainCase
	cc.steps = genSteps(r, st, r.Range(1, 4), false)
	cc.fin = r.Intn(len(finNames))
	cc.variant = r.Intn(12)
	if strings.HasSuffix(finNames[cc.fin], "Inline") {
		cc.inline = randUnit(r, st)
		if r.Chance(1, 12) {
			cc.inline = emptyUnit(r)
		}
	}
	if strings.HasSuffix(finNames[cc.fin], "PK") {
		cc.pk = int64(r.Range(1, nrows+1))
	}
	return cc
}

func (cc chainCase) desc() string {
	parts := []string{}
	for _, s := range cc.steps {
		parts = append(parts, fmt.Sprintf("%s(%s)", opName(s), s.U.Desc))
	}
	d := "db." + strings.Join(parts, ".") + "." + finNames[cc.fin]
	if v := cc.finName(); v != finNames[cc.fin] {
		d += "{" + v + "}"
	}
	if cc.inline != nil {
		d += "[inline " + cc.inline.Desc + "]"
	}
	if cc.pk != 0 {
		d += fmt.Sprintf("[pk %d]", cc.pk)
	}
	return d
}

func (cc chainCase) shape() string {
	parts := []string{}
	for _, s := range cc.steps {
		canon := "c"
		if !s.U.Canon {
			canon = "h"
		}
		parts = append(parts, s.Op+":"+s.U.Form+canon+fmt.Sprint(treeShape(s.U.Pos)))
	}
	if cc.inline != nil {
		parts = append(parts, "inline:"+cc.inline.Form)
	}
	return strings.Join(parts, ",") + ">" + cc.finName()
}

func treeShape(n *pred.Node) string {
	switch n.Kind {
	case pred.Atom:
		return "a"
	case pred.Not:
		return "!" + treeShape(n.Kids[0])
	case pred.True:
		return "T"
	}
	s := "&("
	if n.Kind == pred.Or {
		s = "|("
	}
	for _, k := range n.Kids {
		s += treeShape(k)
	}
	return s + ")"
}

func (cc chainCase) expected() *pred.Node {
	steps := append([]pred.GroupStep(nil), cc.steps...)
	if cc.inline != nil {
		steps = append(steps, pred.GroupStep{Op: "where", U: cc.inline})
	}
	if cc.pk != 0 {
		steps = append(steps, pred.GroupStep{Op: "where", U: &pred.Unit{Pos: &pred.Node{Kind: pred.Atom, Col: "id", Cmp: "=", Val: cc.pk}}})
	}
	return pred.Infix(steps)
}

func build(cc chainCase, start *gorm.DB) *gorm.DB {
	db := start
	for _, s := range cc.steps {
		db = applyStep(db, s)
	}
	return db
}

const markVal = 7

// observe executes the chain and returns the observed ids (ascending) and extra problems.
func observe(cc chainCase, table []pred.Row) (ids []int64, problems []string, mutated bool, sqlText string, err error) {
	root := H.DB.Session(&gorm.Session{})
	mark := H.Rec.Mark()
	defer func() {
		for _, e := range H.Rec.Since(mark) {
			if e.IsStatement() {
				sqlText = e.Query
				break
			}
		}
	}()
	switch finNames[cc.fin] {
	case "Find", "FindInline":
		var out []pred.Row
		db := build(cc, root)
		var res *gorm.DB
		switch {
		case cc.inline != nil:
			q, args := cc.inline.Query(H.DB)
			res = db.Find(&out, append([]interface{}{q}, args...)...)
		case strings.HasPrefix(cc.finName(), "FindInBatches"):
			got, ps, err := batchRead(db, false, len(table), cc.batchSize())
			return pred.SortIDs(got), ps, false, "", err
		case cc.finName() == "Model.Scan":
			res = build(cc, root.Model(&pred.Row{})).Scan(&out)
		case cc.finName() == "Model.Rows":
			rows, err := build(cc, root.Model(&pred.Row{})).Select("id").Rows()
			if err != nil {
				return nil, nil, false, "", err
			}
			for n := 0; rows.Next() && n < 1000; n++ {
				var id int64
				if err := rows.Scan(&id); err != nil {
					rows.Close()
					return nil, nil, false, "", err
				}
				ids = append(ids, id)
			}
			if err := rows.Close(); err != nil {
				return nil, nil, false, "", err
			}
			return pred.SortIDs(ids), nil, false, "", nil
		default:
			res = db.Find(&out)
		}
		if res.Error != nil {
			return nil, nil, false, "", res.Error
		}
		for _, r := range out {
			ids = append(ids, r.ID)
		}
		if res.RowsAffected != int64(len(out)) {
			problems = append(problems, fmt.Sprintf("RowsAffected=%d but %d rows returned", res.RowsAffected, len(out)))
		}
	case "Pluck":
		res := build(cc, root.Model(&pred.Row{})).Pluck("id", &ids)
		if res.Error != nil {
			return nil, nil, false, "", res.Error
		}
	case "Count":
		var n int64
		res := build(cc, root.Model(&pred.Row{})).Count(&n)
		if res.Error != nil {
			return nil, nil, false, "", res.Error
		}
		// Count reports a number; ids are taken from a Find of the same chain only to
		// name the rows in a witness: the verdict uses n
		return []int64{n}, nil, false, "", nil
	case "Update", "UpdatePK":
		m := &pred.Row{ID: cc.pk}
		var res *gorm.DB
		switch updateVariants[cc.variant%len(updateVariants)] {
		case "Updates(map)":
			res = build(cc, root.Model(m)).Updates(map[string]interface{}{"mark": markVal})
		case "UpdateColumn":
			res = build(cc, root.Model(m)).UpdateColumn("mark", markVal)
		case "UpdateColumns(map)":
			res = build(cc, root.Model(m)).UpdateColumns(map[string]interface{}{"mark": markVal})
		default:
			res = build(cc, root.Model(m)).Update("mark", markVal)
		}
		mutated = true
		if res.Error != nil {
			return nil, nil, true, "", res.Error
		}
		ids = vdb.Ints(H.SQL, "SELECT id FROM rws WHERE mark = ? ORDER BY id", markVal)
		if res.RowsAffected != int64(len(ids)) {
			problems = append(problems, fmt.Sprintf("RowsAffected=%d but %d rows changed", res.RowsAffected, len(ids)))
		}
		if n := vdb.Ints(H.SQL, "SELECT count(*) FROM rws"); n[0] != int64(len(table)) {
			problems = append(problems, "row count changed by Update")
		}
	case "Delete", "DeletePK", "DeleteInline":
		var res *gorm.DB
		if cc.inline != nil {
			q, args := cc.inline.Query(H.DB)
			res = build(cc, root).Delete(&pred.Row{}, append([]interface{}{q}, args...)...)
		} else {
			res = build(cc, root).Delete(&pred.Row{ID: cc.pk})
		}
		mutated = true
		if res.Error != nil {
			return nil, nil, true, "", res.Error
		}
		left := map[int64]bool{}
		for _, id := range vdb.Ints(H.SQL, "SELECT id FROM rws") {
			left[id] = true
		}
		for _, r := range table {
			if !left[r.ID] {
				ids = append(ids, r.ID)
			}
		}
		if res.RowsAffected != int64(len(ids)) {
			problems = append(problems, fmt.Sprintf("RowsAffected=%d but %d rows removed", res.RowsAffected, len(ids)))
		}
	case "FirstPK", "FirstInline":
		out := pred.Row{ID: cc.pk}
		var res *gorm.DB
		if cc.inline != nil {
			q, args := cc.inline.Query(H.DB)
			res = build(cc, root).First(&out, append([]interface{}{q}, args...)...)
		} else {
			res = build(cc, root).First(&out)
		}
		if errors.Is(res.Error, gorm.ErrRecordNotFound) {
			return nil, nil, false, "", nil
		}
		if res.Error != nil {
			return nil, nil, false, "", res.Error
		}
		ids = []int64{out.ID}
	}
	return pred.SortIDs(ids), problems, mutated, "", nil
}

func run(c *core.Ctx) {
	r := c.R
	maxRows := 12
	table := pred.RandTable(r, maxRows)
	if len(table) > 0 && r.Chance(1, 4) {
		// a row whose primary key is the zero value of its type (ids stay ascending)
		table[0].ID = 0
		c.Inc("tables_with_zero_key_row")
	}
	load(table)
	st := pred.Style{}
	switch c.Case % 4 {
	case 1:
		st = pred.Style{Case: true}
	case 2:
		st = pred.Style{Case: true, Parens: true}
	case 3:
		st = pred.Style{Case: true, Parens: true, Whitespace: true}
	}
	nchains := 7
	for k := 0; k < nchains; k++ {
		cc := genChain(r, st, len(table))
		if len(table) > 0 && table[0].ID == 0 && strings.HasPrefix(cc.finName(), "FindInBatches") {
			cc.variant = 0 // FindInBatches refuses a batch that ends in a zero key (ErrPrimaryKeyRequired): plain Find
		}
		desc := cc.desc()
		c.Logf("CHAIN %s", desc)
		exp := cc.expected()
		want := exp.Select(table)
		got, problems, mutated, sqlText, err := observe(cc, table)
		fin := finNames[cc.fin]
		c.Inc("chains")
		c.Inc("fin_" + fin)
		switch fin {
		case "Count":
			if err == nil && got[0] != int64(len(want)) {
				problems = append(problems, fmt.Sprintf("Count=%d, reference selects %d rows %v", got[0], len(want), want))
			}
		case "FirstPK", "FirstInline":
			if err == nil {
				if len(want) == 0 && len(got) != 0 {
					problems = append(problems, fmt.Sprintf("First returned id %v, reference selects nothing", got))
				} else if len(want) > 0 && (len(got) != 1 || got[0] != want[0]) {
					problems = append(problems, fmt.Sprintf("First returned %v, reference's lowest id is %d (of %v)", got, want[0], want))
				}
			}
		default:
			if err == nil && !pred.IDsEqual(got, want) {
				problems = append(problems, fmt.Sprintf("observed ids %v, reference ids %v", got, want))
			}
		}
		if err != nil {
			problems = append(problems, "error: "+err.Error())
		}
		if mutated {
			load(table)
		}
		if len(problems) > 0 {
			rows := []string{}
			for _, rw := range table {
				rows = append(rows, rw.String())
			}
			forms := []string{}
			for _, s := range cc.steps {
				forms = append(forms, s.Op+":"+s.U.Form)
			}
			sigFin := fin
			if strings.HasPrefix(cc.finName(), "FindInBatches") {
				sigFin = "FindInBatches"
			}
			c.Violation(sigFin+"/"+strings.Join(forms, ","), map[string]interface{}{
				"chain": desc, "expected_predicate": exp.String(), "problems": problems, "table": rows, "sql": sqlText})
			continue
		}
		if len(want) > 0 && len(want) < len(table) {
			c.Shape(cc.shape())
			c.Inc("nontrivial_chains")
		}
		hostile := false
		for _, s := range cc.steps {
			if !s.U.Canon {
				hostile = true
			}
			c.Inc("unit_" + s.Op + "_" + s.U.Form)
		}
		if hostile {
			c.Inc("chains_with_hostile_rendering")
		}
		if c.WantSample() && len(want) > 0 && len(want) < len(table) && k == 3 {
			c.Sample(map[string]interface{}{"chain": desc, "predicate": exp.String(), "rows": len(table), "ids": want, "sql": sqlText})
		}
	}
	runComposite(c, st, table)
	runSoft(c, st, table)
	runScopes(c, st, table)
	runInlineKeys(c, table)
	runKeys(c, st, table)
	runScopeTrees(c, st, table)
}

var Engine = &core.Engine{
	ID:    "C02",
	Level: "exploration",
	Rule: "seeded random tables (0..12 rows, NULLs, duplicates; in 1 of 4 the first row has the key 0) x chains of 1..4 Where/Not/Or calls (first call never Or) whose units are random condition trees (depth<=3) rendered as raw '?' string, @named string, map, struct, clause.Expression tree (Eq/Neq/Lt/Lte/Gt/Gte/Like/IN/And/Or/Not), grouped sub-builder or several of those handed to one call, with random keyword case / whitespace / redundant parentheses in 3 of 4 cases; " +
		"further unit forms (units.go): raw strings whose AND / OR stand directly next to a placeholder, a string literal, a quoted identifier (\"b\", `b`, [b]), a block or line comment (a = ?OR\"b\" = ?, 'ab'OR, OR/**/b, OR--x<newline>b), values as placeholder or literal, '?' and @named; hand-built expressions (one or two values in a call): clause trees, clause.Expr, clause.NamedExpr (plain and tight text) alone or inside single-member clause.And / clause.Or wrappers (Or(e), Or(Or(e)), Or(And(e)), And(Or(e)), Not(Or(e)), Or(e, Or(f)), Or(Or(e), f)); grouped sub-builders whose own calls (Where/Not/Or/Clauses) carry these forms; a Where step whose values are all expressions is attached through db.Clauses(...) in half of the cases (same meaning as Where), also inside sub-builders and scope functions; " +
		"a Where or inline unit behind another unit may be an empty map or a zero struct (adds no condition) " +
		"x finishers Find (also spelt Model.Scan, Model.Rows, FindInBatches with batch size 1..3: every selected row delivered exactly once, RowsAffected = rows delivered, gorm's loop stopped by the callback after rows/size+3 batches), Find/First/Delete + inline condition, Pluck, Count, Update (also Updates(map), UpdateColumn, UpdateColumns(map)), Delete, First/Update/Delete with primary key in the model value, and Update/Updates/Delete/First with a (full or unmatched) two-part key in the model value on a composite-key twin table; " +
		"per table also: 3 chains on a soft-delete twin (expectation: chain AND not marked); key placements (1 chain on the plain and the composite-key table, 2 on the soft-delete table; plain and soft-delete table in 1 of 3 with a row whose key is 0): the key in the finisher's value, in Model() with a keyless finisher value, in both, as a slice of 1..3 records (key IN ...) any of which may carry no key (no record with a key = no key unit), for Delete / Update / Updates(map | struct | &struct) / Updates(&record with key) / First / Take / Last, present and absent keys, every value as pointer, pointer to pointer, plain value, slice of pointers (&[]*T, pointer to that, []*T) - the key is one more AND unit of the last OR group; " +
		"scope programs (3 per table): the chain's 2..5 condition calls spread over functions handed to Scopes, which hand further functions to Scopes (depth <= 3, empty and forwarding-only functions included), on the plain or soft-delete table, finishers Find / FindInBatches (batch size 1..3, so that scopes registered by scopes and their Or units meet the batch cursor of the second and later batches) / Pluck / Count then Pluck on one reusable handle / Update / Delete / First, Update, Delete with key / Model(key).Delete(keyless); one of the three is a grouped sub-builder carrying such scopes, db.Where(db.Scopes(...)), followed by 0..2 plain calls; scope siblings on a shared handle; numeric strings as key; " +
		"distinct = (op, form, tree shape, canonical-or-hostile rendering) per unit + finisher spelling (+ table, key placement and value forms, keyless records in the slice, zero-key row, scope depth); non-trivial = the reference selects neither no row nor every row",
	Assumptions: []string{
		"SQLite evaluates the emitted SQL correctly (it is the judge of what the SQL text means)",
		"lower-case ASCII strings only in condition values, so SQLite's case-insensitive LIKE agrees with the reference",
		"Not over an AND-combined unit whose members are all raw strings / non-negatable groups is not generated: the statement's 'every member false' and the pinned test-suite expectation NOT (a AND b) disagree there (DESIGN section 4)",
		"Not over a grouped sub-builder mixing Where and Or is not generated (the statement defines negation for OR units and AND-combined units only)",
		"composite keys in the model value always have all parts non-zero (gorm reads a partly zero key differently in Update and Delete, the statement fixes neither); several condition values in one call are never given to Not",
		"an empty map / zero struct is generated only as a Where or inline unit that follows a unit which adds a condition, never under Not or Or and never first in the chain (alone it would leave an Or call first in its group, which the quantifier excludes)",
		"scope programs: gorm runs scope functions after the chain's own calls and functions registered by a function after all functions of the same round; an Or call is generated only when that order is the order in which the program reads (depth first), otherwise every call of the program is Where or Not, whose order is immaterial; a sub-builder with scopes is used under Where only, and is not followed by Or when its own calls and directly registered scopes add no condition",
		"Model(value with key) followed by a read into another destination is not judged (gorm adds no key condition there; observed only on the composite table); a record carrying a key is never given to Updates together with a different key in Model(), and never to Updates as a plain value (both would assign the key column)",
		"a single-member clause.Or(x) is gorm's own notation for 'joined with OR': it is generated as the only value of a call (meaning x), inside other single-member wrappers and as a member of a clause.Or list, never as a member of a clause.And list or next to another value of the same call (gorm reads And(a, Or(x)) as a OR x; the statement does not fix that reading); a wrapper over an AND tree is not given to Not",
		"tight raw strings use only spellings that SQLite accepts: no gap only where the neighbour of AND / OR is not a word character; an @name is always followed by whitespace; no '?' or '@' inside literals and comments",
		"a plain (non-pointer) value is not given to a read finisher, nor to Delete on the soft-delete table (gorm refuses it: ErrInvalidValue); slices of pointers hold no nil element (gorm panics on it in Update)",
		"Delete: a model value given to Model() as a plain value (record or slice) is never combined with a finisher value that is a plain value too (Model(Row{ID: 3}).Delete(Row{})): gorm's Statement.Model defaults to the finisher value, and a by-value model of the same type cannot be told from that default without a new flag, so its key is not added; plain finisher values with pointer models and plain models with pointer finisher values are generated",
		"a row with key 0 exists only on the single-column-key tables; a record naming it is a record without key",
		"FindInBatches is not called on a table that holds a row with key 0 (gorm ends the loop with ErrPrimaryKeyRequired when a batch ends in a zero key; the statement does not fix that), plain Find is called instead; within a batch and between batches only membership and multiplicity of the delivered rows are judged, not their order",
	},
	Cases: func(tier string) int {
		if tier == "thorough" {
			return 480000
		}
		return 40000
	},
	Batch:         func(tier string) int { return 128 },
	Run:           run,
	Init:          initEnv,
	MinNontrivial: 200,
}

package c02

import (
	"errors"
	"fmt"
	"reflect"
	"strings"

	"gorm.io/gorm"

	"verif/core"
	"verif/pred"
	"verif/vdb"
)

// Key placements. "The primary key of the model value" reaches a finisher in several ways: in the value handed to
// the finisher, in the value handed to Model() while the finisher gets a keyless value, in both, as one record or
// as a slice of records (key IN ...). runKeys runs every placement gorm documents, after a random chain, on the plain
// table (rws), the soft-delete twin (rwsd) and the composite-key twin (rwc). In every placement the key is one more
// AND unit at the end of the chain, i.e. it belongs to the last OR group; on the soft-delete twin the result is
// further restricted to the rows that are not marked.

// keyTable adapts the three model types. Row index i (0-based) is identified by uid i+1 in all of them.
type keyTable struct {
	name   string
	soft   bool
	uidCol string
	// one: pointer to a record carrying the key of row k (k < 0: no key; k >= n: a key that names no row)
	one func(rows []pred.Row, k int) interface{}
	// many: pointer to a slice of records carrying the keys
	many func(rows []pred.Row, ks []int) interface{}
	// marked: a record with Mark = markVal (and the key of row k unless k < 0), as value or pointer
	marked   func(rows []pred.Row, k int, ptr bool) interface{}
	uidField string
	lit      func(rows []pred.Row, k int) string
}

// Forms of a model / finisher value: "&" pointer to the record (or slice), "&&" pointer to such a pointer,
// "val" the record (or slice) itself, "&[]*" / "&&[]*" / "[]*" a slice of pointers to records.
func ptrTo(v interface{}) interface{} {
	p := reflect.New(reflect.TypeOf(v))
	p.Elem().Set(reflect.ValueOf(v))
	return p.Interface()
}

func valueOf(v interface{}) interface{} { return reflect.ValueOf(v).Elem().Interface() }

// ptrSlice: *[]T -> *[]*T
func ptrSlice(v interface{}) interface{} {
	sv := reflect.ValueOf(v).Elem()
	out := reflect.MakeSlice(reflect.SliceOf(reflect.PtrTo(sv.Type().Elem())), sv.Len(), sv.Len())
	for i := 0; i < sv.Len(); i++ {
		e := reflect.New(sv.Type().Elem())
		e.Elem().Set(sv.Index(i))
		out.Index(i).Set(e)
	}
	p := reflect.New(out.Type())
	p.Elem().Set(out)
	return p.Interface()
}

func shaped(v interface{}, form string) interface{} {
	switch form {
	case "&&":
		return ptrTo(v)
	case "val":
		return valueOf(v)
	case "&[]*":
		return ptrSlice(v)
	case "&&[]*":
		return ptrTo(ptrSlice(v))
	case "[]*":
		return valueOf(ptrSlice(v))
	}
	return v
}

// shapedLit: how the value reads in a program (&(&X) stands for p := &X; &p)
func shapedLit(lit, form string) string {
	switch form {
	case "&&":
		return "&(&" + lit + ")"
	case "val":
		return lit
	case "&[]*":
		return "&[]*" + lit
	case "&&[]*":
		return "&(&[]*" + lit + ")"
	case "[]*":
		return "[]*" + lit
	}
	return "&" + lit
}

func recField(v interface{}, name string) int64 {
	rv := reflect.ValueOf(v)
	for rv.Kind() == reflect.Ptr {
		rv = rv.Elem()
	}
	return rv.FieldByName(name).Int()
}

func rowID(rows []pred.Row, k int) int64 {
	if k < 0 {
		return 0
	}
	if k >= len(rows) {
		return int64(len(rows) + 5)
	}
	return rows[k].ID
}

func cKey(rows []pred.Row, k int) (int64, string) {
	if k < 0 {
		return 0, ""
	}
	if k >= len(rows) {
		// the prioritized part names rows, the whole key names none
		return rows[k%len(rows)].ID, "fr"
	}
	return rows[k].ID, locs[k%2]
}

var keyTables = []keyTable{
	{
		name: "rws", uidCol: "id",
		one: func(rows []pred.Row, k int) interface{} { return &pred.Row{ID: rowID(rows, k)} },
		many: func(rows []pred.Row, ks []int) interface{} {
			out := make([]pred.Row, len(ks))
			for i, k := range ks {
				out[i].ID = rowID(rows, k)
			}
			return &out
		},
		marked: func(rows []pred.Row, k int, ptr bool) interface{} {
			v := pred.Row{ID: rowID(rows, k), Mark: markVal}
			if ptr {
				return &v
			}
			return v
		},
		uidField: "ID",
		lit:      func(rows []pred.Row, k int) string { return fmt.Sprintf("Row{ID: %d}", rowID(rows, k)) },
	},
	{
		name: "rwsd", soft: true, uidCol: "id",
		one: func(rows []pred.Row, k int) interface{} { return &SRow{ID: rowID(rows, k)} },
		many: func(rows []pred.Row, ks []int) interface{} {
			out := make([]SRow, len(ks))
			for i, k := range ks {
				out[i].ID = rowID(rows, k)
			}
			return &out
		},
		marked: func(rows []pred.Row, k int, ptr bool) interface{} {
			v := SRow{ID: rowID(rows, k), Mark: markVal}
			if ptr {
				return &v
			}
			return v
		},
		uidField: "ID",
		lit:      func(rows []pred.Row, k int) string { return fmt.Sprintf("SRow{ID: %d}", rowID(rows, k)) },
	},
	{
		name: "rwc", uidCol: "uid",
		one: func(rows []pred.Row, k int) interface{} {
			id, loc := cKey(rows, k)
			return &CRow{ID: id, Loc: loc}
		},
		many: func(rows []pred.Row, ks []int) interface{} {
			out := make([]CRow, len(ks))
			for i, k := range ks {
				out[i].ID, out[i].Loc = cKey(rows, k)
			}
			return &out
		},
		marked: func(rows []pred.Row, k int, ptr bool) interface{} {
			id, loc := cKey(rows, k)
			v := CRow{ID: id, Loc: loc, Mark: markVal}
			if ptr {
				return &v
			}
			return v
		},
		uidField: "UID",
		lit: func(rows []pred.Row, k int) string {
			id, loc := cKey(rows, k)
			return fmt.Sprintf("CRow{ID: %d, Loc: %q}", id, loc)
		},
	},
}

var keyFinishers = []string{
	"Delete(key)", "Model(key).Delete(keyless)", "Model(key).Delete(key2)", "Delete(slice)", "Model(slice).Delete(keyless)",
	"Model(key).Update(col)", "Model(key).Updates(map)", "Model(key).Updates(struct)", "Model(key).Updates(&struct)", "Updates(&struct with key)", "Model(slice).Update(col)",
	"First(key)", "Take(key)", "Last(key)",
}

func finFamily(fin string) string {
	switch {
	case strings.Contains(fin, "Delete"):
		return "Delete"
	case strings.Contains(fin, "Update"):
		return "Update"
	}
	return fin[:strings.Index(fin, "(")]
}

func runKeys(c *core.Ctx, st pred.Style, base []pred.Row) {
	r := c.R
	if len(base) < 2 {
		return
	}
	for ti := range keyTables {
		kt := &keyTables[ti]
		rows := append([]pred.Row(nil), base...)
		deleted := map[int64]bool{}
		var reload func()
		switch kt.name {
		case "rws", "rwsd":
			// a row whose key is the zero value: a record without key must never name it
			if rows[0].ID != 0 && r.Chance(1, 3) {
				rows[0].ID = 0
			}
		}
		switch kt.name {
		case "rws":
			reload = func() { load(rows) }
		case "rwsd":
			for _, row := range rows {
				if r.Intn(3) == 0 {
					deleted[row.ID] = true
				}
			}
			reload = func() { loadS(rows, deleted) }
		case "rwc":
			for i := range rows {
				rows[i].ID = int64(i/2 + 1)
			}
			reload = func() { loadC(rows) }
		}
		reload()
		n := len(rows)
		uid := func(i int) int64 {
			if kt.name == "rwc" {
				return int64(i + 1)
			}
			return rows[i].ID
		}
		idxOf := map[int64]int{}
		for i := range rows {
			idxOf[uid(i)] = i
		}
		live := func(i int) bool { return !kt.soft || !deleted[rows[i].ID] }
		reps := 1
		if kt.soft {
			reps = 2
		}
		for rep := 0; rep < reps; rep++ {
			cc := genChain(r, st, n)
			fin := core.Pick(r, keyFinishers)
			fam := finFamily(fin)
			isRead := fam == "First" || fam == "Take" || fam == "Last"
			// mostly a key that names a row, sometimes one that names none
			pickKey := func() int {
				if r.Chance(1, 8) {
					return n + r.Intn(n)
				}
				return r.Intn(n)
			}
			k := pickKey()
			k2 := k
			var ks []int
			// unitOf: the key unit of a value holding the records ks: the rows its keys name; has is false when no
			// record carries a key (a record whose key is the zero value carries none, wherever it stands)
			unitOf := func(ks []int) (set []int, has bool) {
				set = []int{}
				for _, x := range ks {
					if x < 0 {
						continue
					}
					if x >= n {
						has = true
						continue
					}
					if kt.name != "rwc" && rows[x].ID == 0 {
						continue
					}
					has = true
					set = append(set, x)
				}
				return set, has
			}
			var keyUnits [][]int // every unit is the set of row indexes its key(s) name
			var modelUnits int   // how many of them (the first ones) come from the value given to Model()
			addUnit := func(ks []int) {
				if set, has := unitOf(ks); has {
					keyUnits = append(keyUnits, set)
				}
			}
			litKeys := func(ks []int, ptrs bool) string {
				parts := make([]string, len(ks))
				for i, k := range ks {
					parts[i] = kt.lit(rows, k)
					if ptrs {
						parts[i] = "&" + parts[i]
					}
				}
				return "{" + strings.Join(parts, ", ") + "}"
			}
			// forms of the values
			mForm := core.Pick(r, []string{"&", "&", "&", "&&", "&&", "val"})
			fForm := core.Pick(r, []string{"&", "&", "&", "&&", "&&", "val"})
			sForm := core.Pick(r, []string{"&", "&", "&&", "val", "&[]*", "&&[]*", "[]*"})
			if isRead && fForm == "val" {
				fForm = "&&"
			}
			if fam == "Delete" && kt.soft {
				// a soft delete of a value that is no pointer is refused (ErrInvalidValue): not generated
				if fForm == "val" {
					fForm = "&"
				}
				if sForm == "val" || sForm == "[]*" {
					if fin == "Delete(slice)" {
						sForm = "&" + strings.TrimPrefix(sForm, "val")
					}
				}
			}
			if fin == "Updates(&struct with key)" && fForm == "val" {
				// Updates(record) assigns the key column as well when the record is no pointer
				fForm = "&&"
			}
			byValueFinisher := false
			switch fin {
			case "Model(key).Delete(keyless)", "Model(key).Delete(key2)", "Model(slice).Delete(keyless)":
				// a finisher value that is no pointer, next to a model value (a class of its own, see the signature);
				// the model value is then a pointer: a plain model value next to a plain finisher value is not generated
				if fForm == "val" {
					byValueFinisher = true
					if mForm == "val" {
						mForm = "&"
					}
					switch sForm {
					case "val":
						sForm = "&"
					case "[]*":
						sForm = "&[]*"
					}
				}
			}
			sliceLit := func() string {
				ptrs := strings.Contains(sForm, "[]*")
				l := litKeys(ks, ptrs)
				if ptrs {
					return shapedLit(l, sForm)
				}
				return shapedLit("[]"+l, sForm)
			}
			chainText := strings.SplitN(cc.desc(), "."+finNames[cc.fin], 2)[0]
			chainText = strings.TrimPrefix(chainText, "db.")
			var call string
			switch fin {
			case "Model(key).Delete(key2)":
				if r.Bool() {
					k2 = pickKey()
				}
				addUnit([]int{k})
				modelUnits = len(keyUnits)
				addUnit([]int{k2})
				call = fmt.Sprintf("db.Model(%s).%s.Delete(%s)", shapedLit(kt.lit(rows, k), mForm), chainText, shapedLit(kt.lit(rows, k2), fForm))
			case "Delete(slice)", "Model(slice).Delete(keyless)", "Model(slice).Update(col)":
				m := r.Range(1, 3)
				for i := 0; i < m; i++ {
					if r.Chance(1, 4) {
						ks = append(ks, -1) // a record without key among the others
					} else {
						ks = append(ks, pickKey())
					}
				}
				addUnit(ks)
				switch fin {
				case "Delete(slice)":
					call = fmt.Sprintf("db.%s.Delete(%s)", chainText, sliceLit())
				case "Model(slice).Delete(keyless)":
					modelUnits = len(keyUnits)
					call = fmt.Sprintf("db.Model(%s).%s.Delete(%s)", sliceLit(), chainText, shapedLit(kt.lit(rows, -1), fForm))
				default:
					call = fmt.Sprintf("db.Model(%s).%s.Update(\"mark\", %d)", sliceLit(), chainText, markVal)
				}
			default:
				addUnit([]int{k})
				model := shapedLit(kt.lit(rows, k), mForm)
				switch fin {
				case "Delete(key)":
					call = fmt.Sprintf("db.%s.Delete(%s)", chainText, shapedLit(kt.lit(rows, k), fForm))
				case "Model(key).Delete(keyless)":
					modelUnits = len(keyUnits)
					call = fmt.Sprintf("db.Model(%s).%s.Delete(%s)", model, chainText, shapedLit(kt.lit(rows, -1), fForm))
				case "Model(key).Update(col)":
					call = fmt.Sprintf("db.Model(%s).%s.Update(\"mark\", %d)", model, chainText, markVal)
				case "Model(key).Updates(map)":
					call = fmt.Sprintf("db.Model(%s).%s.Updates(map[string]interface{}{\"mark\": %d})", model, chainText, markVal)
				case "Model(key).Updates(struct)":
					call = fmt.Sprintf("db.Model(%s).%s.Updates(%s with Mark: %d)", model, chainText, kt.lit(rows, -1), markVal)
				case "Model(key).Updates(&struct)":
					if fForm == "val" {
						fForm = "&"
					}
					call = fmt.Sprintf("db.Model(%s).%s.Updates(%s with Mark: %d)", model, chainText, shapedLit(kt.lit(rows, -1), fForm), markVal)
				case "Updates(&struct with key)":
					call = fmt.Sprintf("db.%s.Updates(%s with Mark: %d)", chainText, shapedLit(kt.lit(rows, k), fForm), markVal)
				default:
					call = fmt.Sprintf("db.%s.%s(%s)", chainText, fam, shapedLit(kt.lit(rows, k), fForm))
				}
			}
			c.Logf("KCHAIN %s on %s", call, kt.name)

			// reference: (OR groups before the last Or) OR (last group AND every key unit), among the live rows
			lastOr := 0
			for i, s := range cc.steps {
				if s.Op == "or" {
					lastOr = i
				}
			}
			var before *pred.Node
			if lastOr > 0 {
				before = pred.Infix(cc.steps[:lastOr])
			}
			tail := append([]pred.GroupStep(nil), cc.steps[lastOr:]...)
			if tail[0].Op == "or" {
				tail[0].Op = "where"
			}
			last := pred.Infix(tail)
			whole := pred.Infix(cc.steps)
			keyOK := func(i int, units [][]int) bool {
				for _, set := range units {
					in := false
					for _, x := range set {
						if x == i {
							in = true
						}
					}
					if !in {
						return false
					}
				}
				return true
			}
			var want, alt, noModel []int64
			for i := range rows {
				if !live(i) {
					continue
				}
				inBefore := before != nil && before.Eval(&rows[i]) == pred.T
				inLast := last.Eval(&rows[i]) == pred.T
				if inBefore || (inLast && keyOK(i, keyUnits)) {
					want = append(want, uid(i))
				}
				// the other reading (the key restricts the whole chain), only to name a known class precisely
				if whole.Eval(&rows[i]) == pred.T && keyOK(i, keyUnits) {
					alt = append(alt, uid(i))
				}
				// the rows of the chain without the key of the value given to Model(), only to name a class precisely
				if inBefore || (inLast && keyOK(i, keyUnits[modelUnits:])) {
					noModel = append(noModel, uid(i))
				}
			}
			pred.SortIDs(want)
			pred.SortIDs(alt)
			pred.SortIDs(noModel)

			root := H.DB.Session(&gorm.Session{})
			var got []int64
			var err error
			var problems []string
			mutated := false
			mark := H.Rec.Mark()
			changed := func(res *gorm.DB) {
				mutated, err = true, res.Error
				got = vdb.Ints(H.SQL, "SELECT "+kt.uidCol+" FROM "+kt.name+" WHERE mark = ? ORDER BY 1", markVal)
				if err == nil && res.RowsAffected != int64(len(got)) {
					problems = append(problems, fmt.Sprintf("RowsAffected=%d but %d rows changed", res.RowsAffected, len(got)))
				}
				if cnt := vdb.Ints(H.SQL, "SELECT count(*) FROM "+kt.name); cnt[0] != int64(n) {
					problems = append(problems, "row count changed by an update")
				}
			}
			removed := func(res *gorm.DB) {
				mutated, err = true, res.Error
				if kt.soft {
					got = vdb.Ints(H.SQL, "SELECT id FROM rwsd WHERE deleted_at IS NOT NULL AND deleted_at <> '2020-01-02 03:04:05' ORDER BY id")
					if cnt := vdb.Ints(H.SQL, "SELECT count(*) FROM rwsd"); cnt[0] != int64(n) {
						problems = append(problems, "a soft delete removed rows physically")
					}
				} else {
					left := map[int64]bool{}
					for _, id := range vdb.Ints(H.SQL, "SELECT "+kt.uidCol+" FROM "+kt.name) {
						left[id] = true
					}
					for i := range rows {
						if !left[uid(i)] {
							got = append(got, uid(i))
						}
					}
				}
				if err == nil && res.RowsAffected != int64(len(got)) {
					problems = append(problems, fmt.Sprintf("RowsAffected=%d but %d rows removed", res.RowsAffected, len(got)))
				}
			}
			read := func(res *gorm.DB, out interface{}) {
				if errors.Is(res.Error, gorm.ErrRecordNotFound) {
					return
				}
				if err = res.Error; err == nil {
					got = []int64{recField(out, kt.uidField)}
				}
			}
			mv := func(k int) interface{} { return shaped(kt.one(rows, k), mForm) }
			fv := func(k int) interface{} { return shaped(kt.one(rows, k), fForm) }
			sv := func() interface{} { return shaped(kt.many(rows, ks), sForm) }
			switch fin {
			case "Delete(key)":
				removed(build(cc, root).Delete(fv(k)))
			case "Model(key).Delete(keyless)":
				removed(build(cc, root.Model(mv(k))).Delete(fv(-1)))
			case "Model(key).Delete(key2)":
				removed(build(cc, root.Model(mv(k))).Delete(fv(k2)))
			case "Delete(slice)":
				removed(build(cc, root).Delete(sv()))
			case "Model(slice).Delete(keyless)":
				removed(build(cc, root.Model(sv())).Delete(fv(-1)))
			case "Model(key).Update(col)":
				changed(build(cc, root.Model(mv(k))).Update("mark", markVal))
			case "Model(key).Updates(map)":
				changed(build(cc, root.Model(mv(k))).Updates(map[string]interface{}{"mark": markVal}))
			case "Model(key).Updates(struct)":
				changed(build(cc, root.Model(mv(k))).Updates(kt.marked(rows, -1, false)))
			case "Model(key).Updates(&struct)":
				changed(build(cc, root.Model(mv(k))).Updates(shaped(kt.marked(rows, -1, true), fForm)))
			case "Updates(&struct with key)":
				changed(build(cc, root).Updates(shaped(kt.marked(rows, k, true), fForm)))
			case "Model(slice).Update(col)":
				changed(build(cc, root.Model(sv())).Update("mark", markVal))
			case "First(key)":
				out := fv(k)
				read(build(cc, root).First(out), out)
			case "Take(key)":
				out := fv(k)
				read(build(cc, root).Take(out), out)
			case "Last(key)":
				out := fv(k)
				read(build(cc, root).Last(out), out)
			}
			sqlText := ""
			for _, e := range H.Rec.Since(mark) {
				if e.IsStatement() {
					sqlText = e.Query
					break
				}
			}
			c.Inc("key_chains")
			c.Inc("key_" + kt.name + "_" + fam)
			readOK := func(ref []int64) bool {
				if len(ref) == 0 {
					return len(got) == 0
				}
				if len(got) != 1 {
					return false
				}
				in := false
				lo, hi := rows[idxOf[ref[0]]].ID, rows[idxOf[ref[0]]].ID
				for _, w := range ref {
					in = in || w == got[0]
					if id := rows[idxOf[w]].ID; id < lo {
						lo = id
					} else if id > hi {
						hi = id
					}
				}
				gi, known := idxOf[got[0]]
				if !known {
					return false
				}
				switch fam {
				case "First":
					return in && rows[gi].ID == lo
				case "Last":
					return in && rows[gi].ID == hi
				}
				return in
			}
			agrees := func(ref []int64) bool {
				if isRead {
					return readOK(ref)
				}
				return pred.IDsEqual(pred.SortIDs(got), ref)
			}
			sig := "key/" + kt.name + "/" + fin
			if err != nil {
				problems = append(problems, "error: "+err.Error())
			} else if !agrees(want) {
				problems = append(problems, fmt.Sprintf("observed uids %v, reference uids %v", got, want))
				if kt.soft && len(problems) == 1 && agrees(alt) {
					// the soft-delete filter is added before the key, and closes the chain's OR groups in parentheses
					sig = "soft-model-key-binds-whole-chain/" + fam
					problems = append(problems, fmt.Sprintf("the observed rows are those of (whole chain) AND key: %v", alt))
				} else if byValueFinisher && modelUnits > 0 && len(problems) == 1 && agrees(noModel) {
					sig = "key/model-key-dropped-by-value-finisher/" + fam
					problems = append(problems, fmt.Sprintf("the observed rows are those of the chain without the key of the value given to Model(): %v", noModel))
				}
			}
			if mutated {
				reload()
			}
			if len(problems) > 0 {
				tab := []string{}
				for i, rw := range rows {
					line := fmt.Sprintf("uid %d %s", uid(i), rw.String())
					if kt.name == "rwc" {
						line = fmt.Sprintf("uid %d loc %s %s", i+1, locs[i%2], rw.String())
					}
					if kt.soft && deleted[rw.ID] {
						line += " (marked deleted)"
					}
					tab = append(tab, line)
				}
				exp := "(" + last.String() + ") AND key"
				if before != nil {
					exp = before.String() + " OR " + exp
				}
				if kt.soft {
					exp = "(" + exp + ") AND deleted_at IS NULL"
				}
				c.Violation(sig, map[string]interface{}{"chain": call, "table_name": kt.name, "expected_predicate": exp, "problems": problems, "table": tab, "sql": sqlText})
				continue
			}
			if len(want) > 0 {
				forms := mForm + "/" + fForm
				if ks != nil {
					forms = sForm + "/" + fForm
					keyless := 0
					for _, x := range ks {
						if x < 0 {
							keyless++
						}
					}
					forms += fmt.Sprintf("/%dof%d", keyless, len(ks))
				}
				c.Shape("key", kt.name, fin, forms, k >= n, rows[0].ID == 0, cc.shape())
				c.Inc("nontrivial_key_chains")
				if rows[0].ID == 0 {
					c.Inc("nontrivial_key_chains_zero_key_row")
				}
			}
		}
	}
}

package c02

import (
	"fmt"
	"strings"

	"gorm.io/gorm"

	"verif/core"
	"verif/pred"
	"verif/vdb"
)

// SRow is the soft-delete twin of pred.Row: the same columns plus deleted_at. The filter gorm adds for it is one
// more AND unit over the WHOLE chain (that is what "invisible" means), wherever the Or units of the chain stand.
type SRow struct {
	ID        int64 `gorm:"primaryKey"`
	A         int64
	B         *int64
	S         string
	T         *string
	Mark      int64
	DeletedAt gorm.DeletedAt
}

func (SRow) TableName() string { return "rwsd" }

func loadS(rows []pred.Row, deleted map[int64]bool) {
	if _, err := H.SQL.Exec("DELETE FROM rwsd"); err != nil {
		panic(err)
	}
	if q, args := pred.InsertSQL("rwsd", rows); q != "" {
		if _, err := H.SQL.Exec(q, args...); err != nil {
			panic(err)
		}
	}
	for id := range deleted {
		if _, err := H.SQL.Exec("UPDATE rwsd SET deleted_at = '2020-01-02 03:04:05' WHERE id = ?", id); err != nil {
			panic(err)
		}
	}
}

// runSoft: the chain's logical combination selects among the rows that are not marked; marked rows are never
// read, counted, updated or marked again, whichever branch of an Or they satisfy.
func runSoft(c *core.Ctx, st pred.Style, table []pred.Row) {
	r := c.R
	if len(table) < 2 {
		return
	}
	deleted := map[int64]bool{}
	for _, row := range table {
		if r.Intn(2) == 0 {
			deleted[row.ID] = true
		}
	}
	loadS(table, deleted)
	for k := 0; k < 3; k++ {
		cc := genChain(r, st, len(table))
		fin := core.Pick(r, []string{"Find", "Count", "Update", "Delete", "Pluck"})
		desc := fmt.Sprintf("soft-delete model, %s after %s", fin, strings.SplitN(cc.desc(), "."+finNames[cc.fin], 2)[0])
		c.Logf("SCHAIN %s", desc)
		exp := pred.Infix(cc.steps)
		var want []int64
		for i := range table {
			if exp.Eval(&table[i]) == pred.T && !deleted[table[i].ID] {
				want = append(want, table[i].ID)
			}
		}
		root := H.DB.Session(&gorm.Session{})
		var got []int64
		var err error
		var problems []string
		mutated := false
		mark := H.Rec.Mark()
		switch fin {
		case "Find":
			var out []SRow
			err = build(cc, root).Find(&out).Error
			for _, o := range out {
				got = append(got, o.ID)
			}
		case "Pluck":
			err = build(cc, root.Model(&SRow{})).Pluck("id", &got).Error
		case "Count":
			var n int64
			err = build(cc, root.Model(&SRow{})).Count(&n).Error
			if err == nil && n != int64(len(want)) {
				problems = append(problems, fmt.Sprintf("Count=%d, reference selects %d visible rows %v", n, len(want), want))
			}
			got = want
		case "Update":
			res := build(cc, root.Model(&SRow{})).Update("mark", markVal)
			err, mutated = res.Error, true
			got = vdb.Ints(H.SQL, "SELECT id FROM rwsd WHERE mark = ? ORDER BY id", markVal)
		case "Delete":
			res := build(cc, root).Delete(&SRow{})
			err, mutated = res.Error, true
			for _, id := range vdb.Ints(H.SQL, "SELECT id FROM rwsd WHERE deleted_at IS NOT NULL AND deleted_at <> '2020-01-02 03:04:05' ORDER BY id") {
				got = append(got, id)
			}
			if n := vdb.Ints(H.SQL, "SELECT count(*) FROM rwsd"); n[0] != int64(len(table)) {
				problems = append(problems, "a soft delete removed rows physically")
			}
		}
		sqlText := ""
		for _, e := range H.Rec.Since(mark) {
			if e.IsStatement() {
				sqlText = e.Query
				break
			}
		}
		c.Inc("soft_delete_chains")
		if err != nil {
			// a chain without effective condition is refused for Update / Delete (C09): not this property's business
			if (fin == "Update" || fin == "Delete") && err == gorm.ErrMissingWhereClause {
				continue
			}
			problems = append(problems, "error: "+err.Error())
		} else if !pred.IDsEqual(pred.SortIDs(got), want) {
			problems = append(problems, fmt.Sprintf("observed ids %v, reference ids %v (marked rows: %v)", pred.SortIDs(got), want, keys(deleted)))
		}
		if mutated {
			loadS(table, deleted)
		}
		if len(problems) > 0 {
			forms := []string{}
			for _, s := range cc.steps {
				forms = append(forms, s.Op+":"+s.U.Form)
			}
			rows := []string{}
			for _, rw := range table {
				rows = append(rows, rw.String())
			}
			c.Violation("soft/"+fin+"/"+strings.Join(forms, ","), map[string]interface{}{
				"chain": desc, "expected_predicate": "(" + exp.String() + ") AND deleted_at IS NULL", "problems": problems, "table": rows, "sql": sqlText})
			continue
		}
		if len(want) > 0 {
			c.Shape("soft", fin, cc.shape())
		}
	}
}

func keys(m map[int64]bool) []int64 {
	var out []int64
	for k := range m {
		out = append(out, k)
	}
	return pred.SortIDs(out)
}

// runScopes: conditions attached through Scopes. A reusable handle carries 1..4 scopes added by separate calls; two
// chains are derived from it, each adding one scope of its own; the one derived first is executed last. Each selects
// exactly the rows of the handle's scopes AND its own.
func runScopes(c *core.Ctx, st pred.Style, table []pred.Row) {
	r := c.R
	if len(table) < 2 {
		return
	}
	load(table)
	scope := func(u *pred.Unit) func(*gorm.DB) *gorm.DB {
		return func(d *gorm.DB) *gorm.DB {
			q, args := u.Query(H.DB)
			return d.Where(q, args...)
		}
	}
	nb := r.Range(1, 4)
	var base []*pred.Unit
	db := H.DB.Session(&gorm.Session{}).Model(&pred.Row{})
	var descs []string
	for i := 0; i < nb; i++ {
		u := randUnit(r, st)
		base = append(base, u)
		db = db.Scopes(scope(u))
		descs = append(descs, "Scopes(Where "+u.Desc+")")
	}
	h := db.Session(&gorm.Session{})
	ua, ub := randUnit(r, st), randUnit(r, st)
	qa := h.Scopes(scope(ua))
	qb := h.Scopes(scope(ub))
	want := func(own *pred.Unit) []int64 {
		var out []int64
		for i := range table {
			ok := own.Pos.Eval(&table[i]) == pred.T
			for _, u := range base {
				ok = ok && u.Pos.Eval(&table[i]) == pred.T
			}
			if ok {
				out = append(out, table[i].ID)
			}
		}
		return out
	}
	var problems []string
	var gb, ga []int64
	if err := qb.Order("id").Pluck("id", &gb).Error; err != nil {
		problems = append(problems, "second-derived chain: "+err.Error())
	} else if w := want(ub); !pred.IDsEqual(gb, w) {
		problems = append(problems, fmt.Sprintf("the chain derived second (own scope: %s) selected %v, reference %v", ub.Desc, gb, w))
	}
	var n int64
	if err := qa.Count(&n).Error; err != nil {
		problems = append(problems, "first-derived chain: "+err.Error())
	} else if w := want(ua); n != int64(len(w)) {
		h.Scopes(scope(ua)).Order("id").Pluck("id", &ga)
		problems = append(problems, fmt.Sprintf("the chain derived first and executed last (own scope: %s) counted %d rows, reference %v (its sibling's scope: %s)", ua.Desc, n, w, ub.Desc))
	}
	c.Inc("scope_sibling_pairs")
	if len(problems) > 0 {
		rows := []string{}
		for _, rw := range table {
			rows = append(rows, rw.String())
		}
		c.Violation("scopes/siblings", map[string]interface{}{"chain": "h := db.Model(&Row{})." + strings.Join(descs, ".") + ".Session(&Session{}); qa := h.Scopes(A); qb := h.Scopes(B); qb.Pluck; qa.Count", "problems": problems, "table": rows})
		return
	}
	c.Shape("scopes", nb, len(want(ua)) > 0, len(want(ub)) > 0)
}

// runInlineKeys: a string that spells a number is the primary key, as an inline condition and as a Where argument;
// also when the number does not fit an int (it then names no row; it never becomes raw SQL)
func runInlineKeys(c *core.Ctx, table []pred.Row) {
	r := c.R
	if len(table) < 2 {
		return
	}
	load(table)
	keys := []string{fmt.Sprint(table[r.Intn(len(table))].ID), "99999999999999999999", "-99999999999999999999", "0", "18446744073709551616"}
	key := core.Pick(r, keys)
	var want []int64
	for _, row := range table {
		if fmt.Sprint(row.ID) == key {
			want = append(want, row.ID)
		}
	}
	root := H.DB.Session(&gorm.Session{})
	var problems []string
	form := r.Intn(4)
	desc := ""
	var got []int64
	var err error
	switch form {
	case 0:
		var out []pred.Row
		desc = fmt.Sprintf("db.Find(&rows, %q)", key)
		err = root.Find(&out, key).Error
		for _, o := range out {
			got = append(got, o.ID)
		}
	case 1:
		desc = fmt.Sprintf("db.Model(&Row{}).Where(%q).Pluck(id)", key)
		err = root.Model(&pred.Row{}).Where(key).Pluck("id", &got).Error
	case 2:
		desc = fmt.Sprintf("db.Delete(&Row{}, %q)", key)
		err = root.Delete(&pred.Row{}, key).Error
		left := map[int64]bool{}
		for _, id := range vdb.Ints(H.SQL, "SELECT id FROM rws") {
			left[id] = true
		}
		for _, row := range table {
			if !left[row.ID] {
				got = append(got, row.ID)
			}
		}
	default:
		desc = fmt.Sprintf("db.Model(&Row{}).Where(%q).Update(mark)", key)
		err = root.Model(&pred.Row{}).Where(key).Update("mark", markVal).Error
		got = vdb.Ints(H.SQL, "SELECT id FROM rws WHERE mark = ? ORDER BY id", markVal)
	}
	c.Inc("inline_key_strings")
	if err != nil {
		problems = append(problems, "error: "+err.Error())
	} else if !pred.IDsEqual(pred.SortIDs(got), want) {
		problems = append(problems, fmt.Sprintf("selected ids %v, the key %s names %v", pred.SortIDs(got), key, want))
	}
	if len(problems) > 0 {
		c.Violation("inline-key-string", map[string]interface{}{"chain": desc, "problems": problems})
	}
}

package c02

import (
	"errors"
	"fmt"
	"strings"

	"gorm.io/gorm"

	"verif/core"
	"verif/pred"
	"verif/vdb"
)

// Scope programs. A condition call may stand in the chain itself or inside a function handed to Scopes, and a scope
// function may itself hand further functions to Scopes (scopes composed of scopes), to any depth. sprog is such a
// program: a sequence of condition calls and Scopes(f1, f2, ...) calls, every f being a program of its own.
type sprog struct{ items []sitem }

type sitem struct {
	step *pred.GroupStep
	subs []*sprog
}

func (p *sprog) apply(d *gorm.DB) *gorm.DB {
	for _, it := range p.items {
		if it.step != nil {
			d = applyStep(d, *it.step)
			continue
		}
		fs := make([]func(*gorm.DB) *gorm.DB, len(it.subs))
		for i, sub := range it.subs {
			sub := sub
			fs[i] = func(d *gorm.DB) *gorm.DB { return sub.apply(d) }
		}
		d = d.Scopes(fs...)
	}
	return d
}

func (p *sprog) text() string {
	var parts []string
	for _, it := range p.items {
		if it.step != nil {
			parts = append(parts, fmt.Sprintf("%s(%s)", opName(*it.step), it.step.U.Desc))
			continue
		}
		fs := make([]string, len(it.subs))
		for i, sub := range it.subs {
			fs[i] = "func(d){ return d." + sub.text() + " }"
			if len(sub.items) == 0 {
				fs[i] = "func(d){ return d }"
			}
		}
		parts = append(parts, "Scopes("+strings.Join(fs, ", ")+")")
	}
	return strings.Join(parts, ".")
}

// textual order of the condition calls (depth first, as one reads the program)
func (p *sprog) textOrder(out []*pred.GroupStep) []*pred.GroupStep {
	for _, it := range p.items {
		if it.step != nil {
			out = append(out, it.step)
			continue
		}
		for _, sub := range it.subs {
			out = sub.textOrder(out)
		}
	}
	return out
}

// rounds: the condition calls in the order gorm makes them: the chain's own calls (round 0), then the registered
// scope functions, then the functions those registered, and so on.
func (p *sprog) rounds() [][]*pred.GroupStep {
	var out [][]*pred.GroupStep
	pending := []*sprog{p}
	for len(pending) > 0 {
		cur := pending
		pending = nil
		var round []*pred.GroupStep
		for _, q := range cur {
			for _, it := range q.items {
				if it.step != nil {
					round = append(round, it.step)
				} else {
					pending = append(pending, it.subs...)
				}
			}
		}
		out = append(out, round)
	}
	return out
}

// depth: 0 = no Scopes call, 1 = scopes, 2 = scopes registered by scopes, ...
func (p *sprog) depth() int {
	d := 0
	for _, it := range p.items {
		for _, sub := range it.subs {
			if x := sub.depth() + 1; x > d {
				d = x
			}
		}
	}
	return d
}

func genProg(r *core.Rand, steps []pred.GroupStep, depth int) *sprog {
	p := &sprog{}
	i := 0
	for i < len(steps) {
		if depth < 3 && r.Chance(2, 5) {
			nf := r.Range(1, 2)
			var subs []*sprog
			for f := 0; f < nf && i < len(steps); f++ {
				take := 1
				for i+take < len(steps) && r.Chance(1, 2) {
					take++
				}
				subs = append(subs, genProg(r, steps[i:i+take], depth+1))
				i += take
			}
			if r.Chance(1, 10) {
				subs = append(subs, &sprog{}) // a scope that adds nothing
			}
			p.items = append(p.items, sitem{subs: subs})
			continue
		}
		p.items = append(p.items, sitem{step: &steps[i]})
		i++
	}
	return p
}

// genScopeProg returns a program with at least one scope registered by another scope in most cases, and the
// steps in the order gorm makes the calls. An Or call is kept only when that order is the order in which the
// program reads; otherwise all calls are AND units and their order is immaterial.
func genScopeProg(r *core.Rand, st pred.Style, n int) (*sprog, []pred.GroupStep) {
	steps := genSteps(r, st, n, false)
	var p *sprog
	for try := 0; try < 6; try++ {
		p = genProg(r, steps, 0)
		if p.depth() >= 2 || (try >= 3 && p.depth() >= 1) {
			break
		}
	}
	if p.depth() == 0 {
		p = &sprog{items: []sitem{{subs: []*sprog{{items: []sitem{{subs: []*sprog{p}}}}}}}}
	}
	var exec []*pred.GroupStep
	for _, round := range p.rounds() {
		exec = append(exec, round...)
	}
	txt := p.textOrder(nil)
	same := len(exec) == len(txt)
	for i := range exec {
		same = same && exec[i] == txt[i]
	}
	if !same {
		for i := range steps {
			if steps[i].Op == "or" {
				steps[i].Op = "where"
			}
		}
	}
	out := make([]pred.GroupStep, len(exec))
	for i, s := range exec {
		out[i] = *s
	}
	return p, out
}

// scopedGroup: the unit db.Where(db.Scopes(...)): a grouped sub-builder whose conditions come from a scope program.
// alt is the meaning the unit would have if only the scopes registered directly on the sub-builder were run.
func scopedGroup(r *core.Rand, st pred.Style) (u *pred.Unit, alt *pred.Node, depth int) {
	p, exec := genScopeProg(r, st, r.Range(1, 3))
	pos := pred.Infix(exec)
	var first []pred.GroupStep
	for i, round := range p.rounds() {
		if i > 1 {
			break
		}
		for _, s := range round {
			first = append(first, *s)
		}
	}
	alt = &pred.Node{Kind: pred.True}
	adds := false
	for _, s := range first {
		adds = adds || s.U.Pos.Kind != pred.True
	}
	if adds {
		if first[0].Op == "or" {
			first[0].Op = "where"
		}
		alt = pred.Infix(first)
	}
	canon := true
	for _, s := range exec {
		canon = canon && s.U.Canon
	}
	u = &pred.Unit{Form: "scopedgroup", Desc: "group[" + p.text() + "]", Pos: pos, Canon: canon,
		Query: func(root *gorm.DB) (interface{}, []interface{}) {
			return p.apply(root.Session(&gorm.Session{})), nil
		}}
	return u, alt, p.depth()
}

var errBatchBound = errors.New("harness: batch bound reached")

// batchRead reads a chain through FindInBatches(batchSize) and returns the ids in the order the callback saw them.
// The statement demands that the chain reads exactly its rows: every selected row is delivered, each once. The loop
// gorm runs is bounded logically: over nrows rows no correct run needs more than nrows/batchSize+1 batches.
func batchRead(d *gorm.DB, soft bool, nrows, batchSize int) (ids []int64, problems []string, err error) {
	bound := nrows/batchSize + 3
	var rowsS []SRow
	var rowsP []pred.Row
	var dest interface{} = &rowsP
	if soft {
		dest = &rowsS
	}
	batches := 0
	res := d.FindInBatches(dest, batchSize, func(tx *gorm.DB, n int) error {
		batches++
		cnt := 0
		if soft {
			for _, o := range rowsS {
				ids = append(ids, o.ID)
			}
			cnt = len(rowsS)
		} else {
			for _, o := range rowsP {
				ids = append(ids, o.ID)
			}
			cnt = len(rowsP)
		}
		if cnt > batchSize {
			problems = append(problems, fmt.Sprintf("batch %d holds %d rows, batch size is %d", n, cnt, batchSize))
		}
		if batches >= bound {
			return errBatchBound
		}
		return nil
	})
	if errors.Is(res.Error, errBatchBound) {
		problems = append(problems, fmt.Sprintf("FindInBatches(size %d) over a table of %d rows was stopped after %d batches; rows delivered so far: %v", batchSize, nrows, batches, ids))
		return ids, problems, nil
	}
	if res.Error != nil {
		return ids, problems, res.Error
	}
	seen := map[int64]bool{}
	for _, id := range ids {
		if seen[id] {
			problems = append(problems, fmt.Sprintf("row %d delivered more than once; delivery order %v", id, ids))
			break
		}
		seen[id] = true
	}
	if res.RowsAffected != int64(len(ids)) {
		problems = append(problems, fmt.Sprintf("RowsAffected=%d but %d rows delivered", res.RowsAffected, len(ids)))
	}
	return ids, problems, nil
}

var scopeFinishers = []string{"Find", "FindInBatches", "Pluck", "Count+Pluck on one handle", "Update", "Delete", "FirstPK", "UpdatePK", "DeletePK", "ModelPK.Delete"}

// runScopeTrees: a chain whose condition calls are spread over nested scope functions selects exactly the rows of
// all its units; so does a chain with a grouped sub-builder that carries scopes.
func runScopeTrees(c *core.Ctx, st pred.Style, table []pred.Row) {
	r := c.R
	if len(table) < 2 {
		return
	}
	deleted := map[int64]bool{}
	for _, row := range table {
		if r.Intn(3) == 0 {
			deleted[row.ID] = true
		}
	}
	load(table)
	loadS(table, deleted)
	for rep := 0; rep < 3; rep++ {
		soft := r.Chance(1, 3)
		var p *sprog
		var exec []pred.GroupStep
		var altExec []pred.GroupStep // non-nil when the chain holds a scoped group with scopes registered by scopes
		kind := "tree"
		groupDepth := 0
		if rep == 2 {
			// Where(db.Scopes(...)) followed by 0..2 plain calls
			kind = "group"
			u, alt, d := scopedGroup(r, st)
			groupDepth = d
			// (a sub-builder whose own calls and directly registered scopes add no condition is not followed by Or,
			// so that a known class of the unchanged tree can be named exactly; see the signature below)
			exec = append([]pred.GroupStep{{Op: "where", U: u}}, genSteps(r, st, r.Intn(3), alt.Kind != pred.True)...)
			p = &sprog{}
			for i := range exec {
				p.items = append(p.items, sitem{step: &exec[i]})
			}
			if d >= 2 {
				altExec = append([]pred.GroupStep(nil), exec...)
				altExec[0] = pred.GroupStep{Op: "where", U: &pred.Unit{Pos: alt}}
				if alt.Kind == pred.True && len(altExec) > 1 {
					// a sub-builder without conditions is no unit at all: the next call opens the chain
					altExec = altExec[1:]
					if altExec[0].Op == "or" {
						altExec[0].Op = "where"
					}
				}
			}
		} else {
			p, exec = genScopeProg(r, st, r.Range(2, 5))
		}
		fin := core.Pick(r, scopeFinishers)
		if soft && strings.Contains(fin, "PK") {
			fin = "Pluck" // keys on the soft-delete twin are runKeys' business
		}
		batchSize := 0
		if fin == "FindInBatches" {
			if table[0].ID == 0 {
				fin = "Find" // FindInBatches refuses a batch that ends in a zero key (ErrPrimaryKeyRequired)
			} else {
				batchSize = r.Range(1, 3)
			}
		}
		pk := int64(0)
		if strings.Contains(fin, "PK") {
			pk = int64(r.Range(1, len(table)))
		}
		tname, model := "rws", func(id int64) interface{} { return &pred.Row{ID: id} }
		if soft {
			tname, model = "rwsd", func(id int64) interface{} { return &SRow{ID: id} }
		}
		desc := fmt.Sprintf("%s on %s: db.%s", fin, tname, p.text())
		if batchSize != 0 {
			desc += fmt.Sprintf(" [batch size %d]", batchSize)
		}
		if pk != 0 {
			desc += fmt.Sprintf(" [key %d]", pk)
		}
		c.Logf("PCHAIN %s", desc)
		expect := func(steps []pred.GroupStep) (*pred.Node, []int64) {
			all := append([]pred.GroupStep(nil), steps...)
			if pk != 0 {
				all = append(all, pred.GroupStep{Op: "where", U: &pred.Unit{Pos: &pred.Node{Kind: pred.Atom, Col: "id", Cmp: "=", Val: pk}}})
			}
			e := pred.Infix(all)
			var ids []int64
			for i := range table {
				if e.Eval(&table[i]) == pred.T && !(soft && deleted[table[i].ID]) {
					ids = append(ids, table[i].ID)
				}
			}
			return e, ids
		}
		exp, want := expect(exec)

		root := H.DB.Session(&gorm.Session{})
		var got []int64
		var err error
		var problems []string
		mutated := false
		mark := H.Rec.Mark()
		switch fin {
		case "Find":
			var res *gorm.DB
			if soft {
				var out []SRow
				res = p.apply(root).Find(&out)
				for _, o := range out {
					got = append(got, o.ID)
				}
			} else {
				var out []pred.Row
				res = p.apply(root).Find(&out)
				for _, o := range out {
					got = append(got, o.ID)
				}
			}
			err = res.Error
		case "FindInBatches":
			var ps []string
			got, ps, err = batchRead(p.apply(root), soft, len(table), batchSize)
			problems = append(problems, ps...)
		case "Pluck":
			err = p.apply(root.Model(model(0))).Pluck("id", &got).Error
		case "Count+Pluck on one handle":
			// the handle is reusable: both finishers see every scope, nested ones included
			h := p.apply(root.Model(model(0))).Session(&gorm.Session{})
			var n int64
			if err = h.Count(&n).Error; err == nil {
				if n != int64(len(want)) {
					problems = append(problems, fmt.Sprintf("Count=%d, reference selects %d rows %v", n, len(want), want))
				}
				err = h.Pluck("id", &got).Error
			}
		case "Update", "UpdatePK":
			res := p.apply(root.Model(model(pk))).Update("mark", markVal)
			mutated, err = true, res.Error
			got = vdb.Ints(H.SQL, "SELECT id FROM "+tname+" WHERE mark = ? ORDER BY id", markVal)
			if err == nil && res.RowsAffected != int64(len(got)) {
				problems = append(problems, fmt.Sprintf("RowsAffected=%d but %d rows changed", res.RowsAffected, len(got)))
			}
		case "Delete", "DeletePK", "ModelPK.Delete":
			var res *gorm.DB
			if fin == "ModelPK.Delete" {
				res = p.apply(root.Model(model(pk))).Delete(model(0))
			} else {
				res = p.apply(root).Delete(model(pk))
			}
			mutated, err = true, res.Error
			if soft {
				got = vdb.Ints(H.SQL, "SELECT id FROM rwsd WHERE deleted_at IS NOT NULL AND deleted_at <> '2020-01-02 03:04:05' ORDER BY id")
			} else {
				left := map[int64]bool{}
				for _, id := range vdb.Ints(H.SQL, "SELECT id FROM rws") {
					left[id] = true
				}
				for _, row := range table {
					if !left[row.ID] {
						got = append(got, row.ID)
					}
				}
			}
			if err == nil && res.RowsAffected != int64(len(got)) {
				problems = append(problems, fmt.Sprintf("RowsAffected=%d but %d rows removed", res.RowsAffected, len(got)))
			}
		case "FirstPK":
			out := pred.Row{ID: pk}
			res := p.apply(root).First(&out)
			if !errors.Is(res.Error, gorm.ErrRecordNotFound) {
				if err = res.Error; err == nil {
					got = []int64{out.ID}
				}
			}
			if len(want) > 1 {
				want = want[:1]
			}
		}
		sqlText := ""
		for _, e := range H.Rec.Since(mark) {
			if e.IsStatement() {
				sqlText = e.Query
				break
			}
		}
		c.Inc("scope_programs")
		c.Inc("scope_programs_" + kind)
		sig := "scopes/" + kind + "/" + finFamily2(fin)
		if err != nil {
			problems = append(problems, "error: "+err.Error())
		} else if !pred.IDsEqual(pred.SortIDs(got), want) {
			problems = append(problems, fmt.Sprintf("observed ids %v, reference ids %v", pred.SortIDs(got), want))
		}
		if err != nil && altExec != nil && errors.Is(err, gorm.ErrMissingWhereClause) && len(altExec) == 1 && altExec[0].U.Pos.Kind == pred.True {
			// the same class, loud: the sub-builder lost all its conditions and was the chain's only unit
			sig = "scopes/group/scope-registered-by-scope-dropped"
		}
		if len(problems) > 0 && err == nil && altExec != nil {
			_, altWant := expect(altExec)
			if fin == "FirstPK" && len(altWant) > 1 {
				altWant = altWant[:1]
			}
			if pred.IDsEqual(pred.SortIDs(got), altWant) {
				sig = "scopes/group/scope-registered-by-scope-dropped"
				problems = append(problems, fmt.Sprintf("the observed rows are those of the chain without the conditions of the scopes that the sub-builder's scopes registered: %v", altWant))
			}
		}
		if mutated {
			if soft {
				loadS(table, deleted)
			} else {
				load(table)
			}
		}
		if len(problems) > 0 {
			rows := []string{}
			for _, rw := range table {
				line := rw.String()
				if soft && deleted[rw.ID] {
					line += " (marked deleted)"
				}
				rows = append(rows, line)
			}
			e := exp.String()
			if soft {
				e = "(" + e + ") AND deleted_at IS NULL"
			}
			c.Violation(sig, map[string]interface{}{"chain": desc, "expected_predicate": e, "problems": problems, "table": rows, "sql": sqlText})
			continue
		}
		if len(want) > 0 && len(want) < len(table) {
			d := p.depth()
			if kind == "group" {
				d = groupDepth
			}
			hasOr := false
			for _, s := range exec {
				hasOr = hasOr || s.Op == "or"
			}
			c.Shape("scopeprog", kind, soft, d, len(exec), hasOr, fin, len(want) > batchSize)
			c.Inc("nontrivial_scope_programs")
			if batchSize != 0 && len(want) > batchSize {
				c.Inc("nontrivial_scope_programs_in_several_batches")
				if d >= 2 && hasOr {
					c.Inc("nontrivial_scope_programs_in_several_batches_nested_or")
				}
			}
			if d >= 2 {
				c.Inc("nontrivial_scope_programs_nested")
			}
		}
	}
}

func finFamily2(fin string) string {
	switch {
	case strings.Contains(fin, "Delete"):
		return "Delete"
	case strings.Contains(fin, "Update"):
		return "Update"
	case strings.Contains(fin, "First"):
		return "First"
	case strings.Contains(fin, "Count"):
		return "Count+Pluck"
	}
	return fin
}

package c03

import (
	"bytes"
	"database/sql"
	"database/sql/driver"
	"encoding/gob"
	"encoding/hex"
	"encoding/json"
	"fmt"
	"math"
	"reflect"
	"sort"
	"strconv"
	"strings"
	"time"

	"gorm.io/gorm"

	"verif/core"
)

// ---- custom Scanner/Valuer types ---------------------------------------------------------

// Tagged: string-based, value-receiver Valuer, pointer-receiver Scanner. Stored as "t:"+s.
type Tagged string

func (t Tagged) Value() (driver.Value, error) { return "t:" + string(t), nil }
func (t *Tagged) Scan(v interface{}) error {
	s, ok, err := cellString(v)
	if err != nil {
		return fmt.Errorf("Tagged: %v", err)
	}
	if !ok {
		*t = ""
		return nil
	}
	if !strings.HasPrefix(s, "t:") {
		return fmt.Errorf("Tagged: stored value %q lacks the prefix", s)
	}
	*t = Tagged(s[2:])
	return nil
}

// PointV: struct-based, value-receiver Valuer, pointer-receiver Scanner, GormDataType "text". Stored as "x;y".
type PointV struct{ X, Y int64 }

func (PointV) GormDataType() string { return "text" }
func (p PointV) Value() (driver.Value, error) {
	return strconv.FormatInt(p.X, 10) + ";" + strconv.FormatInt(p.Y, 10), nil
}
func (p *PointV) Scan(v interface{}) error {
	s, ok, err := cellString(v)
	if err != nil {
		return fmt.Errorf("PointV: %v", err)
	}
	if !ok {
		*p = PointV{}
		return nil
	}
	q, err := parsePoint(s)
	if err != nil {
		return err
	}
	*p = q
	return nil
}

func parsePoint(s string) (PointV, error) {
	parts := strings.Split(s, ";")
	if len(parts) != 2 {
		return PointV{}, fmt.Errorf("PointV: bad stored value %q", s)
	}
	x, e1 := strconv.ParseInt(parts[0], 10, 64)
	y, e2 := strconv.ParseInt(parts[1], 10, 64)
	if e1 != nil || e2 != nil {
		return PointV{}, fmt.Errorf("PointV: bad stored value %q", s)
	}
	return PointV{x, y}, nil
}

// LabelP: struct-based, POINTER-receiver Valuer and Scanner (used as *LabelP). Stored as "n|s".
type LabelP struct {
	S string
	N int64
}

func (p *LabelP) Value() (driver.Value, error) {
	if p == nil {
		return nil, nil
	}
	return strconv.FormatInt(p.N, 10) + "|" + p.S, nil
}
func (p *LabelP) Scan(v interface{}) error {
	s, ok, err := cellString(v)
	if err != nil {
		return fmt.Errorf("LabelP: %v", err)
	}
	if !ok {
		*p = LabelP{}
		return nil
	}
	q, err := parseLabel(s)
	if err != nil {
		return err
	}
	*p = q
	return nil
}

func parseLabel(s string) (LabelP, error) {
	k := strings.IndexByte(s, '|')
	if k < 0 {
		return LabelP{}, fmt.Errorf("LabelP: bad stored value %q", s)
	}
	n, err := strconv.ParseInt(s[:k], 10, 64)
	if err != nil {
		return LabelP{}, fmt.Errorf("LabelP: bad stored value %q", s)
	}
	return LabelP{S: s[k+1:], N: n}, nil
}

// IntList: slice-based, value-receiver Valuer (carries a `type:text` tag in models). Stored as "[1,2]".
type IntList []int64

func (l IntList) Value() (driver.Value, error) {
	parts := make([]string, len(l))
	for i, x := range l {
		parts[i] = strconv.FormatInt(x, 10)
	}
	return "[" + strings.Join(parts, ",") + "]", nil
}
func (l *IntList) Scan(v interface{}) error {
	s, ok, err := cellString(v)
	if err != nil {
		return fmt.Errorf("IntList: %v", err)
	}
	if !ok {
		*l = nil
		return nil
	}
	q, err := parseIntList(s)
	if err != nil {
		return err
	}
	*l = q
	return nil
}

func parseIntList(s string) (IntList, error) {
	if len(s) < 2 || s[0] != '[' || s[len(s)-1] != ']' {
		return nil, fmt.Errorf("IntList: bad stored value %q", s)
	}
	s = s[1 : len(s)-1]
	out := IntList{}
	if s == "" {
		return out, nil
	}
	for _, p := range strings.Split(s, ",") {
		x, err := strconv.ParseInt(p, 10, 64)
		if err != nil {
			return nil, fmt.Errorf("IntList: bad stored value %q", s)
		}
		out = append(out, x)
	}
	return out, nil
}

// Props: map-based, value-receiver Valuer, GormDataType "text". Stored as JSON (sorted keys).
type Props map[string]string

func (Props) GormDataType() string { return "text" }
func (p Props) Value() (driver.Value, error) {
	if p == nil {
		return nil, nil
	}
	b, err := json.Marshal(map[string]string(p))
	return string(b), err
}
func (p *Props) Scan(v interface{}) error {
	s, ok, err := cellString(v)
	if err != nil {
		return fmt.Errorf("Props: %v", err)
	}
	if !ok {
		*p = nil
		return nil
	}
	m := map[string]string{}
	if err := json.Unmarshal([]byte(s), &m); err != nil {
		return fmt.Errorf("Props: bad stored value %q", s)
	}
	*p = m
	return nil
}

func cellString(v interface{}) (s string, ok bool, err error) {
	switch x := v.(type) {
	case nil:
		return "", false, nil
	case string:
		return x, true, nil
	case []byte:
		return string(x), true, nil
	}
	return "", false, fmt.Errorf("cannot scan %T", v)
}

// Named types WITHOUT Valuer / Scanner: gorm sees only their reflect.Kind (an enum-like string or
// integer, a named byte slice such as json.RawMessage or net.IP). They reach Statement.AddVar's and
// the field setters' reflection branches instead of the type-switch cases of the built-in types.
type (
	Blob   []byte
	Status string
	Level  int32
	Count  uint16
	Ratio  float64
)

// JS is the struct used under serializer:json and serializer:gob.
type JS struct {
	A int64
	B string
	C []float64
	D map[string]int64
}

// ---- kinds -------------------------------------------------------------------------------

// kind: one field kind of the grammar.
//
//	class: int uint float bool string bytes time | tagged pointv labelp intlist props | json gob unixtime
//	wrap : plain ptr null deleted
type kind struct {
	name  string
	typ   reflect.Type
	class string
	wrap  string
	tags  []string // tags the kind needs (serializer, type)
}

var (
	timeType    = reflect.TypeOf(time.Time{})
	bytesType   = reflect.TypeOf([]byte(nil))
	deletedType = reflect.TypeOf(gorm.DeletedAt{})
)

func tOf(v interface{}) reflect.Type   { return reflect.TypeOf(v) }
func ptrTo(v interface{}) reflect.Type { return reflect.PtrTo(reflect.TypeOf(v)) }

var scalarKinds = []kind{
	{"int", tOf(int(0)), "int", "plain", nil}, {"int8", tOf(int8(0)), "int", "plain", nil}, {"int16", tOf(int16(0)), "int", "plain", nil},
	{"int32", tOf(int32(0)), "int", "plain", nil}, {"int64", tOf(int64(0)), "int", "plain", nil},
	{"uint", tOf(uint(0)), "uint", "plain", nil}, {"uint8", tOf(uint8(0)), "uint", "plain", nil}, {"uint16", tOf(uint16(0)), "uint", "plain", nil},
	{"uint32", tOf(uint32(0)), "uint", "plain", nil}, {"uint64", tOf(uint64(0)), "uint", "plain", nil},
	{"float32", tOf(float32(0)), "float", "plain", nil}, {"float64", tOf(float64(0)), "float", "plain", nil},
	{"bool", tOf(false), "bool", "plain", nil}, {"string", tOf(""), "string", "plain", nil},
	{"[]byte", bytesType, "bytes", "plain", nil}, {"time.Time", timeType, "time", "plain", nil},
	// (appended: the positions above are referred to by index)
	{"Blob", tOf(Blob(nil)), "bytes", "plain", nil}, {"[]byte", bytesType, "bytes", "plain", nil},
	{"Status", tOf(Status("")), "string", "plain", nil}, {"Level", tOf(Level(0)), "int", "plain", nil}, {"Count", tOf(Count(0)), "uint", "plain", nil},
	{"Ratio", tOf(Ratio(0)), "float", "plain", nil},
}

var ptrKinds = []kind{
	{"*int", ptrTo(int(0)), "int", "ptr", nil}, {"*int8", ptrTo(int8(0)), "int", "ptr", nil}, {"*int16", ptrTo(int16(0)), "int", "ptr", nil},
	{"*int32", ptrTo(int32(0)), "int", "ptr", nil}, {"*int64", ptrTo(int64(0)), "int", "ptr", nil},
	{"*uint", ptrTo(uint(0)), "uint", "ptr", nil}, {"*uint8", ptrTo(uint8(0)), "uint", "ptr", nil}, {"*uint16", ptrTo(uint16(0)), "uint", "ptr", nil},
	{"*uint32", ptrTo(uint32(0)), "uint", "ptr", nil}, {"*uint64", ptrTo(uint64(0)), "uint", "ptr", nil},
	{"*float32", ptrTo(float32(0)), "float", "ptr", nil}, {"*float64", ptrTo(float64(0)), "float", "ptr", nil},
	{"*bool", ptrTo(false), "bool", "ptr", nil}, {"*string", ptrTo(""), "string", "ptr", nil},
	{"*time.Time", ptrTo(time.Time{}), "time", "ptr", nil},
	{"*[]byte", ptrTo([]byte(nil)), "bytes", "ptr", nil}, {"*Blob", ptrTo(Blob(nil)), "bytes", "ptr", nil},
	{"*Status", ptrTo(Status("")), "string", "ptr", nil}, {"*Level", ptrTo(Level(0)), "int", "ptr", nil},
}

var nullKinds = []kind{
	{"sql.NullInt64", tOf(sql.NullInt64{}), "int", "null", nil}, {"sql.NullInt32", tOf(sql.NullInt32{}), "int", "null", nil},
	{"sql.NullString", tOf(sql.NullString{}), "string", "null", nil}, {"sql.NullBool", tOf(sql.NullBool{}), "bool", "null", nil},
	{"sql.NullFloat64", tOf(sql.NullFloat64{}), "float", "null", nil}, {"sql.NullTime", tOf(sql.NullTime{}), "time", "null", nil},
}

var customKinds = []kind{
	{"Tagged", tOf(Tagged("")), "tagged", "plain", nil}, {"*Tagged", ptrTo(Tagged("")), "tagged", "ptr", nil},
	{"PointV", tOf(PointV{}), "pointv", "plain", nil}, {"*PointV", ptrTo(PointV{}), "pointv", "ptr", nil},
	{"*LabelP", ptrTo(LabelP{}), "labelp", "ptr", nil},
	{"IntList", tOf(IntList(nil)), "intlist", "plain", []string{"type:text"}},
	{"Props", tOf(Props(nil)), "props", "plain", nil},
}

var serializerKinds = []kind{
	{"json:[]string", tOf([]string(nil)), "json", "plain", []string{"serializer:json"}},
	{"json:map[string]int64", tOf(map[string]int64(nil)), "json", "plain", []string{"serializer:json"}},
	{"json:JS", tOf(JS{}), "json", "plain", []string{"serializer:json"}},
	{"json:*JS", ptrTo(JS{}), "json", "plain", []string{"serializer:json"}},
	{"gob:JS", tOf(JS{}), "gob", "plain", []string{"serializer:gob"}},
	{"gob:[]int64", tOf([]int64(nil)), "gob", "plain", []string{"serializer:gob", "type:bytes"}},
	{"gob:map[string]string", tOf(map[string]string(nil)), "gob", "plain", []string{"serializer:gob", "type:bytes"}},
	{"unixtime:int64", tOf(int64(0)), "unixtime", "plain", []string{"serializer:unixtime", "type:datetime"}},
	{"unixtime:int", tOf(int(0)), "unixtime", "plain", []string{"serializer:unixtime", "type:datetime"}},
	{"unixtime:int32", tOf(int32(0)), "unixtime", "plain", []string{"serializer:unixtime", "type:datetime"}},
	{"unixtime:*int64", ptrTo(int64(0)), "unixtime", "ptr", []string{"serializer:unixtime", "type:datetime"}},
	{"unixtime:uint", tOf(uint(0)), "unixtime", "plain", []string{"serializer:unixtime", "type:datetime"}},
	{"unixtime:uint32", tOf(uint32(0)), "unixtime", "plain", []string{"serializer:unixtime", "type:datetime"}},
}

var nullBase = map[reflect.Type]string{
	tOf(sql.NullInt64{}): "int", tOf(sql.NullInt32{}): "int", tOf(sql.NullString{}): "string",
	tOf(sql.NullBool{}): "bool", tOf(sql.NullFloat64{}): "float", tOf(sql.NullTime{}): "time",
}

var customBase = map[reflect.Type]string{
	tOf(Tagged("")): "tagged", tOf(PointV{}): "pointv", tOf(LabelP{}): "labelp", tOf(IntList(nil)): "intlist", tOf(Props(nil)): "props",
}

// classOf maps a leaf Go type (plus its serializer tag) to (class, wrap).
func classOf(t reflect.Type, serializer string) (class, wrap string) {
	switch serializer {
	case "json", "gob":
		return serializer, "plain"
	case "unixtime":
		if t.Kind() == reflect.Ptr {
			return "unixtime", "ptr"
		}
		return "unixtime", "plain"
	}
	if t == deletedType {
		return "time", "deleted"
	}
	if c, ok := nullBase[t]; ok {
		return c, "null"
	}
	if c, ok := customBase[t]; ok {
		return c, "plain"
	}
	if isSelf(t) {
		return "self", "plain"
	}
	if t.Kind() == reflect.Ptr {
		c, _ := classOf(t.Elem(), "")
		return c, "ptr"
	}
	switch {
	case t == timeType:
		return "time", "plain"
	case t == bytesType:
		return "bytes", "plain"
	}
	switch t.Kind() {
	case reflect.Slice:
		if t.Elem().Kind() == reflect.Uint8 { // a named byte slice
			return "bytes", "plain"
		}
	case reflect.Int, reflect.Int8, reflect.Int16, reflect.Int32, reflect.Int64:
		return "int", "plain"
	case reflect.Uint, reflect.Uint8, reflect.Uint16, reflect.Uint32, reflect.Uint64:
		return "uint", "plain"
	case reflect.Float32, reflect.Float64:
		return "float", "plain"
	case reflect.Bool:
		return "bool", "plain"
	case reflect.String:
		return "string", "plain"
	}
	panic("c03: unsupported leaf type " + t.String())
}

// ---- canonical forms -----------------------------------------------------------------------

func canonFloat(f float64) string {
	if f == 0 {
		return "0" // -0 == +0
	}
	return strconv.FormatFloat(f, 'g', -1, 64)
}

func canonTime(t time.Time) string { return "t:" + t.UTC().Format(time.RFC3339Nano) }

// normJSON renders a Go value deterministically (sorted map keys); used for serializer / custom kinds.
func normJSON(v interface{}) string {
	b, err := json.Marshal(v)
	if err != nil {
		return "?json:" + err.Error()
	}
	return string(b)
}

// normEmpty renders v with empty slices / maps folded into nil (gob does not distinguish them).
func normEmpty(v reflect.Value) interface{} {
	switch v.Kind() {
	case reflect.Ptr:
		if v.IsNil() {
			return nil
		}
		return normEmpty(v.Elem())
	case reflect.Slice:
		if v.Len() == 0 {
			return nil
		}
		out := make([]interface{}, v.Len())
		for i := range out {
			out[i] = normEmpty(v.Index(i))
		}
		return out
	case reflect.Map:
		if v.Len() == 0 {
			return nil
		}
		out := map[string]interface{}{}
		for _, k := range v.MapKeys() {
			out[fmt.Sprint(k.Interface())] = normEmpty(v.MapIndex(k))
		}
		return out
	case reflect.Struct:
		out := map[string]interface{}{}
		for i := 0; i < v.NumField(); i++ {
			out[v.Type().Field(i).Name] = normEmpty(v.Field(i))
		}
		return out
	}
	return v.Interface()
}

// canonGo canonicalises the Go value fv (of the leaf's type).
func canonGo(l *leaf, fv reflect.Value) string {
	switch l.class {
	case "self":
		return selfCanon(fv)
	case "json":
		return "j:" + normJSON(fv.Interface())
	case "gob":
		return "g:" + normJSON(normEmpty(fv))
	}
	switch l.wrap {
	case "deleted":
		d := fv.Interface().(gorm.DeletedAt)
		if !d.Valid {
			return "NULL"
		}
		return canonTime(d.Time)
	case "null":
		switch x := fv.Interface().(type) {
		case sql.NullInt64:
			if x.Valid {
				return strconv.FormatInt(x.Int64, 10)
			}
		case sql.NullInt32:
			if x.Valid {
				return strconv.FormatInt(int64(x.Int32), 10)
			}
		case sql.NullString:
			if x.Valid {
				return "s:" + x.String
			}
		case sql.NullBool:
			if x.Valid {
				return strconv.FormatBool(x.Bool)
			}
		case sql.NullFloat64:
			if x.Valid {
				return canonFloat(x.Float64)
			}
		case sql.NullTime:
			if x.Valid {
				return canonTime(x.Time)
			}
		}
		return "NULL"
	case "ptr":
		if fv.IsNil() {
			return "NULL"
		}
		fv = fv.Elem()
	}
	switch l.class {
	case "int":
		return strconv.FormatInt(fv.Int(), 10)
	case "uint":
		return strconv.FormatUint(fv.Uint(), 10)
	case "unixtime":
		if fv.Kind() >= reflect.Uint && fv.Kind() <= reflect.Uint64 {
			return strconv.FormatUint(fv.Uint(), 10)
		}
		return strconv.FormatInt(fv.Int(), 10)
	case "float":
		return canonFloat(fv.Float())
	case "bool":
		return strconv.FormatBool(fv.Bool())
	case "string", "tagged":
		return "s:" + fv.String()
	case "bytes":
		if fv.IsNil() {
			return "NULL" // a nil byte slice is NULL; an empty non-nil one is a value of length zero
		}
		return "b:" + hex.EncodeToString(fv.Bytes())
	case "time":
		return canonTime(fv.Interface().(time.Time))
	case "pointv":
		p := fv.Interface().(PointV)
		return fmt.Sprintf("pt:%d;%d", p.X, p.Y)
	case "labelp":
		p := fv.Interface().(LabelP)
		return fmt.Sprintf("lb:%d|%s", p.N, p.S)
	case "intlist":
		return "il:" + fmt.Sprint([]int64(fv.Interface().(IntList))) // nil and empty both "[]"
	case "props":
		p := fv.Interface().(Props)
		if p == nil {
			return "NULL"
		}
		return "pr:" + normJSON(map[string]string(p))
	}
	panic("canonGo: " + l.class)
}

func parseTimeText(s string) (time.Time, bool) {
	for _, f := range []string{"2006-01-02 15:04:05.999999999-07:00", time.RFC3339Nano, "2006-01-02 15:04:05.999999999", "2006-01-02T15:04:05.999999999", "2006-01-02"} {
		if t, err := time.Parse(f, s); err == nil {
			return t, true
		}
	}
	return time.Time{}, false
}

// canonRaw canonicalises a cell read with raw SQL (or a map value that is not of the leaf's own
// Go type) according to the leaf's storage encoding.
func canonRaw(l *leaf, cell interface{}) string {
	bad := fmt.Sprintf("?%T:%v", cell, cell)
	if cell == nil {
		switch l.class {
		case "self":
			return selfCanon(reflect.Zero(l.typ))
		case "json":
			return "j:null"
		case "gob":
			return "g:null"
		case "intlist":
			return "il:[]"
		}
		return "NULL"
	}
	// numeric widening / dereferencing for map reads
	rv := reflect.ValueOf(cell)
	for rv.Kind() == reflect.Ptr {
		if rv.IsNil() {
			return canonRaw(l, nil)
		}
		rv = rv.Elem()
		cell = rv.Interface()
	}
	asInt := func() (int64, bool) {
		switch rv.Kind() {
		case reflect.Int, reflect.Int8, reflect.Int16, reflect.Int32, reflect.Int64:
			return rv.Int(), true
		case reflect.Uint, reflect.Uint8, reflect.Uint16, reflect.Uint32, reflect.Uint64:
			if rv.Uint() < 1<<63 {
				return int64(rv.Uint()), true
			}
		}
		return 0, false
	}
	str, isStr, _ := cellString(cell)
	switch l.class {
	case "int", "uint":
		if x, ok := asInt(); ok {
			return strconv.FormatInt(x, 10)
		}
	case "float":
		switch rv.Kind() {
		case reflect.Float32, reflect.Float64:
			return canonFloat(rv.Float())
		}
		if x, ok := asInt(); ok {
			return canonFloat(float64(x))
		}
	case "bool":
		if rv.Kind() == reflect.Bool {
			return strconv.FormatBool(rv.Bool())
		}
		if x, ok := asInt(); ok && (x == 0 || x == 1) {
			return strconv.FormatBool(x == 1)
		}
		// a "numeric" column read without a schema arrives as float64
		if (rv.Kind() == reflect.Float64 || rv.Kind() == reflect.Float32) && (rv.Float() == 0 || rv.Float() == 1) {
			return strconv.FormatBool(rv.Float() == 1)
		}
	case "string":
		if isStr {
			return "s:" + str
		}
		if rv.Kind() == reflect.String { // a named string type in a map
			return "s:" + rv.String()
		}
	case "tagged":
		if isStr && strings.HasPrefix(str, "t:") {
			return "s:" + str[2:]
		}
	case "bytes":
		if isStr {
			if b, isB := cell.([]byte); isB && b == nil {
				return "NULL"
			}
			return "b:" + hex.EncodeToString([]byte(str))
		}
		if rv.Kind() == reflect.Slice && rv.Type().Elem().Kind() == reflect.Uint8 { // a named byte slice in a map
			if rv.IsNil() {
				return "NULL"
			}
			return "b:" + hex.EncodeToString(rv.Bytes())
		}
	case "time":
		if t, ok := cell.(time.Time); ok {
			return canonTime(t)
		}
		if isStr {
			if t, ok := parseTimeText(str); ok {
				return canonTime(t)
			}
		}
	case "unixtime":
		if t, ok := cell.(time.Time); ok {
			return strconv.FormatInt(t.Unix(), 10)
		}
		if isStr {
			if t, ok := parseTimeText(str); ok {
				return strconv.FormatInt(t.Unix(), 10)
			}
		}
	case "pointv":
		if isStr {
			if p, err := parsePoint(str); err == nil {
				return fmt.Sprintf("pt:%d;%d", p.X, p.Y)
			}
		}
	case "labelp":
		if isStr {
			if p, err := parseLabel(str); err == nil {
				return fmt.Sprintf("lb:%d|%s", p.N, p.S)
			}
		}
	case "intlist":
		if isStr {
			if p, err := parseIntList(str); err == nil {
				return "il:" + fmt.Sprint([]int64(p))
			}
		}
	case "props":
		if isStr {
			m := map[string]string{}
			if json.Unmarshal([]byte(str), &m) == nil {
				return "pr:" + normJSON(m)
			}
		}
	case "self":
		if isStr {
			if c, ok := selfFromRaw(l, str); ok {
				return c
			}
		}
	case "json":
		if isStr {
			p := reflect.New(l.typ)
			if json.Unmarshal([]byte(str), p.Interface()) == nil {
				return "j:" + normJSON(p.Elem().Interface())
			}
		}
	case "gob":
		if isStr { // a blob read without a schema from a text column arrives as a string holding the same bytes
			b := []byte(str)
			p := reflect.New(l.typ)
			if len(b) == 0 || gob.NewDecoder(bytes.NewReader(b)).Decode(p.Interface()) == nil {
				return "g:" + normJSON(normEmpty(p.Elem()))
			}
		}
	}
	return bad
}

// canonAny canonicalises a value found in a map read: gorm may hand back the leaf's own Go type
// (or a pointer to it) or the driver's representation.
func canonAny(l *leaf, v interface{}) string {
	if v == nil {
		return canonRaw(l, nil)
	}
	rv := reflect.ValueOf(v)
	if rv.Type() == l.typ {
		return canonGo(l, rv)
	}
	if rv.Kind() == reflect.Ptr && rv.Type().Elem() == l.typ {
		if rv.IsNil() {
			return canonRaw(l, nil)
		}
		return canonGo(l, rv.Elem())
	}
	return canonRaw(l, v)
}

// ---- value generation ------------------------------------------------------------------------

var zones = []*time.Location{time.UTC, time.FixedZone("E530", 5*3600+1800), time.FixedZone("W8", -8*3600), time.FixedZone("E1345", 13*3600+45*60)}

var strPool = []string{
	"", "a", "héllo wörld", "quote'single", `dq"uote`, `back\slash`, "per%cent_under", "q?mark ?? @name", "semi;colon -- comment",
	"日本語テキスト", "emoji \U0001F600 ok", "  lead and trail  ", "line\nbreak\ttab\r", "123", "1e5", "0x10", "true", "NULL", "null",
	"2021-01-01 00:00:00", "`backtick`", "$1 :x", " nbsp​", "Ünïcödé ß ǅ",
}

func genString(r *core.Rand) string {
	switch r.Intn(10) {
	case 0:
		return strings.Repeat(core.Pick(r, []string{"x", "é", "'", "ab "}), r.Range(50, 400))
	case 1, 2:
		n := r.Range(1, 12)
		var sb strings.Builder
		for i := 0; i < n; i++ {
			sb.WriteRune(core.Pick(r, []rune{'a', 'Z', '0', ' ', '\'', '"', '\\', '%', '_', 'é', '世', '😀', '\n', '?', ';', '(', ')', ',', '|'}))
		}
		return sb.String()
	}
	return core.Pick(r, strPool)
}

func genInt(r *core.Rand, bits int) int64 {
	min := int64(-1) << uint(bits-1)
	max := -(min + 1)
	switch r.Intn(9) {
	case 0:
		return 0
	case 1:
		return 1
	case 2:
		return -1
	case 3:
		return min
	case 4:
		return max
	case 5:
		return min + 1
	case 6:
		return max - 1
	}
	v := int64(r.U64() >> 1)
	if bits < 64 {
		v = v % (max + 1)
	}
	if r.Bool() {
		v = -v
	}
	return v
}

func genUint(r *core.Rand, bits int) uint64 {
	max := uint64(1)<<63 - 1 // values stay below 2^63 (database/sql refuses larger uint64)
	if bits < 64 {
		max = uint64(1)<<uint(bits) - 1
	}
	switch r.Intn(6) {
	case 0:
		return 0
	case 1:
		return 1
	case 2:
		return max
	case 3:
		return max - 1
	}
	return r.U64() % (max + 1)
}

func genFloat(r *core.Rand, bits int) float64 {
	if bits == 32 {
		return float64(core.Pick(r, []float32{0, 1.5, -2.25, 0.1, math.MaxFloat32, -math.MaxFloat32, math.SmallestNonzeroFloat32, 3, 16777216, 1e-20,
			float32(math.Copysign(0, -1)), float32(r.Intn(100000)) / 7}))
	}
	return core.Pick(r, []float64{0, 1.5, -2.25, 0.1, math.MaxFloat64, -math.MaxFloat64, math.SmallestNonzeroFloat64, 1e-310, 3, 1 << 53, 1e15 + 0.5,
		math.Copysign(0, -1), 123456789.125, float64(r.Intn(1000000)) / 13, -float64(r.Intn(1000000)) / 3})
}

func genTime(r *core.Rand) time.Time {
	z := core.Pick(r, zones)
	switch r.Intn(9) {
	case 0:
		return time.Time{}
	case 1:
		return time.Date(9999, 12, 31, 23, 59, 59, 999999999, time.UTC)
	case 2:
		return time.Date(1, 1, 2, 0, 0, 0, 0, time.UTC)
	case 3:
		return time.Date(1969, 12, 31, 23, 59, 59, 500000000, z)
	case 4:
		return time.Date(2021, 3, 4, 5, 6, 7, 0, z)
	}
	return time.Date(r.Range(1900, 2200), time.Month(r.Range(1, 12)), r.Range(1, 28), r.Range(0, 23), r.Range(0, 59), r.Range(0, 59),
		core.Pick(r, []int{0, 123456789, 1, 999999999, 120000000, 500}), z)
}

func genBytes(r *core.Rand) []byte {
	switch r.Intn(7) {
	case 0:
		return nil
	case 1:
		return []byte{}
	case 2:
		return []byte{0}
	case 3:
		return []byte{0xff, 0, 1, 0xfe}
	case 4:
		return []byte("text ünï 'q")
	}
	b := make([]byte, r.Range(1, 40))
	for i := range b {
		b[i] = byte(r.Intn(256))
	}
	return b
}

func genJS(r *core.Rand, gobSafe bool) JS {
	j := JS{A: genInt(r, 64), B: genString(r)}
	if r.Bool() {
		j.C = []float64{1.5, -2, float64(r.Intn(1000)) / 8}
	} else if !gobSafe && r.Bool() {
		j.C = []float64{}
	}
	if r.Bool() {
		// records differ in their key sets (a map that is merged into instead of replaced shows)
		j.D = map[string]int64{}
		for _, k := range []string{"k'1", "é", "zz"} {
			if r.Bool() {
				j.D[k] = int64(r.Intn(100)) - 1
			}
		}
		if len(j.D) == 0 {
			j.D["k'1"] = -1
		}
	} else if !gobSafe && r.Bool() {
		j.D = map[string]int64{}
	}
	return j
}

// genBase generates a value of the plain (unwrapped) type t for class c. nonZero forces a non-zero value.
func genBase(r *core.Rand, l *leaf, t reflect.Type, nonZero bool) reflect.Value {
	v := reflect.New(t).Elem()
	for try := 0; ; try++ {
		switch l.class {
		case "int":
			v.SetInt(genInt(r, t.Bits()))
		case "uint":
			v.SetUint(genUint(r, t.Bits()))
		case "float":
			v.SetFloat(genFloat(r, t.Bits()))
		case "bool":
			v.SetBool(nonZero || r.Bool())
		case "string", "tagged":
			v.SetString(genString(r))
		case "bytes":
			v.SetBytes(genBytes(r))
		case "time":
			v.Set(reflect.ValueOf(genTime(r)))
		case "pointv":
			v.Set(reflect.ValueOf(PointV{genInt(r, 64), genInt(r, 16)}))
		case "labelp":
			v.Set(reflect.ValueOf(LabelP{S: genString(r), N: genInt(r, 32)}))
		case "intlist":
			switch r.Intn(4) {
			case 0:
				v.Set(reflect.ValueOf(IntList(nil)))
			case 1:
				v.Set(reflect.ValueOf(IntList{}))
			default:
				v.Set(reflect.ValueOf(IntList{genInt(r, 64), 0, genInt(r, 8)}))
			}
		case "props":
			switch r.Intn(4) {
			case 0:
				v.Set(reflect.ValueOf(Props(nil)))
			case 1:
				v.Set(reflect.ValueOf(Props{}))
			default:
				v.Set(reflect.ValueOf(Props{"k": genString(r), "q'": "\"v\""}))
			}
		case "unixtime":
			x := int64(core.Pick(r, []int{0, 1, 1614834367, 86399, 2000000000, r.Intn(2000000000)}))
			if t.Kind() >= reflect.Uint && t.Kind() <= reflect.Uint64 {
				v.SetUint(uint64(x))
			} else {
				if r.Chance(1, 6) {
					x = -x
				}
				v.SetInt(x)
			}
		case "json", "gob":
			g := l.class == "gob"
			switch t {
			case tOf([]string(nil)):
				switch r.Intn(4) {
				case 0: // nil
				case 1:
					v.Set(reflect.ValueOf([]string{}))
				default:
					v.Set(reflect.ValueOf([]string{genString(r), "b,\"c", ""}))
				}
			case tOf(map[string]int64(nil)):
				switch r.Intn(4) {
				case 0:
				case 1:
					v.Set(reflect.ValueOf(map[string]int64{}))
				default:
					mp := map[string]int64{"a": genInt(r, 64)}
					for _, k := range []string{"b'", "c c"} {
						if r.Bool() {
							mp[k] = int64(r.Intn(3))
						}
					}
					v.Set(reflect.ValueOf(mp))
				}
			case tOf(JS{}):
				if !r.Chance(1, 5) {
					v.Set(reflect.ValueOf(genJS(r, g)))
				}
			case ptrTo(JS{}):
				if !r.Chance(1, 4) {
					j := genJS(r, g)
					v.Set(reflect.ValueOf(&j))
				}
			case tOf([]int64(nil)):
				if !r.Chance(1, 4) {
					v.Set(reflect.ValueOf([]int64{genInt(r, 64), 0, -1, 7, genInt(r, 8)}[:r.Range(1, 5)]))
				}
			case tOf(map[string]string(nil)):
				if !r.Chance(1, 4) {
					mp := map[string]string{"k": genString(r)}
					for _, k := range []string{"", "x y", "é'"} {
						if r.Bool() {
							mp[k] = "e" + k
						}
					}
					v.Set(reflect.ValueOf(mp))
				}
			default:
				panic("genBase: serializer type " + t.String())
			}
		default:
			panic("genBase: " + l.class)
		}
		if !nonZero || !v.IsZero() {
			return v
		}
		if try > 200 {
			panic("c03 harness: no non-zero value for " + l.kindName())
		}
	}
}

// genValue generates a value of the leaf's Go type. mode: 0 random, 1 force Go-zero, 2 force non-zero.
func genValue(r *core.Rand, l *leaf, mode int) reflect.Value {
	if mode == 1 {
		return reflect.Zero(l.typ)
	}
	if l.class == "json" || l.class == "gob" {
		return genBase(r, l, l.typ, mode == 2)
	}
	if l.class == "self" {
		return genSelf(r, l.typ)
	}
	switch l.wrap {
	case "deleted":
		return reflect.Zero(l.typ)
	case "ptr":
		if mode != 2 && r.Chance(1, 4) {
			return reflect.Zero(l.typ)
		}
		p := reflect.New(l.typ.Elem())
		p.Elem().Set(genBase(r, l, l.typ.Elem(), false))
		return p
	case "null":
		v := reflect.New(l.typ).Elem()
		if mode != 2 && r.Chance(1, 4) {
			return v
		}
		inner := v.Field(0)
		inner.Set(genBase(r, l, inner.Type(), false))
		v.FieldByName("Valid").SetBool(true)
		return v
	}
	return genBase(r, l, l.typ, mode == 2)
}

// literalValue converts the text of a `default:` literal to a value of the leaf's type.
func literalValue(l *leaf, lit string) reflect.Value {
	base := l.typ
	switch l.wrap {
	case "ptr":
		base = l.typ.Elem()
	case "null":
		base = l.typ.Field(0).Type
	}
	b := reflect.New(base).Elem()
	switch l.class {
	case "int":
		x, _ := strconv.ParseInt(lit, 0, 64)
		b.SetInt(x)
	case "uint":
		x, _ := strconv.ParseUint(lit, 0, 64)
		b.SetUint(x)
	case "float":
		x, _ := strconv.ParseFloat(lit, 64)
		b.SetFloat(x)
	case "bool":
		x, _ := strconv.ParseBool(lit)
		b.SetBool(x)
	case "string":
		b.SetString(strings.Trim(strings.Trim(lit, "'"), `"`))
	default:
		panic("literalValue: " + l.class)
	}
	switch l.wrap {
	case "ptr":
		p := reflect.New(base)
		p.Elem().Set(b)
		return p
	case "null":
		v := reflect.New(l.typ).Elem()
		v.Field(0).Set(b)
		v.FieldByName("Valid").SetBool(true)
		return v
	}
	return b
}

func sortedKeys(m map[string]bool) []string {
	out := make([]string, 0, len(m))
	for k := range m {
		out = append(out, k)
	}
	sort.Strings(out)
	return out
}

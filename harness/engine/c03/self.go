package c03

import (
	"context"
	"encoding/json"
	"fmt"
	"reflect"
	"strings"

	"gorm.io/gorm/schema"

	"verif/core"
)

// Field types that are their OWN serializer (schema.SerializerInterface: pointer-receiver Scan,
// value-receiver Value), written the way user code writes them: Scan unmarshals directly into the
// receiver, so it MERGES into whatever the receiver already holds. gorm must therefore hand every
// row a fresh instance; an instance reused from the previous row shows up as members of an earlier
// row in a later record, or as an earlier record changing when a later row is scanned.

func selfCell(dbValue interface{}) ([]byte, bool, error) {
	switch v := dbValue.(type) {
	case nil:
		return nil, false, nil
	case []byte:
		return v, true, nil
	case string:
		return []byte(v), true, nil
	}
	return nil, false, fmt.Errorf("self serializer: unsupported stored value %T", dbValue)
}

// SelfJS: struct with omitempty members (a partial document leaves the other members untouched).
type SelfJS struct {
	Nick string            `json:"nick,omitempty"`
	Tags []string          `json:"tags,omitempty"`
	N    int64             `json:"n,omitempty"`
	M    map[string]string `json:"m,omitempty"`
}

func (s *SelfJS) Scan(ctx context.Context, field *schema.Field, dst reflect.Value, dbValue interface{}) error {
	b, ok, err := selfCell(dbValue)
	if err != nil || !ok {
		return err
	}
	return json.Unmarshal(b, s)
}

func (s SelfJS) Value(ctx context.Context, field *schema.Field, dst reflect.Value, fieldValue interface{}) (interface{}, error) {
	b, err := json.Marshal(s)
	return string(b), err
}

// SelfMap: json.Unmarshal into a non-nil map merges keys.
type SelfMap map[string]string

func (m *SelfMap) Scan(ctx context.Context, field *schema.Field, dst reflect.Value, dbValue interface{}) error {
	b, ok, err := selfCell(dbValue)
	if err != nil || !ok {
		return err
	}
	return json.Unmarshal(b, m)
}

func (m SelfMap) Value(ctx context.Context, field *schema.Field, dst reflect.Value, fieldValue interface{}) (interface{}, error) {
	b, err := json.Marshal(m)
	return string(b), err
}

// SelfList: json.Unmarshal into a slice reuses its backing array.
type SelfList []string

func (l *SelfList) Scan(ctx context.Context, field *schema.Field, dst reflect.Value, dbValue interface{}) error {
	b, ok, err := selfCell(dbValue)
	if err != nil || !ok {
		return err
	}
	return json.Unmarshal(b, l)
}

func (l SelfList) Value(ctx context.Context, field *schema.Field, dst reflect.Value, fieldValue interface{}) (interface{}, error) {
	b, err := json.Marshal(l)
	return string(b), err
}

// SelfStr: full overwrite (like EncryptedString of gorm's own tests). Stored as "enc:"+s.
type SelfStr string

func (s *SelfStr) Scan(ctx context.Context, field *schema.Field, dst reflect.Value, dbValue interface{}) error {
	b, ok, err := selfCell(dbValue)
	if err != nil || !ok {
		return err
	}
	if !strings.HasPrefix(string(b), "enc:") {
		return fmt.Errorf("SelfStr: stored value %q lacks the prefix", b)
	}
	*s = SelfStr(b[4:])
	return nil
}

func (s SelfStr) Value(ctx context.Context, field *schema.Field, dst reflect.Value, fieldValue interface{}) (interface{}, error) {
	return "enc:" + string(s), nil
}

var selfBase = map[reflect.Type]bool{tOf(SelfJS{}): true, tOf(SelfMap(nil)): true, tOf(SelfList(nil)): true, tOf(SelfStr("")): true}

func isSelf(t reflect.Type) bool {
	if t.Kind() == reflect.Ptr {
		t = t.Elem()
	}
	return selfBase[t]
}

var selfKinds = []kind{
	{"self:SelfJS", tOf(SelfJS{}), "self", "plain", nil},
	{"self:*SelfJS", ptrTo(SelfJS{}), "self", "plain", nil}, // the field holds the serializer instance itself
	{"self:SelfMap", tOf(SelfMap(nil)), "self", "plain", []string{"type:text"}},
	{"self:SelfList", tOf(SelfList(nil)), "self", "plain", []string{"type:text"}},
	{"self:SelfStr", tOf(SelfStr("")), "self", "plain", nil},
}

// selfCanon: a nil *SelfJS equals a zero SelfJS (a NULL column is scanned into a fresh instance).
func selfCanon(fv reflect.Value) string {
	if fv.Kind() == reflect.Ptr {
		if fv.IsNil() {
			fv = reflect.Zero(fv.Type().Elem())
		} else {
			fv = fv.Elem()
		}
	}
	if s, ok := fv.Interface().(SelfStr); ok {
		return "sf:s:" + string(s)
	}
	return "sf:" + normJSON(fv.Interface())
}

func selfFromRaw(l *leaf, str string) (string, bool) {
	t := l.typ
	if t.Kind() == reflect.Ptr {
		t = t.Elem()
	}
	if t == tOf(SelfStr("")) {
		if !strings.HasPrefix(str, "enc:") {
			return "", false
		}
		return "sf:s:" + str[4:], true
	}
	p := reflect.New(t)
	if json.Unmarshal([]byte(str), p.Interface()) != nil {
		return "", false
	}
	return selfCanon(p.Elem()), true
}

var selfKeys = []string{"a", "b'", "c c", "é", "k5"}

// genSelf: different records get different member sets (that is what makes a reused instance visible).
func genSelf(r *core.Rand, t reflect.Type) reflect.Value {
	if t.Kind() == reflect.Ptr {
		p := reflect.New(t.Elem())
		p.Elem().Set(genSelf(r, t.Elem()))
		return p
	}
	tags := func(max int) []string {
		n := r.Intn(max + 1)
		if n == 0 {
			return nil
		}
		out := make([]string, n)
		for i := range out {
			out[i] = fmt.Sprintf("t%d%s", r.Intn(1000), core.Pick(r, []string{"", "'", " x", "é"}))
		}
		return out
	}
	kv := func(max int) map[string]string {
		n := r.Intn(max + 1)
		m := map[string]string{}
		for _, i := range r.Perm(len(selfKeys))[:n] {
			m[selfKeys[i]] = fmt.Sprintf("v%d", r.Intn(1000))
		}
		return m
	}
	v := reflect.New(t).Elem()
	switch t {
	case tOf(SelfJS{}):
		s := SelfJS{}
		if r.Bool() {
			s.Nick = genString(r)
		}
		s.Tags = tags(4)
		if r.Bool() {
			s.N = genInt(r, 64)
		}
		if m := kv(3); len(m) > 0 {
			s.M = m
		}
		v.Set(reflect.ValueOf(s))
	case tOf(SelfMap(nil)):
		if !r.Chance(1, 6) {
			v.Set(reflect.ValueOf(SelfMap(kv(4))))
		}
	case tOf(SelfList(nil)):
		if x := tags(5); x != nil {
			v.Set(reflect.ValueOf(SelfList(x)))
		} else if r.Bool() {
			v.Set(reflect.ValueOf(SelfList{}))
		}
	case tOf(SelfStr("")):
		v.SetString(genString(r))
	default:
		panic("genSelf: " + t.String())
	}
	return v
}

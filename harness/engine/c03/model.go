package c03

import (
	"fmt"
	"reflect"
	"sort"
	"strings"
	"unicode"

	"verif/core"
)

// leaf is one column of a model, derived from the struct type and its tags by the harness' own
// walker (not from gorm's parsed schema: a mis-named column or a mis-parsed tag must show up).
type leaf struct {
	path       []string // Go field names from the model root
	col        string   // expected column name
	typ        reflect.Type
	class      string
	wrap       string
	serializer string
	pk         bool
	auto       bool // auto-increment primary key
	noAuto     bool // autoIncrement:false
	notNull    bool
	hasLit     bool     // literal default
	defLit     string   // its text
	defFn      string   // database-side default: abs mul eq lower dt now null
	autoTime   string   // "", time, sec, milli, nano
	ptrGroups  []string // pointer-embedded structs above the leaf (joined paths, outermost first)
	ord        int
}

func (l *leaf) name() string { return strings.Join(l.path, ".") }

func (l *leaf) kindName() string {
	if l.serializer != "" {
		return l.serializer + ":" + l.typ.String()
	}
	return strings.TrimPrefix(l.typ.String(), "c03.")
}

type model struct {
	typ      reflect.Type
	table    string
	useTable bool // generated (unnamed) types go through db.Table(name)
	static   string
	leaves   []*leaf
	pks      []*leaf
	auto     *leaf
	payload  *leaf
	groups   []string // all pointer-embedded groups
	desc     []string
	colSet   map[string]bool // the column names, as spelled
	// shadowed: fields whose column is also the column of ONE field on a strictly shorter path (Go's
	// own shadowing of a promoted field by an outer one, or a column: tag / embeddedPrefix that lands
	// on the same name). They are not leaves: the harness never sets them and they must stay zero.
	shadowed []*leaf
	// ambiguous: two fields on paths of the same (shortest) length share a column; which of them owns
	// it is not fixed by the statement, such a model is never used
	ambiguous bool
	// goNames: how many fields (leaves and shadowed ones, at any depth) carry a given Go field name
	goNames map[string]int
}

func parseTag(tag string) map[string]string {
	out := map[string]string{}
	for _, part := range strings.Split(tag, ";") {
		part = strings.TrimSpace(part)
		if part == "" {
			continue
		}
		k, v := part, part
		if i := strings.Index(part, ":"); i >= 0 {
			k, v = part[:i], part[i+1:]
		}
		out[strings.ToUpper(strings.TrimSpace(k))] = v
	}
	return out
}

// snake: the column name gorm's default naming strategy documents for simple CamelCase names.
func snake(s string) string {
	if s == "ID" {
		return "id"
	}
	var sb strings.Builder
	rs := []rune(s)
	for i, r := range rs {
		if unicode.IsUpper(r) {
			if i > 0 && (unicode.IsLower(rs[i-1]) || unicode.IsDigit(rs[i-1]) || (i+1 < len(rs) && unicode.IsLower(rs[i+1]))) {
				sb.WriteByte('_')
			}
			sb.WriteRune(unicode.ToLower(r))
		} else {
			sb.WriteRune(r)
		}
	}
	return sb.String()
}

var fnDefaults = map[string]string{
	"(abs(-42))": "abs", "(1.5*2)": "mul", "(1=1)": "eq", "(lower('ABC'))": "lower",
	"(datetime('2001-02-03 04:05:06'))": "dt", "CURRENT_TIMESTAMP": "now", "null": "null",
}

func isEmbeddable(t reflect.Type) bool {
	for t.Kind() == reflect.Ptr {
		t = t.Elem()
	}
	if t.Kind() != reflect.Struct || t == timeType || t == deletedType {
		return false
	}
	if _, ok := nullBase[t]; ok {
		return false
	}
	if _, ok := customBase[t]; ok {
		return false
	}
	return !selfBase[t]
}

func walk(t reflect.Type, prefix string, path []string, groups []string, out *[]*leaf) {
	for i := 0; i < t.NumField(); i++ {
		f := t.Field(i)
		if f.PkgPath != "" {
			continue
		}
		tag := parseTag(f.Tag.Get("gorm"))
		p := append(append([]string(nil), path...), f.Name)
		_, embTag := tag["EMBEDDED"]
		if (embTag || f.Anonymous) && isEmbeddable(f.Type) {
			g := groups
			st := f.Type
			if st.Kind() == reflect.Ptr {
				st = st.Elem()
				g = append(append([]string(nil), groups...), strings.Join(p, "."))
			}
			walk(st, prefix+tag["EMBEDDEDPREFIX"], p, g, out)
			continue
		}
		l := &leaf{path: p, typ: f.Type, serializer: strings.ToLower(tag["SERIALIZER"]), ptrGroups: groups, ord: len(*out)}
		l.class, l.wrap = classOf(f.Type, l.serializer)
		if l.class == "self" {
			l.serializer = "self" // the type is its own serializer: no tag
		}
		if c, ok := tag["COLUMN"]; ok {
			l.col = prefix + c
		} else {
			l.col = prefix + snake(f.Name)
		}
		_, l.pk = tag["PRIMARYKEY"]
		_, l.notNull = tag["NOT NULL"]
		if d, ok := tag["DEFAULT"]; ok {
			if fn, ok := fnDefaults[d]; ok {
				l.defFn = fn
			} else {
				l.hasLit, l.defLit = true, d
			}
		}
		unit := func(v string) string {
			if l.class == "time" {
				return "time"
			}
			switch strings.ToUpper(v) {
			case "NANO":
				return "nano"
			case "MILLI":
				return "milli"
			}
			return "sec"
		}
		autoKind := l.wrap == "plain" && (l.class == "time" || l.class == "int" || l.class == "uint")
		if v, ok := tag["AUTOCREATETIME"]; ok || (f.Name == "CreatedAt" && autoKind) {
			l.autoTime = unit(v)
		}
		if v, ok := tag["AUTOUPDATETIME"]; ok || (f.Name == "UpdatedAt" && autoKind) {
			l.autoTime = unit(v)
		}
		l.noAuto = tag["AUTOINCREMENT"] == "false"
		*out = append(*out, l)
	}
}

func newModel(t reflect.Type, table string, useTable bool) *model {
	m := &model{typ: t, table: table, useTable: useTable, colSet: map[string]bool{}}
	var found []*leaf
	walk(t, "", nil, nil, &found)
	byCol := map[string][]*leaf{}
	m.goNames = map[string]int{}
	for _, l := range found {
		byCol[l.col] = append(byCol[l.col], l)
		m.goNames[l.path[len(l.path)-1]]++
	}
	for _, l := range found {
		grp := byCol[l.col]
		shortest, n := len(l.path), 0
		for _, o := range grp {
			if len(o.path) < shortest {
				shortest = len(o.path)
			}
		}
		for _, o := range grp {
			if len(o.path) == shortest {
				n++
			}
		}
		switch {
		case n > 1:
			m.ambiguous = true
			m.leaves = append(m.leaves, l)
		case len(l.path) == shortest:
			m.leaves = append(m.leaves, l)
		default:
			m.shadowed = append(m.shadowed, l)
		}
	}
	for i, l := range m.leaves {
		l.ord = i
		m.colSet[l.col] = true
		if l.pk {
			m.pks = append(m.pks, l)
		}
		for _, g := range l.ptrGroups {
			seen := false
			for _, x := range m.groups {
				seen = seen || x == g
			}
			if !seen {
				m.groups = append(m.groups, g)
			}
		}
		if l.col == "payload" {
			m.payload = l
		}
	}
	if len(m.pks) == 0 {
		for _, l := range m.leaves {
			if l.col == "id" {
				l.pk = true
				m.pks = append(m.pks, l)
			}
		}
	}
	if len(m.pks) == 1 {
		l := m.pks[0]
		if (l.class == "int" || l.class == "uint") && l.wrap == "plain" && !l.noAuto && !l.hasLit && l.defFn == "" {
			l.auto = true
			m.auto = l
		}
	}
	if m.payload == nil || len(m.pks) == 0 {
		panic("c03 harness: model without payload column or primary key")
	}
	m.desc = describeType(t, "")
	for _, l := range m.shadowed {
		m.desc = append(m.desc, fmt.Sprintf("// %s shares column %q with a field on a shorter path: left zero, expected to stay zero", l.name(), l.col))
	}
	return m
}

func describeType(t reflect.Type, indent string) []string {
	var out []string
	for i := 0; i < t.NumField(); i++ {
		f := t.Field(i)
		tag := ""
		if g := f.Tag.Get("gorm"); g != "" {
			tag = " `gorm:\"" + g + "\"`"
		}
		ft := f.Type
		ptr := ""
		if ft.Kind() == reflect.Ptr {
			ft, ptr = ft.Elem(), "*"
		}
		if isEmbeddable(f.Type) && ft.Name() == "" {
			anon := ""
			if f.Anonymous {
				anon = "/* embedded anonymously, type name */ "
			}
			out = append(out, indent+anon+f.Name+" "+ptr+"struct {")
			out = append(out, describeType(ft, indent+"    ")...)
			out = append(out, indent+"}"+tag)
			continue
		}
		name := f.Name + " "
		if f.Anonymous {
			name = ""
		}
		out = append(out, indent+name+strings.ReplaceAll(f.Type.String(), "c03.", "")+tag)
	}
	return out
}

// ---- generator -----------------------------------------------------------------------------------

type nameCol struct{ goName, col string }

var namePool = []nameCol{
	{"Name", "name"}, {"Age", "age"}, {"Email", "email"}, {"Score", "score"}, {"Active", "active"}, {"Bio", "bio"},
	{"BornAt", "born_at"}, {"NickName", "nick_name"}, {"Level", "level"}, {"Ratio", "ratio"},
	{"Flag", "flag"}, {"Note", "note"}, {"SeenAt", "seen_at"}, {"UserCode", "user_code"}, {"Rank", "rank"},
	{"Weight", "weight"}, {"Qty", "qty"}, {"City", "city"}, {"Zip", "zip"}, {"Token", "token"}, {"Amount", "amount"},
	{"Visits", "visits"}, {"Grade", "grade"}, {"HomeTown", "home_town"}, {"Price2", "price2"}, {"CreatedAt", "created_at"}, {"UpdatedAt", "updated_at"},
}

var innerPool = []nameCol{
	{"X", "x"}, {"Y", "y"}, {"Zed", "zed"}, {"Part", "part"}, {"QVal", "q_val"}, {"Rate", "rate"}, {"Num", "num"}, {"Txt", "txt"}, {"When", "when"},
}

var reservedCols = []string{"order", "group", "select", "from", "where", "index", "table", "values", "primary", "default", "check", "join", "limit", "unique", "key", "by", "to", "not", "null", "desc"}

type gen struct {
	r     *core.Rand
	feats map[string]bool
	kinds map[string]bool
}

func (g *gen) pickKind(allowCustom bool) kind {
	r := g.r
	for {
		var k kind
		switch r.Intn(11) {
		case 10:
			k = core.Pick(r, selfKinds)
		case 0, 1, 2:
			k = core.Pick(r, scalarKinds)
		case 3, 4:
			k = core.Pick(r, ptrKinds)
		case 5, 6:
			k = core.Pick(r, nullKinds)
		case 7:
			k = core.Pick(r, customKinds)
		default:
			k = core.Pick(r, serializerKinds)
		}
		if !allowCustom && (len(k.tags) > 0 || customBase[k.typ] != "" || isSelf(k.typ) || (k.typ.Kind() == reflect.Ptr && customBase[k.typ.Elem()] != "")) {
			continue
		}
		return k
	}
}

func (g *gen) defaultTag(k kind) (string, string) {
	r := g.r
	var opts [][2]string
	switch k.class {
	case "int":
		opts = [][2]string{{"default:7", "lit"}, {"default:0", "lit0"}, {"default:-3", "lit"}, {"default:(abs(-42))", "fn"}}
	case "uint":
		opts = [][2]string{{"default:7", "lit"}, {"default:0", "lit0"}, {"default:(abs(-42))", "fn"}}
	case "float":
		opts = [][2]string{{"default:1.5", "lit"}, {"default:2", "lit"}, {"default:0.25", "lit"}, {"default:(1.5*2)", "fn"}}
	case "bool":
		opts = [][2]string{{"default:true", "lit"}, {"default:false", "lit0"}, {"default:(1=1)", "fn"}}
	case "string":
		opts = [][2]string{{"default:abc", "lit"}, {"default:'abc'", "lit"}, {"default:'hello world'", "lit"}, {"default:''", "lit0"}, {"default:(lower('ABC'))", "fn"}}
	case "time":
		opts = [][2]string{{"default:CURRENT_TIMESTAMP", "fn-now"}, {"default:(datetime('2001-02-03 04:05:06'))", "fn"}}
	default:
		return "", ""
	}
	if k.wrap != "plain" {
		opts = append(opts, [2]string{"default:null", "null"})
	}
	o := core.Pick(r, opts)
	return o[0], "default:" + o[1]
}

// leafField builds one non-key struct field of kind k.
func (g *gen) leafField(nc nameCol, k kind, inPtrEmb bool) reflect.StructField {
	r := g.r
	tags := append([]string(nil), k.tags...)
	feat := func(f string) { g.feats[f] = true }
	g.kinds[k.name] = true
	if r.Chance(1, 4) {
		switch x := r.Intn(16); {
		case x < 4:
			tags = append(tags, "column:"+nc.goName+"_MiX")
			feat("column:mixedcase")
		case x < 7:
			// a column whose name is an SQL keyword (two fields drawing the same word: the model is generated again)
			tags = append(tags, "column:"+core.Pick(r, reservedCols))
			feat("column:keyword")
		case x < 11:
			// a name that contains the separator gorm itself uses for the columns of joined relations
			tags = append(tags, "column:"+dunder(r, nc))
			feat("column:double-underscore")
		case x < 13:
			// characters that need quoting
			tags = append(tags, "column:"+core.Pick(r, []string{nc.col + "-x", "x " + nc.col, nc.col + "#", "1" + nc.col}))
			feat("column:quoted-chars")
		default:
			tags = append(tags, "column:c_"+nc.col)
			feat("column")
		}
	}
	simple := len(k.tags) == 0 && (k.class == "int" || k.class == "uint" || k.class == "float" || k.class == "bool" || k.class == "string" || k.class == "time")
	hasDefault := false
	auto := nc.goName == "CreatedAt" || nc.goName == "UpdatedAt"
	if simple && !auto && r.Chance(1, 3) {
		if t, f := g.defaultTag(k); t != "" {
			tags = append(tags, t)
			feat(f + ":" + k.wrap)
			hasDefault = true
		}
	}
	if !hasDefault && !auto && k.wrap == "plain" && len(k.tags) == 0 && r.Chance(1, 5) {
		switch k.name {
		case "time.Time":
			tags = append(tags, core.Pick(r, []string{"autoCreateTime", "autoUpdateTime"}))
			feat("autotime:time")
			auto = true
		case "int64", "int", "uint64", "uint":
			t := core.Pick(r, []string{"autoCreateTime", "autoUpdateTime", "autoCreateTime:milli", "autoUpdateTime:milli", "autoCreateTime:nano", "autoUpdateTime:nano"})
			tags = append(tags, t)
			feat("autotime:" + k.class + ":" + t)
			auto = true
		}
	}
	if (simple || (k.class == "bytes" && len(k.tags) == 0)) && k.wrap == "plain" && !inPtrEmb && r.Chance(1, 5) {
		tags = append(tags, "not null")
		feat("notnull")
	}
	if r.Chance(1, 12) {
		tags = append(tags, core.Pick(r, []string{"<-:create", "<-"}))
		feat("perm")
	}
	sf := reflect.StructField{Name: nc.goName, Type: k.typ}
	if len(tags) > 0 {
		sf.Tag = reflect.StructTag(`gorm:"` + strings.Join(tags, ";") + `"`)
	}
	return sf
}

// dunder spells a column name with a double underscore in it: a legacy separator, leading, trailing,
// twice, and exactly like gorm's alias of a joined relation's column (<GoName>__<column>).
func dunder(r *core.Rand, nc nameCol) string {
	switch r.Intn(6) {
	case 0:
		return "legacy__" + nc.col
	case 1:
		return nc.col + "__"
	case 2:
		return "__" + nc.col
	case 3:
		return nc.goName + "__" + nc.col
	case 4:
		return "a__b__" + nc.col
	}
	return nc.col + "__" + nc.goName
}

// embedTag draws how a struct field is embedded: by tag or anonymously (Go embedding, with no tag, with
// an embeddedPrefix tag only, or with both tags), and with which prefix. bare: no prefix is allowed.
func (g *gen) embedTag(name string, bare bool, fallbackPrefix string) (tag string, anon bool) {
	r := g.r
	prefix := strings.ToLower(name) + "_"
	switch x := r.Intn(12); {
	case x < 3:
		prefix = ""
		if !bare {
			prefix = fallbackPrefix
		}
		g.feats["embedded:noprefix"] = true
	case x < 5:
		prefix = core.Pick(r, []string{strings.ToLower(name) + "__", name + "__", "__" + strings.ToLower(name) + "_", "p__q__" + strings.ToLower(name)})
		g.feats["embedded:prefix-double-underscore"] = true
	}
	anon = r.Chance(2, 5)
	switch {
	case !anon && prefix == "":
		tag = "embedded"
	case !anon:
		tag = "embedded;embeddedPrefix:" + prefix
	case prefix == "":
		tag = ""
		g.feats["embedded:anonymous"] = true
	case r.Bool():
		tag = "embeddedPrefix:" + prefix
		g.feats["embedded:anonymous"] = true
	default:
		tag = "embedded;embeddedPrefix:" + prefix
		g.feats["embedded:anonymous+tag"] = true
	}
	return tag, anon
}

// embeddedType builds an unnamed struct type of 1..3 leaves (and possibly one nested embedded struct).
func (g *gen) embeddedType(depth int, inPtr bool) reflect.Type {
	r := g.r
	names := r.Perm(len(innerPool))
	n := r.Range(1, 3)
	var sf []reflect.StructField
	for i := 0; i < n; i++ {
		nc := innerPool[names[i]]
		k := g.pickKind(true)
		for inPtr && k.name == "self:*SelfJS" {
			// a sibling's default / auto time materialises a nil embedded pointer and would leave this
			// field a typed nil pointer; that input is exercised separately (see nilSelfProbe)
			k = g.pickKind(true)
		}
		sf = append(sf, g.leafField(nc, k, inPtr))
	}
	if depth < 2 && r.Chance(1, 4) {
		ptr := r.Chance(1, 3)
		inner := g.embeddedType(depth+1, inPtr || ptr)
		f := reflect.StructField{Name: "Sub", Type: inner, Tag: `gorm:"embedded;embeddedPrefix:sub_"`}
		if r.Chance(1, 3) {
			// Go embedding inside the embedded struct
			f.Anonymous = true
			f.Tag = core.Pick(r, []reflect.StructTag{`gorm:"embeddedPrefix:sub_"`, `gorm:"embeddedPrefix:sub__"`, `gorm:"embedded;embeddedPrefix:sub_"`})
			g.feats["embedded:nested-anonymous"] = true
		}
		if ptr {
			f.Type = reflect.PtrTo(inner)
			g.feats["embedded:nested-ptr"] = true
		} else {
			g.feats["embedded:nested"] = true
		}
		sf = append(sf, f)
	}
	return reflect.StructOf(sf)
}

var pkIntKinds = []kind{
	{"int", tOf(int(0)), "int", "plain", nil}, {"int16", tOf(int16(0)), "int", "plain", nil}, {"int32", tOf(int32(0)), "int", "plain", nil},
	{"int64", tOf(int64(0)), "int", "plain", nil}, {"uint", tOf(uint(0)), "uint", "plain", nil}, {"uint16", tOf(uint16(0)), "uint", "plain", nil},
	{"uint32", tOf(uint32(0)), "uint", "plain", nil}, {"uint64", tOf(uint64(0)), "uint", "plain", nil},
}

func sfield(name string, t reflect.Type, tag string) reflect.StructField {
	f := reflect.StructField{Name: name, Type: t}
	if tag != "" {
		f.Tag = reflect.StructTag(`gorm:"` + tag + `"`)
	}
	return f
}

// withColumn returns the field with its column: tag set to col.
func withColumn(sf reflect.StructField, col string) reflect.StructField {
	var parts []string
	for _, p := range strings.Split(sf.Tag.Get("gorm"), ";") {
		if p == "" || strings.HasPrefix(strings.ToLower(p), "column:") {
			continue
		}
		parts = append(parts, p)
	}
	parts = append(parts, "column:"+col)
	sf.Tag = reflect.StructTag(`gorm:"` + strings.Join(parts, ";") + `"`)
	return sf
}

// aliasColumn turns the model into a "legacy table": the column of one top-level field A is spelled
// exactly like the Go name of ANOTHER field B (top-level, key or leaf of an embedded struct) whose own
// column is a different one; in the crossed variant B's column is spelled like A's Go name as well.
// A name handed to gorm as a column (a result column, a map key) then also is the Go name of another
// field. Fields are changed in place; the caller's column-uniqueness check still applies.
func (g *gen) aliasColumn(all []reflect.StructField) {
	r := g.r
	var leaves []*leaf
	walk(reflect.StructOf(all), "", nil, nil, &leaves)
	lcols := map[string]int{}
	for _, l := range leaves {
		lcols[strings.ToLower(l.col)]++
	}
	top := map[string]int{} // Go name -> index in all, for top-level leaf fields that may be renamed
	var as []int
	for i, f := range all {
		tag := parseTag(f.Tag.Get("gorm"))
		_, emb := tag["EMBEDDED"]
		_, pk := tag["PRIMARYKEY"]
		if ((emb || f.Anonymous) && isEmbeddable(f.Type)) || pk || f.Name == "ID" || f.Name == "Payload" {
			continue
		}
		top[f.Name] = i
		as = append(as, i)
	}
	if len(as) == 0 {
		return
	}
	ai := core.Pick(r, as)
	a := all[ai]
	type cand struct {
		name   string
		rename int // index in all of B when its own column has to move out of the way, else -1
	}
	var bs []cand
	for _, l := range leaves {
		last := l.path[len(l.path)-1]
		if last == "Payload" || (len(l.path) == 1 && last == a.Name) {
			continue
		}
		n := lcols[strings.ToLower(last)]
		bi, isTop := top[last]
		switch {
		case n == 0:
			bs = append(bs, cand{last, -1})
		case n == 1 && isTop && len(l.path) == 1 && strings.ToLower(l.col) == strings.ToLower(last) && lcols["c_"+strings.ToLower(l.col)] == 0:
			bs = append(bs, cand{last, bi})
		}
	}
	if len(bs) == 0 {
		return
	}
	b := core.Pick(r, bs)
	bi, isTop := top[b.name]
	// crossed: B is a top-level field too and takes A's Go name as its column
	if isTop && all[bi].Name == b.name && r.Chance(1, 3) {
		all[bi] = withColumn(all[bi], a.Name)
		all[ai] = withColumn(a, b.name)
		g.feats["column:crossed-go-names"] = true
		return
	}
	if b.rename >= 0 {
		all[b.rename] = withColumn(all[b.rename], "c_"+snake(b.name))
	}
	all[ai] = withColumn(a, b.name)
	g.feats["column:go-name-of-other-field"] = true
}

// withoutColumn returns the field without a column: tag.
func withoutColumn(sf reflect.StructField) reflect.StructField {
	var parts []string
	for _, p := range strings.Split(sf.Tag.Get("gorm"), ";") {
		if p == "" || strings.HasPrefix(strings.ToLower(p), "column:") {
			continue
		}
		parts = append(parts, p)
	}
	sf.Tag = ""
	if len(parts) > 0 {
		sf.Tag = reflect.StructTag(`gorm:"` + strings.Join(parts, ";") + `"`)
	}
	return sf
}

// shadowColumn adds one top-level field whose column is the column of a field INSIDE an embedded
// struct (anonymous or tagged, value or pointer, possibly nested): either by carrying the same Go name
// (what Go itself calls shadowing, when the struct is embedded anonymously) or by a column: tag that
// spells the inner field's column. The new field is declared directly before or directly after the
// embedded struct. The outer field is on the shorter path: it is an ordinary leaf of the model, the
// inner field becomes model.shadowed (never set, must stay zero).
func (g *gen) shadowColumn(all []reflect.StructField, spare []nameCol) []reflect.StructField {
	r := g.r
	var leaves []*leaf
	walk(reflect.StructOf(all), "", nil, nil, &leaves)
	cols := map[string]int{}
	for _, l := range leaves {
		cols[strings.ToLower(l.col)]++
	}
	top := map[string]int{}
	for i, f := range all {
		top[f.Name] = i
	}
	var cands []*leaf
	for _, l := range leaves {
		if len(l.path) >= 2 && cols[strings.ToLower(l.col)] == 1 {
			cands = append(cands, l)
		}
	}
	if len(cands) == 0 || len(spare) == 0 {
		return all
	}
	// every second time one whose column is its plain name, if there is one: the outer field can then
	// shadow it the Go way, by carrying the same Go name
	var plain []*leaf
	for _, l := range cands {
		if _, taken := top[l.path[len(l.path)-1]]; !taken && l.col == snake(l.path[len(l.path)-1]) {
			plain = append(plain, l)
		}
	}
	if len(plain) > 0 && r.Bool() {
		cands = plain
	}
	in := core.Pick(r, cands)
	last := in.path[len(in.path)-1]
	f := g.leafField(spare[0], g.pickKind(true), false)
	_, taken := top[last]
	if in.col == snake(last) && !taken && r.Chance(2, 3) {
		f = withoutColumn(f)
		f.Name = last
		g.feats["shadow:by-go-name"] = true
	} else {
		f = withColumn(f, in.col)
		g.feats["shadow:by-column-tag"] = true
	}
	ei := top[in.path[0]]
	how := "tagged"
	if all[ei].Anonymous {
		how = "anonymous"
		if _, ok := parseTag(all[ei].Tag.Get("gorm"))["EMBEDDED"]; ok {
			how = "anonymous+tag"
		}
	}
	if len(in.path) > 2 {
		how += ":nested"
	}
	at := ei
	if r.Bool() {
		at = ei + 1
		g.feats["shadow:"+how+":outer-after-embedded"] = true
	} else {
		g.feats["shadow:"+how+":outer-before-embedded"] = true
	}
	out := append([]reflect.StructField(nil), all[:at]...)
	out = append(out, f)
	return append(out, all[at:]...)
}

// genModel generates one model type.
func genModel(r *core.Rand, n int) (*model, []string, []string) {
	g := &gen{r: r, feats: map[string]bool{}, kinds: map[string]bool{}}
	table := core.Pick(r, []string{"items", "user_profiles", "t", "orders2", "acct"}) + fmt.Sprint(n%7)
	var keys, rest []reflect.StructField
	pkKind := core.Pick(r, []string{"auto", "auto", "auto", "auto-implicit", "auto-renamed", "noauto", "string", "composite", "composite3"})
	g.feats["pk:"+pkKind] = true
	switch pkKind {
	case "auto":
		k := core.Pick(r, pkIntKinds)
		g.feats["pk:auto:"+k.name] = true
		keys = append(keys, sfield("ID", k.typ, "primaryKey"))
	case "auto-implicit":
		k := core.Pick(r, pkIntKinds)
		g.feats["pk:auto:"+k.name] = true
		keys = append(keys, sfield("ID", k.typ, ""))
	case "auto-renamed":
		k := core.Pick(r, pkIntKinds)
		g.feats["pk:auto:"+k.name] = true
		keys = append(keys, sfield("Key", k.typ, "primaryKey;column:pk_key"))
	case "noauto":
		keys = append(keys, sfield("ID", core.Pick(r, pkIntKinds).typ, "primaryKey;autoIncrement:false"))
	case "string":
		keys = append(keys, sfield("Code", tOf(""), "primaryKey"))
	case "composite":
		keys = append(keys, sfield("K1", tOf(int64(0)), "primaryKey;autoIncrement:false"), sfield("K2", tOf(""), "primaryKey"))
	case "composite3":
		keys = append(keys, sfield("K1", tOf(""), "primaryKey"), sfield("K2", tOf(uint32(0)), "primaryKey;autoIncrement:false"), sfield("K3", tOf(""), "primaryKey;column:third"))
	}
	rest = append(rest, sfield("Payload", tOf(""), ""))
	names := r.Perm(len(namePool))
	nf := r.Range(2, 8)
	nemb := 0
	for i := 0; i < nf; i++ {
		nc := namePool[names[i]]
		if nemb < 2 && r.Chance(1, 6) {
			nemb++
			ptr := r.Chance(2, 5)
			et := g.embeddedType(1, ptr)
			// without a prefix two embedded structs could collide on a column: only the first goes bare
			tag, anon := g.embedTag(nc.goName, nemb == 1, "e2_")
			if ptr {
				et = reflect.PtrTo(et)
				g.feats["embedded:ptr"] = true
			} else {
				g.feats["embedded:value"] = true
			}
			ef := sfield(nc.goName, et, tag)
			ef.Anonymous = anon
			rest = append(rest, ef)
			continue
		}
		k := g.pickKind(true)
		if nc.goName == "CreatedAt" || nc.goName == "UpdatedAt" {
			k = core.Pick(r, []kind{scalarKinds[15], scalarKinds[15], scalarKinds[4], scalarKinds[9]})
			g.feats["autotime:byname:"+k.name] = true
		}
		rest = append(rest, g.leafField(nc, k, false))
	}
	// field order: key first in most models, anywhere in the others
	all := append(append([]reflect.StructField(nil), keys...), rest...)
	if r.Chance(1, 4) {
		g.aliasColumn(all)
	}
	if r.Chance(1, 3) {
		p := r.Perm(len(all))
		sh := make([]reflect.StructField, len(all))
		for i, j := range p {
			sh[i] = all[j]
		}
		all = sh
		g.feats["order:shuffled"] = true
	}
	if r.Chance(1, 2) {
		var spare []nameCol
		for _, j := range names[nf:] {
			if nc := namePool[j]; nc.goName != "CreatedAt" && nc.goName != "UpdatedAt" {
				spare = append(spare, nc)
			}
		}
		all = g.shadowColumn(all, spare)
	}
	// column names must be unique (an un-prefixed embedded struct may collide with a top-level name)
	m := newModel(reflect.StructOf(all), table, true)
	if m.ambiguous {
		return genModel(r, n)
	}
	seen := map[string]bool{}
	for _, l := range m.leaves {
		c := strings.ToLower(l.col)
		if seen[c] {
			return genModel(r, n)
		}
		seen[c] = true
	}
	feats := sortedKeys(g.feats)
	kinds := sortedKeys(g.kinds)
	sort.Strings(feats)
	return m, feats, kinds
}

package c03

import (
	"fmt"
	"testing"

	"gorm.io/driver/sqlite"
	"gorm.io/gorm"
	"gorm.io/gorm/logger"
)

type RUser struct {
	ID   uint
	Name string
	Age  int `gorm:"default:(abs(-42))"`
}
type RUser1 struct {
	ID   uint
	Name string
}
type RSer struct {
	ID   uint
	Tags []string `gorm:"serializer:json"`
	At   int64    `gorm:"serializer:unixtime;type:datetime"`
}
type RU struct {
	ID uint
	At uint `gorm:"serializer:unixtime;type:datetime"`
}
type Inner struct {
	When int64 `gorm:"serializer:unixtime;type:datetime"`
}
type RE struct {
	ID uint
	In *Inner `gorm:"embedded;embeddedPrefix:in_"`
}
type InnerG struct {
	L []int64 `gorm:"serializer:gob;type:bytes"`
}
type RG struct {
	ID uint
	In *InnerG `gorm:"embedded;embeddedPrefix:in_"`
}

func open(t *testing.T, name string) *gorm.DB {
	db, err := gorm.Open(sqlite.Open("file:"+name+"?mode=memory&cache=shared"), &gorm.Config{Logger: logger.Discard})
	if err != nil {
		t.Fatal(err)
	}
	return db
}

func try(name string, f func()) {
	defer func() {
		if p := recover(); p != nil {
			fmt.Printf("%s: PANIC %v\n", name, p)
		}
	}()
	f()
}

func TestRepro(t *testing.T) {
	db := open(t, "r1")
	db.AutoMigrate(&RUser{}, &RUser1{}, &RSer{}, &RU{}, &RE{}, &RG{})
	try("D1a []map by value, one returning column", func() {
		err := db.Model(&RUser1{}).Create([]map[string]interface{}{{"name": "a"}, {"name": "b"}}).Error
		fmt.Println("D1a:", err)
	})
	try("D1b []map by value, two returning columns", func() {
		err := db.Model(&RUser{}).Create([]map[string]interface{}{{"name": "a"}, {"name": "b"}}).Error
		fmt.Println("D1b:", err)
	})
	db = open(t, "r2")
	db.AutoMigrate(&RUser{}, &RUser1{}, &RSer{}, &RU{}, &RE{}, &RG{})
	try("D2 &[]map", func() {
		ms := []map[string]interface{}{{"name": "a"}, {"name": "b"}}
		err := db.Model(&RUser1{}).Create(&ms).Error
		fmt.Println("D2:", err, "len", len(ms), ms)
	})
	try("D4 map read with serializer", func() {
		fmt.Println("create:", db.Create(&RSer{Tags: []string{"x"}, At: 5}).Error)
		m := map[string]interface{}{}
		fmt.Println("D4 First(&map):", db.Model(&RSer{}).First(&m).Error, m)
		var ms []map[string]interface{}
		fmt.Println("D4 Find(&[]map):", db.Model(&RSer{}).Find(&ms).Error, ms)
		var out RSer
		fmt.Println("struct:", db.First(&out).Error, out)
	})
	try("D5 nil embedded ptr + unixtime", func() {
		fmt.Println("D5 unixtime:", db.Create(&RE{}).Error)
		fmt.Println("D5 unixtime non-nil:", db.Create(&RE{In: &Inner{When: 3}}).Error)
	})
	try("D5 nil embedded ptr + gob", func() {
		fmt.Println("D5 gob:", db.Create(&RG{}).Error)
		fmt.Println("D5 gob non-nil:", db.Create(&RG{In: &InnerG{}}).Error)
	})
	try("D3 unixtime uint", func() {
		fmt.Println("D3:", db.Create(&RU{At: 5}).Error)
	})
}

package c03

import (
	"fmt"
	"reflect"
	"strings"

	"gorm.io/gorm"
	"gorm.io/gorm/clause"
)

// Destinations that are used MORE THAN ONCE. What a read returns must be the record that was read,
// whatever the destination held before: a map variable handed to several Take/First calls (or to
// ScanRows inside a rows.Next loop), a struct variable filled again, a slice handed to Find a second
// time. The records of a database differ in which columns are NULL, which members a serialized value
// has, which embedded pointers are nil, so whatever a read fails to overwrite shows up as a value of
// the previous record.

const reuseLimit = 8

// keyed returns up to limit records whose row can be addressed by key, in random order.
func (e *env) keyed(limit int) []*rec {
	var ok []*rec
	for _, rc := range e.all {
		if rc.keyBad || len(rc.pkArgs) != len(e.m.pks) {
			continue
		}
		ok = append(ok, rc)
	}
	var out []*rec
	for _, i := range e.r.Perm(len(ok)) {
		if len(out) >= limit {
			break
		}
		out = append(out, ok[i])
	}
	return out
}

func keyList(recs []*rec) string {
	var parts []string
	for _, rc := range recs {
		parts = append(parts, fmt.Sprint(rc.pkArgs))
	}
	return strings.Join(parts, ", ")
}

// nonNil lists the columns of the model that hold a value in the map.
func (e *env) nonNil(mp map[string]interface{}) map[string]bool {
	out := map[string]bool{}
	for _, l := range e.m.leaves {
		if v, ok := mp[l.col]; ok && v != nil {
			out[l.col] = true
		}
	}
	return out
}

// countNullAfterValue counts the columns that are NULL in this read and held a value before it.
func (e *env) countNullAfterValue(before map[string]bool, mp map[string]interface{}, counter string) {
	for _, l := range e.m.leaves {
		if v, ok := mp[l.col]; ok && v == nil && before[l.col] {
			e.c.Inc(counter)
		}
	}
}

// reusedMapTake: one map variable is the destination of consecutive Take / First calls.
// bound: with Model(&T{}) (typed scan destinations) or with Table(name) (driver types).
func (e *env) reusedMapTake(bound string) {
	recs := e.keyed(reuseLimit)
	if len(recs) < 2 {
		return
	}
	where := e.pkWhere()
	var mp map[string]interface{} // nil before the first read: gorm allocates it
	decl := "var m map[string]interface{}"
	if e.r.Bool() {
		mp = map[string]interface{}{}
		decl = "m := map[string]interface{}{}"
	}
	byValue := e.r.Chance(1, 3)
	var recvS string
	if bound == "model" {
		recvS = e.recv() + ".Model(&T{})"
	} else {
		recvS = fmt.Sprintf("db.Table(%q)", e.m.table)
	}
	e.op("%s; for key in [%s] { %s.Where(%q, key...).Take|First(&m) }   // ONE map for all reads", decl, keyList(recs), recvS, where)
	for i, rc := range recs {
		var tx *gorm.DB
		if bound == "model" {
			tx = e.tx().Model(e.newModelPtr())
		} else {
			tx = e.h.DB.Table(e.m.table)
		}
		fin := "Take"
		if bound == "model" && (i+e.readRot)%2 == 1 {
			fin = "First" // First needs a model to order by
		}
		before := e.nonNil(mp)
		var dest interface{} = &mp
		arg := "&m"
		if byValue && mp != nil {
			dest, arg = mp, "m"
		}
		var res *gorm.DB
		if fin == "First" {
			res = tx.Where(where, rc.pkArgs...).First(dest)
		} else {
			res = tx.Where(where, rc.pkArgs...).Take(dest)
		}
		how := fmt.Sprintf("%s.Where(%q, %v).%s(%s) [read %d into the same map]", recvS, where, rc.pkArgs, fin, arg, i+1)
		if res.Error != nil {
			e.problem("read-reused-map/error", "%s: %v", how, res.Error)
			continue
		}
		e.compareMapSig("read-reused-map", rc, mp, how)
		e.countNullAfterValue(before, mp, "reused_map_null_after_value")
		e.c.Inc("reused_map_reads")
	}
	if !e.callBad {
		e.c.Shape(e.fs, e.opt, "reused-map/"+bound)
	}
}

// scanRowsLoop: for rows.Next() { db.ScanRows(rows, &dest) } with dest declared outside of the loop.
func (e *env) scanRowsLoop(kind string, byPayload map[string]*rec) {
	m := e.m
	rows, err := e.tx().Model(e.newModelPtr()).Rows()
	recvS := e.recv() + ".Model(&T{})"
	if err != nil {
		e.problem("scanrows/error", "%s.Rows(): %v", recvS, err)
		return
	}
	defer rows.Close()
	var mp map[string]interface{}
	out := reflect.New(m.typ)
	if kind == "map" {
		if e.r.Bool() {
			mp = map[string]interface{}{}
		}
		e.op("rows, _ := %s.Rows(); var m map[string]interface{}; for rows.Next() { %s.ScanRows(rows, &m) }", recvS, recvS)
	} else {
		e.op("rows, _ := %s.Rows(); var t T; for rows.Next() { %s.ScanRows(rows, &t) }", recvS, e.recv())
	}
	n := 0
	seen := map[string]bool{}
	for rows.Next() && n <= len(e.all)+1 {
		n++
		var p string
		var cmp func(rc *rec, how string)
		if kind == "map" {
			before := e.nonNil(mp)
			if err := e.tx().Model(e.newModelPtr()).ScanRows(rows, &mp); err != nil {
				e.problem("scanrows-map/error", "%s.ScanRows(rows, &m) at row %d: %v", recvS, n, err)
				return
			}
			p, _, _ = cellString(mp[m.payload.col])
			cmp = func(rc *rec, how string) {
				e.compareMapSig("scanrows-map", rc, mp, how)
				e.countNullAfterValue(before, mp, "scanrows_map_null_after_value")
			}
		} else {
			if err := e.tx().ScanRows(rows, out.Interface()); err != nil {
				e.problem("scanrows-struct/error", "%s.ScanRows(rows, &t) at row %d: %v", e.recv(), n, err)
				return
			}
			p = getLeaf(out.Elem(), m.payload).String()
			cmp = func(rc *rec, how string) { e.compareStructSig("scanrows-struct", rc, out.Elem(), how) }
		}
		how := fmt.Sprintf("ScanRows(rows, &%s) [row %d of the loop, same destination for all rows]", map[string]string{"map": "m", "struct": "t"}[kind], n)
		rc := byPayload[p]
		if rc == nil || seen[p] {
			if !e.failed {
				e.problem("scanrows-"+kind+"/count", "%s delivered a record with payload %q that was not created (or twice)", how, p)
			}
			continue
		}
		seen[p] = true
		cmp(rc, how)
		e.c.Inc("scanrows_" + kind + "_reads")
	}
	if !e.failed && n != len(e.all) {
		e.problem("scanrows-"+kind+"/count", "the rows.Next loop ran %d times, %d records were created", n, len(e.all))
	}
	if !e.callBad {
		e.c.Shape(e.fs, e.opt, "scanrows/"+kind)
	}
}

// reusedStruct: a record is read a second time into the struct that already holds it (the key in the
// destination is a query condition for gorm and agrees with the Where). The second read must leave the
// record as it is: nothing appended to, merged into or dropped from what the struct holds.
// (A struct that still holds ANOTHER record is not a destination the statement speaks about: gorm
// leaves a field alone when its column is NULL, see Assumptions.)
func (e *env) reusedStruct() {
	recs := e.keyed(4)
	if len(recs) == 0 {
		return
	}
	where := e.pkWhere()
	e.op("for key in [%s] { var t T; %s.Where(%q, key...).First(&t); %s.Where(%q, key...).Take(&t) }   // the same struct twice", keyList(recs), e.recv(), where, e.recv(), where)
	for _, rc := range recs {
		out := reflect.New(e.m.typ)
		how := fmt.Sprintf("%s.Where(%q, %v).First(&t)", e.recv(), where, rc.pkArgs)
		if err := e.tx().Where(where, rc.pkArgs...).First(out.Interface()).Error; err != nil {
			e.problem("read-struct/error", "%s: %v", how, err)
			continue
		}
		how = fmt.Sprintf("%s; %s.Where(%q, %v).Take(&t) [second read of the record into the struct that holds it]", how, e.recv(), where, rc.pkArgs)
		if err := e.tx().Where(where, rc.pkArgs...).Take(out.Interface()).Error; err != nil {
			e.problem("read-reused-struct/error", "%s: %v", how, err)
			continue
		}
		e.compareStructSig("read-reused-struct", rc, out.Elem(), how)
		e.c.Inc("reused_struct_reads")
	}
	if !e.callBad {
		e.c.Shape(e.fs, e.opt, "reused-struct")
	}
}

// reusedStructOther: ONE struct variable is the destination of consecutive Take / First / Find calls
// for DIFFERENT records (the loop variable declared outside of the loop). Before every read the key
// fields of the variable are reset to their zero value (a non-zero key in the destination is a query
// condition for gorm). Every field whose column holds a value in the row just read must then equal
// what Create stored - whatever the field held before: a serialized struct whose members were zero in
// the new record, a map with other keys, a longer slice, a non-nil pointer. Fields whose column is
// NULL in the row are not looked at (gorm leaves such a field as it is, see Assumptions).
// byKey: the loop `t.K1, t.K2 = key; db.First(&t)` instead - the key fields of the variable are set to the key
// of the record asked for and there is no Where (only records whose non-zero key parts identify one row,
// see destkey.go; for the others of the round the key is zeroed and the Where form is used).
func (e *env) reusedStructOther(byKey bool) {
	var recs []*rec
	for _, rc := range e.keyed(6) {
		if rc.null != nil {
			recs = append(recs, rc)
		}
	}
	if len(recs) < 2 {
		return
	}
	where := e.pkWhere()
	var pkNames []string
	for _, l := range e.m.pks {
		pkNames = append(pkNames, "t."+l.name())
	}
	sigp := "read-reused-struct-other"
	if byKey {
		sigp = "read-reused-struct-other-by-destination-key"
		e.op("var t T; for key in [%s] { %s = key; %s.Take|First|Find(&t) }   // ONE struct for all reads, it carries the key of the record asked for, no Where", keyList(recs), strings.Join(pkNames, ", "), e.recv())
	} else {
		e.op("var t T; for key in [%s] { %s = <zero>; %s.Where(%q, key...).Take|First|Find(&t) }   // ONE struct for all reads", keyList(recs), strings.Join(pkNames, ", "), e.recv(), where)
	}
	out := reflect.New(e.m.typ)
	keyReads := 0
	for i, rc := range recs {
		for _, l := range e.m.pks {
			setLeaf(out, l, reflect.Zero(l.typ))
		}
		tx := e.tx()
		form := fmt.Sprintf("%s.Where(%q, %v)", e.recv(), where, rc.pkArgs)
		note := "key fields zeroed before the call"
		usedKey := false
		if vals, lits, _, ok := e.destKey(rc); byKey && ok {
			for k, l := range e.m.pks {
				setLeaf(out, l, vals[k])
			}
			form = e.recv()
			note = "key fields set to {" + strings.Join(lits, ", ") + "} before the call, no Where"
			usedKey = true
		} else {
			tx = tx.Where(where, rc.pkArgs...)
		}
		fin := []string{"Take", "First", "Find"}[(i+e.readRot)%3]
		var res *gorm.DB
		switch fin {
		case "Take":
			res = tx.Take(out.Interface())
		case "First":
			res = tx.First(out.Interface())
		default:
			res = tx.Find(out.Interface())
		}
		how := fmt.Sprintf("%s.%s(&t) [read %d into the same struct, %s]", form, fin, i+1, note)
		if res.Error != nil {
			e.problem(sigp+"/error", "%s: %v", how, res.Error)
			continue
		}
		if usedKey {
			keyReads++
			e.c.Inc("reused_struct_other_reads_by_destination_key")
		}
		for _, l := range e.m.leaves {
			x := rc.exp[l.ord]
			if !x.set || x.any {
				continue
			}
			if rc.null[l.ord] {
				e.c.Inc("reused_struct_other_null_columns_skipped")
				continue
			}
			if got := canonGo(l, getLeaf(out.Elem(), l)); got != x.canon {
				e.problem(sigp+"/"+l.kindName(), "%s: record %d field %s = %s, Create stored %s (the column holds a value)", how, rc.idx, l.name(), clip(got), clip(x.canon))
			}
			e.c.Inc("fields_compared_reused_struct_other")
		}
		e.checkShadowed(sigp, out.Elem(), how)
		e.c.Inc("reused_struct_other_reads")
	}
	if !e.callBad && !byKey {
		e.c.Shape(e.fs, e.opt, "reused-struct-other")
	}
	if !e.callBad && byKey && keyReads > 0 {
		e.c.Shape(e.fs, e.opt, "reused-struct-other-by-destination-key")
	}
}

// reusedSlice: Find into a slice that already holds the result of an earlier Find (other order, so
// that every position held a different record).
func (e *env) reusedSlice(ptrs bool, byPayload map[string]*rec) {
	m := e.m
	et := m.typ
	name := "[]T"
	if ptrs {
		et = reflect.PtrTo(m.typ)
		name = "[]*T"
	}
	sv := reflect.New(reflect.SliceOf(et))
	desc := clause.OrderByColumn{Column: clause.Column{Name: m.payload.col}, Desc: true}
	e.op("var s %s; %s.Order(clause.OrderByColumn{Column: clause.Column{Name: %q}, Desc: true}).Find(&s); %s.Find(&s)   // the same slice again", name, e.recv(), m.payload.col, e.recv())
	if err := e.tx().Order(desc).Find(sv.Interface()).Error; err != nil {
		e.problem("read-struct/error", "%s.Order(...).Find(&%s): %v", e.recv(), name, err)
		return
	}
	first := sv.Elem().Len()
	how := fmt.Sprintf("%s.Find(&s) [s %s held the %d records of an earlier Find]", e.recv(), name, first)
	if err := e.tx().Find(sv.Interface()).Error; err != nil {
		e.problem("find-reused-slice/error", "%s: %v", how, err)
		return
	}
	n := sv.Elem().Len()
	if !e.failed && n != len(e.all) {
		e.problem("find-reused-slice/count", "%s returned %d records, %d were created", how, n, len(e.all))
	}
	seen := map[string]bool{}
	for i := 0; i < n; i++ {
		v := sv.Elem().Index(i)
		if ptrs {
			if v.IsNil() {
				e.problem("find-reused-slice/count", "%s: element %d is nil", how, i)
				continue
			}
			v = v.Elem()
		}
		p := getLeaf(v, m.payload).String()
		rc := byPayload[p]
		if rc == nil || seen[p] {
			if !e.failed {
				e.problem("find-reused-slice/count", "%s returned a record with payload %q that was not created (or twice)", how, p)
			}
			continue
		}
		seen[p] = true
		e.compareStructSig("find-reused-slice", rc, v, how)
	}
	e.c.Inc("find_into_reused_slice")
	if !e.callBad {
		e.c.Shape(e.fs, e.opt, "reused-slice/"+name)
	}
}

// reuseRound runs the reused-destination reads of a database: the Model-bound map always, the other
// five in turn (each in every second database; the turn depends on case and back-fill mode only).
func (e *env) reuseRound(byPayload map[string]*rec) {
	e.current = "reused-destination"
	turn := e.c.Case
	for i, o := range opts {
		if o.name == e.opt {
			turn += i
		}
	}
	on := func(i int) bool { return (turn+i)%2 == 0 }
	if !e.modelMapBroken {
		e.reusedMapTake("model")
	}
	if on(0) {
		e.reusedMapTake("table")
	}
	if on(1) {
		e.reusedStruct()
	}
	e.reusedStructOther(false)
	if on(1) {
		e.reusedStructOther(true)
	}
	if on(0) {
		e.scanRowsLoop("map", byPayload)
	}
	if on(1) {
		e.scanRowsLoop("struct", byPayload)
	}
	if on(turn / 2) {
		e.reusedSlice(e.readRot%2 == 0, byPayload)
	}
}

package c03

import (
	"database/sql"
	"reflect"
	"time"

	"gorm.io/gorm"
)

// Static family: what reflect.StructOf cannot express — anonymous embedding (value and pointer),
// gorm.Model, TableName(), an anonymous struct with an embeddedPrefix tag, promoted fields (also the key)
// shadowed by outer fields.

type Base struct {
	ID        uint `gorm:"primaryKey"`
	CreatedAt time.Time
	UpdatedAt int64 `gorm:"autoUpdateTime:milli"`
}

type Audit struct {
	By  string
	At  *time.Time
	Rev int32 `gorm:"default:1"`
}

type SAnon struct {
	Base
	Payload string
	Title   *string
	*Audit
	Pt PointV
}

type Extra struct {
	Hits uint16
	Memo sql.NullString
}

type SModel struct {
	gorm.Model
	Payload string
	Score   float64 `gorm:"default:(1.5*2)"`
	Tag     Tagged
	Extra   Extra    `gorm:"embedded;embeddedPrefix:ex_"`
	Data    []string `gorm:"serializer:json"`
}

func (SModel) TableName() string { return "c03_custom_table" }

type Stamp struct {
	Seen  sql.NullTime
	Count *int64 `gorm:"default:7"`
}

type SComp struct {
	Region  string `gorm:"primaryKey"`
	Seq     int32  `gorm:"primaryKey;autoIncrement:false"`
	Payload string
	Stamp   `gorm:"embeddedPrefix:b_"`
	Raw     []byte
}

// SShadow: named structs embedded the Go way whose promoted fields are shadowed by outer fields of the
// same name, declared after the embedded struct (CreatedAt, By) and before it (Rev).
type SShadow struct {
	Base
	Payload   string
	CreatedAt int64 `gorm:"autoCreateTime:milli"` // shadows Base.CreatedAt (time.Time)
	Rev       uint8 `gorm:"default:3"`            // shadows Audit.Rev (int32, default:1), declared before *Audit
	*Audit
	By *string // shadows Audit.By (string)
}

// SShadowKey: the key of the embedded struct is shadowed by an outer key of another kind.
type SShadowKey struct {
	Base
	ID      string `gorm:"primaryKey"` // shadows Base.ID (uint)
	Payload string
	Note    sql.NullString `gorm:"column:legacy__note"`
}

type staticModel struct {
	name  string
	typ   reflect.Type
	table string
}

var staticModels = []staticModel{
	{"SAnon", reflect.TypeOf(SAnon{}), "s_anons"},
	{"SModel", reflect.TypeOf(SModel{}), "c03_custom_table"},
	{"SComp", reflect.TypeOf(SComp{}), "s_comps"},
	{"SShadow", reflect.TypeOf(SShadow{}), "s_shadows"},
	{"SShadowKey", reflect.TypeOf(SShadowKey{}), "s_shadow_keys"},
}

package c03

import (
	"database/sql"
	"reflect"
	"time"

	"gorm.io/gorm"
)

// Static family: what reflect.StructOf cannot express — anonymous embedding (value and pointer),
// gorm.Model, TableName(), an anonymous struct with an embeddedPrefix tag.

type Base struct {
	ID        uint `gorm:"primaryKey"`
	CreatedAt time.Time
	UpdatedAt int64 `gorm:"autoUpdateTime:milli"`
}

type Audit struct {
	By  string
	At  *time.Time
	Rev int32 `gorm:"default:1"`
}

type SAnon struct {
	Base
	Payload string
	Title   *string
	*Audit
	Pt PointV
}

type Extra struct {
	Hits uint16
	Memo sql.NullString
}

type SModel struct {
	gorm.Model
	Payload string
	Score   float64 `gorm:"default:(1.5*2)"`
	Tag     Tagged
	Extra   Extra    `gorm:"embedded;embeddedPrefix:ex_"`
	Data    []string `gorm:"serializer:json"`
}

func (SModel) TableName() string { return "c03_custom_table" }

type Stamp struct {
	Seen  sql.NullTime
	Count *int64 `gorm:"default:7"`
}

type SComp struct {
	Region  string `gorm:"primaryKey"`
	Seq     int32  `gorm:"primaryKey;autoIncrement:false"`
	Payload string
	Stamp   `gorm:"embeddedPrefix:b_"`
	Raw     []byte
}

type staticModel struct {
	name  string
	typ   reflect.Type
	table string
}

var staticModels = []staticModel{
	{"SAnon", reflect.TypeOf(SAnon{}), "s_anons"},
	{"SModel", reflect.TypeOf(SModel{}), "c03_custom_table"},
	{"SComp", reflect.TypeOf(SComp{}), "s_comps"},
}

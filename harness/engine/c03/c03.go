// Package c03: what Create stores is what queries load back, for every field kind and schema.
//
// Every case generates one model type (reflect.StructOf, or one of a small static family for what
// StructOf cannot express), and for each of the three key back-fill modes of callbacks/create.go
// (RETURNING, LastInsertId reversed, LastInsertId first-id) migrates a fresh in-memory database and
// runs every create shape (single, slice of values, slice of pointers, CreateInBatches, map, []map).
// After each Create the oracle (a) checks the in-memory records (keys, literal defaults, auto times,
// database defaults), (b) reads the row identified by each record's in-memory key with RAW SQL and
// compares a unique payload plus every column, (c) reads it back through gorm (First/Take/Find into
// fresh structs and maps) and compares field-wise with representation-aware equality. At the end of a
// database the records are read again into destinations that are used more than once (reuse.go): one map,
// one struct (the same record again; other records after the key fields were reset), ScanRows loops, slices.
// Keys that the caller gives take boundary values in their parts (zero value, negative, largest / smallest
// of the type), and records are also read through destinations that carry their key (destkey.go).
package c03

import (
	"fmt"
	"reflect"
	"regexp"
	"runtime/debug"
	"sort"
	"strings"
	"time"

	"gorm.io/gorm"

	"verif/core"
	"verif/vdb"
)

type expect struct {
	set       bool
	canon     string
	rawNullOK bool // leaf below a nil pointer-embedded struct: the column may hold NULL
	any       bool // database-generated and not predictable: taken from the stored row
	dbgen     bool // database-generated (function default with a zero Go value)
}

type rec struct {
	shape   string
	idx     int
	payload string
	ptr     reflect.Value          // *T (struct shapes)
	mp      map[string]interface{} // map shapes
	given   []reflect.Value        // per leaf; invalid = not handed to Create
	nilGrp  map[string]bool
	preset  bool
	exp     []expect
	pkArgs  []interface{}
	keyBad  bool
	lit     string
	null    []bool // per leaf: the stored row holds NULL in its column (set by checkStored)
	keyPat  string // boundary values among the parts of a given (non-auto) key: "z" zero, "n" negative, "M"/"m" largest / smallest of the type, "-" ordinary; "" = auto key
}

type env struct {
	c        *core.Ctx
	r        *core.Rand
	h        *vdb.Handle
	m        *model
	opt      string
	mixedPat string // ":preset-first" | ":interleaved" for a slice mixing preset and generated keys
	ret      bool
	firstID  bool
	ops      []string
	all      []*rec
	seq      int
	gap      int64
	big      int64
	viol     map[string][]string
	sigs     []string
	failed   bool
	callBad  bool
	info     map[string]interface{}
	readRot  int
	emitted  map[string]bool
	// set once the corresponding deviation was reported in this database, so that the rest of the
	// plan still exercises everything else
	current        string // the call in progress (for panic attribution)
	fs             string
	nilSelf        bool // the probe at the end of a database: a nil pointer to a self-serializing type
	allSet         bool // the first Create of a database sets every embedded pointer
	gapOK          bool
	noNilSerGroups bool
	modelMapBroken bool
	noEmptyNotNull map[string]bool // kind names: an empty byte slice in a NOT NULL column was refused (reported once)
	usedKeys       map[string]bool // key tuples handed to Create in this database (given keys only)
}

func (e *env) tx() *gorm.DB {
	if e.m.useTable {
		return e.h.DB.Table(e.m.table).Session(&gorm.Session{})
	}
	return e.h.DB.Session(&gorm.Session{})
}

func (e *env) recv() string {
	if e.m.useTable {
		return fmt.Sprintf("db.Table(%q)", e.m.table)
	}
	return "db"
}

func (e *env) op(f string, a ...interface{}) { e.ops = append(e.ops, fmt.Sprintf(f, a...)) }

func (e *env) problem(sig, f string, a ...interface{}) {
	if _, ok := e.viol[sig]; !ok {
		e.sigs = append(e.sigs, sig)
	}
	if len(e.viol[sig]) < 12 {
		e.viol[sig] = append(e.viol[sig], fmt.Sprintf(f, a...))
	}
	e.callBad = true
}

// flush emits one violation per signature collected during the current call.
func (e *env) flush() {
	for _, sig := range e.sigs {
		e.failed = true
		if e.emitted[sig] {
			// the same class again in the same database: counted, not reported a second time
			e.c.Inc("repeated_in_same_database")
			continue
		}
		e.emitted[sig] = true
		d := map[string]interface{}{"mode": e.opt, "table": e.m.table, "model": e.m.desc, "operations": append([]string(nil), e.ops...), "problems": e.viol[sig]}
		for k, v := range e.info {
			d[k] = v
		}
		e.c.Violation(sig, d)
	}
	e.viol = map[string][]string{}
	e.sigs = nil
}

// ---- struct access ---------------------------------------------------------------------------------

// getLeaf returns the leaf's value inside root (a struct); a nil embedded pointer on the way yields the zero value.
func getLeaf(root reflect.Value, l *leaf) reflect.Value {
	v := root
	for _, p := range l.path {
		for v.Kind() == reflect.Ptr {
			if v.IsNil() {
				return reflect.Zero(l.typ)
			}
			v = v.Elem()
		}
		v = v.FieldByName(p)
	}
	return v
}

func setLeaf(root reflect.Value, l *leaf, val reflect.Value) {
	v := root
	for _, p := range l.path {
		for v.Kind() == reflect.Ptr {
			if v.IsNil() {
				v.Set(reflect.New(v.Type().Elem()))
			}
			v = v.Elem()
		}
		v = v.FieldByName(p)
	}
	v.Set(val)
}

func (e *env) nextPayload() string {
	e.seq++
	return fmt.Sprintf("p%d-%s-%d", e.c.Case, e.opt[:3], e.seq)
}

var keyDecor = []string{"", " x", "'q", "é", "%_", "\"d", "/a b"}

// keyValue returns a fresh unique value for a non-auto key leaf.
func (e *env) keyValue(l *leaf, k int) reflect.Value {
	v := reflect.New(l.typ).Elem()
	switch l.class {
	case "int":
		v.SetInt(int64(e.seq*3 + 1 + k))
	case "uint":
		v.SetUint(uint64(e.seq*3 + 1 + k))
	case "string":
		v.SetString(fmt.Sprintf("k%d%s", e.seq, keyDecor[(e.seq+k)%len(keyDecor)]))
	default:
		panic("keyValue: " + l.class)
	}
	return v
}

// newRec plans the values of one record. keyMode: zero | big | gap (auto key only).
// fnZero: per function-default leaf, whether this Create call leaves it zero (uniform per call:
// SQLite has no DEFAULT keyword in VALUES, a mixed slice is refused by the database).
func (e *env) newRec(shape string, idx int, keyMode string, fnZero map[int]bool, forMap bool) *rec {
	r := e.r
	m := e.m
	rc := &rec{shape: shape, idx: idx, payload: e.nextPayload(), given: make([]reflect.Value, len(m.leaves)), exp: make([]expect, len(m.leaves)), nilGrp: map[string]bool{}}
	if !forMap {
		for _, g := range m.groups {
			rc.nilGrp[g] = r.Chance(1, 3) && !e.allSet
		}
		for _, l := range m.leaves {
			// a function-default leaf that this call sets non-zero must exist in every record;
			// after the nil-embedded-pointer/serializer deviation was reported, stop provoking it
			if (l.defFn != "" && !fnZero[l.ord]) || (e.noNilSerGroups && (l.class == "gob" || l.class == "unixtime")) {
				for _, g := range l.ptrGroups {
					rc.nilGrp[g] = false
				}
			}
		}
	}
	composite := len(m.pks) > 1
	for _, l := range m.leaves {
		unset := false
		for _, g := range l.ptrGroups {
			unset = unset || rc.nilGrp[g]
		}
		if unset {
			continue
		}
		var v reflect.Value
		switch {
		case l == m.payload:
			v = reflect.ValueOf(rc.payload)
		case l.auto:
			switch keyMode {
			case "big":
				e.big += int64(r.Range(8, 10)) // farther apart than one call can generate keys in between
				v = reflect.New(l.typ).Elem()
				setNum(v, e.big)
				rc.preset = true
			case "gap":
				e.gap++
				v = reflect.New(l.typ).Elem()
				setNum(v, e.gap)
				rc.preset = true
			default:
				v = reflect.Zero(l.typ)
			}
		case l.pk:
			if composite && l == m.pks[0] && l.class != "string" {
				v = reflect.New(l.typ).Elem()
				setNum(v, int64(1+e.seq/2))
			} else if composite && l == m.pks[0] {
				v = reflect.ValueOf(fmt.Sprintf("g%d", e.seq/2))
			} else {
				v = e.keyValue(l, l.ord)
			}
		case l.defFn != "":
			if fnZero[l.ord] {
				v = reflect.Zero(l.typ)
			} else {
				v = genValue(r, l, 2)
			}
		case l.hasLit:
			if r.Bool() {
				v = reflect.Zero(l.typ)
			} else {
				v = genValue(r, l, 0)
			}
		case l.autoTime != "":
			if r.Chance(2, 3) {
				v = reflect.Zero(l.typ)
			} else {
				v = genValue(r, l, 2)
			}
		case e.nilSelf && l.typ == ptrTo(SelfJS{}):
			v = reflect.Zero(l.typ)
		case l.notNull && l.class == "bytes":
			v = genValue(r, l, 2) // never nil (NULL is not representable in the column); empty is
			for e.noEmptyNotNull[l.kindName()] && v.Len() == 0 {
				v = genValue(r, l, 2)
			}
		default:
			v = genValue(r, l, 0)
		}
		rc.given[l.ord] = v
	}
	e.boundaryKey(rc)
	return rc
}

// boundaryKey puts boundary values into the parts of a key that the caller gives (single non-auto key,
// composite keys): the zero value of the part's type (0, "") - a legal key part, stored by Create like any
// other value - and negative numbers in signed parts. The key tuple stays unique in the table: a tuple that
// was already handed to Create in this database is not generated a second time.
func (e *env) boundaryKey(rc *rec) {
	m := e.m
	if m.auto != nil {
		return
	}
	for _, l := range m.pks {
		if !rc.given[l.ord].IsValid() {
			return
		}
	}
	tuple := func(vals []reflect.Value) string {
		var parts []string
		for i, l := range m.pks {
			parts = append(parts, canonGo(l, vals[i]))
		}
		return strings.Join(parts, "\x00")
	}
	vals := make([]reflect.Value, len(m.pks))
	pat := make([]byte, len(m.pks))
	for i, l := range m.pks {
		vals[i] = rc.given[l.ord]
		pat[i] = '-'
	}
	r := e.r
	zeroAt := -1
	if len(m.pks) > 1 && r.Chance(1, 3) {
		zeroAt = r.Intn(len(m.pks))
	} else if len(m.pks) == 1 && r.Chance(1, 8) {
		zeroAt = 0
	}
	for i, l := range m.pks {
		switch {
		case i == zeroAt:
			vals[i] = reflect.Zero(l.typ)
			pat[i] = 'z'
		case l.class == "int" && r.Chance(1, 5):
			v := reflect.New(l.typ).Elem()
			v.SetInt(-vals[i].Int())
			vals[i] = v
			pat[i] = 'n'
		case (l.class == "int" || l.class == "uint") && r.Chance(1, 10):
			// the largest / smallest value of the part's type (representable in the column: below 2^63)
			v := reflect.New(l.typ).Elem()
			bits := uint(l.typ.Bits())
			if l.class == "uint" {
				if bits == 64 {
					bits = 63
				}
				v.SetUint(1<<bits - 1)
				pat[i] = 'M'
			} else if r.Bool() {
				v.SetInt(1<<(bits-1) - 1)
				pat[i] = 'M'
			} else {
				v.SetInt(-1 << (bits - 1))
				pat[i] = 'm'
			}
			vals[i] = v
		}
	}
	if e.usedKeys[tuple(vals)] {
		// keep the ordinary values (unique by construction)
		for i, l := range m.pks {
			vals[i] = rc.given[l.ord]
			pat[i] = '-'
		}
	}
	e.usedKeys[tuple(vals)] = true
	for i, l := range m.pks {
		rc.given[l.ord] = vals[i]
	}
	rc.keyPat = string(pat)
}

// countKeyPat counts the boundary values among the key parts of a record that Create accepted.
func (e *env) countKeyPat(rc *rec) {
	for _, ch := range rc.keyPat {
		switch ch {
		case 'z':
			e.c.Inc("given_key_parts_zero_value")
		case 'n':
			e.c.Inc("given_key_parts_negative")
		case 'M':
			e.c.Inc("given_key_parts_largest_of_type")
		case 'm':
			e.c.Inc("given_key_parts_smallest_of_type")
		}
	}
}

func setNum(v reflect.Value, x int64) {
	if v.Kind() >= reflect.Uint && v.Kind() <= reflect.Uint64 {
		v.SetUint(uint64(x))
	} else {
		v.SetInt(x)
	}
}

func (e *env) literal(rc *rec) string {
	var parts []string
	for g, isNil := range rc.nilGrp {
		if isNil {
			parts = append(parts, g+":nil")
		}
	}
	sort.Strings(parts)
	for _, l := range e.m.leaves {
		if g := rc.given[l.ord]; g.IsValid() {
			c := canonGo(l, g)
			if len(c) > 60 {
				c = c[:60] + "…"
			}
			parts = append(parts, l.name()+":"+c)
		}
	}
	return "{" + strings.Join(parts, ", ") + "}"
}

func (e *env) build(rc *rec) {
	rc.ptr = reflect.New(e.m.typ)
	for _, l := range e.m.leaves {
		if g := rc.given[l.ord]; g.IsValid() {
			setLeaf(rc.ptr, l, g)
		}
	}
	rc.lit = e.literal(rc)
}

// ---- expectations ------------------------------------------------------------------------------------

func fnExpect(l *leaf) expect {
	x := expect{set: true, dbgen: true}
	switch l.defFn {
	case "abs":
		x.canon = "42"
	case "mul":
		x.canon = "3"
	case "eq":
		x.canon = "true"
	case "lower":
		x.canon = "s:abc"
	case "dt":
		x.canon = "t:2001-02-03T04:05:06Z"
	case "null":
		x.canon = "NULL"
	case "now":
		x.any = true
	default:
		panic("fnExpect " + l.defFn)
	}
	return x
}

func inWindow(l *leaf, mem reflect.Value, before, after int64) bool {
	for k := before + 1; k <= after; k++ {
		t := vdb.Epoch.Add(time.Duration(k) * time.Second)
		var want int64
		switch l.autoTime {
		case "time":
			if mem.Interface().(time.Time).Equal(t) {
				return true
			}
			continue
		case "sec":
			want = t.Unix()
		case "milli":
			want = t.UnixMilli()
		case "nano":
			want = t.UnixNano()
		}
		if l.class == "uint" {
			if mem.Uint() == uint64(want) {
				return true
			}
		} else if mem.Int() == want {
			return true
		}
	}
	return false
}

func (e *env) keySig(rc *rec, mixed bool) string {
	if mixed {
		return "key-backfill/mixed-preset-keys" + e.mixedPat + "/" + e.opt
	}
	return "key-backfill/" + rc.shape + "/" + e.opt
}

// expectStruct derives what every column of the record's row must hold, and checks the in-memory record.
func (e *env) expectStruct(rc *rec, before, after int64, mixed bool) {
	root := rc.ptr.Elem()
	for _, l := range e.m.leaves {
		mem := getLeaf(root, l)
		memC := canonGo(l, mem)
		g := rc.given[l.ord]
		zero := !g.IsValid() || g.IsZero()
		x := expect{set: true}
		switch {
		case l.auto && zero:
			if mem.IsZero() {
				e.problem(e.keySig(rc, mixed), "record %d (payload %q): primary key %s is still zero after Create", rc.idx, rc.payload, l.name())
				rc.keyBad = true
			}
			x.canon = memC
			e.c.Inc("auto_keys_backfilled")
		case !zero:
			x.canon = canonGo(l, g)
		case l.hasLit:
			x.canon = canonGo(l, literalValue(l, l.defLit))
			e.c.Inc("literal_defaults_applied")
		case l.autoTime != "":
			if !inWindow(l, mem, before, after) {
				e.problem("autotime/"+l.autoTime, "record %d: %s (auto %s) = %s after Create, not a NowFunc value of this call (logical clock ticks %d..%d)", rc.idx, l.name(), l.autoTime, memC, before+1, after)
			}
			x.canon = memC
			e.c.Inc("auto_times_filled")
		case l.defFn != "":
			x = fnExpect(l)
		default:
			x.canon = canonGo(l, reflect.Zero(l.typ))
			x.rawNullOK = !g.IsValid()
		}
		rc.exp[l.ord] = x
		if !x.dbgen && memC != x.canon {
			e.problem("in-memory/"+l.kindName(), "record %d: in-memory %s = %s after Create, expected %s", rc.idx, l.name(), memC, x.canon)
		}
	}
	e.checkShadowed("in-memory", root, fmt.Sprintf("record %d after Create", rc.idx))
	rc.pkArgs = nil
	for _, l := range e.m.pks {
		rc.pkArgs = append(rc.pkArgs, getLeaf(root, l).Interface())
	}
}

func (e *env) pkWhere() string {
	var conds []string
	for _, l := range e.m.pks {
		conds = append(conds, "`"+l.col+"` = ?")
	}
	return strings.Join(conds, " AND ")
}

// checkStored reads the row the in-memory key identifies with raw SQL.
func (e *env) checkStored(rc *rec, mixed bool) bool {
	m := e.m
	rows, err := vdb.RowMaps(e.h.SQL, "SELECT * FROM `"+m.table+"` WHERE "+e.pkWhere(), rc.pkArgs...)
	if err != nil {
		sig := "raw-read"
		if mixed {
			sig = e.keySig(rc, mixed) // e.g. an in-memory uint64 key that wrapped below zero cannot even be bound
		}
		e.problem(sig, "raw SELECT by the in-memory key %v: %v", rc.pkArgs, err)
		rc.keyBad = true
		return false
	}
	if len(rows) != 1 {
		e.problem(e.keySig(rc, mixed), "record %d (payload %q): %d rows carry its in-memory key %v", rc.idx, rc.payload, len(rows), rc.pkArgs)
		rc.keyBad = true
		return false
	}
	row := rows[0]
	rc.null = make([]bool, len(m.leaves))
	for _, l := range m.leaves {
		cell, ok := row[l.col]
		rc.null[l.ord] = !ok || cell == nil
	}
	if pay := canonRaw(m.payload, row[m.payload.col]); pay != "s:"+rc.payload {
		e.problem(e.keySig(rc, mixed), "record %d: its in-memory key %v identifies the row with payload %s, its own payload is %q", rc.idx, rc.pkArgs, pay, rc.payload)
		rc.keyBad = true
		return false
	}
	e.c.Inc("rows_identified_by_in_memory_key")
	var root reflect.Value
	if rc.ptr.IsValid() {
		root = rc.ptr.Elem()
	}
	for _, l := range m.leaves {
		x := &rc.exp[l.ord]
		if !x.set {
			continue
		}
		cell, ok := row[l.col]
		if !ok {
			e.problem("column-missing", "column %q (field %s) is not in the row read back (columns %v)", l.col, l.name(), colNames(row))
			continue
		}
		got := canonRaw(l, cell)
		if x.any {
			if cell == nil {
				e.problem("stored/"+l.kindName(), "record %d: column %s holds NULL, its database default should have produced a value", rc.idx, l.col)
			}
			x.canon, x.any = got, false
		} else if l.class == "bytes" && x.canon == "b:" && cell == nil {
			// its own class: a byte slice that is empty but not nil is a value (a BLOB of length zero), the column
			// holds NULL instead. The reads that follow are compared with what the column holds.
			e.problem("stored/"+emptyBytesSig+l.kindName(), "record %d: column %s holds NULL, Create was handed an empty non-nil %s (a value of length zero; only a nil slice is NULL)", rc.idx, l.col, l.kindName())
			x.canon = "NULL"
		} else if got != x.canon && !(x.rawNullOK && cell == nil) {
			e.problem("stored/"+l.kindName(), "record %d: column %s stores %s, Create was handed %s", rc.idx, l.col, clip(got), clip(x.canon))
		}
		if x.dbgen && root.IsValid() {
			memC := canonGo(l, getLeaf(root, l))
			zeroC := canonGo(l, reflect.Zero(l.typ))
			switch {
			case memC == x.canon:
				e.c.Inc("db_defaults_backfilled_in_memory")
			case !e.ret && memC == zeroC:
				e.c.Inc("db_defaults_readable_only")
			default:
				e.problem("default-backfill/"+e.opt, "record %d: in-memory %s = %s after Create, its row stores the database default %s", rc.idx, l.name(), memC, x.canon)
			}
		}
		e.c.Inc("cells_compared_raw")
	}
	return true
}

const emptyBytesSig = "empty-byte-slice-as-NULL/"

// alignEmptyBytes: for a record whose row cannot be addressed by its in-memory key (so that checkStored
// did not compare its columns) the row is looked up by its payload, to see whether an empty non-nil byte
// slice became NULL: that class keeps its own signature, and the reads that follow (Find of the whole
// table, matched by payload) are compared with what the column holds.
func (e *env) alignEmptyBytes(rc *rec) {
	need := false
	for _, l := range e.m.leaves {
		need = need || (l.class == "bytes" && rc.exp[l.ord].set && rc.exp[l.ord].canon == "b:")
	}
	if !need {
		return
	}
	rows, err := vdb.RowMaps(e.h.SQL, "SELECT * FROM `"+e.m.table+"` WHERE `"+e.m.payload.col+"` = ?", rc.payload)
	if err != nil || len(rows) != 1 {
		return
	}
	for _, l := range e.m.leaves {
		x := &rc.exp[l.ord]
		if l.class != "bytes" || !x.set || x.canon != "b:" {
			continue
		}
		if cell, ok := rows[0][l.col]; ok && cell == nil {
			e.problem("stored/"+emptyBytesSig+l.kindName(), "record %d (row found by its payload %q): column %s holds NULL, Create was handed an empty non-nil %s (a value of length zero; only a nil slice is NULL)", rc.idx, rc.payload, l.col, l.kindName())
			x.canon = "NULL"
		}
	}
}

// emptyBytesRefused: the database refused the INSERT because a NOT NULL column was sent NULL, and that
// column belongs to a byte-slice field that is empty but not nil in one of the records: the same class
// as stored/empty-byte-slice-as-NULL, met as an error. Returns the kind name ("" otherwise).
func (e *env) emptyBytesRefused(recs []*rec, msg string) string {
	for _, l := range e.m.leaves {
		if l.class != "bytes" || !l.notNull || !strings.Contains(msg, "NOT NULL constraint failed: "+e.m.table+"."+l.col) {
			continue
		}
		for _, rc := range recs {
			if g := rc.given[l.ord]; g.IsValid() && canonGo(l, g) == "b:" {
				e.noEmptyNotNull[l.kindName()] = true
				return l.kindName()
			}
		}
	}
	return ""
}

func colNames(row map[string]interface{}) []string {
	var out []string
	for k := range row {
		out = append(out, k)
	}
	sort.Strings(out)
	return out
}

func clip(s string) string {
	if len(s) > 120 {
		return s[:120] + "…"
	}
	return s
}

func (e *env) compareStruct(rc *rec, out reflect.Value, how string) {
	e.compareStructSig("read-struct", rc, out, how)
}

// compareStructSig: sigp is the class of read (fresh destination, reused destination, ScanRows ...).
func (e *env) compareStructSig(sigp string, rc *rec, out reflect.Value, how string) {
	for _, l := range e.m.leaves {
		x := rc.exp[l.ord]
		if !x.set || x.any || (l.pk && rc.keyBad) {
			continue
		}
		if got := canonGo(l, getLeaf(out, l)); got != x.canon {
			e.problem(sigp+"/"+l.kindName(), "%s: record %d field %s = %s, Create stored %s", how, rc.idx, l.name(), clip(got), clip(x.canon))
		}
		e.c.Inc("fields_compared_struct")
	}
	e.checkShadowed(sigp, out, how)
}

// checkShadowed: a field whose column belongs to a field on a shorter path was left zero by the
// harness; it must still be zero (in the record handed to Create and in every struct that was loaded).
func (e *env) checkShadowed(sigp string, root reflect.Value, how string) {
	for _, l := range e.m.shadowed {
		if v := getLeaf(root, l); !v.IsZero() {
			if sigp == "in-memory" && l.defFn != "" && e.ret {
				// one class with the create error below: RETURNING lists the shared column once per field with a
				// database default, and Scan hands the second copy to the second field declared with that column
				e.problem("shadowed-default-field/returning-in-memory", "%s: field %s = %s; it was left zero and its column %q belongs to the field on the shorter path, whose returned database default it now holds", how, l.name(), clip(canonGo(l, v)), l.col)
				continue
			}
			e.problem(sigp+"/shadowed-field", "%s: field %s = %s; it was left zero, and its column %q belongs to the field on the shorter path", how, l.name(), clip(canonGo(l, v)), l.col)
		}
		e.c.Inc("shadowed_fields_checked_zero")
	}
}

func (e *env) compareMap(rc *rec, mp map[string]interface{}, how string) {
	e.compareMapSig("read-map", rc, mp, how)
}

func (e *env) compareMapSig(sigp string, rc *rec, mp map[string]interface{}, how string) {
	for _, l := range e.m.leaves {
		x := rc.exp[l.ord]
		if !x.set || x.any || (l.pk && rc.keyBad) {
			continue
		}
		v, ok := mp[l.col]
		if !ok {
			e.problem(sigp+"/column-missing", "%s: no key %q in the map (keys %v)", how, l.col, colNames(mp))
			continue
		}
		got := canonAny(l, v)
		if got != x.canon && !(x.rawNullOK && v == nil) {
			e.problem(sigp+"/"+l.kindName(), "%s: record %d key %s = %s (%T), Create stored %s", how, rc.idx, l.col, clip(got), v, clip(x.canon))
		}
		e.c.Inc("fields_compared_map")
	}
}

func (e *env) newModelPtr() interface{} { return reflect.New(e.m.typ).Interface() }

// checkReads reads the record back through gorm by its key.
func (e *env) checkReads(rc *rec) {
	where := e.pkWhere()
	e.readRot++
	// struct destination
	out := reflect.New(e.m.typ)
	var res *gorm.DB
	how := "First"
	switch e.readRot % 5 {
	case 0, 2:
		how = "Take"
		res = e.tx().Where(where, rc.pkArgs...).Take(out.Interface())
	case 4:
		how = "Find" // Find into a single struct
		res = e.tx().Where(where, rc.pkArgs...).Find(out.Interface())
	default:
		res = e.tx().Where(where, rc.pkArgs...).First(out.Interface())
	}
	how = fmt.Sprintf("%s.Where(%q, %v).%s(&T{})", e.recv(), where, rc.pkArgs, how)
	if res.Error != nil {
		e.problem("read-struct/error", "%s: %v", how, res.Error)
	} else {
		e.compareStruct(rc, out.Elem(), how)
		e.c.Inc("struct_reads")
	}
	// struct destination that carries the key of the record (no Where): every record with a zero key
	// part, every third of the others
	if e.hasZeroKeyPart(rc) || e.readRot%3 == 0 {
		e.destKeyRead(rc, []string{"First", "Take", "Find"}[(e.readRot/3)%3], "")
	}
	// map destination
	mp := map[string]interface{}{}
	rot := e.readRot % 4
	if e.modelMapBroken {
		rot = 2
	}
	switch rot {
	case 3:
		how = fmt.Sprintf("%s.Model(&T{}).Where(%q, %v).Find(&map)", e.recv(), where, rc.pkArgs)
		res = e.tx().Model(e.newModelPtr()).Where(where, rc.pkArgs...).Find(&mp)
	case 0:
		how = fmt.Sprintf("%s.Model(&T{}).Where(%q, %v).Take(&map)", e.recv(), where, rc.pkArgs)
		res = e.tx().Model(e.newModelPtr()).Where(where, rc.pkArgs...).Take(&mp)
	case 1:
		how = fmt.Sprintf("%s.Model(&T{}).Where(%q, %v).First(&map)", e.recv(), where, rc.pkArgs)
		res = e.tx().Model(e.newModelPtr()).Where(where, rc.pkArgs...).First(&mp)
	default:
		how = fmt.Sprintf("db.Table(%q).Where(%q, %v).Take(&map)", e.m.table, where, rc.pkArgs)
		res = e.h.DB.Table(e.m.table).Where(where, rc.pkArgs...).Take(&mp)
	}
	if res.Error != nil {
		e.problem(e.mapErrSig(res.Error), "%s: %v", how, res.Error)
	} else {
		e.compareMap(rc, mp, how)
		e.c.Inc("map_reads")
	}
}

var widthRe = regexp.MustCompile(`\b(u?int)\d+\b`)

var scanErrCol = regexp.MustCompile(`Scan error on column index \d+, name "([^"]+)"`)

// mapErrSig classifies an error of a map read: a scan error on the column of a serializer field
// (gorm allocates the field's Go type as scan destination when a Model is set) is one class.
func (e *env) mapErrSig(err error) string {
	if mm := scanErrCol.FindStringSubmatch(err.Error()); mm != nil {
		for _, l := range e.m.leaves {
			if l.col == mm[1] && l.serializer != "" {
				e.modelMapBroken = true
				return "read-map/model-with-serializer-field/" + l.serializer
			}
		}
	}
	return "read-map/error"
}

// ---- create shapes -----------------------------------------------------------------------------------

var structShapes = []string{"single", "slice-values", "slice-pointers", "slice-pointers-byvalue", "batches-values", "batches-pointers"}
var mapShapes = []string{"map", "map-pointer", "maps", "maps-pointer"}

// liftBig moves the next explicit key above everything the table holds (the harness reads the
// sequence state so that its own preset keys never collide with generated ones).
func (e *env) liftBig() {
	if e.m.auto == nil {
		return
	}
	if ids := vdb.Ints(e.h.SQL, "SELECT coalesce(max(`"+e.m.auto.col+"`),0) FROM `"+e.m.table+"`"); len(ids) == 1 && e.big < ids[0]+10 {
		e.big = ids[0] + 10
	}
}

func (e *env) runStructShape(shape string, forceKey string) {
	r := e.r
	m := e.m
	e.current = "Create/" + shape
	if e.nilSelf {
		e.current = "Create/single-nil-self-serializer-pointer"
	}
	if forceKey == "" {
		e.liftBig()
	}
	n := 1
	if shape != "single" {
		n = core.Pick(r, []int{1, 2, 2, 3, 3, 4, 5, 6}) // < 8: see the spacing of explicit keys
	}
	// key modes of the call
	modes := make([]string, n)
	callMode := "zero"
	if m.auto != nil {
		switch {
		case forceKey != "":
			callMode = forceKey
		case n == 1:
			callMode = core.Pick(r, []string{"zero", "zero", "zero", "big"})
		default:
			callMode = core.Pick(r, []string{"zero", "zero", "zero", "zero", "zero", "big", "mixed", "mixed"})
		}
		if callMode == "mixed" && e.firstID {
			callMode = "zero" // the first-id emulation is only faithful when every row's key is generated
		}
		some := false
		for i := range modes {
			switch callMode {
			case "mixed":
				modes[i] = core.Pick(r, []string{"zero", "zero", "gap", "big"})
				if modes[i] == "gap" && (e.gap >= 45 || !e.gapOK) {
					modes[i] = "big"
				}
				some = some || modes[i] != "zero"
			default:
				modes[i] = callMode
			}
		}
		if callMode == "mixed" && !some {
			modes[r.Intn(n)] = "big"
		}
	} else {
		callMode = "given"
	}
	mixed := callMode == "mixed"
	// where the records with preset keys stand: all before the first record whose key is generated
	// (":preset-first") or some after one (":interleaved"; counting back from LastInsertId is then wrong
	// by construction, KF-C03-1)
	e.mixedPat = ""
	if mixed {
		e.mixedPat = ":preset-first"
		seenZero := false
		for _, md := range modes {
			if md == "zero" {
				seenZero = true
			} else if seenZero {
				e.mixedPat = ":interleaved"
			}
		}
	}
	fnZero := map[int]bool{}
	for _, l := range m.leaves {
		if l.defFn != "" {
			fnZero[l.ord] = r.Chance(2, 3)
		}
	}
	recs := make([]*rec, n)
	for i := range recs {
		recs[i] = e.newRec(shape, i, modes[i], fnZero, false)
		e.build(recs[i])
	}
	var lits []string
	for _, rc := range recs {
		lits = append(lits, rc.lit)
	}
	var res *gorm.DB
	before := e.h.Clock.Ticks()
	switch shape {
	case "single":
		e.op("%s.Create(&T%s)", e.recv(), lits[0])
		res = e.tx().Create(recs[0].ptr.Interface())
	case "slice-values", "batches-values":
		sv := reflect.New(reflect.SliceOf(m.typ))
		sv.Elem().Set(reflect.MakeSlice(reflect.SliceOf(m.typ), n, n))
		for i, rc := range recs {
			sv.Elem().Index(i).Set(rc.ptr.Elem())
		}
		if shape == "slice-values" {
			e.op("%s.Create(&[]T{%s})", e.recv(), strings.Join(lits, ", "))
			res = e.tx().Create(sv.Interface())
		} else {
			bs := r.Range(1, n+1)
			e.op("%s.CreateInBatches(&[]T{%s}, %d)", e.recv(), strings.Join(lits, ", "), bs)
			res = e.tx().CreateInBatches(sv.Interface(), bs)
			shape = fmt.Sprintf("%s/n%d/b%d", shape, n, bs)
		}
		for i, rc := range recs {
			rc.ptr = sv.Elem().Index(i).Addr()
		}
	default:
		sp := reflect.New(reflect.SliceOf(reflect.PtrTo(m.typ)))
		sp.Elem().Set(reflect.MakeSlice(reflect.SliceOf(reflect.PtrTo(m.typ)), n, n))
		for i, rc := range recs {
			sp.Elem().Index(i).Set(rc.ptr)
		}
		switch shape {
		case "slice-pointers":
			e.op("%s.Create(&[]*T{%s})", e.recv(), strings.Join(lits, ", "))
			res = e.tx().Create(sp.Interface())
		case "slice-pointers-byvalue":
			e.op("%s.Create([]*T{%s})", e.recv(), strings.Join(lits, ", "))
			res = e.tx().Create(sp.Elem().Interface())
		default:
			bs := r.Range(1, n+1)
			e.op("%s.CreateInBatches(&[]*T{%s}, %d)", e.recv(), strings.Join(lits, ", "), bs)
			res = e.tx().CreateInBatches(sp.Interface(), bs)
			shape = fmt.Sprintf("%s/n%d/b%d", shape, n, bs)
		}
	}
	after := e.h.Clock.Ticks()
	e.callBad = false
	if res.Error != nil {
		e.ops[len(e.ops)-1] += fmt.Sprintf("  -> error: %v", res.Error)
		sig := "create-error/" + recs[0].shape
		if mixed {
			sig = "create-error/mixed-preset-keys" + e.mixedPat + "/" + e.opt
		}
		// a gob / unixtime serializer field below a nil pointer-embedded struct
		msg := res.Error.Error()
		for _, cl := range []string{"gob", "unixtime"} {
			if (cl == "gob" && !strings.Contains(msg, "gob: cannot encode nil value")) || (cl == "unixtime" && !strings.Contains(msg, "invalid field type <nil> for UnixSecondSerializer")) {
				continue
			}
			for _, rc := range recs {
				for _, l := range m.leaves {
					if l.class == cl && !rc.given[l.ord].IsValid() {
						sig = "create-error/serializer-below-nil-embedded-pointer/" + cl
						e.noNilSerGroups = true
					}
				}
			}
		}
		if k := e.emptyBytesRefused(recs, msg); k != "" {
			sig = "create-error/" + emptyBytesSig + k
		}
		if mm := scanErrCol.FindStringSubmatch(msg); mm != nil && e.ret {
			for _, l := range m.shadowed {
				if l.col == mm[1] && l.defFn != "" {
					sig = "shadowed-default-field/returning-create-error"
				}
			}
		}
		e.problem(sig, "Create returned %v", res.Error)
		e.flush()
		return
	}
	e.c.Add("records_created", n)
	for _, rc := range recs {
		e.countKeyPat(rc)
		e.expectStruct(rc, before, after, mixed)
		if !rc.keyBad && e.checkStored(rc, mixed) {
			e.checkReads(rc)
		} else {
			e.alignEmptyBytes(rc)
		}
		e.all = append(e.all, rc)
	}
	if e.callBad {
		e.flush()
		return
	}
	e.c.Shape(e.fs, e.opt, shape+"/"+callMode)
	e.c.Inc("creates_" + recs[0].shape)
	if m.auto != nil {
		e.c.Inc("keymode_" + callMode)
	}
}

// mapValue converts a leaf-typed value into what a caller would put into a map.
func (e *env) mapValue(l *leaf, gv reflect.Value) interface{} {
	r := e.r
	switch l.wrap {
	case "ptr":
		if gv.IsNil() {
			if r.Bool() {
				return nil
			}
			return gv.Interface()
		}
		if l.class == "labelp" || r.Bool() {
			return gv.Interface()
		}
		return gv.Elem().Interface()
	case "null":
		if r.Chance(1, 3) {
			return gv.Interface()
		}
		if !gv.FieldByName("Valid").Bool() {
			return nil
		}
		return gv.Field(0).Interface()
	}
	return gv.Interface()
}

func (e *env) runMapShape(shape string) {
	r := e.r
	m := e.m
	e.current = "Create/" + shape
	e.liftBig()
	n := 1
	if strings.HasPrefix(shape, "maps") {
		n = r.Range(1, 4)
	}
	if shape == "maps-batches" {
		n = r.Range(2, 5)
	}
	preset := m.auto != nil && r.Chance(1, 5)
	recs := make([]*rec, n)
	var maps []map[string]interface{}
	var lits []string
	for i := range recs {
		mode := "zero"
		if preset {
			mode = "big"
		}
		rc := e.newRec(shape, i, mode, nil, true)
		rc.mp = map[string]interface{}{}
		var parts []string
		for _, l := range m.leaves {
			gv := rc.given[l.ord]
			keep := gv.IsValid() && l.serializer == "" && !(l.auto && !preset)
			if keep && !l.pk && !l.notNull && l != m.payload && r.Chance(1, 4) {
				keep = false
			}
			if !keep {
				rc.given[l.ord] = reflect.Value{}
				continue
			}
			key := l.col
			// the Go field name as key, unless that name is the column of another field (see Assumptions)
			// and no other field at any depth carries the same Go name
			if len(l.path) == 1 && !m.colSet[l.path[0]] && m.goNames[l.path[0]] == 1 && r.Chance(1, 3) {
				key = l.path[0]
			}
			v := e.mapValue(l, gv)
			rc.mp[key] = v
			rc.exp[l.ord] = expect{set: true, canon: canonGo(l, gv)}
			parts = append(parts, fmt.Sprintf("%q: (%T) %s", key, v, clip60(canonGo(l, gv))))
		}
		sort.Strings(parts)
		rc.lit = "{" + strings.Join(parts, ", ") + "}"
		recs[i] = rc
		maps = append(maps, rc.mp)
		lits = append(lits, rc.lit)
	}
	var res *gorm.DB
	switch shape {
	case "map":
		e.op("%s.Model(&T{}).Create(map[string]interface{}%s)", e.recv(), lits[0])
		res = e.tx().Model(e.newModelPtr()).Create(maps[0])
	case "map-pointer":
		e.op("%s.Model(&T{}).Create(&map[string]interface{}%s)", e.recv(), lits[0])
		res = e.tx().Model(e.newModelPtr()).Create(&maps[0])
	case "maps":
		e.op("%s.Model(&T{}).Create([]map[string]interface{}{%s})", e.recv(), strings.Join(lits, ", "))
		res = e.tx().Model(e.newModelPtr()).Create(maps)
	case "maps-batches":
		// in batches AND from maps: every batch is a sub-slice handed to the create callbacks by value
		bs := r.Range(1, n+1)
		if r.Bool() {
			e.op("%s.Model(&T{}).CreateInBatches([]map[string]interface{}{%s}, %d)", e.recv(), strings.Join(lits, ", "), bs)
			res = e.tx().Model(e.newModelPtr()).CreateInBatches(maps, bs)
		} else {
			e.op("%s.Model(&T{}).CreateInBatches(&[]map[string]interface{}{%s}, %d)", e.recv(), strings.Join(lits, ", "), bs)
			res = e.tx().Model(e.newModelPtr()).CreateInBatches(&maps, bs)
		}
	default:
		e.op("%s.Model(&T{}).Create(&[]map[string]interface{}{%s})", e.recv(), strings.Join(lits, ", "))
		res = e.tx().Model(e.newModelPtr()).Create(&maps)
	}
	e.callBad = false
	if res.Error != nil {
		e.ops[len(e.ops)-1] += fmt.Sprintf("  -> error: %v", res.Error)
		sig := "create-error/" + shape + "/" + e.opt
		if k := e.emptyBytesRefused(recs, res.Error.Error()); k != "" {
			sig = "create-error/" + emptyBytesSig + k
		}
		e.problem(sig, "Create returned %v", res.Error)
		e.flush()
		return
	}
	e.c.Add("records_created", n)
	e.c.Add("records_created_from_maps", n)
	if len(maps) != n {
		e.problem("key-backfill/"+shape+"/"+e.opt, "the slice handed to Create held %d maps, it holds %d after Create; appended: %v", n, len(maps), maps[n:])
	}
	for _, rc := range recs {
		e.countKeyPat(rc)
		rc.pkArgs = nil
		for _, l := range m.pks {
			if l.auto && !preset {
				v, ok := rc.mp[l.col]
				if !ok || v == nil {
					e.problem(e.keySig(rc, false), "map %d (payload %q) carries no primary key %q after Create (keys now %v)", rc.idx, rc.payload, l.col, colNames(rc.mp))
					rc.keyBad = true
					break
				}
				rc.exp[l.ord] = expect{set: true, canon: canonAny(l, v)}
				rc.pkArgs = append(rc.pkArgs, v)
				e.c.Inc("auto_keys_backfilled_into_maps")
			} else {
				rc.pkArgs = append(rc.pkArgs, rc.given[l.ord].Interface())
			}
		}
		if !rc.keyBad && e.checkStored(rc, false) {
			e.checkReads(rc)
		} else {
			e.alignEmptyBytes(rc)
		}
		if rc.keyBad {
			// the row exists, but the final Find cannot say which one it is by key: keep it by payload
			for _, l := range m.pks {
				rc.exp[l.ord] = expect{}
			}
		}
		e.all = append(e.all, rc)
	}
	if e.callBad {
		e.flush()
		return
	}
	km := "zero"
	if preset {
		km = "preset"
	} else if m.auto == nil {
		km = "given"
	}
	e.c.Shape(e.fs, e.opt, fmt.Sprintf("%s/n%d/%s", shape, n, km))
	e.c.Inc("creates_" + shape)
}

func clip60(s string) string {
	if len(s) > 60 {
		return s[:60] + "…"
	}
	return s
}

// rereadAll reads the records one after the other (First / Take by key into fresh structs), keeps
// every result and compares them only after all reads of the round: a later read must not change
// what an earlier one returned (pooled scan destinations), nor inherit anything from it. Models with
// a self-serializing field repeat the round, so that the outcome does not hinge on which pooled
// object sync.Pool hands back.
func (e *env) rereadAll() {
	e.current = "First/Take"
	reps, limit := 1, 8
	for _, l := range e.m.leaves {
		if l.class == "self" {
			reps, limit = 3, len(e.all)
		}
	}
	where := e.pkWhere()
	type got struct {
		rc  *rec
		out reflect.Value
		how string
	}
	for rep := 0; rep < reps; rep++ {
		var outs []got
		for i, rc := range e.all {
			if len(outs) >= limit {
				break
			}
			if rc.keyBad || len(rc.pkArgs) != len(e.m.pks) {
				continue
			}
			out := reflect.New(e.m.typ)
			var res *gorm.DB
			how := "First"
			// the key condition as Where(...) or as inline condition of the finisher
			inline := (i+rep)%4 >= 2
			conds := append([]interface{}{where}, rc.pkArgs...)
			switch {
			case (i+rep)%2 == 0 && inline:
				how = "Take"
				res = e.tx().Take(out.Interface(), conds...)
			case (i+rep)%2 == 0:
				how = "Take"
				res = e.tx().Where(where, rc.pkArgs...).Take(out.Interface())
			case inline:
				res = e.tx().First(out.Interface(), conds...)
			default:
				res = e.tx().Where(where, rc.pkArgs...).First(out.Interface())
			}
			if inline {
				how = fmt.Sprintf("%s.%s(&T{}, %q, %v) [read %d of round %d, compared after the round]", e.recv(), how, where, rc.pkArgs, len(outs)+1, rep+1)
			} else {
				how = fmt.Sprintf("%s.Where(%q, %v).%s(&T{}) [read %d of round %d, compared after the round]", e.recv(), where, rc.pkArgs, how, len(outs)+1, rep+1)
			}
			if res.Error != nil {
				e.problem("read-struct/error", "%s: %v", how, res.Error)
				continue
			}
			outs = append(outs, got{rc, out, how})
		}
		for _, g := range outs {
			e.compareStruct(g.rc, g.out.Elem(), g.how)
		}
		e.c.Add("consecutive_reads_compared_after_round", len(outs))
	}
}

// finalFind loads the whole table through gorm and compares every record created in this database.
func (e *env) finalFind() {
	m := e.m
	e.current = "Find"
	e.callBad = false
	byPayload := map[string]*rec{}
	for _, rc := range e.all {
		byPayload[rc.payload] = rc
	}
	e.rereadAll()
	e.reuseRound(byPayload)
	e.destKeyRound()
	e.current = "Find"
	payOf := func(v reflect.Value) string { return getLeaf(v, m.payload).String() }
	check := func(how string, n int, at func(i int) (string, func(rc *rec))) {
		if !e.failed && n != len(e.all) {
			e.problem("find-count", "%s returned %d records, %d were created", how, n, len(e.all))
		}
		seen := map[string]bool{}
		for i := 0; i < n; i++ {
			p, cmp := at(i)
			rc := byPayload[p]
			if rc == nil || seen[p] {
				if !e.failed {
					e.problem("find-count", "%s returned a record with payload %q that was not created (or twice)", how, p)
				}
				continue
			}
			seen[p] = true
			cmp(rc)
		}
	}
	// []T
	sv := reflect.New(reflect.SliceOf(m.typ))
	how := e.recv() + ".Find(&[]T)"
	if err := e.tx().Find(sv.Interface()).Error; err != nil {
		e.problem("read-struct/error", "%s: %v", how, err)
	} else {
		check(how, sv.Elem().Len(), func(i int) (string, func(*rec)) {
			v := sv.Elem().Index(i)
			return payOf(v), func(rc *rec) { e.compareStruct(rc, v, how) }
		})
		e.c.Inc("find_all_struct")
	}
	// []*T
	sp := reflect.New(reflect.SliceOf(reflect.PtrTo(m.typ)))
	how = e.recv() + ".Find(&[]*T)"
	if err := e.tx().Find(sp.Interface()).Error; err != nil {
		e.problem("read-struct/error", "%s: %v", how, err)
	} else {
		check(how, sp.Elem().Len(), func(i int) (string, func(*rec)) {
			v := sp.Elem().Index(i)
			if v.IsNil() {
				return "<nil element>", func(*rec) {}
			}
			return payOf(v.Elem()), func(rc *rec) { e.compareStruct(rc, v.Elem(), how) }
		})
		e.c.Inc("find_all_struct")
	}
	// []map with and without Model
	for k := 0; k < 2; k++ {
		var ms []map[string]interface{}
		var err error
		if k == 0 {
			how = e.recv() + ".Model(&T{}).Find(&[]map[string]interface{})"
			err = e.tx().Model(e.newModelPtr()).Find(&ms).Error
		} else {
			how = fmt.Sprintf("db.Table(%q).Find(&[]map[string]interface{})", m.table)
			err = e.h.DB.Table(m.table).Find(&ms).Error
		}
		if err != nil {
			e.problem(e.mapErrSig(err), "%s: %v", how, err)
			continue
		}
		check(how, len(ms), func(i int) (string, func(*rec)) {
			p, _, _ := cellString(ms[i][m.payload.col])
			return p, func(rc *rec) { e.compareMap(rc, ms[i], how) }
		})
		e.c.Inc("find_all_map")
	}
	if e.callBad {
		e.flush()
	}
}

// ---- one database ----------------------------------------------------------------------------------------

type optSpec struct {
	name string
	o    vdb.Options
}

var opts = []optSpec{
	{"returning", vdb.Options{}},
	{"lastinsertid-reversed", vdb.Options{NoReturning: true}},
	{"lastinsertid-first", vdb.Options{FirstID: true, NoReturning: true}},
}

func panicStack() []string {
	lines := strings.Split(string(debug.Stack()), "\n")
	var out []string
	for _, l := range lines {
		if strings.Contains(l, "/repo/") {
			out = append(out, strings.TrimSpace(l))
		}
	}
	if len(out) > 14 {
		out = out[:14]
	}
	return out
}

func runEnv(c *core.Ctx, m *model, o optSpec, feats []string, info map[string]interface{}) (ok bool) {
	h, err := vdb.Open(o.o)
	if err != nil {
		panic(err)
	}
	defer h.Close()
	var e *env
	defer func() {
		if p := recover(); p != nil {
			msg := fmt.Sprint(p)
			d := map[string]interface{}{"panic": msg, "mode": o.name, "table": m.table, "model": m.desc, "features": feats, "stack": panicStack()}
			if e != nil {
				d["operations"] = e.ops
			}
			shape := "?"
			if e != nil {
				shape = e.current
			}
			c.Violation("panic/"+shape+": "+widthRe.ReplaceAllString(msg, "$1"), d)
			ok = false
		}
	}()
	e = &env{c: c, r: c.R.Fork(), h: h, m: m, opt: o.name, ret: !o.o.NoReturning, firstID: o.o.FirstID, viol: map[string][]string{}, emitted: map[string]bool{}, noEmptyNotNull: map[string]bool{}, usedKeys: map[string]bool{}, big: 1000, info: info, fs: strings.Join(feats, ",")}
	c.Logf("MODE %s table %s", o.name, m.table)
	if err := e.tx().AutoMigrate(e.newModelPtr()); err != nil {
		e.op("%s.AutoMigrate(&T{}) -> %v", e.recv(), err)
		e.problem("migrate-error", "AutoMigrate: %v", err)
		e.flush()
		return false
	}
	e.op("%s.AutoMigrate(&T{})", e.recv())
	// the columns the tags ask for
	cols, _ := vdb.RowMaps(h.SQL, "SELECT name FROM pragma_table_info(?)", m.table)
	have := map[string]bool{}
	for _, r := range cols {
		have[fmt.Sprint(r["name"])] = true
	}
	for _, l := range m.leaves {
		if !have[l.col] {
			e.problem("column-missing", "field %s: expected column %q, table has %v", l.name(), l.col, sortedKeys(have))
		}
	}
	if len(have) != len(m.leaves) {
		e.problem("column-missing", "table has %d columns %v, the model has %d leaf fields", len(have), sortedKeys(have), len(m.leaves))
	}
	if e.callBad {
		e.flush()
		return false
	}
	var plan []string
	plan = append(plan, structShapes...)
	plan = append(plan, mapShapes...)
	plan = append(plan, core.Pick(e.r, structShapes[1:]))
	p := e.r.Perm(len(plan))
	// a single Create with every field reachable goes first: a panic inside gorm (a Valuer or
	// serializer that cannot handle the field's kind) is then met outside a Transaction block, where
	// database/sql would dead-lock in the deferred Rollback
	e.allSet = true
	if m.auto != nil {
		// an explicit key above the sequence start leaves keys 1..49 free for later "gap" presets
		e.big = 42
		e.runStructShape("single", "big")
		e.gapOK = len(e.all) == 1 // only then are the keys below it known to be free
		e.big = 1000
	} else {
		e.runStructShape("single", "")
	}
	e.allSet = false
	for _, i := range p {
		if plan[i] == "maps" {
			continue
		}
		c.Logf("SHAPE %s", plan[i])
		if strings.HasPrefix(plan[i], "map") {
			e.runMapShape(plan[i])
		} else {
			e.runStructShape(plan[i], "")
		}
	}
	e.finalFind()
	// Create([]map) by value goes last: where it panics inside gorm, the database handle is lost
	c.Logf("SHAPE maps")
	e.runMapShape("maps")
	c.Logf("SHAPE maps-batches")
	e.runMapShape("maps-batches")
	// last of all (a panic costs the handle): a nil *SelfJS, whose Value method has a value receiver
	for _, l := range m.leaves {
		if l.typ == ptrTo(SelfJS{}) {
			c.Logf("SHAPE single with a nil %s", l.name())
			c.Inc("nil_self_serializer_pointer_probes")
			e.nilSelf = true
			e.runStructShape("single", "")
			e.nilSelf = false
			break
		}
	}
	if e.failed {
		return false
	}
	c.Inc("databases_without_any_problem")
	if c.WantSample() && c.Case%5 == 0 {
		ops := e.ops
		if len(ops) > 4 {
			ops = ops[:4]
		}
		c.Sample(map[string]interface{}{"model": m.desc, "mode": o.name, "first_operations": ops, "records_checked": len(e.all)})
	}
	return true
}

func run(c *core.Ctx) {
	var m *model
	var feats, kinds []string
	if c.Case%8 == 7 {
		sm := core.Pick(c.R, staticModels)
		m = newModel(sm.typ, sm.table, false)
		m.static = sm.name
		feats = []string{"static:" + sm.name}
		c.Inc("static_models")
	} else {
		m, feats, kinds = genModel(c.R, c.Case)
		c.Inc("generated_models")
	}
	for _, k := range kinds {
		c.Inc("kind_" + k)
	}
	for _, f := range feats {
		c.Inc("feat_" + f)
	}
	c.Logf("MODEL table=%s\n  %s", m.table, strings.Join(m.desc, "\n  "))
	info := map[string]interface{}{"features": feats}
	for _, o := range opts {
		runEnv(c, m, o, feats, info)
	}
}

var Engine = &core.Engine{
	ID:    "C03",
	Level: "exploration",
	Rule: "one generated model type per case (reflect.StructOf over 71 field kinds: all int/uint widths, floats, bool, string, []byte, time.Time, pointers to each (also *[]byte), sql.Null*, " +
		"NAMED types without Valuer/Scanner, which gorm only knows by their reflect.Kind (type Blob []byte, Status string, Level int32, Count uint16, Ratio float64; *Blob, *Status, *Level), " +
		"byte slices nil / EMPTY BUT NOT NIL / non-empty in every position (struct field, behind a pointer, map value of Create, NOT NULL column - there never nil): nil is NULL, empty is a value of length zero, and the two are told apart in the column (raw SQL), in loaded structs and in maps; " +
		"custom Scanner/Valuer types string-/struct-/slice-/map-based with value and pointer receivers, serializer json/gob/unixtime, types that are their own serializer with merging Scan (struct with omitempty members, map, slice, string; records get different member sets; serialized structs / maps / slices differ between records in which members are zero, which keys a map has and how long a slice is); tags column (plain, mixed case, an SQL keyword, and - in a quarter of the generated models - " +
		"the exact Go name of ANOTHER field of the model whose own column is a different one, also crossed: A `column:B`, B `column:A`; the other field may be a key or a leaf of an embedded struct; names with a DOUBLE UNDERSCORE - gorm's own separator for the columns of joined relations - as legacy separator, leading, trailing, twice, spelled <GoName>__<column>; names that need quoting: dash, blank, #, leading digit), literal and " +
		"database-function defaults, default:null, autoCreateTime/autoUpdateTime (time, s, ms, ns; by tag and by name), not null, <- permissions; value- and pointer-embedded structs with " +
		"embeddedPrefix (also with a double underscore, also none), nested; embedded by tag or ANONYMOUSLY (Go embedding via reflect.StructOf: no tag, embeddedPrefix tag only, both tags; also inside an embedded struct); " +
		"in about a quarter of the generated models one more top-level field SHADOWS a field inside an embedded struct - it carries the same Go name (Go's own shadowing of a promoted field) or a column: tag that spells the inner field's column - " +
		"and is declared directly before or directly after the embedded struct (anonymous / tagged, value / pointer, nested): the outer field is an ordinary field of the model, the inner one is left zero and must stay zero; keys: auto-increment (8 integer kinds, explicit/implicit/renamed), non-auto int, string, composite of 2 and 3; " +
		"the parts of a key that the caller gives (non-auto, composite) take BOUNDARY VALUES too: in a third of the records of a composite-key model one part is the ZERO VALUE of its type (0 or \"\", any position), a single non-auto key is 0 / \"\" once per database, signed parts are negative in a fifth of the records, and a tenth of the integer parts hold the largest / smallest value of their type; key tuples stay unique) or, every 8th case, one of 3 static models " +
		"(anonymous value/pointer embedding, gorm.Model, TableName, anonymous embeddedPrefix) and 2 static models whose named embedded structs have promoted fields shadowed by outer fields declared after and before them (auto time, default, pointer, and the primary key itself: uint key of the embedded struct shadowed by a string key); each model x {RETURNING, LastInsertId reversed, LastInsertId first-id} on a fresh database x " +
		"13 Create calls (single first, then in random order single, &[]T, &[]*T, []*T, CreateInBatches over values/pointers with batch 1..n+1, map, &map, &[]map, one more slice shape, and last []map by value and CreateInBatches over []map / &[]map; " +
		"auto keys zero / explicit / mixed within one slice) with boundary values; every record is read back by key with First / Take / Find into a fresh struct and with Model-bound Take / First / Find and Table-bound Take into a fresh map; " +
		"every record with a zero key part and every third of the others is also read through a DESTINATION THAT CARRIES ITS KEY and no Where (t := T{K1: 7, K2: \"\"}; db.First|Take|Find(&t)): the payload tells which record was loaded (signature read-struct-by-destination-key[/zero-key-part]/other-record), then every field is compared; " +
		"the same for up to 8 records (those with a zero key part first) at the end of the database, when the table holds every record; " +
		"then consecutive First/Take of the records compared only after the round (3 rounds for self-serializing models; the key condition as Where(...) or as inline condition First(&t, \"k = ?\", key) in turn); then DESTINATIONS USED MORE THAN ONCE: one map variable (nil or empty at first, by pointer or by value) as destination of up to 8 consecutive Take/First " +
		"calls for different records (Model-bound in every database; Table-bound, and the four that follow, in every second database), a record read a second time into the struct that holds it, " +
		"in every database ONE struct variable as destination of up to 6 consecutive Take / First / Find calls for DIFFERENT records (its key fields reset to zero before each call; every field whose column holds a value in the row read is compared, signature read-reused-struct-other/; in every second database also the loop that SETS the key fields of the variable to the key of the record asked for and calls First / Take / Find without Where, signature read-reused-struct-other-by-destination-key/), rows.Next loops with ScanRows into one map / one struct declared outside of the loop, " +
		"Find into a slice ([]T or []*T) that still holds an earlier Find in another order (records differ in which columns are NULL: a column that is NULL after it held a value in the same destination is counted, reused_map_null_after_value); " +
		"and Find of the whole table into []T, []*T and []map with and without Model; " +
		"distinct = (feature set of the model, back-fill mode, create shape incl. slice length, batch size and key mode); non-trivial = the Create succeeded, every record's row was found by " +
		"its in-memory key with raw SQL, and every column and every gorm read (First/Take/Find into structs and maps) was compared; a reused-destination round (reused-map/model|table, reused-struct, reused-struct-other[-by-destination-key], scanrows/map|struct, reused-slice) and the closing destination-key round (destination-key[/zero-key-part]) count when all their reads compared equal",
	Assumptions: []string{
		"a Go-zero value in a field carrying a default tag means 'use the default' (gorm's documented rule); the expected value is then the tag's literal or the database's result",
		"values are representable in the column type: uint64 < 2^63, valid UTF-8 without NUL, no NaN/Inf, times in years 1..9999 with whole-minute zone offsets; times are compared as instants, -0 == +0",
		"a nil byte slice ([]byte, a named byte slice, or what a *[]byte points to) is NULL and an empty non-nil one is a value of length zero: the column must hold NULL for the first and a non-NULL value for the second, and a loaded field / map value must be nil resp. non-nil and empty ('NULLs' and 'boundary values' are both in the quantifier, so the two are different field values). A non-nil pointer to a nil slice and a nil pointer are both NULL and not told apart. An empty non-nil byte slice that arrives as NULL (or is refused by a NOT NULL column) has its own signatures, (stored|create-error)/empty-byte-slice-as-NULL/<kind>; after it was reported the reads of that record are compared with what the column holds, and the NOT NULL variant is not provoked again in that database",
		"named types without Valuer/Scanner are generated for the kinds byte slice, string, signed and unsigned integer and float; a named bool is not generated (database/sql cannot assign the int64 that SQLite and MySQL drivers deliver for a boolean column to a named bool type: 'unsupported Scan, storing driver.Value type int64 into type *Flag', a limit below gorm), nor named time types or byte arrays",
		"nullable wrappers are generated canonical (Valid=false implies a zero payload) and compared as (Valid, value-if-valid)",
		"a nil pointer-embedded struct equals one whose leaf fields are all zero; its columns may hold NULL",
		"slice- and map-based Scanner/Valuer types carry a type: tag or GormDataType; unixtime serializer fields carry type:datetime (go-sqlite3 only parses date/datetime/timestamp columns into time.Time)",
		"within one Create call a field with a database-function default is zero in all records or in none (SQLite has no DEFAULT keyword in VALUES; a mixed slice is refused by the database, not stored wrongly)",
		"in first-id mode slices never mix preset and generated keys (the emulation of MySQL's LastInsertId is only faithful when every row's key is generated)",
		"maps handed to Create carry no serializer fields (gorm does not serialize map values) and only the given keys are compared; defaults and auto times are not applied to maps",
		"without RETURNING a database-function default need only be readable afterwards, not back-filled into the in-memory record",
		"gob-serialized values never contain empty non-nil slices/maps (gob does not distinguish them from nil) and are never nil pointers (gob refuses them)",
		"RowsAffected is not part of the statement and is not checked",
		"a map destination may be used any number of times: after a read every column key of the map holds the value of the row just read (NULL = nil); keys of the map that are not columns are not looked at. Rows() + ScanRows is taken as one of the query read paths of the title ('what queries load back'); its violations carry their own signatures (scanrows-map/, scanrows-struct/)",
		"a struct destination is fresh, already holds the very record that is read again, or still holds ANOTHER record with its key fields reset to their zero value or set to the key of the record asked for. In the last case only the fields whose column holds a value in the row read are compared: gorm leaves a field as it is when its column is NULL, and the statement does not say what such a field of a used destination must hold (ScanRows, which zeroes the struct itself, is compared on every field)",
		"a struct destination may carry the primary key of the record it asks for (gorm's documented way to say which record First / Take / Find load: the non-zero key fields of the destination become the condition). Such a read is generated only with the complete key of a record that Create wrote, parts that are the zero value included, and only when at least one part is non-zero and the non-zero parts select exactly one row of the table (counted with raw SQL before the call): it must then load that record. A key whose parts are all zero (the destination carries no condition), non-zero parts shared with another row, and destinations carrying only some parts of a key are not generated - which row is loaded then is not fixed by the statement; non-key fields of such a destination are zero (fresh) or hold another record under the rule above",
		"key values that the caller gives are unique as tuples, valid for the part's type and below 2^63; strings that differ only in case or trailing blanks are not generated as keys (collations differ between databases)",
		"a name that is the column of one field and the Go name of another one is handed to gorm only as a column name (result columns; map keys of Create): the Go-name spelling of a map key is generated only for fields whose Go name is not a column of the model and is carried by no other field of the model at any depth (which of several fields called Num a map key \"Num\" means is not fixed by the statement)",
		"two fields may share a column only when exactly one of them is on the shortest path (the outer field of Go's shadowing rule); the others are left zero in every record handed to Create, so that 'read back with equal field values' can only be met by storing and loading the field on the shortest path, and they are expected to be zero afterwards. Two fields on paths of the same length sharing a column are not generated (which one owns the column is not fixed by the statement)",
		"column names contain letters, digits, underscores (also doubled), dash, blank and #; names with a dot, a quote character or a question mark are not generated",
		"Find into a []map that already holds maps is not generated (gorm appends to it; the statement does not say whether a result replaces or extends the destination); Find into a reused []T / []*T must return exactly the table's records",
		"a pointer field whose type is its own serializer (*SelfJS) never sits below a pointer-embedded struct and is non-nil in every ordinary record; the nil pointer is exercised once per database by a closing single Create (it panics inside gorm as long as the Value method is called through the nil pointer)",
		"the first Create of every database is a single record with every embedded pointer set, and Create([]map) by value and CreateInBatches over maps run last: where gorm panics the handle is abandoned, and inside CreateInBatches a panic would dead-lock database/sql's Rollback",
		"a deviation class already reported in a database is counted, not reported again, and the harness then stops provoking it there (nil embedded pointers above gob/unixtime fields, Model-bound map reads of serializer models) so that the remaining checks still run",
	},
	Cases: func(tier string) int {
		if tier == "thorough" {
			return 40000
		}
		return 3000
	},
	Batch:         func(string) int { return 25 },
	ChildTimeoutS: 300,
	Run:           run,
	MinNontrivial: 300,
}

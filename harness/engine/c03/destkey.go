package c03

import (
	"fmt"
	"reflect"
	"strings"

	"gorm.io/gorm"

	"verif/vdb"
)

// Reads through a destination that CARRIES THE KEY of the record it asks for:
//
//	t := T{K1: 7, K2: ""}; db.First(&t)        (also Take, Find; no Where)
//
// gorm turns the non-zero primary key fields of a struct destination into the query condition. The
// record is one that Create wrote, its key is the key Create was handed (or back-filled), and a part of
// that key may be the zero value of its type - 0 and "" are legal key parts. The read must load that
// record. It is generated only when the non-zero parts of the key identify exactly one row of the table
// (counted with raw SQL before the call): for a key whose parts are all zero the destination carries no
// condition at all, and when the non-zero parts are shared with another row the statement does not say
// which of the rows is loaded (see Assumptions).

// asLeafValue converts a key argument (the in-memory key; for maps the value back-filled by Create, whose
// Go type is the driver's) into a value of the leaf's type.
func asLeafValue(l *leaf, arg interface{}) (v reflect.Value, ok bool) {
	defer func() {
		if recover() != nil {
			ok = false
		}
	}()
	if arg == nil {
		return v, false
	}
	av := reflect.ValueOf(arg)
	if av.Type() == l.typ {
		return av, true
	}
	switch l.class {
	case "int", "uint", "string":
		if av.Type().ConvertibleTo(l.typ) && (av.Kind() == reflect.String) == (l.typ.Kind() == reflect.String) {
			return av.Convert(l.typ), true
		}
	}
	return v, false
}

// destKey returns the record's key as values of the key fields, when a destination carrying it identifies
// the record: at least one part is non-zero and the non-zero parts select exactly one row of the table.
// pat: per part "z" (zero) or "v".
func (e *env) destKey(rc *rec) (vals []reflect.Value, lits []string, pat string, ok bool) {
	m := e.m
	if rc.keyBad || len(rc.pkArgs) != len(m.pks) {
		return nil, nil, "", false
	}
	vals = make([]reflect.Value, len(m.pks))
	var conds []string
	var args []interface{}
	for i, l := range m.pks {
		v, ok := asLeafValue(l, rc.pkArgs[i])
		if !ok {
			e.c.Inc("destination_key_reads_skipped_key_type")
			return nil, nil, "", false
		}
		vals[i] = v
		lits = append(lits, l.name()+": "+canonGo(l, v))
		if v.IsZero() {
			pat += "z"
			continue
		}
		pat += "v"
		conds = append(conds, "`"+l.col+"` = ?")
		args = append(args, v.Interface())
	}
	if len(conds) == 0 {
		e.c.Inc("destination_key_reads_skipped_all_parts_zero")
		return nil, nil, "", false
	}
	if n := vdb.Ints(e.h.SQL, "SELECT count(*) FROM `"+m.table+"` WHERE "+strings.Join(conds, " AND "), args...); len(n) != 1 || n[0] != 1 {
		e.c.Inc("destination_key_reads_skipped_nonzero_parts_not_unique")
		return nil, nil, "", false
	}
	return vals, lits, pat, true
}

// destKeyRead reads rc through a destination carrying its key. fin: First | Take | Find.
// Returns whether the read was made (and compared).
func (e *env) destKeyRead(rc *rec, fin string, note string) bool {
	m := e.m
	vals, lits, pat, ok := e.destKey(rc)
	if !ok {
		return false
	}
	out := reflect.New(m.typ)
	for i, l := range m.pks {
		setLeaf(out, l, vals[i])
	}
	var res *gorm.DB
	switch fin {
	case "Take":
		res = e.tx().Take(out.Interface())
	case "Find":
		res = e.tx().Find(out.Interface())
	default:
		fin = "First"
		res = e.tx().First(out.Interface())
	}
	how := fmt.Sprintf("t := T{%s}; %s.%s(&t) [the destination carries the key of the record; no Where%s]", strings.Join(lits, ", "), e.recv(), fin, note)
	sigp := "read-struct-by-destination-key"
	if res.Error != nil {
		e.problem(sigp+"/error", "%s: %v", how, res.Error)
		return true
	}
	if strings.Contains(pat, "z") {
		sigp += "/zero-key-part"
	}
	// which record was loaded: told by the payload before the fields are compared
	if got := getLeaf(out.Elem(), m.payload).String(); got != rc.payload {
		e.problem(sigp+"/other-record", "%s: loaded the record with payload %q (key now %s), the key in the destination is the key of the record with payload %q", how, got, e.keyOf(out.Elem()), rc.payload)
		return true
	}
	e.compareStructSig(sigp, rc, out.Elem(), how)
	e.c.Inc("destination_key_reads")
	if strings.Contains(pat, "z") {
		e.c.Inc("destination_key_reads_with_zero_key_part")
	}
	return true
}

func (e *env) keyOf(root reflect.Value) string {
	var parts []string
	for _, l := range e.m.pks {
		parts = append(parts, l.name()+": "+canonGo(l, getLeaf(root, l)))
	}
	return "{" + strings.Join(parts, ", ") + "}"
}

// hasZeroKeyPart: one of the parts of the record's key is the zero value of its type.
func (e *env) hasZeroKeyPart(rc *rec) bool {
	return strings.Contains(rc.keyPat, "z")
}

// destKeyRound: at the end of a database, when the table holds every record, up to 8 records are read
// through destinations carrying their keys - the records with a zero key part first.
func (e *env) destKeyRound() {
	e.current = "destination-key"
	recs := e.keyed(len(e.all))
	var pick []*rec
	for _, rc := range recs {
		if e.hasZeroKeyPart(rc) && len(pick) < 6 {
			pick = append(pick, rc)
		}
	}
	zeros := len(pick)
	for _, rc := range recs {
		if !e.hasZeroKeyPart(rc) && len(pick) < 8 {
			pick = append(pick, rc)
		}
	}
	if len(pick) == 0 {
		return
	}
	e.op("for key in [%s] { t := T{<key>}; %s.First|Take|Find(&t) }   // every destination carries the key of its record, no Where", keyList(pick), e.recv())
	done, doneZero := 0, 0
	for i, rc := range pick {
		fin := []string{"First", "Take", "Find"}[(i+e.readRot)%3]
		if e.destKeyRead(rc, fin, fmt.Sprintf("; the table holds %d records", len(e.all))) {
			done++
			if i < zeros {
				doneZero++
			}
		}
	}
	if !e.callBad && done > 0 {
		shape := "destination-key"
		if doneZero > 0 {
			shape += "/zero-key-part"
		}
		e.c.Shape(e.fs, e.opt, shape)
	}
}

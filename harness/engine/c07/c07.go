// Package c07: one shared handle can be used from many goroutines at once, including first use.
//
// Three monitors on the same runs (race-instrumented build):
//  1. the Go race detector: G goroutines start on a barrier on a handle whose schema cache
//     is cold (fresh gorm.Open), their first statements touching different models of one
//     relation cluster; reports are parsed from the race log and signed by the first gorm
//     frame of both accesses;
//  2. serial equivalence: every goroutine works on its own key range with explicit keys,
//     so each call's result and the final table contents must equal those of the same
//     programs run one after another on a fresh database and handle;
//  3. linearizability on shared rows: register histories (Update / Take through gorm on a
//     few shared keys, unique values, one monotonic clock) checked per key with porcupine.
package c07

import (
	"context"
	"fmt"
	"os"
	"path/filepath"
	"reflect"
	"runtime"
	"sort"
	"strings"
	"sync"
	"sync/atomic"
	"time"

	"github.com/anishathalye/porcupine"
	"gorm.io/gorm"
	"gorm.io/gorm/clause"
	"gorm.io/gorm/schema"
	"gorm.io/gorm/utils/verifhook"

	"verif/core"
	"verif/vdb"
)

// relation cluster (mutually related) and unrelated models
type Company struct {
	ID    int64 `gorm:"primaryKey"`
	Name  string
	Users []User
}

type User struct {
	ID        int64 `gorm:"primaryKey"`
	Name      string
	Age       int64
	CompanyID *int64
	Company   *Company
	ManagerID *int64
	Manager   *User
	Team      []User `gorm:"foreignKey:ManagerID"`
	Pets      []Pet
	Languages []Language `gorm:"many2many:user_languages"`
	Toys      []Toy      `gorm:"polymorphic:Owner"`
	DeletedAt gorm.DeletedAt
}

type Pet struct {
	ID     int64 `gorm:"primaryKey"`
	UserID int64
	User   *User
	Name   string
	Toy    *Toy `gorm:"polymorphic:Owner"`
}

type Toy struct {
	ID        int64 `gorm:"primaryKey"`
	OwnerID   int64
	OwnerType string
	Name      string
}

type Language struct {
	ID    int64 `gorm:"primaryKey"`
	Name  string
	Users []User `gorm:"many2many:user_languages"`
}

// owners fan: six different owner models with a has-many to ONE child model; their first uses write
// the child's relationship map concurrently
type Kid struct {
	ID     int64 `gorm:"primaryKey"`
	Own1ID *int64
	Own2ID *int64
	Own3ID *int64
	Own4ID *int64
	Own5ID *int64
	Own6ID *int64
	Name   string
}

type Own1 struct {
	ID   int64 `gorm:"primaryKey"`
	Kids []Kid
}
type Own2 struct {
	ID   int64 `gorm:"primaryKey"`
	Kids []Kid
}
type Own3 struct {
	ID   int64 `gorm:"primaryKey"`
	Kids []Kid
}
type Own4 struct {
	ID   int64 `gorm:"primaryKey"`
	Kids []Kid
}
type Own5 struct {
	ID   int64 `gorm:"primaryKey"`
	Kids []Kid
}
type Own6 struct {
	ID   int64 `gorm:"primaryKey"`
	Kids []Kid
}

type Solo struct {
	ID     int64 `gorm:"primaryKey"`
	V      string
	N      int64
	Secret EncStr
}

// EncStr is its own serializer (the field type implements schema.SerializerInterface):
// gorm keeps one instance per pooled scan value, which must never be shared.
type EncStr string

func (e *EncStr) Scan(ctx context.Context, field *schema.Field, dst reflect.Value, dbValue interface{}) error {
	switch v := dbValue.(type) {
	case []byte:
		*e = EncStr(strings.TrimPrefix(string(v), "enc:"))
	case string:
		*e = EncStr(strings.TrimPrefix(v, "enc:"))
	case nil:
		*e = ""
	default:
		return fmt.Errorf("EncStr: unsupported %T", dbValue)
	}
	// an expensive decode: the decoded value sits in this instance for a while before gorm
	// copies it into the record (widens the window in which a shared instance would be seen)
	time.Sleep(150 * time.Microsecond)
	return nil
}

func (e EncStr) Value(ctx context.Context, field *schema.Field, dst reflect.Value, fieldValue interface{}) (interface{}, error) {
	return "enc:" + string(e), nil
}

// shared reusable handles carrying chain state with spare slice capacity (3 joins / 3
// orders): every goroutine derives its own chain from them
type sharedHandles struct{ joins, order, orFirst, fromJoins, groupHaving *gorm.DB }

var sharedOf sync.Map // root *gorm.DB -> *sharedHandles

func getShared(root *gorm.DB) *sharedHandles {
	v, _ := sharedOf.Load(root)
	sh, _ := v.(*sharedHandles)
	return sh
}

func makeShared(root *gorm.DB) {
	sh := &sharedHandles{
		joins: root.Table("users").
			Joins("LEFT JOIN companies c1 ON c1.id = users.company_id").
			Joins("LEFT JOIN users m1 ON m1.id = users.manager_id").
			Joins("LEFT JOIN pets p0 ON p0.user_id = users.id AND p0.id < 0").
			Session(&gorm.Session{}),
		order: root.Table("solos").Order("n").Order("v").Order("id").Session(&gorm.Session{}),
		// conditions whose first one is a single Or (legal: it reads as Where): building the WHERE clause reorders
		// them for this statement, and every goroutine builds from the same handle
		orFirst: root.Table("solos").Or("v <> ?", "none").Where("id < ?", 0).Session(&gorm.Session{}),
		// a FROM clause built by hand whose list of joins has room behind its one element: every goroutine adds an
		// association join of its own on top of it
		fromJoins: root.Model(&User{}).Clauses(clause.From{Joins: append(make([]clause.Join, 0, 4), clause.Join{
			Type: clause.LeftJoin, Table: clause.Table{Name: "pets", Alias: "fp"},
			ON: clause.Where{Exprs: []clause.Expression{clause.Expr{SQL: "fp.user_id = users.id AND fp.id < 0"}}}})}).Session(&gorm.Session{}),
		// three grouping columns and three HAVING conditions (lists grown by append have room behind three
		// elements): every goroutine adds a fourth of each
		groupHaving: root.Table("solos").Group("v").Group("n").Group("id").
			Having("id >= ?", -1).Having("n >= ?", -1).Having("id <> ?", -5).Session(&gorm.Session{}),
	}
	sharedOf.Store(root, sh)
}

type Solo2 struct {
	ID int64 `gorm:"primaryKey"`
	V  string
}

type Reg struct {
	ID int64 `gorm:"primaryKey"`
	V  int64
}

var allModels = []interface{}{&Company{}, &User{}, &Pet{}, &Toy{}, &Language{}, &Solo{}, &Solo2{}, &Reg{}, &Kid{}, &Own1{}, &Own2{}, &Own3{}, &Own4{}, &Own5{}, &Own6{}}
var allTables = []string{"companies", "users", "pets", "toys", "languages", "user_languages", "solos", "solo2", "regs", "kids", "own1", "own2", "own3", "own4", "own5", "own6"}

// schemaSQL is produced once per child by a throw-away handle, so that the handles under
// test never run AutoMigrate (their schema cache must be cold when the goroutines start).
var schemaSQL []string

func initEnv(c *core.Ctx) {
	h, err := vdb.Open(vdb.Options{})
	if err != nil {
		panic(err)
	}
	if err := h.DB.AutoMigrate(allModels...); err != nil {
		panic(err)
	}
	rows, err := h.SQL.Query("SELECT sql FROM sqlite_master WHERE sql IS NOT NULL AND name NOT LIKE 'sqlite_%'")
	if err != nil {
		panic(err)
	}
	for rows.Next() {
		var s string
		rows.Scan(&s)
		schemaSQL = append(schemaSQL, s)
	}
	rows.Close()
	h.Close()
}

func openCold(c *core.Ctx, name string, prep bool) *vdb.Handle {
	path := filepath.Join(c.Dir, name+".db")
	os.Remove(path)
	os.Remove(path + "-wal")
	os.Remove(path + "-shm")
	// a constant clock: time stamps must not depend on the interleaving
	h, err := vdb.Open(vdb.Options{File: path, DSNExtra: "_txlock=immediate", Config: gorm.Config{PrepareStmt: prep, NowFunc: func() time.Time { return vdb.Epoch }}})
	if err != nil {
		panic(err)
	}
	for _, s := range schemaSQL {
		if _, err := h.SQL.Exec(s); err != nil {
			panic(fmt.Sprintf("%s: %v", s, err))
		}
	}
	for k := int64(1); k <= 4; k++ {
		h.SQL.Exec("INSERT INTO regs(id,v) VALUES (?,0)", k)
	}
	h.Rec.Recording = false
	return h
}

type step struct {
	name string
	run  func(db *gorm.DB, base int64) string
}

func fmtErr(err error) string {
	if err == nil {
		return "ok"
	}
	return "ERR:" + err.Error()
}

func userStr(u User) string {
	co := "-"
	if u.Company != nil {
		co = u.Company.Name
	}
	var pets, langs, toys []string
	for _, p := range u.Pets {
		t := ""
		if p.Toy != nil {
			t = "/" + p.Toy.Name
		}
		pets = append(pets, p.Name+t)
	}
	for _, l := range u.Languages {
		langs = append(langs, l.Name)
	}
	for _, t := range u.Toys {
		toys = append(toys, t.Name)
	}
	sort.Strings(pets)
	sort.Strings(langs)
	sort.Strings(toys)
	mg := "-"
	if u.Manager != nil {
		mg = u.Manager.Name
	}
	return fmt.Sprintf("{%d %s %d co=%s mgr=%s pets=%v langs=%v toys=%v team=%d}", u.ID, u.Name, u.Age, co, mg, pets, langs, toys, len(u.Team))
}

// the operation vocabulary; every operation touches only keys in [base, base+1000)
var steps = []step{
	{"CreateUserGraph", func(db *gorm.DB, b int64) string {
		u := User{ID: b + 1, Name: fmt.Sprint("u", b+1), Age: 30,
			Company:   &Company{ID: b + 1, Name: fmt.Sprint("co", b+1)},
			Pets:      []Pet{{ID: b + 1, Name: fmt.Sprint("p", b+1), Toy: &Toy{ID: b + 1, Name: fmt.Sprint("t", b+1)}}, {ID: b + 2, Name: fmt.Sprint("p", b+2)}},
			Languages: []Language{{ID: b + 1, Name: fmt.Sprint("l", b+1)}, {ID: b + 2, Name: fmt.Sprint("l", b+2)}},
			Toys:      []Toy{{ID: b + 10, Name: fmt.Sprint("t", b+10)}}}
		res := db.Create(&u)
		return fmt.Sprintf("%s rows=%d", fmtErr(res.Error), res.RowsAffected)
	}},
	{"CreateTeam", func(db *gorm.DB, b int64) string {
		mid := b + 1
		us := []User{{ID: b + 2, Name: fmt.Sprint("u", b+2), Age: 20, ManagerID: &mid}, {ID: b + 3, Name: fmt.Sprint("u", b+3), Age: 25, ManagerID: &mid}}
		res := db.Create(&us)
		return fmt.Sprintf("%s rows=%d", fmtErr(res.Error), res.RowsAffected)
	}},
	{"CreateCompanyWithUsers", func(db *gorm.DB, b int64) string {
		co := Company{ID: b + 5, Name: fmt.Sprint("co", b+5), Users: []User{{ID: b + 5, Name: fmt.Sprint("u", b+5), Age: 41}}}
		res := db.Create(&co)
		return fmt.Sprintf("%s rows=%d", fmtErr(res.Error), res.RowsAffected)
	}},
	{"CreatePet", func(db *gorm.DB, b int64) string {
		p := Pet{ID: b + 7, Name: fmt.Sprint("p", b+7), User: &User{ID: b + 7, Name: fmt.Sprint("u", b+7)}}
		res := db.Create(&p)
		return fmt.Sprintf("%s rows=%d", fmtErr(res.Error), res.RowsAffected)
	}},
	{"CreateLanguage", func(db *gorm.DB, b int64) string {
		l := Language{ID: b + 9, Name: fmt.Sprint("l", b+9), Users: []User{{ID: b + 9, Name: fmt.Sprint("u", b+9)}}}
		res := db.Create(&l)
		return fmt.Sprintf("%s rows=%d", fmtErr(res.Error), res.RowsAffected)
	}},
	{"SharedJoins", func(db *gorm.DB, b int64) string {
		sh := getShared(db)
		if sh == nil {
			return "no shared handle"
		}
		var out []struct {
			ID   int64
			Name string
		}
		err := sh.joins.Joins("LEFT JOIN toys t ON t.owner_id = users.id AND t.owner_type = 'users' AND t.name = ?", fmt.Sprint("t", b+10)).
			Where("users.id >= ? AND users.id < ?", b, b+1000).Select("users.id AS id, t.name AS name").Order("users.id").Scan(&out).Error
		return fmt.Sprintf("%s %v", fmtErr(err), out)
	}},
	{"SharedFromJoins", func(db *gorm.DB, b int64) string {
		sh := getShared(db)
		if sh == nil {
			return "no shared handle"
		}
		out := ""
		for i, rel := range []string{"Company", "Manager", "Company"} {
			var us []User
			err := sh.fromJoins.Joins(rel).Where("users.id >= ? AND users.id < ?", b, b+1000).Order("users.id").Find(&us).Error
			out += fmt.Sprintf("%d:%s %d;", i, fmtErr(err), len(us))
		}
		return out
	}},
	{"SharedOrFirst", func(db *gorm.DB, b int64) string {
		sh := getShared(db)
		if sh == nil {
			return "no shared handle"
		}
		out := ""
		for i := 0; i < 3; i++ {
			var vs []string
			var n int64
			err := sh.orFirst.Where("id >= ? AND id < ?", b, b+1000).Order("id").Pluck("v", &vs).Error
			err2 := sh.orFirst.Where("id >= ? AND id < ?", b, b+1000).Count(&n).Error
			// ... and straight from the handle, with nothing added (the statement then builds from the handle's own
			// list of conditions; the rows are everybody's, so only the outcome of the call is compared)
			var all []string
			err3 := sh.orFirst.Order("id").Limit(2).Pluck("v", &all).Error
			out += fmt.Sprintf("%s %s %s %v %d;", fmtErr(err), fmtErr(err2), fmtErr(err3), vs, n)
		}
		return out
	}},
	{"SharedGroupHaving", func(db *gorm.DB, b int64) string {
		sh := getShared(db)
		if sh == nil {
			return "no shared handle"
		}
		out := ""
		for i := 0; i < 3; i++ {
			var vs []string
			err := sh.groupHaving.Having("id >= ? AND id < ?", b, b+1000).Order("id").Pluck("v", &vs).Error
			var ws []string
			err2 := sh.groupHaving.Group("secret").Where("id >= ? AND id < ?", b, b+1000).Order("id").Pluck("v", &ws).Error
			out += fmt.Sprintf("%s %s %v %v;", fmtErr(err), fmtErr(err2), vs, ws)
		}
		return out
	}},
	{"SharedOrder", func(db *gorm.DB, b int64) string {
		sh := getShared(db)
		if sh == nil {
			return "no shared handle"
		}
		var vs []string
		err := sh.order.Order(fmt.Sprintf("id + %d", b)).Where("id >= ? AND id < ?", b, b+1000).Pluck("v", &vs).Error
		return fmt.Sprintf("%s %v", fmtErr(err), vs)
	}},
	{"FindSolos", func(db *gorm.DB, b int64) string {
		var ss []Solo
		err := db.Where("id >= ? AND id < ?", b, b+1000).Order("id").Find(&ss).Error
		out := fmtErr(err)
		for _, x := range ss {
			out += fmt.Sprintf(" {%d %s %d %s}", x.ID, x.V, x.N, x.Secret)
		}
		return out
	}},
	{"FirstSolo", func(db *gorm.DB, b int64) string {
		var x Solo
		err := db.First(&x, b+1).Error
		return fmt.Sprintf("%s {%d %s %s}", fmtErr(err), x.ID, x.V, x.Secret)
	}},
	{"CreateSolo", func(db *gorm.DB, b int64) string {
		res := db.Create(&[]Solo{{ID: b + 1, V: "a", N: 1, Secret: EncStr(fmt.Sprint("s", b+1))}, {ID: b + 2, V: "b", N: 2, Secret: EncStr(fmt.Sprint("s", b+2))}})
		return fmt.Sprintf("%s rows=%d", fmtErr(res.Error), res.RowsAffected)
	}},
	{"Own1", func(db *gorm.DB, b int64) string {
		return ownStep(db, b, &Own1{ID: b + 1, Kids: []Kid{{ID: b + 11, Name: "k1"}}}, &[]Own1{})
	}},
	{"Own2", func(db *gorm.DB, b int64) string {
		return ownStep(db, b, &Own2{ID: b + 2, Kids: []Kid{{ID: b + 12, Name: "k2"}}}, &[]Own2{})
	}},
	{"Own3", func(db *gorm.DB, b int64) string {
		return ownStep(db, b, &Own3{ID: b + 3, Kids: []Kid{{ID: b + 13, Name: "k3"}}}, &[]Own3{})
	}},
	{"Own4", func(db *gorm.DB, b int64) string {
		return ownStep(db, b, &Own4{ID: b + 4, Kids: []Kid{{ID: b + 14, Name: "k4"}}}, &[]Own4{})
	}},
	{"Own5", func(db *gorm.DB, b int64) string {
		return ownStep(db, b, &Own5{ID: b + 5, Kids: []Kid{{ID: b + 15, Name: "k5"}}}, &[]Own5{})
	}},
	{"Own6", func(db *gorm.DB, b int64) string {
		return ownStep(db, b, &Own6{ID: b + 6, Kids: []Kid{{ID: b + 16, Name: "k6"}}}, &[]Own6{})
	}},
	{"QueryMissingTable", func(db *gorm.DB, b int64) string {
		// the same failing text from every goroutine: in prepared-statement mode they meet in one
		// preparation that fails, and every one of them must get the error
		var v string
		err := db.Raw("SELECT v FROM no_such_table WHERE id = ?", 1).Scan(&v).Error
		return fmtErr(err)
	}},
	{"CreateSolo2", func(db *gorm.DB, b int64) string {
		res := db.Create(&Solo2{ID: b + 1, V: "z"})
		return fmt.Sprintf("%s rows=%d", fmtErr(res.Error), res.RowsAffected)
	}},
	{"FirstUser", func(db *gorm.DB, b int64) string {
		var u User
		err := db.First(&u, b+1).Error
		return fmtErr(err) + " " + userStr(u)
	}},
	{"FindUsers", func(db *gorm.DB, b int64) string {
		var us []User
		err := db.Where("id >= ? AND id < ?", b, b+1000).Order("id").Find(&us).Error
		s := fmtErr(err)
		for _, u := range us {
			s += " " + userStr(u)
		}
		return s
	}},
	{"PreloadAll", func(db *gorm.DB, b int64) string {
		var us []User
		err := db.Preload("Pets.Toy").Preload("Company").Preload("Languages").Preload("Toys").Preload("Manager").Preload("Team").
			Where("id >= ? AND id < ?", b, b+1000).Order("id").Find(&us).Error
		s := fmtErr(err)
		for _, u := range us {
			s += " " + userStr(u)
		}
		return s
	}},
	{"PreloadAssociations", func(db *gorm.DB, b int64) string {
		var u User
		err := db.Preload(clause.Associations).First(&u, b+1).Error
		return fmtErr(err) + " " + userStr(u)
	}},
	{"JoinsCompany", func(db *gorm.DB, b int64) string {
		var u User
		err := db.Joins("Company").Joins("Manager").Where("users.id = ?", b+2).First(&u).Error
		return fmtErr(err) + " " + userStr(u)
	}},
	{"PetsWithUser", func(db *gorm.DB, b int64) string {
		var ps []Pet
		err := db.Preload("User").Preload("Toy").Where("id >= ? AND id < ?", b, b+1000).Order("id").Find(&ps).Error
		s := fmtErr(err)
		for _, p := range ps {
			un := "-"
			if p.User != nil {
				un = p.User.Name
			}
			s += fmt.Sprintf(" {%d %s user=%s toy=%v}", p.ID, p.Name, un, p.Toy != nil)
		}
		return s
	}},
	{"CompanyUsers", func(db *gorm.DB, b int64) string {
		var cs []Company
		err := db.Preload("Users").Where("id >= ? AND id < ?", b, b+1000).Order("id").Find(&cs).Error
		s := fmtErr(err)
		for _, c := range cs {
			s += fmt.Sprintf(" {%d %s users=%d}", c.ID, c.Name, len(c.Users))
		}
		return s
	}},
	{"LanguageUsers", func(db *gorm.DB, b int64) string {
		var ls []Language
		err := db.Preload("Users").Where("id >= ? AND id < ?", b, b+1000).Order("id").Find(&ls).Error
		s := fmtErr(err)
		for _, l := range ls {
			s += fmt.Sprintf(" {%d %s users=%d}", l.ID, l.Name, len(l.Users))
		}
		return s
	}},
	{"UpdateUser", func(db *gorm.DB, b int64) string {
		res := db.Model(&User{ID: b + 1}).Update("age", 31)
		return fmt.Sprintf("%s rows=%d", fmtErr(res.Error), res.RowsAffected)
	}},
	{"UpdatesUsers", func(db *gorm.DB, b int64) string {
		res := db.Model(&User{}).Where("id >= ? AND id < ?", b, b+1000).Updates(map[string]interface{}{"age": gorm.Expr("age + ?", 1)})
		return fmt.Sprintf("%s rows=%d", fmtErr(res.Error), res.RowsAffected)
	}},
	{"UpdateSolo", func(db *gorm.DB, b int64) string {
		res := db.Model(&Solo{}).Where("id = ?", b+1).Updates(Solo{V: "upd", N: 9})
		return fmt.Sprintf("%s rows=%d", fmtErr(res.Error), res.RowsAffected)
	}},
	{"CountUsers", func(db *gorm.DB, b int64) string {
		var n int64
		err := db.Model(&User{}).Where("id >= ? AND id < ?", b, b+1000).Count(&n).Error
		return fmt.Sprintf("%s n=%d", fmtErr(err), n)
	}},
	{"PluckSolo", func(db *gorm.DB, b int64) string {
		var vs []string
		err := db.Model(&Solo{}).Where("id >= ? AND id < ?", b, b+1000).Order("id").Pluck("v", &vs).Error
		return fmt.Sprintf("%s %v", fmtErr(err), vs)
	}},
	{"DeletePet", func(db *gorm.DB, b int64) string {
		res := db.Delete(&Pet{ID: b + 2})
		return fmt.Sprintf("%s rows=%d", fmtErr(res.Error), res.RowsAffected)
	}},
	{"SoftDeleteUser", func(db *gorm.DB, b int64) string {
		res := db.Delete(&User{ID: b + 3})
		return fmt.Sprintf("%s rows=%d", fmtErr(res.Error), res.RowsAffected)
	}},
	{"DeleteSelect", func(db *gorm.DB, b int64) string {
		res := db.Select("Pets", "Toys").Delete(&User{ID: b + 7})
		return fmt.Sprintf("%s rows=%d", fmtErr(res.Error), res.RowsAffected)
	}},
	{"Transaction", func(db *gorm.DB, b int64) string {
		err := db.Transaction(func(tx *gorm.DB) error {
			if err := tx.Create(&Solo{ID: b + 20, V: "tx", N: 1}).Error; err != nil {
				return err
			}
			if err := tx.Model(&Solo{ID: b + 20}).Update("n", 2).Error; err != nil {
				return err
			}
			return tx.Transaction(func(tx2 *gorm.DB) error { return tx2.Create(&Solo2{ID: b + 20, V: "nested"}).Error })
		})
		return fmtErr(err)
	}},
	{"TransactionRollback", func(db *gorm.DB, b int64) string {
		err := db.Transaction(func(tx *gorm.DB) error {
			tx.Create(&Solo{ID: b + 30, V: "gone", N: 1})
			return fmt.Errorf("rollback")
		})
		return fmtErr(err)
	}},
	{"AssocAppend", func(db *gorm.DB, b int64) string {
		err := db.Model(&User{ID: b + 1}).Association("Languages").Append(&Language{ID: b + 3, Name: fmt.Sprint("l", b+3)})
		return fmtErr(err)
	}},
	{"AssocCount", func(db *gorm.DB, b int64) string {
		n := db.Model(&User{ID: b + 1}).Association("Languages").Count()
		return fmt.Sprintf("n=%d", n)
	}},
	{"AssocFindPets", func(db *gorm.DB, b int64) string {
		var ps []Pet
		err := db.Model(&User{ID: b + 1}).Association("Pets").Find(&ps)
		return fmt.Sprintf("%s n=%d", fmtErr(err), len(ps))
	}},
	{"AssocReplaceToys", func(db *gorm.DB, b int64) string {
		err := db.Model(&User{ID: b + 1}).Association("Toys").Replace(&Toy{ID: b + 11, Name: fmt.Sprint("t", b+11)})
		return fmtErr(err)
	}},
	{"FirstOrCreate", func(db *gorm.DB, b int64) string {
		var s Solo
		res := db.Where(Solo{ID: b + 40}).Attrs(Solo{V: "foc"}).FirstOrCreate(&s)
		return fmt.Sprintf("%s %d %s", fmtErr(res.Error), s.ID, s.V)
	}},
	{"Scan", func(db *gorm.DB, b int64) string {
		var out []struct {
			Name string
			Age  int64
		}
		err := db.Model(&User{}).Select("name, age").Where("id >= ? AND id < ?", b, b+1000).Order("id").Scan(&out).Error
		return fmt.Sprintf("%s %v", fmtErr(err), out)
	}},
	{"FindInBatches", func(db *gorm.DB, b int64) string {
		var us []User
		n := 0
		err := db.Where("id >= ? AND id < ?", b, b+1000).FindInBatches(&us, 2, func(tx *gorm.DB, batch int) error {
			n += len(us)
			return nil
		}).Error
		return fmt.Sprintf("%s n=%d", fmtErr(err), n)
	}},
}

// ownStep creates one owner with one kid (upsert: the step may repeat) and reads the goroutine's owners back
// with their kids.
func ownStep(db *gorm.DB, b int64, rec interface{}, out interface{}) string {
	res := db.Clauses(clause.OnConflict{DoNothing: true}).Create(rec)
	if res.Error != nil {
		return fmtErr(res.Error)
	}
	err := db.Preload("Kids").Where("id >= ? AND id < ?", b, b+1000).Order("id").Find(out).Error
	desc := fmtErr(err)
	sl := reflect.ValueOf(out).Elem()
	for i := 0; i < sl.Len(); i++ {
		o := sl.Index(i)
		desc += fmt.Sprintf(" {%d kids:", o.FieldByName("ID").Int())
		kids := o.FieldByName("Kids")
		for j := 0; j < kids.Len(); j++ {
			desc += fmt.Sprintf(" %d/%s", kids.Index(j).FieldByName("ID").Int(), kids.Index(j).FieldByName("Name").String())
		}
		desc += "}"
	}
	return desc
}

func genProgram(r *core.Rand, first int) []int {
	n := r.Range(4, 9)
	p := []int{first}
	for len(p) < n {
		p = append(p, r.Intn(len(steps)))
	}
	return p
}

func runProgram(db *gorm.DB, g int, prog []int) []string {
	base := int64(g+1) * 10000
	out := make([]string, len(prog))
	for i, k := range prog {
		out[i] = steps[k].run(db, base)
	}
	return out
}

func dumpAll(h *vdb.Handle) string {
	return vdb.Dump(h.SQL, allTables...)
}

// ---- register histories -----------------------------------------------------

type regIn struct {
	key   int64
	write bool
	val   int64
}

var regModel = porcupine.Model{
	Partition: func(history []porcupine.Operation) [][]porcupine.Operation {
		m := map[int64][]porcupine.Operation{}
		for _, o := range history {
			k := o.Input.(regIn).key
			m[k] = append(m[k], o)
		}
		var out [][]porcupine.Operation
		for _, v := range m {
			out = append(out, v)
		}
		return out
	},
	Init: func() interface{} { return int64(0) },
	Step: func(state, input, output interface{}) (bool, interface{}) {
		in := input.(regIn)
		if in.write {
			return true, in.val
		}
		return output.(int64) == state.(int64), state
	},
	DescribeOperation: func(input, output interface{}) string {
		in := input.(regIn)
		if in.write {
			return fmt.Sprintf("write(k%d, %d)", in.key, in.val)
		}
		return fmt.Sprintf("read(k%d) -> %v", in.key, output)
	},
}

func run(c *core.Ctx) {
	r := c.R
	gs := []int{2, 4, 8, 8, 16}
	if c.Thorough {
		gs = []int{2, 4, 8, 16, 32}
	}
	G := gs[c.Case%len(gs)]
	prep := (c.Case/len(gs))%2 == 1
	warm := c.Case%7 == 6
	yield := c.Case%3 != 0
	// first statements of the goroutines touch different models of the relation cluster
	firsts := []int{0, 2, 3, 4, 5, 6, 7, 9, 11, 12, 13, 14}
	progs := make([][]int, G)
	for g := range progs {
		progs[g] = genProgram(r, firsts[(g+r.Intn(3))%len(firsts)])
	}
	if c.Case%5 == 1 {
		// every goroutine runs into the same failing statement at about the same time
		for i, st := range steps {
			if st.name == "QueryMissingTable" {
				for g := range progs {
					progs[g] = append([]int{progs[g][0], i}, progs[g][1:]...)
					if r.Bool() {
						progs[g] = append([]int{i}, progs[g]...)
					}
				}
			}
		}
	}
	if c.Case%5 == 2 {
		// owners fan: the goroutines' first statements use different owner models of one child model
		idx := map[string]int{}
		for i, st := range steps {
			idx[st.name] = i
		}
		for g := range progs {
			first := idx[fmt.Sprintf("Own%d", (g+r.Intn(2))%6+1)]
			progs[g] = append([]int{first, idx[fmt.Sprintf("Own%d", r.Intn(6)+1)]}, progs[g][2:]...)
		}
	}
	hot := c.Case%5 == 3
	if hot {
		// contention on one model: every goroutine creates its own rows of the model whose field type is
		// its own serializer and then reads them again and again (per-field scan value pools, decoding
		// into pooled instances), first use included
		idx := map[string]int{}
		for i, st := range steps {
			idx[st.name] = i
		}
		for g := range progs {
			p := []int{idx["CreateSolo"]}
			for n := r.Range(4, 8); n > 0; n-- {
				p = append(p, idx[core.Pick(r, []string{"FindSolos", "FirstSolo", "FindSolos", "SharedOrFirst", "SharedFromJoins", "SharedGroupHaving"})])
			}
			progs[g] = p
		}
	}
	// ownHandle: every goroutine first derives a handle of its own from the shared one (what request handlers do:
	// a prepared-statement session, a WithContext / Session handle per request) and runs its program on that
	ownHandle := (c.Case / 5) % 4
	if ownHandle < 2 {
		ownHandle = 0
	}
	deriveOwn := func(root *gorm.DB, g int) *gorm.DB {
		var own *gorm.DB
		switch {
		case ownHandle == 2:
			own = root.Session(&gorm.Session{PrepareStmt: true})
		case ownHandle == 3 && g%2 == 0:
			own = root.WithContext(context.Background())
		case ownHandle == 3:
			own = root.Session(&gorm.Session{})
		default:
			return root
		}
		if sh := getShared(root); sh != nil {
			sharedOf.Store(own, sh)
		}
		return own
	}
	desc := fmt.Sprintf("G=%d prepareStmt=%v warm=%v yieldAtSchemaStored=%v oneModelContention=%v handlePerGoroutine=%d", G, prep, warm, yield, hot, ownHandle)
	c.Logf("RUN %s", desc)

	// serial reference on its own database and handle
	hs := openCold(c, fmt.Sprintf("c07s_%d", c.Case), prep)
	makeShared(hs.DB)
	defer sharedOf.Delete(hs.DB)
	want := make([][]string, G)
	for g := range progs {
		own := deriveOwn(hs.DB, g)
		want[g] = runProgram(own, g, progs[g])
		if own != hs.DB {
			sharedOf.Delete(own)
		}
	}
	wantDump := dumpAll(hs)
	hs.Close()

	// concurrent run on a cold handle
	h := openCold(c, fmt.Sprintf("c07c_%d", c.Case), prep)
	defer h.Close()
	makeShared(h.DB)
	defer sharedOf.Delete(h.DB)
	if warm {
		// warm variant: every model has been used once on this handle before the goroutines start
		for g := 0; g < 1; g++ {
			runProgram(h.DB, 900+g, []int{0, 1, 2, 3, 4, 5, 6, 9})
		}
		h.SQL.Exec("DELETE FROM users; DELETE FROM companies; DELETE FROM pets; DELETE FROM toys; DELETE FROM languages; DELETE FROM user_languages; DELETE FROM solos; DELETE FROM solo2")
	}
	var stored int64
	delay := time.Duration(50+r.Intn(200)) * time.Microsecond
	if yield {
		verifhook.Set(func(point string, arg interface{}) {
			if point == "schema.stored" {
				atomic.AddInt64(&stored, 1)
				// a half-built schema just became visible to the other goroutines: let them run
				for i := 0; i < 3; i++ {
					runtime.Gosched()
				}
				time.Sleep(delay)
			}
		})
	} else {
		verifhook.Set(func(point string, arg interface{}) {
			if point == "schema.stored" {
				atomic.AddInt64(&stored, 1)
			}
		})
	}
	got := make([][]string, G)
	var wg sync.WaitGroup
	start := make(chan struct{})
	panics := make(chan string, G)
	for g := 0; g < G; g++ {
		wg.Add(1)
		go func(g int) {
			defer wg.Done()
			defer func() {
				if p := recover(); p != nil {
					panics <- fmt.Sprintf("goroutine %d panicked: %v", g, p)
				}
			}()
			<-start
			own := deriveOwn(h.DB, g)
			got[g] = runProgram(own, g, progs[g])
			if own != h.DB {
				sharedOf.Delete(own)
			}
		}(g)
	}
	close(start)
	// bounded progress: a generous limit, then the goroutine dump decides
	done := make(chan struct{})
	go func() { wg.Wait(); close(done) }()
	select {
	case <-done:
	case <-time.After(90 * time.Second):
		verifhook.Set(nil)
		buf := make([]byte, 1<<20)
		dump := string(buf[:runtime.Stack(buf, true)])
		var blocked []string
		busy := false
		for _, gr := range strings.Split(dump, "\n\n") {
			if !strings.Contains(gr, "engine/c07.runProgram") {
				continue
			}
			head := strings.SplitN(gr, "\n", 2)[0]
			if strings.Contains(head, "chan receive") || strings.Contains(head, "semacquire") || strings.Contains(head, "sync.") || strings.Contains(head, "select") {
				var fr []string
				for _, l := range strings.Split(gr, "\n") {
					if strings.HasPrefix(l, "gorm.io/gorm") && len(fr) < 5 {
						fr = append(fr, strings.SplitN(l, "(0x", 2)[0])
					}
				}
				blocked = append(blocked, head+" "+strings.Join(fr, " < "))
			} else {
				busy = true
			}
		}
		if busy || len(blocked) == 0 {
			c.Inconclusive("goroutines still running after 90 s")
		} else {
			c.Violation("no-progress", map[string]interface{}{"run": desc, "problems": []string{fmt.Sprintf("%d goroutines never returned: every one of them is blocked, none is running", len(blocked))}, "blocked": blocked})
		}
		return
	}
	verifhook.Set(nil)
	close(panics)
	var problems []string
	for p := range panics {
		problems = append(problems, p)
	}
	for g := range progs {
		for i := range progs[g] {
			if i < len(got[g]) && got[g][i] != want[g][i] {
				problems = append(problems, fmt.Sprintf("goroutine %d step %d %s: concurrent result %q, alone %q", g, i, steps[progs[g][i]].name, got[g][i], want[g][i]))
				if len(problems) > 6 {
					break
				}
			}
		}
	}
	if d := dumpAll(h); d != wantDump && len(problems) == 0 {
		problems = append(problems, "final table contents differ from the serial run: "+firstDiff(wantDump, d))
	}
	c.Inc("concurrent_runs")
	c.Add("goroutines_started", G)
	c.Add("schemas_stored_while_concurrent", int(atomic.LoadInt64(&stored)))
	if len(problems) > 0 {
		var ps []string
		for g, p := range progs {
			names := make([]string, len(p))
			for i, k := range p {
				names[i] = steps[k].name
			}
			ps = append(ps, fmt.Sprintf("g%d: %s", g, strings.Join(names, ",")))
		}
		c.Violation("serial-equivalence", map[string]interface{}{"run": desc, "problems": problems, "programs": ps})
	} else {
		first := make([]string, G)
		for g, p := range progs {
			first[g] = steps[p[0]].name
		}
		sort.Strings(first)
		c.Shape(G, prep, warm, strings.Join(first, ","), atomic.LoadInt64(&stored))
		if c.WantSample() && G >= 4 {
			c.Sample(map[string]interface{}{"run": desc, "first_statements": first, "schemas_parsed_concurrently": atomic.LoadInt64(&stored), "calls_compared": countCalls(progs)})
		}
	}

	// register histories on shared rows through the same (now warm) handle
	if c.Case%2 == 0 {
		registers(c, h, G, desc)
	}
}

func countCalls(progs [][]int) int {
	n := 0
	for _, p := range progs {
		n += len(p)
	}
	return n
}

func firstDiff(a, b string) string {
	al, bl := strings.Split(a, "\n"), strings.Split(b, "\n")
	am := map[string]bool{}
	for _, l := range al {
		am[l] = true
	}
	for _, l := range bl {
		if !am[l] {
			return "+" + l
		}
	}
	bm := map[string]bool{}
	for _, l := range bl {
		bm[l] = true
	}
	for _, l := range al {
		if !bm[l] {
			return "-" + l
		}
	}
	return "(order)"
}

func registers(c *core.Ctx, h *vdb.Handle, G int, desc string) {
	if G > 8 {
		G = 8
	}
	var clock int64
	var mu sync.Mutex
	var ops []porcupine.Operation
	var wg sync.WaitGroup
	var uniq int64
	seeds := make([]uint64, G)
	for i := range seeds {
		seeds[i] = c.R.U64()
	}
	for g := 0; g < G; g++ {
		wg.Add(1)
		go func(g int) {
			defer wg.Done()
			r := core.NewRand(seeds[g])
			for i := 0; i < 12; i++ {
				key := int64(r.Range(1, 2))
				in := regIn{key: key, write: r.Bool()}
				if in.write {
					in.val = atomic.AddInt64(&uniq, 1)
				}
				call := atomic.AddInt64(&clock, 1)
				var out int64
				var err error
				if in.write {
					err = h.DB.Model(&Reg{ID: key}).Update("v", in.val).Error
				} else {
					var reg Reg
					err = h.DB.Take(&reg, key).Error
					out = reg.V
				}
				ret := atomic.AddInt64(&clock, 1)
				if err != nil {
					// an operation that failed may or may not have taken effect: keep it open to the end
					ret = 1 << 40
					if !in.write {
						continue
					}
				}
				mu.Lock()
				ops = append(ops, porcupine.Operation{ClientId: g, Input: in, Call: call, Output: out, Return: ret})
				mu.Unlock()
			}
		}(g)
	}
	wg.Wait()
	res, info := porcupine.CheckOperationsVerbose(regModel, ops, 20*time.Second)
	c.Inc("register_histories")
	c.Add("register_operations", len(ops))
	switch res {
	case porcupine.Ok:
		c.Shape("reg", G, len(ops))
	case porcupine.Unknown:
		c.Inconclusive("porcupine timed out on a register history")
	case porcupine.Illegal:
		var hist []string
		for _, o := range ops {
			hist = append(hist, fmt.Sprintf("[%d,%d] c%d %s", o.Call, o.Return, o.ClientId, regModel.DescribeOperation(o.Input, o.Output)))
		}
		_ = info
		c.Violation("register-history", map[string]interface{}{"run": desc, "problems": []string{"register history on shared rows is not linearizable"}, "history": hist})
	}
}

// classifyRace folds every report in which one of the two goroutines is in the middle of
// parsing a schema (cold cache) into one family: the known finding KF-C07-1. Any other
// race keeps its call-site pair as signature and is reported.
// parseFns: functions that run while a schema is being parsed for the first time.
var parseFns = map[string]bool{
	"gorm.io/gorm/schema.ParseWithSpecialTableName":             true,
	"gorm.io/gorm/schema.(*Schema).guessRelation":               true,
	"gorm.io/gorm/schema.(*Schema).parseRelation":               true,
	"gorm.io/gorm/schema.(*Schema).setRelation":                 true,
	"gorm.io/gorm/schema.(*Schema).buildPolymorphicRelation":    true,
	"gorm.io/gorm/schema.(*Schema).buildMany2ManyRelation":      true,
	"gorm.io/gorm/schema.Schema.LookUpField":                    true,
	"gorm.io/gorm/schema.Schema.LookUpFieldByBindName":          true,
	"gorm.io/gorm/schema.(*Schema).ParseField":                  true,
	"gorm.io/gorm/schema.(*Schema).newField":                    true,
	"gorm.io/gorm/schema.(*Field).setupValuerAndSetter":         true,
	"gorm.io/gorm/schema.(*Schema).ParseCheckConstraints":       true,
	"gorm.io/gorm/schema.(*Relationship).ParseConstraint":       true,
	"gorm.io/gorm/schema.getOrParse":                            true,
	"gorm.io/gorm/schema.(*Schema).parseFieldIndexes":           true,
	"gorm.io/gorm/schema.(*Schema).ParseIndexes":                true,
	"gorm.io/gorm/schema.(*Schema).ParseUniqueConstraints":      true,
	"gorm.io/gorm/schema.(*Schema).LookIndex":                   true,
	"gorm.io/gorm/schema.(*Relationships).String":               false,
	"gorm.io/gorm/schema.(*Schema).MakeSlice":                   false,
	"gorm.io/gorm/schema.(*Schema).LookUpFieldByBindName.func1": false,
}

// knownParsePairs: parser-against-parser races observed on the pinned tree (KF-C07-1): two goroutines
// parsing mutually related models write and read each other's half-built schemas. The set was identical in
// two thorough runs (8 000 cold starts); a pair of parser functions outside it is a different defect.
var knownParsePairs = map[[2]string]bool{
	{"gorm.io/gorm/schema.(*Schema).buildPolymorphicRelation", "gorm.io/gorm/schema.(*Schema).buildPolymorphicRelation"}: true,
	{"gorm.io/gorm/schema.(*Schema).buildPolymorphicRelation", "gorm.io/gorm/schema.ParseWithSpecialTableName"}:          true,
	{"gorm.io/gorm/schema.(*Schema).guessRelation", "gorm.io/gorm/schema.(*Schema).guessRelation"}:                       true,
	{"gorm.io/gorm/schema.(*Schema).guessRelation", "gorm.io/gorm/schema.(*Schema).parseRelation"}:                       true,
	{"gorm.io/gorm/schema.(*Schema).guessRelation", "gorm.io/gorm/schema.ParseWithSpecialTableName"}:                     true,
	{"gorm.io/gorm/schema.(*Schema).parseRelation", "gorm.io/gorm/schema.(*Schema).setRelation"}:                         true,
	{"gorm.io/gorm/schema.ParseWithSpecialTableName", "gorm.io/gorm/schema.Schema.LookUpField"}:                          true,
	{"gorm.io/gorm/schema.ParseWithSpecialTableName", "gorm.io/gorm/schema.Schema.LookUpFieldByBindName"}:                true,
}

// classifyRace: the known finding KF-C07-1 covers (a) a goroutine that uses a schema while another one is
// still parsing it (one access in a parser function, the other one anywhere outside the parser) and (b)
// the parser-against-parser pairs listed above. Every other race keeps its call-site pair as signature
// and is reported - also a new pair of parser functions.
func classifyRace(report, sig string) string {
	// only the stacks of the two conflicting accesses count (not where the goroutines were created)
	inParse := false
	for _, blk := range strings.Split(report, "\n\n") {
		head := strings.TrimSpace(blk)
		if !(strings.HasPrefix(head, "WARNING: DATA RACE") || strings.HasPrefix(head, "Write at") || strings.HasPrefix(head, "Read at") ||
			strings.HasPrefix(head, "Previous write") || strings.HasPrefix(head, "Previous read")) {
			continue
		}
		if strings.Contains(blk, "gorm.io/gorm/schema.ParseWithSpecialTableName()") || strings.Contains(blk, "gorm.io/gorm/schema.getOrParse()") {
			inParse = true
		}
	}
	if !inParse {
		return sig
	}
	fns := strings.Split(strings.TrimPrefix(sig, "race:"), "<>")
	if len(fns) != 2 {
		return "race:schema-cold-parse"
	}
	a, b := fns[0], fns[1]
	if a > b {
		a, b = b, a
	}
	if parseFns[a] && parseFns[b] && !knownParsePairs[[2]string{a, b}] {
		return "race:cold-parse-new-pair:" + a + "<>" + b
	}
	return "race:schema-cold-parse"
}

func postChild(dir string, batch int, res *core.Result) {
	raw := map[string]int{}
	core.ScanRaceLogs(dir, res, func(report, sig string) string {
		cl := classifyRace(report, sig)
		if cl != sig {
			raw[sig]++
		}
		return cl
	})
	for sig, n := range raw {
		res.Counts["coldparse_pair "+strings.TrimPrefix(sig, "race:")] += int64(n)
	}
}

var Engine = &core.Engine{
	ID:    "C07",
	Level: "exploration",
	Rule: "each case: G in {2,4,8,16(,32)} goroutines released from a barrier on one *gorm.DB whose schema cache is cold (fresh Open on a pre-created SQLite file; every 7th case warm), each running a seeded program of 4..9 calls out of 37 (one of them a statement that fails for every goroutine alike; every 5th case all goroutines start with it) (chains derived from two shared reusable handles that carry three joins / three orders, reads of a model whose field type is its own serializer, graph creates through every relation kind of a mutually related model cluster plus unrelated models, First/Find/Preload/Joins, updates, deletes incl. soft delete and Select(assoc), nested and failing transactions, association mode, FirstOrCreate, Scan, FindInBatches) on its own key range; first statements touch different models of the cluster (every 5th case instead: all goroutines create and repeatedly read rows of the self-serializing model; another 5th: the first statements use six different owner models that all have a has-many to one child model); PrepareStmt on/off; a hook yields right after a half-built schema became visible (2 of 3 cases); " +
		"monitors: race detector (log parsed), per-call and final-state equality with the serial run of the same programs, porcupine-checked register histories on shared rows (every 2nd case); distinct = (G, PrepareStmt, warm, multiset of first statements, schemas parsed during the run); every run is non-trivial (at least 2 goroutines share the handle)",
	Assumptions: []string{
		"goroutines that have not returned after 90 s are a violation only if the goroutine dump shows every one of them blocked on a channel / lock inside gorm and none running; otherwise the case is inconclusive",
		"interleavings are sampled (natural scheduling + yields at schema.stored), not enumerated: held on the executions observed",
		"explicit primary keys per goroutine make results independent of the interleaving; SQLite in WAL mode with busy timeout and immediate transactions serialises writers without spurious errors",
		"race reports whose stacks contain no gorm frame on either side are signed '(no gorm frame)' and still reported",
	},
	Cases: func(tier string) int {
		if tier == "thorough" {
			return 4000
		}
		return 240
	},
	Batch: func(string) int { return 6 },
	Run:   run,
	Init:  initEnv,
	ChildEnv: func(dir string, batch int) []string {
		return []string{"GORACE=halt_on_error=0 log_path=" + filepath.Join(dir, "race")}
	},
	PostChild: postChild,
	ClassifyFatal: func(out string) string {
		// the known cold-parse races can end in the runtime's concurrent-map check
		if strings.Contains(out, "concurrent map") && strings.Contains(out, "gorm.io/gorm/schema.ParseWithSpecialTableName") {
			return "race:schema-cold-parse"
		}
		return "fatal"
	},
	MinNontrivial: 30,
	ChildTimeoutS: 1500,
}

package c01

import (
	"context"
	"database/sql"
	"database/sql/driver"
	"fmt"
	"reflect"
	"regexp"
	"sort"
	"strconv"
	"strings"
	"sync"
	"time"
	"unsafe"

	"gorm.io/gorm"
	"gorm.io/gorm/clause"

	"verif/core"
)

// Tag is the static model: column names c1..c9 are the "tags" the checker looks for
// next to each placeholder.
type Tag struct {
	ID int64 `gorm:"primaryKey"`
	C1 string
	C2 int64
	C3 float64
	C4 []byte
	C5 time.Time
	C6 *string
	C7 sql.NullInt64
	C8 bool
	C9 CustomVal
	// self-referential belongs-to: lets chains use association joins with a handle of ON conditions
	ParentID *int64
	Parent   *Tag
}

// Status is a named 8-bit integer type.
type Status uint8

// CustomVal is a driver.Valuer / sql.Scanner struct type.
type CustomVal struct{ S string }

func (c CustomVal) Value() (driver.Value, error) { return c.S, nil }
func (c *CustomVal) Scan(v interface{}) error {
	switch x := v.(type) {
	case string:
		c.S = x
	case []byte:
		c.S = string(x)
	}
	return nil
}
func (CustomVal) GormDataType() string { return "text" }

// VList is a slice type that is its own driver.Valuer (like pq.StringArray): it is bound whole, as one
// value, also when it is empty. An empty VList cannot carry a marker in its elements: the generator
// gives it a private backing array (capacity 1) and registers the marker under that array's address.
type VList []string

var vlistReg sync.Map // *string (backing array) -> marker text

func (v VList) Value() (driver.Value, error) {
	if len(v) > 0 {
		return strings.Join(v, ","), nil
	}
	if p := unsafe.SliceData([]string(v)); p != nil {
		if m, ok := vlistReg.Load(p); ok {
			return m.(string), nil
		}
	}
	return "", nil
}

// VArr is an array type that is its own driver.Valuer (like a [16]byte UUID): one bound value.
type VArr [2]string

func (v VArr) Value() (driver.Value, error) { return v[0] + "," + v[1], nil }

// GValuer implements gorm.Valuer: rendered as an SQL expression with its own argument.
type GValuer struct{ Inner interface{} }

func (g GValuer) GormValue(ctx context.Context, db *gorm.DB) clause.Expr {
	return clause.Expr{SQL: "UPPER(?)", Vars: []interface{}{g.Inner}}
}

const intBase = 1000000

var timeBase = time.Date(2001, 1, 1, 0, 0, 0, 0, time.UTC)

var tails = []string{"", "'", "''", `\`, `\'`, "?", "??", "@x", "@p1 ", ")", "(", "--", ";", "; DROP TABLE tags;--", `"`, "`", "%", "_", "ünï©ode✓", "\t", "\n", " OR 1=1", "' OR '1'='1", "$1", "$2", ":name", "\\\\"}

// leaf is one generated argument value.
type leaf struct {
	serial int
	col    string // tag column expected next to its placeholder ("" = not checked)
	val    interface{}
}

type gen struct {
	r        *core.Rand
	leaves   map[int]*leaf // registry
	expect   map[int]int   // serial -> occurrences that MUST appear in Vars
	maxocc   map[int]int   // serial -> occurrences that MAY appear
	n        int
	desc     []string
	unmarked int
	realCols []string
	forceK   int // genParts: when > 0, every part is of this form (and forceN of them)
	forceN   int
	midHook  func() // runChainOn: called between the chain methods and the finisher
	// ext: the workload of C01 proper (the engines of C19 and C06, which share this generator, leave it off and
	// keep the stream of random choices they always had): templates that mix '?' and '@name', named arguments from a
	// struct, clause.NamedExpr, every slot form in Select / Joins / Raw / Exec / Table templates
	ext   bool
	stats map[string]int
	noMix bool // ext: the next templates stay positional (places whose builder knows '?' only)
}

func newGen(r *core.Rand) *gen {
	return &gen{r: r, leaves: map[int]*leaf{}, expect: map[int]int{}, maxocc: map[int]int{}, stats: map[string]int{}}
}

func marker(serial int, col string) string { return fmt.Sprintf("⟦%d:%s⟧", serial, col) }

var markerRe = regexp.MustCompile("⟦(\\d+):([a-z0-9_]*)⟧")

// newLeaf creates a value of a random (or given) kind carrying a fresh serial.
// kind: "" random | string | int | float | bytes | time
func (g *gen) newLeaf(col, kind string) *leaf {
	g.n++
	s := g.n
	l := &leaf{serial: s, col: col}
	if kind == "" {
		kind = core.Pick(g.r, []string{"string", "string", "string", "int", "int64", "uint", "float", "bytes", "time", "pstring", "pint", "nullstring", "nullint", "custom", "gvaluer", "expr", "vlist", "vlistempty"})
	}
	str := marker(s, col) + core.Pick(g.r, tails)
	switch kind {
	case "string":
		l.val = str
	case "int":
		l.val = intBase + s
	case "int64":
		l.val = int64(intBase + s)
	case "uint":
		l.val = uint(intBase + s)
	case "float":
		l.val = float64(intBase+s) + 0.5
	case "bytes":
		l.val = []byte(str)
	case "time":
		l.val = timeBase.Add(time.Duration(s) * time.Second)
	case "pstring":
		l.val = &str
	case "pint":
		v := int64(intBase + s)
		l.val = &v
	case "nullstring":
		l.val = sql.NullString{String: str, Valid: true}
	case "nullint":
		l.val = sql.NullInt64{Int64: int64(intBase + s), Valid: true}
	case "custom":
		l.val = CustomVal{S: str}
	case "varr":
		l.val = VArr{str, "x"}
	case "vlist":
		l.val = VList{str}
	case "pvlist":
		v := VList{str}
		l.val = &v
	case "vlistempty":
		backing := make([]string, 0, 1)
		vlistReg.Store(unsafe.SliceData(backing), str)
		l.val = VList(backing)
	case "gvaluer":
		l.val = GValuer{Inner: str}
	case "expr":
		l.val = gorm.Expr("LOWER(?)", str)
	default:
		panic("kind " + kind)
	}
	g.leaves[s] = l
	return l
}

// serialOf decodes the serial carried by a bound value (-1 = unmarked value).
func serialOf(v interface{}) int {
	switch x := v.(type) {
	case nil:
		return -1
	case string:
		if m := markerRe.FindStringSubmatch(x); m != nil {
			n, _ := strconv.Atoi(m[1])
			return n
		}
		return -1
	case []byte:
		return serialOf(string(x))
	case int:
		return intSerial(int64(x))
	case int64:
		return intSerial(x)
	case uint:
		return intSerial(int64(x))
	case uint64:
		return intSerial(int64(x))
	case float64:
		return intSerial(int64(x))
	case bool:
		return -1
	case time.Time:
		d := x.Sub(timeBase)
		if d > 0 && d < 1000000*time.Second {
			return int(d / time.Second)
		}
		return -1
	case driver.Valuer:
		rv := reflect.ValueOf(x)
		if rv.Kind() == reflect.Ptr && rv.IsNil() {
			return -1
		}
		inner, err := x.Value()
		if err != nil {
			return -1
		}
		return serialOf(inner)
	}
	rv := reflect.ValueOf(v)
	if rv.Kind() == reflect.Ptr {
		if rv.IsNil() {
			return -1
		}
		return serialOf(rv.Elem().Interface())
	}
	return -1
}

func intSerial(x int64) int {
	if x > intBase && x < intBase+1000000 {
		return int(x - intBase)
	}
	return -1
}

func (g *gen) must(ls ...*leaf) {
	for _, l := range ls {
		g.expect[l.serial]++
		g.maxocc[l.serial]++
	}
}
func (g *gen) may(ls ...*leaf) {
	for _, l := range ls {
		g.maxocc[l.serial]++
	}
}

// kcol returns the tag column of the next raw-template slot: a unique synthetic name
// (C01, DryRun only) or, when realCols is set, a real column of the tags table (C19).
func (g *gen) kcol() string {
	if g.realCols != nil {
		return core.Pick(g.r, g.realCols)
	}
	return fmt.Sprintf("k%d", g.n+1)
}

// cond is (query, args) for Where/Not/Or/Having/inline plus its leaves.
type cond struct {
	desc   string
	query  interface{}
	args   []interface{}
	leaves []*leaf
}

func vals(ls []*leaf) []interface{} {
	out := make([]interface{}, len(ls))
	for i, l := range ls {
		out[i] = l.val
	}
	return out
}

// sliceLeaves builds a typed slice of n leaves sharing one column.
func (g *gen) sliceLeaves(col string, n int) (interface{}, []*leaf) {
	var ls []*leaf
	switch g.r.Intn(3) {
	case 0:
		out := make([]string, n)
		for i := range out {
			l := g.newLeaf(col, "string")
			out[i] = l.val.(string)
			ls = append(ls, l)
		}
		return out, ls
	case 1:
		out := make([]int64, n)
		for i := range out {
			l := g.newLeaf(col, "int64")
			out[i] = l.val.(int64)
			ls = append(ls, l)
		}
		return out, ls
	}
	if g.r.Chance(1, 6) {
		// a slice of a named 8-bit type is a slice, not a byte string: one placeholder per element
		// (the elements are too small to carry a serial; the count and no-whole-slice rules apply)
		out := make([]Status, n)
		for i := range out {
			out[i] = Status(g.r.Intn(200) + 1)
		}
		return out, nil
	}
	out := make([]interface{}, n)
	for i := range out {
		l := g.newLeaf(col, core.Pick(g.r, []string{"string", "int", "float", "time", "pstring", "nullstring", "custom"}))
		out[i] = l.val
		ls = append(ls, l)
	}
	return out, ls
}

// rawCond builds a raw-string condition with '?' placeholders.
func (g *gen) rawCond(root *gorm.DB, depth int) cond {
	var parts []string
	var args []interface{}
	var ls []*leaf
	n := g.r.Range(1, 3)
	for i := 0; i < n; i++ {
		col := g.kcol()
		if g.ext && g.r.Chance(1, 12) {
			// an argument without a value: untyped nil, nil pointers (to a plain type, to a driver.Valuer, to a
			// gorm.Valuer), invalid Null wrappers - one placeholder, one bound NULL each (no marker: count rules only)
			var np *string
			var ni *int64
			var nc *CustomVal
			var ng *GValuer
			parts = append(parts, col+" = ?")
			args = append(args, core.Pick(g.r, []interface{}{nil, np, ni, nc, ng, sql.NullString{}, sql.NullInt64{}}))
			g.n++
			continue
		}
		switch g.r.Intn(9) {
		case 0, 1, 2:
			l := g.newLeaf(col, "")
			parts = append(parts, col+" "+core.Pick(g.r, []string{"=", "<>", ">", "LIKE"})+" ?")
			args = append(args, l.val)
			ls = append(ls, l)
		case 3:
			sl, l2 := g.sliceLeaves(col, g.r.Range(1, 4))
			parts = append(parts, col+core.Pick(g.r, []string{" IN ?", " IN (?)", " NOT IN (?)"}))
			args = append(args, sl)
			ls = append(ls, l2...)
		case 4:
			// empty slice -> NULL, no placeholder
			parts = append(parts, col+core.Pick(g.r, []string{" IN ?", " IN (?)"}))
			args = append(args, core.Pick(g.r, []interface{}{[]string{}, []int64{}, []interface{}{}}))
		case 5:
			if g.r.Bool() {
				// a placeholder directly behind an opening parenthesis: there gorm expands plain slices
				// (a byte slice too), everything else - a slice type that is its own Valuer included -
				// is one bound value
				l := g.newLeaf(col, core.Pick(g.r, []string{"string", "int", "custom", "nullstring", "pstring", "vlist", "vlistempty", "vlistempty"}))
				parts = append(parts, col+" = (?)")
				args = append(args, l.val)
				ls = append(ls, l)
				continue
			}
			l := g.newLeaf(col, "")
			parts = append(parts, "COALESCE("+col+", ?) IS NOT NULL")
			args = append(args, l.val)
			ls = append(ls, l)
		case 6:
			// tuple IN with nested slices; all leaves are expected next to the last column
			colB := col + "b"
			if g.realCols != nil {
				colB = core.Pick(g.r, g.realCols)
			}
			rows := g.r.Range(1, 3)
			nested := make([][]interface{}, rows)
			for a := range nested {
				l1, l2 := g.newLeaf(colB, "string"), g.newLeaf(colB, "int")
				nested[a] = []interface{}{l1.val, l2.val}
				ls = append(ls, l1, l2)
			}
			parts = append(parts, "("+col+", "+colB+") IN ?")
			args = append(args, nested)
		case 7:
			if depth > 0 {
				sub, sl := g.subQuery(root, depth-1)
				parts = append(parts, col+core.Pick(g.r, []string{" IN (?)", " > (?)"}))
				args = append(args, sub)
				ls = append(ls, sl...)
				continue
			}
			fallthrough
		default:
			l1, l2 := g.newLeaf(col, "int"), g.newLeaf(col, "float")
			parts = append(parts, col+" BETWEEN ? AND ?")
			args = append(args, l1.val, l2.val)
			ls = append(ls, l1, l2)
		}
	}
	q := strings.Join(parts, core.Pick(g.r, []string{" AND ", " OR "}))
	if g.ext && !g.noMix && g.r.Bool() {
		q, args = g.mixNamed(q, args)
	}
	return cond{desc: fmt.Sprintf("%q %s", q, descArgs(args)), query: q, args: args, leaves: ls}
}

// isPlainSlice: a slice or array that gorm expands to one placeholder per element.
func isPlainSlice(v interface{}) bool {
	if _, ok := v.(driver.Valuer); ok {
		return false
	}
	rv := reflect.ValueOf(v)
	return rv.IsValid() && (rv.Kind() == reflect.Slice || rv.Kind() == reflect.Array)
}

// NArgs hands named arguments over as the exported fields of a struct (@N0, @N1, @N2).
type NArgs struct{ N0, N1, N2 interface{} }

// mixNamed takes a template whose slots are all spelt '?' (one argument per slot, in order) and spells a random
// non-empty subset of the slots '@name' instead. The values of those slots leave the positional list and come back
// as named arguments - one sql.Named each, gathered in one map, or both - placed at random in front of, between
// or behind the positional arguments that remain. Every slot still stands for exactly one argument, so what has
// to be bound, and where, does not change. A plain slice directly behind '(' stays positional ('IN (@name)' with a
// slice is not a supported spelling).
func (g *gen) mixNamed(q string, args []interface{}) (string, []interface{}) {
	if strings.Count(q, "?") != len(args) || strings.Contains(q, "@") {
		return q, args
	}
	var elig []int
	i := 0
	for p := 0; p < len(q); p++ {
		if q[p] != '?' {
			continue
		}
		if !(p > 0 && q[p-1] == '(' && isPlainSlice(args[i])) {
			elig = append(elig, i)
		}
		i++
	}
	if len(elig) == 0 {
		return q, args
	}
	pick := map[int]bool{}
	perm := g.r.Perm(len(elig))
	for _, j := range perm[:g.r.Range(1, len(elig))] {
		pick[elig[j]] = true
	}
	prefix := core.Pick(g.r, []string{"n", "arg_", "P", "v"})
	var sb strings.Builder
	var pos []interface{}
	type nv struct {
		name string
		val  interface{}
	}
	var named []nv
	i = 0
	for p := 0; p < len(q); p++ {
		if q[p] != '?' {
			sb.WriteByte(q[p])
			continue
		}
		if pick[i] {
			name := fmt.Sprintf("%s%d", prefix, i)
			sb.WriteString("@" + name)
			named = append(named, nv{name, args[i]})
		} else {
			sb.WriteByte('?')
			pos = append(pos, args[i])
		}
		i++
	}
	var items []interface{}
	single := len(named)
	switch g.r.Intn(3) {
	case 1:
		single = 0
	case 2:
		single = g.r.Intn(len(named) + 1)
	}
	m := map[string]interface{}{}
	for k, x := range named {
		if k < single {
			items = append(items, sql.Named(x.name, x.val))
		} else {
			m[x.name] = x.val
		}
	}
	if len(m) > 0 {
		items = append(items, m)
	}
	if len(pos) > 0 {
		g.stats["templates_mixing_named_and_positional"]++
	} else {
		g.stats["templates_turned_named"]++
	}
	out := append([]interface{}{}, pos...)
	for _, it := range items {
		at := g.r.Intn(len(out) + 1)
		out = append(out, nil)
		copy(out[at+1:], out[at:])
		out[at] = it
	}
	return sb.String(), out
}

func descArg(a interface{}) string {
	d := descArgs([]interface{}{a})
	return d[1 : len(d)-1]
}

func descArgs(args []interface{}) string {
	parts := make([]string, len(args))
	for i, a := range args {
		switch x := a.(type) {
		case *gorm.DB:
			parts[i] = "<sub-query>"
		case sql.NamedArg:
			parts[i] = fmt.Sprintf("sql.Named(%q, %s)", x.Name, descArg(x.Value))
		case map[string]interface{}:
			var kv []string
			for k, v := range x {
				kv = append(kv, fmt.Sprintf("%q: %s", k, descArg(v)))
			}
			sort.Strings(kv)
			parts[i] = "map[string]interface{}{" + strings.Join(kv, ", ") + "}"
		case *string:
			if x != nil {
				parts[i] = fmt.Sprintf("&%q", *x)
			} else {
				parts[i] = "(*string)(nil)"
			}
		case *int64:
			if x != nil {
				parts[i] = fmt.Sprintf("&%d", *x)
			} else {
				parts[i] = "(*int64)(nil)"
			}
		default:
			parts[i] = fmt.Sprintf("%#v", a)
		}
	}
	return "[" + strings.Join(parts, ", ") + "]"
}

// namedCond builds "@name" conditions with a map, sql.Named or a struct.
func (g *gen) namedCond() cond {
	n := g.r.Range(1, 3)
	var parts []string
	var ls []*leaf
	names := map[string]interface{}{}
	twice := g.r.Chance(1, 4)
	// ext: the named arguments may also come as the exported fields of a struct (value or pointer)
	style := -1
	if g.ext {
		style = g.r.Intn(4)
	}
	for i := 0; i < n; i++ {
		col := g.kcol()
		name := fmt.Sprintf("n%d", i)
		if style >= 2 {
			name = fmt.Sprintf("N%d", i)
		}
		if g.r.Chance(1, 4) {
			sl, l2 := g.sliceLeaves(col, g.r.Range(1, 3))
			names[name] = sl
			parts = append(parts, col+" IN @"+name)
			ls = append(ls, l2...)
			continue
		}
		if g.r.Chance(1, 8) {
			// a named argument that is present and nil is bound as NULL (one placeholder, one value)
			names[name] = nil
			parts = append(parts, col+" = @"+name)
			g.n++
			continue
		}
		l := g.newLeaf(col, core.Pick(g.r, []string{"string", "int", "float", "time", "bytes", "pstring", "nullstring", "custom", "vlist", "varr"}))
		names[name] = l.val
		parts = append(parts, col+" = @"+name)
		ls = append(ls, l)
		if twice && i == 0 {
			// the same name used a second time binds the value a second time
			parts = append(parts, col+" <> @"+name)
			ls = append(ls, l)
		}
	}
	q := strings.Join(parts, " AND ")
	var args []interface{}
	if style >= 2 {
		st := NArgs{N0: names["N0"], N1: names["N1"], N2: names["N2"]}
		if style == 2 {
			args = []interface{}{st}
		} else {
			args = []interface{}{&st}
		}
		return cond{desc: fmt.Sprintf("%q named by the fields of %sNArgs%v", q, map[bool]string{true: "&"}[style == 3], names), query: q, args: args, leaves: ls}
	}
	if (style < 0 && g.r.Bool()) || style == 0 {
		args = []interface{}{names}
	} else {
		for k := 0; k < n; k++ {
			nm := fmt.Sprintf("n%d", k)
			args = append(args, sql.Named(nm, names[nm]))
		}
	}
	return cond{desc: fmt.Sprintf("%q named %v", q, names), query: q, args: args, leaves: ls}
}

func (g *gen) mapCond() cond {
	n := g.r.Range(1, 3)
	m := map[string]interface{}{}
	var ls []*leaf
	for i := 0; i < n; i++ {
		col := g.kcol()
		switch g.r.Intn(5) {
		case 0:
			sl, l2 := g.sliceLeaves(col, g.r.Range(1, 3))
			m[col] = sl
			ls = append(ls, l2...)
		case 1:
			m[col] = nil
			g.n++
		case 2:
			m[col] = []string{}
			g.n++
		default:
			// a []byte map value is a slice for BuildCondition (IN over its bytes): the
			// statement lets slices expand per element, so byte slices are not used here
			l := g.newLeaf(col, core.Pick(g.r, []string{"string", "int", "int64", "uint", "float", "time", "pstring", "pint", "nullstring", "nullint", "custom", "gvaluer", "expr", "vlist", "vlistempty", "varr", "pvlist"}))
			m[col] = l.val
			ls = append(ls, l)
		}
	}
	return cond{desc: fmt.Sprintf("map%v", m), query: m, leaves: ls}
}

func (g *gen) structCond() cond {
	var t Tag
	var ls []*leaf
	add := func(l *leaf) { ls = append(ls, l) }
	picked := false
	for !picked {
		if g.r.Bool() {
			l := g.newLeaf("c1", "string")
			t.C1 = l.val.(string)
			add(l)
			picked = true
		}
		if g.r.Bool() {
			l := g.newLeaf("c2", "int64")
			t.C2 = l.val.(int64)
			add(l)
			picked = true
		}
		if g.r.Chance(1, 3) {
			l := g.newLeaf("c3", "float")
			t.C3 = l.val.(float64)
			add(l)
			picked = true
		}
		if g.r.Chance(1, 3) {
			l := g.newLeaf("c4", "bytes")
			t.C4 = l.val.([]byte)
			add(l)
			picked = true
		}
		if g.r.Chance(1, 3) {
			l := g.newLeaf("c5", "time")
			t.C5 = l.val.(time.Time)
			add(l)
			picked = true
		}
		if g.r.Chance(1, 3) {
			l := g.newLeaf("c6", "pstring")
			t.C6 = l.val.(*string)
			add(l)
			picked = true
		}
		if g.r.Chance(1, 3) {
			l := g.newLeaf("c7", "nullint")
			t.C7 = l.val.(sql.NullInt64)
			add(l)
			picked = true
		}
		if g.r.Chance(1, 3) {
			l := g.newLeaf("c9", "custom")
			t.C9 = l.val.(CustomVal)
			add(l)
			picked = true
		}
	}
	if g.r.Bool() {
		return cond{desc: fmt.Sprintf("&Tag%+v", t), query: &t, leaves: ls}
	}
	return cond{desc: fmt.Sprintf("Tag%+v", t), query: t, leaves: ls}
}

func (g *gen) clauseCond() cond {
	if g.ext && g.r.Chance(1, 8) {
		// the named-expression builder used directly: '@name' and '?' slots in one template
		save := g.noMix
		g.noMix = true
		c := g.rawCond(nil, 0)
		g.noMix = save
		q, args := g.mixNamed(c.query.(string), c.args)
		return cond{desc: fmt.Sprintf("clause.NamedExpr{%q %s}", q, descArgs(args)), query: clause.NamedExpr{SQL: q, Vars: args}, leaves: c.leaves}
	}
	col := g.kcol()
	switch g.r.Intn(7) {
	case 0:
		l := g.newLeaf(col, "")
		return cond{desc: "clause.Eq{" + col + "}", query: clause.Eq{Column: col, Value: l.val}, leaves: []*leaf{l}}
	case 1:
		l := g.newLeaf(col, "")
		return cond{desc: "clause.Neq{" + col + "}", query: clause.Neq{Column: clause.Column{Table: "tags", Name: col}, Value: l.val}, leaves: []*leaf{l}}
	case 2:
		l := g.newLeaf(col, "string")
		return cond{desc: "clause.Like{" + col + "}", query: clause.Like{Column: col, Value: l.val}, leaves: []*leaf{l}}
	case 3:
		sl, ls := g.sliceLeaves(col, g.r.Range(1, 4))
		rv := reflect.ValueOf(sl)
		vs := make([]interface{}, rv.Len())
		for i := range vs {
			vs[i] = rv.Index(i).Interface()
		}
		return cond{desc: "clause.IN{" + col + "}", query: clause.IN{Column: col, Values: vs}, leaves: ls}
	case 4:
		l := g.newLeaf(col, "")
		colB := g.kcol()
		l2 := g.newLeaf(colB, "")
		return cond{desc: "clause.Or(Gt,Lte)", query: clause.Or(clause.Gt{Column: col, Value: l.val}, clause.Lte{Column: colB, Value: l2.val}), leaves: []*leaf{l, l2}}
	case 5:
		l := g.newLeaf(col, "string")
		return cond{desc: "clause.Expr", query: clause.Expr{SQL: col + " = ?", Vars: []interface{}{l.val}}, leaves: []*leaf{l}}
	}
	l := g.newLeaf(col, "string")
	colB := g.kcol()
	l2 := g.newLeaf(colB, "int")
	return cond{desc: "clause.And(Eq,Not(Eq))", query: clause.And(clause.Eq{Column: col, Value: l.val}, clause.Not(clause.Eq{Column: colB, Value: l2.val})), leaves: []*leaf{l, l2}}
}

func (g *gen) groupCond(root *gorm.DB, depth int) cond {
	a, b := g.simpleCond(root, depth), g.simpleCond(root, depth)
	db := root.Where(a.query, a.args...)
	if g.r.Bool() {
		db = db.Or(b.query, b.args...)
	} else {
		db = db.Where(b.query, b.args...)
	}
	return cond{desc: "group(" + a.desc + " ; " + b.desc + ")", query: db, leaves: append(a.leaves, b.leaves...)}
}

func (g *gen) simpleCond(root *gorm.DB, depth int) cond {
	switch g.r.Intn(4) {
	case 0:
		return g.mapCond()
	case 1:
		return g.clauseCond()
	case 2:
		return g.namedCond()
	}
	return g.rawCond(root, depth)
}

func (g *gen) anyCond(root *gorm.DB, depth int) cond {
	switch g.r.Intn(8) {
	case 0, 1:
		return g.rawCond(root, depth)
	case 2:
		return g.namedCond()
	case 3:
		return g.mapCond()
	case 4:
		return g.structCond()
	case 5:
		return g.clauseCond()
	case 6:
		if depth > 0 {
			return g.groupCond(root, depth-1)
		}
	}
	return g.rawCond(root, depth)
}

// subQuery returns a *gorm.DB usable as an argument: a chain sub-query or a Raw one.
func (g *gen) subQuery(root *gorm.DB, depth int) (*gorm.DB, []*leaf) {
	if g.ext && g.r.Chance(1, 3) {
		// a Raw sub-query over any slot forms, '?' and '@name' mixed
		c := g.rawCond(root, depth)
		return root.Raw("SELECT c2 FROM tags WHERE "+c.query.(string), c.args...), c.leaves
	}
	if g.r.Bool() {
		col := g.kcol()
		l := g.newLeaf(col, "")
		col2 := g.kcol()
		l2 := g.newLeaf(col2, "string")
		return root.Raw("SELECT c2 FROM tags WHERE "+col+" = ? AND "+col2+" <> ?", l.val, l2.val), []*leaf{l, l2}
	}
	c := g.anyCond(root, depth)
	db := root.Table("tags").Select("c2").Where(c.query, c.args...)
	ls := c.leaves
	if g.r.Chance(1, 3) {
		c2 := g.simpleCond(root, 0)
		db = db.Or(c2.query, c2.args...)
		ls = append(ls, c2.leaves...)
	}
	return db, ls
}

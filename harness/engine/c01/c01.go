// Package c01: argument values reach the database only as bound parameters, one per
// placeholder, in order.
//
// Observation point: Statement.SQL / Statement.Vars after a DryRun finisher under two
// database-less dialectors ('?' and '$n'), plus real executions on SQLite behind the
// recording driver (text and bound values as the driver receives them).
// Oracle: every generated leaf value carries a unique serial and the name of the column
// it was generated for; the checker tokenises the final SQL and verifies (1) no value
// text / literal in the SQL, (2) #placeholders == #Vars and $n numbered 1..N left to
// right, (3) the i-th placeholder sits in the syntactic context of the column Vars[i]
// was generated for, (4) nothing dropped, duplicated or foreign.
package c01

import (
	"database/sql"
	"database/sql/driver"
	"encoding/json"
	"errors"
	"fmt"
	"reflect"
	"sort"
	"strings"
	"time"

	"gorm.io/gorm"
	"gorm.io/gorm/clause"
	"gorm.io/gorm/logger"

	"verif/core"
	"verif/dialects"
	"verif/vdb"
)

var dryQ, dryN *gorm.DB
var real *vdb.Handle

func initEnv(c *core.Ctx) {
	var err error
	dryQ, err = gorm.Open(dialects.Dummy{}, &gorm.Config{DryRun: true, Logger: logger.Discard})
	if err != nil {
		panic(err)
	}
	dryN, err = gorm.Open(dialects.Dummy{Numbered: true}, &gorm.Config{DryRun: true, Logger: logger.Discard})
	if err != nil {
		panic(err)
	}
	real, err = vdb.Open(vdb.Options{})
	if err != nil {
		panic(err)
	}
	if err := real.DB.AutoMigrate(&Tag{}); err != nil {
		panic(err)
	}
}

var finishers = []string{"Find", "First", "Take", "Scan", "Count", "Pluck", "Update", "UpdateExpr", "UpdatesMap", "UpdatesStruct", "UpdateColumn", "UpdateColumns", "Delete", "DeleteInline",
	"CreateStruct", "CreateSlice", "CreateMap", "CreateMaps", "UpsertDoUpdates", "UpsertUpdateAll", "UpsertDoNothing", "Save", "RawScan", "Exec", "FindInline"}

type part struct {
	kind   string // where not or having select joins order table clausewhere
	desc   string
	leaves []*leaf
	apply  func(db *gorm.DB) *gorm.DB
}

func (g *gen) genParts(root *gorm.DB) []part {
	var parts []part
	n := g.r.Range(1, 5)
	if g.forceN > 0 {
		n = g.forceN
	}
	used := map[int]bool{}
	for i := 0; i < n; i++ {
		k := g.r.Intn(14)
		if g.forceK > 0 {
			k = g.forceK
		}
		// later Select / Order(expr) / Table calls replace earlier ones: at most one each
		if k >= 6 && k <= 10 && g.forceK <= 0 {
			if used[k] {
				k = 0
			}
			used[k] = true
		}
		switch {
		case k < 6:
			c := g.anyCond(root, 2)
			op := core.Pick(g.r, []string{"where", "where", "not", "or"})
			cc := c
			parts = append(parts, part{kind: op, desc: strings.Title(op) + "(" + c.desc + ")", leaves: c.leaves, apply: func(db *gorm.DB) *gorm.DB {
				switch op {
				case "where":
					return db.Where(cc.query, cc.args...)
				case "not":
					return db.Not(cc.query, cc.args...)
				}
				return db.Or(cc.query, cc.args...)
			}})
		case k == 6 && g.ext && g.r.Bool():
			// a select list with a computed column over any slot forms (scalars, slices, tuples, sub-queries), '?' and
			// '@name' mixed, the named arguments in front of, between or behind the positional ones
			c := g.rawCond(root, 1)
			q := "c1, (" + c.query.(string) + ") AS z"
			form := g.r.Intn(3)
			d := fmt.Sprintf("%s(%q, %s...)", []string{"Select", "Distinct", "Distinct().Select"}[form], q, descArgs(c.args))
			parts = append(parts, part{kind: "select", desc: d, leaves: c.leaves, apply: func(db *gorm.DB) *gorm.DB {
				switch form {
				case 1:
					return db.Distinct(append([]interface{}{q}, c.args...)...)
				case 2:
					return db.Distinct().Select(q, c.args...)
				}
				return db.Select(q, c.args...)
			}})
		case k == 6:
			col := g.kcol()
			l := g.newLeaf(col, core.Pick(g.r, []string{"string", "int", "float", "gvaluer"}))
			q := col + " || ? AS z"
			if g.r.Bool() {
				q = "c1, COALESCE(" + col + ", ?) AS z"
			}
			// the select list through Select or Distinct, its argument positional or named (sql.Named / map)
			form := g.r.Intn(6)
			qn := strings.Replace(q, "?", "@v", 1)
			switch form {
			case 1:
				parts = append(parts, part{kind: "select", desc: fmt.Sprintf("Select(%q, sql.Named(v, %#v))", qn, l.val), leaves: []*leaf{l}, apply: func(db *gorm.DB) *gorm.DB { return db.Select(qn, sql.Named("v", l.val)) }})
			case 2:
				parts = append(parts, part{kind: "select", desc: fmt.Sprintf("Select(%q, map{v: %#v})", qn, l.val), leaves: []*leaf{l}, apply: func(db *gorm.DB) *gorm.DB { return db.Select(qn, map[string]interface{}{"v": l.val}) }})
			case 3:
				parts = append(parts, part{kind: "select", desc: fmt.Sprintf("Distinct(%q, %#v)", q, l.val), leaves: []*leaf{l}, apply: func(db *gorm.DB) *gorm.DB { return db.Distinct(q, l.val) }})
			case 4:
				parts = append(parts, part{kind: "select", desc: fmt.Sprintf("Distinct(%q, sql.Named(v, %#v))", qn, l.val), leaves: []*leaf{l}, apply: func(db *gorm.DB) *gorm.DB { return db.Distinct(qn, sql.Named("v", l.val)) }})
			case 5:
				parts = append(parts, part{kind: "select", desc: fmt.Sprintf("Distinct().Select(%q, map{v: %#v})", qn, l.val), leaves: []*leaf{l}, apply: func(db *gorm.DB) *gorm.DB { return db.Distinct().Select(qn, map[string]interface{}{"v": l.val}) }})
			default:
				parts = append(parts, part{kind: "select", desc: fmt.Sprintf("Select(%q, %#v)", q, l.val), leaves: []*leaf{l}, apply: func(db *gorm.DB) *gorm.DB { return db.Select(q, l.val) }})
			}
		case k == 7 && g.forceK <= 0 && g.r.Bool():
			// association join whose ON conditions come from a handle with one to three conditions
			n := g.r.Range(1, 3)
			cs := make([]cond, n)
			var ls []*leaf
			ds := make([]string, n)
			for i := range cs {
				cs[i] = g.simpleCond(root, 1)
				ls = append(ls, cs[i].leaves...)
				ds[i] = "Where(" + cs[i].desc + ")"
			}
			inner := g.r.Bool()
			name := map[bool]string{false: "Joins", true: "InnerJoins"}[inner]
			parts = append(parts, part{kind: "joins", desc: name + "(\"Parent\", db." + strings.Join(ds, ".") + ")", leaves: ls, apply: func(db *gorm.DB) *gorm.DB {
				h := root.Session(&gorm.Session{})
				for _, c := range cs {
					h = h.Where(c.query, c.args...)
				}
				if inner {
					return db.InnerJoins("Parent", h)
				}
				return db.Joins("Parent", h)
			}})
		case k == 7 && g.ext && g.r.Bool():
			// a raw join whose ON condition is a template over any slot forms, '?' and '@name' mixed
			c := g.rawCond(root, 1)
			q := "JOIN others ON others.tag_id = tags.id AND " + c.query.(string)
			parts = append(parts, part{kind: "joins", desc: fmt.Sprintf("Joins(%q, %s...)", q, descArgs(c.args)), leaves: c.leaves, apply: func(db *gorm.DB) *gorm.DB { return db.Joins(q, c.args...) }})
		case k == 7:
			col := g.kcol()
			l := g.newLeaf(col, "")
			col2 := g.kcol()
			sl, ls := g.sliceLeaves(col2, g.r.Range(1, 3))
			q := "JOIN others ON others.tag_id = tags.id AND others." + col + " = ? AND others." + col2 + " IN ?"
			parts = append(parts, part{kind: "joins", desc: fmt.Sprintf("Joins(%q, ...)", q), leaves: append([]*leaf{l}, ls...), apply: func(db *gorm.DB) *gorm.DB { return db.Joins(q, l.val, sl) }})
		case k == 8:
			c := g.simpleCond(root, 1)
			switch g.r.Intn(3) {
			case 0:
				parts = append(parts, part{kind: "having", desc: "Group(c2).Having(" + c.desc + ")", leaves: c.leaves, apply: func(db *gorm.DB) *gorm.DB { return db.Group("c2").Having(c.query, c.args...) }})
			case 1:
				parts = append(parts, part{kind: "having", desc: "Having(" + c.desc + ").Group(c2)", leaves: c.leaves, apply: func(db *gorm.DB) *gorm.DB { return db.Having(c.query, c.args...).Group("c2") }})
			default:
				parts = append(parts, part{kind: "having", desc: "Group(c2).Having(" + c.desc + ").Group(c3)", leaves: c.leaves, apply: func(db *gorm.DB) *gorm.DB { return db.Group("c2").Having(c.query, c.args...).Group("c3") }})
			}
		case k == 9 && g.ext && g.r.Chance(1, 3):
			// an ORDER BY expression given as a named expression: '@name' and '?' slots in one template
			col := g.kcol()
			sl, ls := g.sliceLeaves(col, g.r.Range(1, 3))
			col2 := g.kcol()
			l := g.newLeaf(col2, "")
			q, args := g.mixNamed("FIELD("+col+",?), "+col2+" = ?", []interface{}{sl, l.val})
			ob := clause.OrderBy{Expression: clause.NamedExpr{SQL: q, Vars: args}}
			viaClauses := g.r.Bool()
			parts = append(parts, part{kind: "order", desc: fmt.Sprintf("Order(clause.NamedExpr{%q %s})", q, descArgs(args)), leaves: append(ls, l), apply: func(db *gorm.DB) *gorm.DB {
				if viaClauses {
					return db.Clauses(ob)
				}
				return db.Order(ob)
			}})
		case k == 9:
			col := g.kcol()
			sl, ls := g.sliceLeaves(col, g.r.Range(1, 4))
			ob := clause.OrderBy{Expression: clause.Expr{SQL: "FIELD(" + col + ",?)", Vars: []interface{}{sl}, WithoutParentheses: true}}
			viaClauses := g.r.Bool()
			parts = append(parts, part{kind: "order", desc: "Order(FIELD(" + col + ",?))", leaves: ls, apply: func(db *gorm.DB) *gorm.DB {
				if viaClauses {
					return db.Clauses(ob)
				}
				return db.Order(ob)
			}})
		case k == 10 && g.ext && g.r.Chance(2, 3):
			// a table expression with arguments of its own: a table-valued function written with or without any
			// space, alias or none, one or two arguments (scalars or slices), or a derived table over a raw
			// condition. The builder of table expressions knows '?' only.
			var q string
			var args []interface{}
			var ls []*leaf
			if g.r.Chance(1, 3) {
				g.noMix = true
				c := g.rawCond(root, 1)
				g.noMix = false
				q, args, ls = "(SELECT * FROM tags WHERE "+c.query.(string)+") AS tags", c.args, c.leaves
			} else {
				sep := core.Pick(g.r, []string{",", ", "})
				var items []string
				for a, n := 0, g.r.Range(1, 2); a < n; a++ {
					col := g.kcol()
					if g.r.Chance(1, 4) {
						sl, l2 := g.sliceLeaves(col, g.r.Range(1, 3))
						args, ls = append(args, sl), append(ls, l2...)
					} else {
						l := g.newLeaf(col, "")
						args, ls = append(args, l.val), append(ls, l)
					}
					items = append(items, col+sep+"?")
				}
				q = "tfn(" + strings.Join(items, sep) + ")" + core.Pick(g.r, []string{"", "", " AS tags", " tags"})
			}
			parts = append(parts, part{kind: "table", desc: fmt.Sprintf("Table(%q, %s...)", q, descArgs(args)), leaves: ls, apply: func(db *gorm.DB) *gorm.DB { return db.Table(q, args...) }})
		case k == 10:
			sub, ls := g.subQuery(root, 1)
			parts = append(parts, part{kind: "table", desc: "Table(\"(?) as tags\", <sub-query>)", leaves: ls, apply: func(db *gorm.DB) *gorm.DB { return db.Table("(?) as tags", sub) }})
		case k == 11:
			col := g.kcol()
			l := g.newLeaf(col, "")
			w := clause.Where{Exprs: []clause.Expression{clause.Eq{Column: col, Value: l.val}}}
			parts = append(parts, part{kind: "where", desc: "Clauses(clause.Where{Eq " + col + "})", leaves: []*leaf{l}, apply: func(db *gorm.DB) *gorm.DB { return db.Clauses(w) }})
		case k == 12 && g.r.Bool():
			ret := clause.Returning{}
			d := "Clauses(Returning{})"
			if g.r.Bool() {
				ret = clause.Returning{Columns: []clause.Column{{Name: "id"}, {Name: "c1"}}}
				d = "Clauses(Returning{id,c1})"
			}
			parts = append(parts, part{kind: "misc", desc: d, apply: func(db *gorm.DB) *gorm.DB { return db.Clauses(ret) }})
		case k == 12:
			parts = append(parts, part{kind: "misc", desc: "Clauses(Locking).Limit(5).Offset(2)", apply: func(db *gorm.DB) *gorm.DB {
				return db.Clauses(clause.Locking{Strength: "UPDATE"}).Limit(5).Offset(2)
			}})
		default:
			parts = append(parts, part{kind: "misc", desc: "Distinct()", apply: func(db *gorm.DB) *gorm.DB { return db.Distinct() }})
		}
	}
	return parts
}

// tagRecord builds a Tag whose fields carry markers for their own columns.
func (g *gen) tagRecord() (Tag, []*leaf) {
	var t Tag
	var ls []*leaf
	l := g.newLeaf("c1", "string")
	t.C1 = l.val.(string)
	ls = append(ls, l)
	l = g.newLeaf("c2", "int64")
	t.C2 = l.val.(int64)
	ls = append(ls, l)
	l = g.newLeaf("c3", "float")
	t.C3 = l.val.(float64)
	ls = append(ls, l)
	l = g.newLeaf("c4", "bytes")
	t.C4 = l.val.([]byte)
	ls = append(ls, l)
	l = g.newLeaf("c5", "time")
	t.C5 = l.val.(time.Time)
	ls = append(ls, l)
	if g.r.Bool() {
		l = g.newLeaf("c6", "pstring")
		t.C6 = l.val.(*string)
		ls = append(ls, l)
	}
	if g.r.Bool() {
		l = g.newLeaf("c7", "nullint")
		t.C7 = l.val.(sql.NullInt64)
		ls = append(ls, l)
	}
	t.C8 = g.r.Bool()
	l = g.newLeaf("c9", "custom")
	t.C9 = l.val.(CustomVal)
	ls = append(ls, l)
	return t, ls
}

func (g *gen) tagMap() (map[string]interface{}, []*leaf) {
	m := map[string]interface{}{}
	var ls []*leaf
	l := g.newLeaf("c1", core.Pick(g.r, []string{"string", "pstring", "nullstring", "expr", "gvaluer"}))
	m["c1"] = l.val
	ls = append(ls, l)
	if g.r.Bool() {
		l = g.newLeaf("c2", core.Pick(g.r, []string{"int", "int64", "uint", "pint", "nullint"}))
		m["c2"] = l.val
		ls = append(ls, l)
	}
	if g.r.Bool() {
		l = g.newLeaf("c4", "bytes")
		m["C4"] = l.val // field-name spelling
		ls = append(ls, l)
	}
	if g.r.Bool() {
		l = g.newLeaf("c5", "time")
		m["c5"] = l.val
		ls = append(ls, l)
	}
	return m, ls
}

type outcome struct {
	sql  string
	vars []interface{}
	err  error
	res  *gorm.DB
	// mainLast: the operation consists of several statements and the exposed one is the LAST of them
	// (the real run's last statement event is the one to compare with)
	mainLast bool
	// noMain: the operation runs its statements on handles of its own (CreateInBatches): the handle it returns
	// exposes none of them; only "nothing is sent" is checked
	noMain bool
	// rows: for a create of several rows, the leaves of each row in row order (every one of them must be bound inside
	// the values of its own row)
	rows [][]*leaf
}

// runChain builds the chain on db and executes the finisher; returns the statement.
func (g *gen) runChain(db *gorm.DB, parts []part, fin string) (out outcome, desc string, requireKinds map[string]bool, finLeaves []*leaf) {
	return g.runChainOn(db, db, parts, fin)
}

// runChainOn applies parts to db; sub-builders and sub-queries are built from root.
func (g *gen) runChainOn(root, db *gorm.DB, parts []part, fin string) (out outcome, desc string, requireKinds map[string]bool, finLeaves []*leaf) {
	var d []string
	writes := strings.HasPrefix(fin, "Create") || strings.HasPrefix(fin, "Upsert") || strings.HasPrefix(fin, "Update") || strings.HasPrefix(fin, "Delete") || fin == "Save"
	for _, p := range parts {
		if p.kind == "table" && writes {
			// a derived table is not a write target
			continue
		}
		db = p.apply(db)
		d = append(d, p.desc)
	}
	if g.midHook != nil {
		g.midHook()
	}
	requireKinds = map[string]bool{}
	all := func() {
		for _, k := range []string{"where", "not", "or", "having", "select", "joins", "order", "table"} {
			requireKinds[k] = true
		}
	}
	conds := func() {
		for _, k := range []string{"where", "not", "or"} {
			requireKinds[k] = true
		}
	}
	var res *gorm.DB
	switch fin {
	case "Find":
		all()
		res = db.Find(&[]Tag{})
	case "FindInline":
		all()
		c := g.anyCond(root, 1)
		finLeaves = c.leaves
		d = append(d, "Find(&tags, "+c.desc+")")
		res = db.Find(&[]Tag{}, append([]interface{}{c.query}, c.args...)...)
	case "First":
		all()
		// First orders by primary key; gorm keeps only column orders when merging, so an
		// earlier Order(expression) is replaced as a whole (placeholder and value together)
		requireKinds["order"] = false
		res = db.First(&Tag{})
	case "Take":
		all()
		res = db.Take(&Tag{})
	case "Scan":
		all()
		res = db.Model(&Tag{}).Scan(&[]Tag{})
	case "Count":
		conds()
		requireKinds["having"], requireKinds["joins"], requireKinds["table"] = true, true, true
		var n int64
		res = db.Model(&Tag{}).Count(&n)
	case "Pluck":
		conds()
		requireKinds["having"], requireKinds["joins"], requireKinds["table"], requireKinds["order"] = true, true, true, true
		// a select list that carries arguments is a clause of its own, which Pluck keeps (it adds its column only
		// when no SELECT clause exists): the values stay bound (seeded change C01-s)
		requireKinds["select"] = true
		var xs []string
		res = db.Model(&Tag{}).Pluck("c1", &xs)
	case "Update":
		conds()
		l := g.newLeaf("c1", "")
		finLeaves = []*leaf{l}
		res = db.Model(&Tag{ID: 7}).Update("c1", l.val)
	case "UpdateExpr":
		conds()
		l := g.newLeaf("c2", "int")
		finLeaves = []*leaf{l}
		res = db.Model(&Tag{}).Update("c2", gorm.Expr("c2 + ?", l.val))
	case "UpdatesMap":
		conds()
		m, ls := g.tagMap()
		finLeaves = ls
		res = db.Model(&Tag{}).Updates(m)
	case "UpdatesStruct":
		conds()
		t, ls := g.tagRecord()
		finLeaves = ls
		res = db.Model(&Tag{ID: 3}).Updates(t)
	case "UpdateColumn":
		conds()
		l := g.newLeaf("c1", "string")
		finLeaves = []*leaf{l}
		res = db.Model(&Tag{}).UpdateColumn("c1", l.val)
	case "UpdateColumns":
		conds()
		m, ls := g.tagMap()
		finLeaves = ls
		res = db.Model(&Tag{}).UpdateColumns(m)
	case "Delete":
		conds()
		res = db.Delete(&Tag{})
	case "DeleteInline":
		conds()
		c := g.simpleCond(root, 1)
		finLeaves = c.leaves
		d = append(d, "Delete(&Tag{}, "+c.desc+")")
		res = db.Delete(&Tag{}, append([]interface{}{c.query}, c.args...)...)
	case "CreateStruct":
		t, ls := g.tagRecord()
		finLeaves = ls
		res = db.Create(&t)
	case "CreateSlice":
		n := g.r.Range(1, 3)
		ts := make([]Tag, n)
		for i := range ts {
			var ls []*leaf
			ts[i], ls = g.tagRecord()
			// optional pointer fields must be uniformly present for a uniform column list
			finLeaves = append(finLeaves, ls...)
		}
		res = db.Create(&ts)
	case "CreateMap":
		m, ls := g.tagMap()
		finLeaves = ls
		res = db.Model(&Tag{}).Create(m)
	case "CreateMaps":
		m1, ls1 := g.tagMap()
		m2 := map[string]interface{}{}
		var ls2 []*leaf
		keys := make([]string, 0, len(m1))
		for k := range m1 {
			keys = append(keys, k)
		}
		sort.Strings(keys)
		for _, k := range keys {
			col := strings.ToLower(k)
			l := g.newLeaf(col, map[string]string{"c1": "string", "c2": "int64", "c4": "bytes", "c5": "time"}[col])
			m2[k] = l.val
			ls2 = append(ls2, l)
		}
		// the rows may name different keys: a key a row does not name is NULL in that row and nowhere else
		if len(keys) > 1 && g.r.Intn(2) == 0 {
			drop := keys[g.r.Intn(len(keys))]
			kept := ls1[:0:0]
			for _, l := range ls1 {
				if l.col != strings.ToLower(drop) {
					kept = append(kept, l)
				}
			}
			ls1 = kept
			delete(m1, drop)
		}
		finLeaves = append(ls1, ls2...)
		res = db.Model(&Tag{}).Create([]map[string]interface{}{m1, m2})
		return outcome{sql: res.Statement.SQL.String(), vars: res.Statement.Vars, err: res.Error, res: res, rows: [][]*leaf{ls1, ls2}}, "db." + strings.Join(append(d, "Create([]map{row1 names a subset of row2's keys})"), "."), requireKinds, finLeaves
	case "UpsertDoUpdates":
		t, ls := g.tagRecord()
		l1 := g.newLeaf("c1", "string")
		l2 := g.newLeaf("c2", "int")
		finLeaves = append(ls, l1, l2)
		oc := clause.OnConflict{Columns: []clause.Column{{Name: "id"}},
			DoUpdates: clause.Assignments(map[string]interface{}{"c1": l1.val, "c2": gorm.Expr("c2 + ?", l2.val)})}
		finLeaves = append(finLeaves, g.conflictConds(&oc)...)
		res = db.Clauses(oc).Create(&t)
	case "UpsertUpdateAll":
		t, ls := g.tagRecord()
		oc := clause.OnConflict{UpdateAll: true}
		finLeaves = append(ls, g.conflictConds(&oc)...)
		res = db.Clauses(oc).Create(&t)
	case "UpsertDoNothing":
		t, ls := g.tagRecord()
		oc := clause.OnConflict{DoNothing: true}
		finLeaves = append(ls, g.conflictConds(&oc)...)
		res = db.Clauses(oc).Create(&t)
	case "Save":
		t, ls := g.tagRecord()
		t.ID = 9
		finLeaves = ls
		res = db.Save(&t)
	case "RawScan", "Exec":
		col := g.kcol()
		l := g.newLeaf(col, "")
		col2 := g.kcol()
		sl, ls := g.sliceLeaves(col2, g.r.Range(1, 3))
		finLeaves = append([]*leaf{l}, ls...)
		if g.r.Intn(4) == 0 {
			// the chain value already carries a raw statement with arguments of its own: the later
			// Raw / Exec replaces it, text and arguments
			db = db.Raw("SELECT c2 FROM tags WHERE c2 = ? OR c2 = ?", int64(7), int64(8))
			d = append(d, `Raw("SELECT c2 FROM tags WHERE c2 = ? OR c2 = ?", 7, 8)`)
		}
		if g.ext && g.r.Bool() {
			// a raw statement over any slot forms, '?' and '@name' mixed (the two fixed slots above come first and
			// are part of the mixing)
			c := g.rawCond(root, 1)
			q := "SELECT c1 FROM tags WHERE "
			if fin == "Exec" {
				q = core.Pick(g.r, []string{"UPDATE tags SET c8 = NOT c8 WHERE ", "DELETE FROM tags WHERE "})
			}
			q += col + " = ? AND " + col2 + " IN ? AND "
			q, args := q+c.query.(string), append([]interface{}{l.val, sl}, c.args...)
			if g.r.Bool() {
				// (no-op when the condition already spells some of its slots '@name')
				q, args = g.mixNamed(q, args)
			}
			finLeaves = append(finLeaves, c.leaves...)
			d = append(d, fmt.Sprintf("%s(%q, %s...)", fin, q, descArgs(args)))
			if fin == "Exec" {
				res = db.Exec(q, args...)
			} else {
				res = db.Raw(q, args...).Scan(&[]Tag{})
			}
		} else if g.r.Bool() {
			q := "SELECT c1 FROM tags WHERE " + col + " = ? AND " + col2 + " IN ?"
			if fin == "Exec" {
				q = "UPDATE tags SET c8 = NOT c8 WHERE " + col + " = ? AND " + col2 + " IN ?"
			}
			d = append(d, fmt.Sprintf("%s(%q)", fin, q))
			if fin == "Exec" {
				res = db.Exec(q, l.val, sl)
			} else {
				res = db.Raw(q, l.val, sl).Scan(&[]Tag{})
			}
		} else {
			q := "SELECT c1 FROM tags WHERE " + col + " = @a AND " + col2 + " IN @b"
			if fin == "Exec" {
				q = "DELETE FROM tags WHERE " + col + " = @a AND " + col2 + " IN @b"
			}
			d = append(d, fmt.Sprintf("%s(%q)", fin, q))
			if fin == "Exec" {
				res = db.Exec(q, map[string]interface{}{"a": l.val, "b": sl})
			} else {
				res = db.Raw(q, sql.Named("a", l.val), sql.Named("b", sl)).Scan(&[]Tag{})
			}
		}
	}
	if len(d) == 0 || (!strings.HasPrefix(d[len(d)-1], fin) && !strings.HasPrefix(d[len(d)-1], "Delete(")) {
		d = append(d, fin)
	}
	return outcome{sql: res.Statement.SQL.String(), vars: res.Statement.Vars, err: res.Error, res: res}, "db." + strings.Join(d, "."), requireKinds, finLeaves
}

// conflictConds gives an upsert rule the conditions it may carry: DO UPDATE ... WHERE cond and the condition of
// the conflict target, each with arguments of its own (they follow the record's values in the statement).
func (g *gen) conflictConds(oc *clause.OnConflict) (ls []*leaf) {
	if g.r.Intn(3) == 0 {
		if len(oc.Columns) == 0 {
			oc.Columns = []clause.Column{{Name: "id"}}
		}
		l := g.newLeaf("c3", "float")
		oc.TargetWhere = clause.Where{Exprs: []clause.Expression{clause.Lt{Column: "c3", Value: l.val}}}
		ls = append(ls, l)
	}
	if !oc.DoNothing && g.r.Intn(2) == 0 {
		l1 := g.newLeaf("c2", "int")
		l2 := g.newLeaf("c1", "string")
		oc.Where = clause.Where{Exprs: []clause.Expression{clause.Gt{Column: "c2", Value: l1.val}, clause.Neq{Column: "c1", Value: l2.val}}}
		ls = append(ls, l1, l2)
	}
	return
}

func run(c *core.Ctx) {
	numbered := c.Case%2 == 1
	base := dryQ
	if numbered {
		base = dryN
	}
	for k := 0; k < 6; k++ {
		g := newGen(c.R.Fork())
		g.ext = true
		root := base.Session(&gorm.Session{})
		parts := g.genParts(root)
		fin := core.Pick(g.r, finishers)
		var out outcome
		var desc string
		var req map[string]bool
		var finLeaves []*leaf
		if g.r.Chance(1, 5) {
			// the chain starts from a reusable handle that already carries 1..7 parts of one form (joins with arguments,
			// conditions, havings, clause conditions), and a sibling chain is derived from that handle (and possibly
			// executed) between this chain's last method and its finisher: the sibling's values are not this chain's
			g.forceK, g.forceN = core.Pick(g.r, []int{7, 7, 1, 8, 11}), g.r.Range(1, 7)
			prefix := g.genParts(root)
			same := g.r.Bool()
			if same {
				g.forceN = g.r.Range(1, 2)
				parts = g.genParts(root)
			}
			g.forceN = 1
			if !same {
				g.forceK, g.forceN = 0, 0
			}
			decoy := g.genParts(root)
			g.forceK, g.forceN = 0, 0
			hd := root
			for _, p := range prefix {
				hd = p.apply(hd)
			}
			hd = hd.Session(&gorm.Session{})
			runDecoy := g.r.Bool()
			g.midHook = func() {
				d := hd
				for _, p := range decoy {
					if p.kind != "table" {
						d = p.apply(d)
					}
				}
				if runDecoy {
					d.Find(&[]Tag{})
				}
			}
			out, desc, req, finLeaves = g.runChainOn(root, hd, parts, fin)
			g.midHook = nil
			desc = fmt.Sprintf("h := db.%s.Session(&Session{}); a sibling h.%s is built%s before the finisher of h.%s", descOf(prefix), descOf(decoy), map[bool]string{true: " and executed", false: ""}[runDecoy], desc)
			parts = append(prefix, parts...)
			c.Inc("chains_with_sibling_on_shared_handle")
		} else {
			out, desc, req, finLeaves = g.runChain(root, parts, fin)
		}
		c.Logf("CHAIN %s", desc)
		for name, n := range g.stats {
			c.Add(name, n)
		}
		c.Inc("chains")
		c.Inc("fin_" + fin)
		if errors.Is(out.err, gorm.ErrDryRunModeUnsupported) {
			// Scan / Raw.Scan: the row callback has built the complete statement and only declines to hand out rows
			out.err = nil
			c.Inc("dry_rows_declined_statement_checked")
		}
		if out.err != nil {
			c.Inc("dry_error")
			c.Inc("dry_error_" + fin)
			c.Logf("  error: %v", out.err)
			continue
		}
		isWriteOnly := strings.HasPrefix(fin, "Create") || strings.HasPrefix(fin, "Upsert") || fin == "Save" || fin == "RawScan" || fin == "Exec"
		for _, p := range parts {
			if req[p.kind] && !isWriteOnly {
				g.must(p.leaves...)
			} else {
				g.may(p.leaves...)
			}
		}
		g.must(finLeaves...)
		problems := g.checkStatement(out.sql, out.vars, numbered, true)
		if n := len(out.rows); n > 0 && len(out.vars)%n == 0 {
			width := len(out.vars) / n
			for r, ls := range out.rows {
				for _, l := range ls {
					for i, v := range out.vars {
						if serialOf(v) == l.serial && i/width != r {
							problems = append(problems, fmt.Sprintf("the value given for column %s in row %d is bound among the values of row %d", l.col, r+1, i/width+1))
						}
					}
				}
			}
		}
		if len(problems) > 0 {
			c.Violation(fin+"/"+kinds(parts), map[string]interface{}{"chain": desc, "dialect": map[bool]string{false: "?", true: "$n"}[numbered],
				"sql": out.sql, "vars": renderVars(out.vars), "problems": problems})
			continue
		}
		if len(out.vars) >= 2 {
			c.Shape(fin, kinds(parts), numbered, len(out.vars) > 6)
			c.Inc("nontrivial_chains")
			c.Add("bound_values_checked", len(out.vars))
		}
		if c.WantSample() && k == 1 && len(out.vars) >= 3 {
			c.Sample(map[string]interface{}{"chain": desc, "sql": out.sql, "vars": renderVars(out.vars)})
		}
	}
	if c.Case%4 == 0 {
		realPass(c)
	}
}

func descOf(parts []part) string {
	ds := make([]string, len(parts))
	for i, p := range parts {
		ds[i] = p.desc
	}
	return strings.Join(ds, ".")
}

func kinds(parts []part) string {
	ks := make([]string, len(parts))
	for i, p := range parts {
		ks[i] = p.kind
	}
	return strings.Join(ks, ",")
}

func renderVars(vars []interface{}) []string {
	out := make([]string, len(vars))
	for i, v := range vars {
		rv := reflect.ValueOf(v)
		if rv.IsValid() && rv.Kind() == reflect.Ptr && !rv.IsNil() {
			out[i] = fmt.Sprintf("&%#v", rv.Elem().Interface())
		} else {
			out[i] = fmt.Sprintf("%#v", v)
		}
	}
	return out
}

// realPass executes statements on SQLite behind the recording driver: the text the
// driver receives carries no value, the bound values arrive one per placeholder with
// ordinals 1..N, and a hostile string stored through gorm is found again by equality.
func realPass(c *core.Ctx) {
	g := newGen(c.R.Fork())
	h := real
	h.SQL.Exec("DELETE FROM tags")
	t, _ := g.tagRecord()
	hostile := t.C1
	mark := h.Rec.Mark()
	if err := h.DB.Create(&t).Error; err != nil {
		c.Violation("real/create-error", map[string]interface{}{"value": hostile, "error": err.Error()})
		return
	}
	// a second row that differs only in the marker
	t2, _ := g.tagRecord()
	h.DB.Create(&t2)
	var got []Tag
	sl, _ := g.sliceLeaves("c2", 2)
	res := h.DB.Where("c1 = ?", hostile).Or("c2 IN ?", sl).Not(map[string]interface{}{"c1": []string{t2.C1}}).Find(&got)
	var problems []string
	if res.Error != nil {
		problems = append(problems, "query error: "+res.Error.Error())
	} else if len(got) != 1 || got[0].ID != t.ID || got[0].C1 != hostile || string(got[0].C4) != string(t.C4) {
		problems = append(problems, fmt.Sprintf("stored hostile value not found again by equality: got %d rows", len(got)))
	}
	h.DB.Model(&Tag{}).Where("c1 = ?", hostile).Update("c1", hostile+"'x")
	var n int64
	h.DB.Model(&Tag{}).Where(map[string]interface{}{"c1": hostile + "'x"}).Count(&n)
	if n != 1 {
		problems = append(problems, fmt.Sprintf("updated hostile value counted %d times, want 1", n))
	}
	// a condition that mixes '@name' and '?', the named argument in front of the positional one
	var got2 []Tag
	if r2 := h.DB.Where("c2 IN ? OR c1 = @a", map[string]interface{}{"a": hostile + "'x"}, sl).Find(&got2); r2.Error != nil {
		problems = append(problems, "mixed named/positional query error: "+r2.Error.Error())
	} else if len(got2) != 1 || got2[0].ID != t.ID {
		problems = append(problems, fmt.Sprintf("mixed named/positional condition found %d rows, want the one updated row", len(got2)))
	}
	// a table-valued function with a bound argument, written without any space: the document reaches the database
	// as a bound value, in front of the values of the conditions
	va, vb := int64(intBase+g.r.Intn(1000)), int64(2*intBase+g.r.Intn(1000))
	doc, _ := json.Marshal([]interface{}{va, hostile, vb})
	var vals []int64
	if r3 := h.DB.Table("json_each(?)", string(doc)).Where("type = @t AND value <> ?", int64(0), sql.Named("t", "integer")).Order("key").Pluck("value", &vals); r3.Error != nil {
		problems = append(problems, "table function query error: "+r3.Error.Error())
	} else if len(vals) != 2 || vals[0] != va || vals[1] != vb {
		problems = append(problems, fmt.Sprintf("table function over a bound document returned %v, want [%d %d]", vals, va, vb))
	}
	for _, e := range h.Rec.Since(mark) {
		if !e.IsStatement() {
			continue
		}
		c.Inc("real_statements_checked")
		if strings.Contains(e.Query, "⟦") {
			problems = append(problems, "driver received a value inside the SQL text: "+e.Query)
		}
		toks := tokenize(e.Query)
		nph := 0
		for _, tk := range toks {
			if tk.kind == "ph" {
				nph++
			}
			if tk.kind == "str" {
				problems = append(problems, "string literal in driver text: "+e.Query)
			}
		}
		if nph != len(e.Args) {
			problems = append(problems, fmt.Sprintf("driver text has %d placeholders, %d values bound: %s", nph, len(e.Args), e.Query))
		}
		for i, a := range e.Args {
			if a.Ordinal != i+1 {
				problems = append(problems, fmt.Sprintf("ordinal %d at position %d", a.Ordinal, i+1))
			}
			if _, ok := a.Value.(driver.Valuer); ok {
				problems = append(problems, "unconverted Valuer reached the driver")
			}
		}
	}
	if len(problems) > 0 {
		c.Violation("real", map[string]interface{}{"hostile": hostile, "problems": problems})
		return
	}
	c.Shape("real", len(hostile)%7, strings.ContainsAny(hostile, "'\\?@"))
	c.Inc("real_roundtrips")
}

var Engine = &core.Engine{
	ID:    "C01",
	Level: "exploration",
	Rule: "seeded chains of 1..5 parts drawn from Where/Not/Or (raw '?', @named via map/sql.Named/struct fields, map, struct, clause.* trees incl. clause.NamedExpr, grouped builders, chain and Raw sub-queries, tuple IN, empty slices, nil / nil-pointer / invalid Null* arguments), Select/Distinct/Distinct().Select(expr,args), Joins(raw,args), association Joins/InnerJoins with a handle of 1..3 ON conditions, Group+Having in every call order, Order/Clauses(OrderBy expr or named expr), Table(expr,args: sub-query, table-valued function with 1..2 scalar/slice arguments written with or without space and alias, derived table over a raw condition), Clauses(Where/Locking), Limit/Offset x 25 finishers (reads incl. Scan, updates, deletes, creates from struct/slice/map/[]map, upserts, Save, Raw/Exec) x {'?', '$n'} dialectors in DryRun; " +
		"every template that takes arguments (conditions of Where/Not/Or/Having/inline Find/Delete/join handles, select lists, raw joins, Raw/Exec, Raw sub-queries, clause.NamedExpr conditions and orders) is built from the same slot forms and in half of the cases spells a random non-empty subset of its slots '@name', the named arguments (sql.Named each, one map, or both) placed at random in front of, between or behind the positional ones; one chain in five starts from a reusable handle with a sibling chain built before the finisher; " +
		"every leaf value (string with hostile tail, ints, floats, bytes, time, pointers, Null*, driver.Valuer, gorm.Valuer, gorm.Expr, Valuer slices/arrays) carries a serial and its column; distinct = (finisher, part kinds, dialect, size class); non-trivial = at least 2 bound values aligned and accounted for; every 4th case also runs a hostile-value round trip on SQLite behind the recording driver (create, conditions, a condition mixing '@name' and '?', a table-valued function over a bound document)",
	Assumptions: []string{
		"raw SQL templates, column and table names are developer input and contain no literals: any string/numeric literal or comment token in the final SQL is a spliced value",
		"under the real SQLite dialector LIMIT/OFFSET integers are inlined by the external dialector (exempt there); the database-less dialectors use gorm's own clause/limit.go, which must bind them",
		"templates contain exactly one slot ('?' or '@name') per argument value; 'IN (@name)' with a slice is not generated (unsupported spelling): a plain slice directly behind '(' stays positional",
		"'@name' is generated only where gorm builds a named expression (conditions, Select/Distinct, raw Joins, Raw, Exec, clause.NamedExpr); the templates of Table(...) and gorm.Expr(...) are positional-only builders (a sql.NamedArg handed to them is passed through to the driver as a native named parameter) and get '?' slots only",
		"named arguments taken from the fields of a struct are used only in templates without '?' (a struct argument also counts as a positional value)",
		"for finishers that ignore some chain parts (Count drops ORDER BY, writes ignore Select/Joins/Having) the leaves of those parts may be absent; WHERE leaves and the finisher's own values must all be bound",
		"Scan and Raw(...).Scan end with ErrDryRunModeUnsupported under DryRun after the complete statement has been built: that statement is checked",
	},
	Cases: func(tier string) int {
		if tier == "thorough" {
			return 1200000
		}
		return 60000
	},
	Batch:         func(string) int { return 256 },
	Run:           run,
	Init:          initEnv,
	MinNontrivial: 200,
}

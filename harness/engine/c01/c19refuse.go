package c01

// C19, operations gorm refuses before their statement: the REAL run sends nothing and ends in an error raised
// inside gorm (a write without any condition while AllowGlobalUpdate is off, an empty slice to create, a
// value that is no model, ...). "Exactly what the real run sends" is then: nothing, and that error - the dry
// run (Session{DryRun}, Config.DryRun, ToSQL) of the same chain has to end in the same error instead of
// presenting a statement as if the real run sent it. The neighbours that ARE sent (the same write with a
// condition, with a primary key in the model, or with AllowGlobalUpdate switched on) are drawn from the same
// generator and compared with the real statement as everything else.

import (
	"fmt"

	"gorm.io/gorm"

	"verif/core"
)

// models of the refused-operation workload: plain, soft-delete, unix-time tracking
var refuseModels19 = []string{"Tag", "STag", "UTag"}

// finishers: every write that is guarded against a missing WHERE, plus refusals of other kinds
var refuseFins19 = []string{"Update", "UpdatesStruct", "UpdatesMap", "UpdateColumn", "UpdateColumns", "Delete", "UnscopedDelete", "DeleteSlice",
	"Update", "UpdatesMap", "Delete", "UnscopedDelete",
	"CreateEmptySlice", "UpdateNoModel", "UpdatesNoStruct", "DeleteNoModel"}

// conditions in front of the finisher: none that counts as a WHERE (5 of 8), or one that does
var refuseConds19 = []string{"none", "none", "zero-struct", "order", "select-omit", "where", "pk", "inline"}

func refuseModel19(model string, id int64) (one interface{}, many interface{}) {
	switch model {
	case "STag":
		return &STag{ID: id}, &[]STag{}
	case "UTag":
		return &UTag{ID: id}, &[]UTag{}
	}
	return &Tag{ID: id}, &[]Tag{}
}

func refuseUpdates19(model, v string, n int64) interface{} {
	switch model {
	case "STag":
		return STag{C1: v, C2: n}
	case "UTag":
		return UTag{C1: v, C2: n}
	}
	return Tag{C1: v, C2: n}
}

// refuseOp19 draws one such operation. global: AllowGlobalUpdate is switched on (by a session derived inside
// the operation), so that the write without a condition is sent.
func refuseOp19(model, fin, cnd string, global bool, seed uint64) op19 {
	return func(db *gorm.DB) (outcome, string) {
		g := newGen(core.NewRand(seed))
		v := g.newLeaf("c1", "string").val.(string)
		n := int64(g.r.Range(1, 50))
		d := model + ": db"
		if global {
			db = db.Session(&gorm.Session{AllowGlobalUpdate: true})
			d += ".Session(&Session{AllowGlobalUpdate: true})"
		}
		var id int64
		switch cnd {
		case "zero-struct":
			zero, _ := refuseModel19(model, 0)
			db = db.Where(zero)
			d += ".Where(&" + model + "{})"
		case "order":
			db = db.Order("id")
			d += ".Order(id)"
		case "select-omit":
			if seed%2 == 0 {
				db = db.Select("c1", "c2")
				d += ".Select(c1, c2)"
			} else {
				db = db.Omit("c2")
				d += ".Omit(c2)"
			}
		case "where":
			db = db.Where("c2 > ?", n)
			d += fmt.Sprintf(".Where(c2 > %d)", n)
		case "pk":
			id = int64(g.r.Range(1, 3))
		}
		one, many := refuseModel19(model, id)
		mdesc := fmt.Sprintf("&%s{ID: %d}", model, id)
		var inline []interface{}
		if cnd == "inline" {
			inline = []interface{}{"c2 > ?", n}
		}
		var res *gorm.DB
		switch fin {
		case "Update":
			res = db.Model(one).Update("c1", v)
			d += fmt.Sprintf(".Model(%s).Update(c1, %q)", mdesc, v)
		case "UpdatesStruct":
			res = db.Model(one).Updates(refuseUpdates19(model, v, n))
			d += fmt.Sprintf(".Model(%s).Updates(%s{C1, C2})", mdesc, model)
		case "UpdatesMap":
			res = db.Model(one).Updates(map[string]interface{}{"c1": v, "c2": n})
			d += fmt.Sprintf(".Model(%s).Updates(map{c1, c2})", mdesc)
		case "UpdateColumn":
			res = db.Model(one).UpdateColumn("c2", n)
			d += fmt.Sprintf(".Model(%s).UpdateColumn(c2, %d)", mdesc, n)
		case "UpdateColumns":
			res = db.Model(one).UpdateColumns(map[string]interface{}{"c1": v})
			d += fmt.Sprintf(".Model(%s).UpdateColumns(map{c1})", mdesc)
		case "Delete":
			res = db.Delete(one, inline...)
			d += fmt.Sprintf(".Delete(%s, %v)", mdesc, inline)
		case "UnscopedDelete":
			res = db.Unscoped().Delete(one, inline...)
			d += fmt.Sprintf(".Unscoped().Delete(%s, %v)", mdesc, inline)
		case "DeleteSlice":
			// an empty slice names the table and no row
			res = db.Delete(many, inline...)
			d += fmt.Sprintf(".Delete(&[]%s{}, %v)", model, inline)
		case "CreateEmptySlice":
			res = db.Create(many)
			d += ".Create(&[]" + model + "{})"
		case "UpdateNoModel":
			// no Model, no Table: there is nothing to update
			res = db.Update("c1", v)
			d += fmt.Sprintf(".Update(c1, %q) without Model", v)
		case "UpdatesNoStruct":
			res = db.Model(one).Updates(n)
			d += fmt.Sprintf(".Model(%s).Updates(%d)", mdesc, n)
		case "DeleteNoModel":
			res = db.Delete(nil, inline...)
			d += fmt.Sprintf(".Delete(nil, %v)", inline)
		default:
			panic("refuseOp19: " + fin)
		}
		return outcome{sql: res.Statement.SQL.String(), vars: res.Statement.Vars, err: res.Error, res: res}, d
	}
}

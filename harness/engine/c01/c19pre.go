package c01

// C19, operations that reach their executor with the statement text already there.
//
// Every executor of gorm builds its statement only when Statement.SQL is still empty, and decides afterwards
// whether to send it. The text can be there beforehand in three ways:
//   - Raw(text, values...) followed by a finisher other than Scan (Create, Find, First, Update, Delete, Row, Rows ...):
//     for real the given text is what the finisher sends;
//   - a plugin callback registered in front of the executor that writes the statement (SQL rewriting plugins);
//   - the second use of the handle a dry run returned: a dry run keeps its statement (that is how it is exposed).
// The first two are compared with the real run like any other operation; for the third only "nothing reaches the
// driver" is demanded (what a used-up chain value exposes is not fixed by the property).

import (
	"errors"
	"fmt"

	"gorm.io/gorm"

	"verif/core"
	"verif/vdb"
)

// handles whose callback chains carry the statement-writing plugin (kept apart from h19 / h19cfg: registering a
// callback re-sorts the chain, and the other operations keep running on untouched chains)
var h19p, h19pcfg *vdb.Handle

const prebuiltKey19 = "verif:prebuilt"

type prebuilt19 struct {
	sql  string
	vars []interface{}
}

func prebuiltPlugin19(db *gorm.DB) {
	v, ok := db.Get(prebuiltKey19)
	if !ok || db.Statement.SQL.Len() != 0 {
		return
	}
	p := v.(prebuilt19)
	db.Statement.SQL.WriteString(p.sql)
	db.Statement.Vars = append([]interface{}{}, p.vars...)
}

func registerPrebuilt19(db *gorm.DB) {
	cb := db.Callback()
	must := func(err error) {
		if err != nil {
			panic(err)
		}
	}
	must(cb.Create().Before("gorm:create").Register("verif:prebuilt", prebuiltPlugin19))
	must(cb.Query().Before("gorm:query").Register("verif:prebuilt", prebuiltPlugin19))
	must(cb.Update().Before("gorm:update").Register("verif:prebuilt", prebuiltPlugin19))
	must(cb.Delete().Before("gorm:delete").Register("verif:prebuilt", prebuiltPlugin19))
	must(cb.Row().Before("gorm:row").Register("verif:prebuilt", prebuiltPlugin19))
}

var prebuiltFins19 = []string{"Create", "CreateSlice", "CreateMap", "Find", "First", "Take", "Scan", "Pluck", "Count", "Update", "Updates", "UpdateColumn", "Delete", "DeleteInline", "Row", "Rows"}

func dryUnsupportedIsFine(err error) error {
	if errors.Is(err, gorm.ErrDryRunModeUnsupported) {
		return nil
	}
	return err
}

// prebuiltOp19: how = "Raw" | "Plugin".
func prebuiltOp19(how, fin string, seed uint64) op19 {
	return func(db *gorm.DB) (outcome, string) {
		g := newGen(core.NewRand(seed))
		v := g.newLeaf("c1", "string").val.(string)
		n := g.newLeaf("c2", "int64").val.(int64)
		var q string
		var args []interface{}
		switch fin {
		case "Create", "CreateSlice", "CreateMap":
			q, args = "INSERT INTO tags (c1,c2) VALUES (?,?)", []interface{}{v, n}
		case "Find", "First", "Take", "Scan", "Row", "Rows":
			q, args = "SELECT * FROM tags WHERE c2 < ? AND c1 <> ?", []interface{}{n, v}
		case "Pluck":
			q, args = "SELECT c1 FROM tags WHERE c2 < ?", []interface{}{n}
		case "Count":
			q, args = "SELECT count(*) FROM tags WHERE c1 <> ?", []interface{}{v}
		case "Update", "Updates", "UpdateColumn":
			q, args = "UPDATE tags SET c1 = ? WHERE id = ?", []interface{}{v, int64(7)}
		case "Delete", "DeleteInline":
			q, args = "DELETE FROM tags WHERE c1 = ? OR id = ?", []interface{}{v, int64(9)}
		default:
			panic("prebuiltOp19: " + fin)
		}
		var tx *gorm.DB
		var d string
		if how == "Raw" {
			tx = db.Raw(q, args...)
			d = fmt.Sprintf("db.Raw(%q, %s)", q, descArgs(args))
		} else {
			tx = db.Set(prebuiltKey19, prebuilt19{q, args})
			d = fmt.Sprintf("db.Set(%q, {%q, %s}) [a callback in front of the executor writes the statement]", prebuiltKey19, q, descArgs(args))
		}
		var res *gorm.DB
		switch fin {
		case "Create":
			res, d = tx.Create(&Tag{C1: "rec", C2: 1}), d+".Create(&Tag{..})"
		case "CreateSlice":
			res, d = tx.Create(&[]Tag{{C1: "r1"}, {C1: "r2"}}), d+".Create(&[]Tag{{..}, {..}})"
		case "CreateMap":
			res, d = tx.Model(&Tag{}).Create(map[string]interface{}{"c1": "m"}), d+".Model(&Tag{}).Create(map{c1})"
		case "Find":
			res, d = tx.Find(&[]Tag{}), d+".Find(&[]Tag{})"
		case "First":
			res, d = tx.First(&Tag{}), d+".First(&Tag{})"
		case "Take":
			res, d = tx.Take(&Tag{}), d+".Take(&Tag{})"
		case "Scan":
			res, d = tx.Model(&Tag{}).Scan(&[]Tag{}), d+".Model(&Tag{}).Scan(&[]Tag{})"
		case "Pluck":
			var xs []string
			res, d = tx.Model(&Tag{}).Pluck("c1", &xs), d+".Model(&Tag{}).Pluck(c1, &[]string)"
		case "Count":
			var cnt int64
			res, d = tx.Model(&Tag{}).Count(&cnt), d+".Model(&Tag{}).Count(&n)"
		case "Update":
			res, d = tx.Model(&Tag{ID: 3}).Where("c2 > ?", 0).Update("c1", "u"), d+".Model(&Tag{ID: 3}).Where(c2 > 0).Update(c1, u)"
		case "Updates":
			res, d = tx.Model(&Tag{}).Where(Tag{C2: 1}).Updates(Tag{C1: "u", C2: 2}), d+".Model(&Tag{}).Where(Tag{C2: 1}).Updates(Tag{C1, C2})"
		case "UpdateColumn":
			res, d = tx.Model(&Tag{}).Where("id = ?", 3).UpdateColumn("c1", "u"), d+".Model(&Tag{}).Where(id = 3).UpdateColumn(c1, u)"
		case "Delete":
			res, d = tx.Where("c2 = ?", 1).Delete(&Tag{ID: 3}), d+".Where(c2 = 1).Delete(&Tag{ID: 3})"
		case "DeleteInline":
			res, d = tx.Delete(&Tag{}, "c2 = ?", 1), d+".Delete(&Tag{}, c2 = 1)"
		case "Row":
			tx = tx.Model(&Tag{})
			row := tx.Row()
			if !tx.DryRun && row != nil && tx.Error == nil {
				var a, b, cc, dd, e, f, gg, hh, i, j, k interface{}
				row.Scan(&a, &b, &cc, &dd, &e, &f, &gg, &hh, &i, &j, &k)
			}
			return outcome{sql: tx.Statement.SQL.String(), vars: tx.Statement.Vars, err: tx.Error, res: tx}, d + ".Model(&Tag{}).Row()"
		case "Rows":
			tx = tx.Model(&Tag{})
			rows, _ := tx.Rows()
			if rows != nil {
				rows.Close()
			}
			return outcome{sql: tx.Statement.SQL.String(), vars: tx.Statement.Vars, err: dryUnsupportedIsFine(tx.Error), res: tx}, d + ".Model(&Tag{}).Rows()"
		}
		return outcome{sql: res.Statement.SQL.String(), vars: res.Statement.Vars, err: dryUnsupportedIsFine(res.Error), res: res}, d
	}
}

var reuseFirst19 = []string{"Create", "Find", "First", "Count", "Update", "Delete", "Row", "Scan", "Exec"}
var reuseSecond19 = []string{"Create", "CreateSlice", "Find", "First", "Count", "Update", "Updates", "Delete", "Row", "Rows", "Scan", "Exec", "RawScan", "Save"}

// tagStep19 runs one plain operation on Tag from db (a handle, or - for the second use - the value a finisher returned).
func tagStep19(db *gorm.DB, fin string, v string, n int64) (*gorm.DB, string) {
	switch fin {
	case "Create":
		return db.Create(&Tag{C1: v, C2: n}), "Create(&Tag{C1, C2})"
	case "CreateSlice":
		return db.Create(&[]Tag{{C1: v}, {C1: v + "2", C2: n}}), "Create(&[]Tag{{..}, {..}})"
	case "Save":
		return db.Save(&Tag{ID: 7, C1: v, C2: n}), "Save(&Tag{ID: 7, ..})"
	case "Find":
		return db.Where("c2 < ?", n).Find(&[]Tag{}), "Where(c2 < ?).Find(&[]Tag{})"
	case "First":
		return db.Where("c1 <> ?", v).First(&Tag{}), "Where(c1 <> ?).First(&Tag{})"
	case "Count":
		var cnt int64
		return db.Model(&Tag{}).Where("c2 < ?", n).Count(&cnt), "Model(&Tag{}).Where(c2 < ?).Count(&n)"
	case "Update":
		return db.Model(&Tag{ID: 3}).Update("c1", v), "Model(&Tag{ID: 3}).Update(c1, ?)"
	case "Updates":
		return db.Model(&Tag{ID: 3}).Updates(Tag{C1: v, C2: n}), "Model(&Tag{ID: 3}).Updates(Tag{C1, C2})"
	case "Delete":
		return db.Where("c2 = ?", n).Delete(&Tag{}), "Where(c2 = ?).Delete(&Tag{})"
	case "Scan":
		return db.Model(&Tag{}).Where("c2 < ?", n).Scan(&[]Tag{}), "Model(&Tag{}).Where(c2 < ?).Scan(&[]Tag{})"
	case "Exec":
		return db.Exec("UPDATE tags SET c1 = ? WHERE c2 = ?", v, n), "Exec(UPDATE tags SET c1 = ? WHERE c2 = ?)"
	case "RawScan":
		return db.Raw("SELECT * FROM tags WHERE c1 <> ?", v).Scan(&[]Tag{}), "Raw(SELECT * FROM tags WHERE c1 <> ?).Scan(&[]Tag{})"
	case "Row":
		tx := db.Model(&Tag{}).Select("c1").Where("c2 < ?", n)
		row := tx.Row()
		if !tx.DryRun && row != nil && tx.Error == nil {
			var x interface{}
			row.Scan(&x)
		}
		return tx, "Model(&Tag{}).Select(c1).Where(c2 < ?).Row()"
	case "Rows":
		tx := db.Model(&Tag{}).Where("c2 < ?", n)
		rows, _ := tx.Rows()
		if rows != nil {
			rows.Close()
		}
		return tx, "Model(&Tag{}).Where(c2 < ?).Rows()"
	}
	panic("tagStep19: " + fin)
}

// reuseOp19: a dry run, and then a second operation from the value the dry run returned (it still carries the
// statement of the first). Run for real, only the first operation is executed (going on with the value a finisher
// returned is not what a program does for real: there the statement is reset after execution); nothing is compared
// with it.
func reuseOp19(first, second string, seed uint64) op19 {
	return func(db *gorm.DB) (outcome, string) {
		g := newGen(core.NewRand(seed))
		v := g.newLeaf("c1", "string").val.(string)
		n := int64(g.r.Range(1, 5))
		r1, d1 := tagStep19(db, first, v, n)
		if !r1.DryRun {
			return outcome{err: r1.Error, res: r1, noMain: true}, "db." + d1
		}
		r2, d2 := tagStep19(r1, second, v+"'", n+1)
		return outcome{err: r2.Error, res: r2, noMain: true}, "r := db." + d1 + "; r." + d2
	}
}

package c01

// C19: DryRun and ToSQL send nothing and show exactly what a real run sends.
//
// The same chain (C01 generator, real column names) is executed from identical handles
// once in DryRun (Session{DryRun}, Config.DryRun, ToSQL) and once for real behind the
// recording driver. Oracle: zero prepare/exec/query events during the dry run (nothing
// at all during ToSQL); Statement.SQL equals the text of the first statement event of
// the real run and Statement.Vars, after database/sql's conversion, equal its bound values.

import (
	"context"
	"database/sql"
	"database/sql/driver"
	"errors"
	"fmt"
	"reflect"
	"strings"
	"time"

	"gorm.io/gorm"
	"gorm.io/gorm/clause"

	"verif/core"
	"verif/recdrv"
	"verif/vdb"
)

// STag is the soft-delete twin of Tag.
type STag struct {
	ID        int64 `gorm:"primaryKey"`
	C1        string
	C2        int64
	UpdatedAt time.Time
	DeletedAt gorm.DeletedAt
}

// UTag tracks its times as unix numbers (seconds by name, milli / nano by tag): what a dry run binds for
// them must be the number the real run sends, not the time value it was derived from.
type UTag struct {
	ID        int64 `gorm:"primaryKey"`
	C1        string
	C2        int64
	CreatedAt int64
	UpdatedAt int64  `gorm:"autoUpdateTime:milli"`
	Stamp     int64  `gorm:"autoCreateTime:nano"`
	Seen      uint32 `gorm:"autoUpdateTime"`
}

// FTag's after-hooks fail on demand: an operation whose error arises AFTER its main statement was sent.
type FTag struct {
	ID int64 `gorm:"primaryKey"`
	C1 string
	C2 int64
}

var errFTag = errors.New("verif: after-hook refuses")

func (t *FTag) AfterCreate(tx *gorm.DB) error { return errFTag }
func (t *FTag) AfterUpdate(tx *gorm.DB) error { return errFTag }
func (t *FTag) AfterDelete(tx *gorm.DB) error { return errFTag }

var h19, h19cfg *vdb.Handle

const seed19 = `
DELETE FROM tags; DELETE FROM others; DELETE FROM s_tags; DELETE FROM u_tags; DELETE FROM f_tags; DELETE FROM c_tags;
INSERT INTO c_tags(id,tenant,c1,c2,mark,memo) VALUES (1,'acme','a',1,'m@acme','x/acme'),(2,'globex','b',2,'m@globex','y/globex'),(3,'','c',3,'m@','z/');
INSERT INTO f_tags(id,c1,c2) VALUES (1,'a',1),(2,'b',2);
INSERT INTO u_tags(id,c1,c2,created_at,updated_at,stamp,seen) VALUES (1,'a',1,5,5000,5000000000,5),(2,'b',2,6,6000,6000000000,6);
INSERT INTO tags(id,c1,c2,c3,c8) VALUES (3,'x',1,1.5,0),(7,'y',2,2.5,1),(9,'z',3,3.5,0);
INSERT INTO others(tag_id,c1,c2) VALUES (3,'o',1);
INSERT INTO s_tags(id,c1,c2,updated_at,deleted_at) VALUES (1,'a',1,'2020-01-01 00:00:00',NULL),(2,'b',2,'2020-01-01 00:00:00','2020-01-02 00:00:00');
`

type Other struct {
	TagID int64
	C1    string
	C2    int64
	C3    float64
	C4    []byte
	C5    time.Time
	C6    *string
	C7    int64
	C8    bool
	C9    string
}

func open19(dry bool, plugin ...func(db *gorm.DB)) *vdb.Handle {
	h, err := vdb.Open(vdb.Options{Config: gorm.Config{DryRun: false}})
	if err != nil {
		panic(err)
	}
	if err := h.DB.AutoMigrate(&Tag{}, &Other{}, &STag{}, &UTag{}, &FTag{}, &CTag{}); err != nil {
		panic(err)
	}
	if _, err := h.SQL.Exec(seed19); err != nil {
		panic(err)
	}
	for _, f := range plugin {
		f(h.DB)
	}
	if dry {
		h.DB.Config.DryRun = true
		h.DB = h.DB.Session(&gorm.Session{NewDB: true, DryRun: true})
	}
	return h
}

func init19(c *core.Ctx) {
	h19 = open19(false)
	h19cfg = open19(true)
	h19p = open19(false, registerPrebuilt19)
	h19pcfg = open19(true, registerPrebuilt19)
}

var realCols = []string{"c1", "c2", "c3", "c4", "c5", "c6", "c7", "c8", "c9"}

func convert(v interface{}) (interface{}, error) {
	return driver.DefaultParameterConverter.ConvertValue(v)
}

func sameValue(a, b interface{}) bool {
	if ta, ok := a.(time.Time); ok {
		tb, ok := b.(time.Time)
		return ok && ta.Equal(tb)
	}
	return reflect.DeepEqual(a, b)
}

func stmtEvents(evs []recdrv.Event) []recdrv.Event {
	var out []recdrv.Event
	for _, e := range evs {
		if e.IsStatement() {
			out = append(out, e)
		}
	}
	return out
}

// shapeOfSQL: the statement with identifiers and placeholders collapsed, i.e. its clause skeleton.
func shapeOfSQL(q string) string {
	var kw []string
	for _, t := range tokenize(q) {
		if t.kind == "ident" && strings.ToUpper(t.text) == t.text && len(t.text) > 1 && !colRe.MatchString(t.text) {
			kw = append(kw, t.text)
		}
	}
	return strings.Join(kw, " ")
}

type op19 func(db *gorm.DB) (out outcome, desc string)

// isRowOnly19: the finisher hands back no handle (Row, Rows): the statement is read from the chain value it was called on.
func isRowOnly19(what string) bool {
	return strings.HasSuffix(what, "Row") || strings.HasSuffix(what, "Rows") || strings.HasSuffix(what, "RowValuer")
}

// renderVars19 is renderVars, except that a serializer's deferred value (it carries the record and the context it
// was taken under, which print as addresses) is rendered as what it will hand to the driver.
func renderVars19(vars []interface{}) []string {
	out := renderVars(vars)
	for i, v := range vars {
		if v != nil && strings.HasSuffix(reflect.TypeOf(v).String(), "schema.serializer") {
			cv, err := convert(v)
			out[i] = fmt.Sprintf("serializer(%#v, %v)", cv, err)
		}
	}
	return out
}

// diffVars19 compares the values two dry runs of one operation bind, as the driver would receive them.
func diffVars19(a, b []interface{}) string {
	if len(a) != len(b) {
		return fmt.Sprintf("%d values against %d", len(a), len(b))
	}
	for i := range a {
		ca, erra := convert(a[i])
		cb, errb := convert(b[i])
		if erra != nil || errb != nil {
			if (erra == nil) != (errb == nil) {
				return fmt.Sprintf("value #%d: %#v (%v) against %#v (%v)", i+1, ca, erra, cb, errb)
			}
			continue
		}
		if !sameValue(ca, cb) {
			return fmt.Sprintf("value #%d: %#v against %#v", i+1, ca, cb)
		}
	}
	return ""
}

// compare runs op dry (3 ways) and for real and applies the oracle.
// splitOp builds the first parts on the receiver and returns the receiver plus a function
// that applies the rest and the finisher to the handle ToSQL passes in.
type splitOp func(db *gorm.DB) (recv *gorm.DB, rest func(tx *gorm.DB) outcome)

func compare19(c *core.Ctx, m mode19, mk func() op19, mkSplit splitOp, what string) {
	var problems []string
	add := func(f string, a ...interface{}) { problems = append(problems, fmt.Sprintf(f, a...)) }

	// the handles everything below is derived from: the root handles, or (m.tx) transactions begun on them (rolled
	// back after the real run)
	base, basecfg := h19.DB, h19cfg.DB
	if m.tx {
		base, basecfg = h19.DB.Begin(), h19cfg.DB.Begin()
		if base.Error != nil || basecfg.Error != nil {
			panic(fmt.Sprintf("Begin: %v %v", base.Error, basecfg.Error))
		}
		// (again on the way out, should an operation panic: a transaction left open would block the reseeding of
		// every later case of this process)
		defer func() {
			base.Rollback()
			basecfg.Rollback()
		}()
	}
	// (a) session-level DryRun on the very handle that runs it for real afterwards
	h19.Clock.Reset()
	mark := h19.Rec.Mark()
	dry, desc := mk()(m.derive(base).Session(&gorm.Session{DryRun: true}))
	if m.desc != "" && m.desc != "h" {
		desc += "   [db = " + m.desc + "]"
	}
	dryEvents := h19.Rec.Since(mark)
	c.Logf("OP %s", desc)
	if se := stmtEvents(dryEvents); len(se) > 0 {
		add("Session{DryRun}: %d statement events reached the driver, first: %s", len(se), se[0].String())
	}
	// (a') DryRun switched on by a scope that hands back a dry-run session: only the executing instance sees the flag
	{
		h19.Clock.Reset()
		marks := h19.Rec.Mark()
		drys, _ := mk()(m.derive(base).Scopes(func(d *gorm.DB) *gorm.DB { return d.Session(&gorm.Session{DryRun: true}) }).Session(&gorm.Session{}))
		if se := stmtEvents(h19.Rec.Since(marks)); len(se) > 0 {
			add("Scopes(-> Session{DryRun}): %d statement events reached the driver, first: %s", len(se), se[0].String())
			if !m.tx {
				if _, err := h19.SQL.Exec(seed19); err != nil {
					panic(err)
				}
			}
		} else if rowOnly := isRowOnly19(what); drys.sql != dry.sql && !dry.noMain && !rowOnly {
			// (Row() hands back no handle: what the harness reads is the chain value it called Row() on, which is not the
			// instance that executed when a scope handed back a session - nothing is exposed, nothing to compare)
			add("DryRun through a scope that returns Session{DryRun} exposes a different statement:\n  scope  : %s\n  session: %s", drys.sql, dry.sql)
		} else if a, b := strings.Join(renderVars19(drys.vars), ", "), strings.Join(renderVars19(dry.vars), ", "); a != b && !dry.noMain && !rowOnly {
			add("DryRun through a scope that returns Session{DryRun} exposes other bound values:\n  scope  : [%s]\n  session: [%s]", a, b)
		}
	}
	// (a'') DryRun switched on by a session derived from a chain value that already carries part of the chain
	if mkSplit != nil {
		h19.Clock.Reset()
		marks := h19.Rec.Mark()
		recv, rest := mkSplit(m.derive(base).Session(&gorm.Session{}))
		o := rest(recv.Session(&gorm.Session{DryRun: true}))
		if se := stmtEvents(h19.Rec.Since(marks)); len(se) > 0 {
			add("Session{DryRun} derived in the middle of the chain: %d statement events reached the driver, first: %s", len(se), se[0].String())
			if !m.tx {
				if _, err := h19.SQL.Exec(seed19); err != nil {
					panic(err)
				}
			}
		} else if o.sql != dry.sql {
			add("Session{DryRun} derived from a chain value that already carries part of the chain exposes a different statement:\n  mid-chain: %s\n  up front : %s", o.sql, dry.sql)
		} else if d := diffVars19(o.vars, dry.vars); d != "" {
			add("Session{DryRun} derived from a chain value that already carries part of the chain binds other values: %s", d)
		}
	}
	// (b) config-level DryRun
	h19cfg.Clock.Reset()
	markc := h19cfg.Rec.Mark()
	dryc, _ := mk()(m.derive(basecfg.Session(&gorm.Session{})))
	if se := stmtEvents(h19cfg.Rec.Since(markc)); len(se) > 0 {
		add("Config.DryRun: %d statement events reached the driver, first: %s", len(se), se[0].String())
	}
	// (c) ToSQL: no driver call at all
	h19.Clock.Reset()
	markt := h19.Rec.Mark()
	var tosqlVars []interface{}
	var tosqlSQL string
	var tosqlErr error
	explained := m.derive(base).ToSQL(func(tx *gorm.DB) *gorm.DB {
		o, _ := mk()(tx)
		tosqlSQL, tosqlVars, tosqlErr = o.sql, o.vars, o.err
		return o.res
	})
	// (c') ToSQL called on a handle that already carries part of the chain
	if mkSplit != nil {
		h19.Clock.Reset()
		marks := h19.Rec.Mark()
		var splitSQL string
		recv, rest := mkSplit(m.derive(base).Session(&gorm.Session{}))
		explainedSplit := recv.ToSQL(func(tx *gorm.DB) *gorm.DB {
			o := rest(tx)
			splitSQL = o.sql
			return o.res
		})
		if evs := h19.Rec.Since(marks); len(evs) > 0 {
			add("ToSQL on a chained handle made %d driver calls, first: %s", len(evs), evs[0].String())
		}
		if splitSQL != tosqlSQL {
			add("ToSQL on a handle that already carries part of the chain exposes a different statement:\n  chained receiver: %s\n  root receiver   : %s", splitSQL, tosqlSQL)
		} else if explainedSplit != explained {
			add("ToSQL on a chained handle returns %q, on the root handle %q", explainedSplit, explained)
		}
	}
	if evs := h19.Rec.Since(markt); len(evs) > 0 {
		add("ToSQL made %d driver calls, first: %s", len(evs), evs[0].String())
	}
	// (c'') ToSQL on handles that already run dry (session flag, configuration flag): no driver call either
	{
		h19.Clock.Reset()
		markd := h19.Rec.Mark()
		var sqlD string
		m.derive(base).Session(&gorm.Session{DryRun: true}).ToSQL(func(tx *gorm.DB) *gorm.DB {
			o, _ := mk()(tx)
			sqlD = o.sql
			return o.res
		})
		if evs := h19.Rec.Since(markd); len(evs) > 0 {
			add("ToSQL on a Session{DryRun} handle made %d driver calls, first: %s", len(evs), evs[0].String())
		}
		h19cfg.Clock.Reset()
		markd = h19cfg.Rec.Mark()
		var sqlC string
		m.derive(basecfg).ToSQL(func(tx *gorm.DB) *gorm.DB {
			o, _ := mk()(tx)
			sqlC = o.sql
			return o.res
		})
		if evs := h19cfg.Rec.Since(markd); len(evs) > 0 {
			add("ToSQL on a Config.DryRun handle made %d driver calls, first: %s", len(evs), evs[0].String())
		}
		if sqlD != tosqlSQL || sqlC != tosqlSQL {
			add("ToSQL on a handle that already runs dry exposes a different statement:\n  session-dry: %s\n  config-dry : %s\n  plain      : %s", sqlD, sqlC, tosqlSQL)
		}
	}
	// (d) for real
	h19.Clock.Reset()
	markr := h19.Rec.Mark()
	realOut, _ := mk()(m.derive(base).Session(&gorm.Session{}))
	realEvents := stmtEvents(h19.Rec.Since(markr))
	if m.tx {
		base.Rollback()
		basecfg.Rollback()
	}
	if _, err := h19.SQL.Exec(seed19); err != nil {
		panic(err)
	}
	c.Inc("ops")
	c.Inc("op_" + what)
	if m.tx {
		c.Inc("ops_on_transaction_handles")
	}
	if m.prep {
		c.Inc("ops_on_prepared_statement_handles")
	}
	if m.ctx != nil {
		c.Inc("ops_on_handles_with_a_context_value")
	}
	if dry.sql != dryc.sql {
		add("Session{DryRun} and Config.DryRun expose different SQL:\n  %s\n  %s", dry.sql, dryc.sql)
	} else if d := diffVars19(dryc.vars, dry.vars); d != "" && !dry.noMain {
		add("Config.DryRun binds other values than Session{DryRun} for the same statement: %s", d)
	}
	if dry.sql != tosqlSQL {
		add("ToSQL statement differs from Session{DryRun}:\n  %s\n  %s", tosqlSQL, dry.sql)
	} else if d := diffVars19(tosqlVars, dry.vars); d != "" && !dry.noMain {
		add("ToSQL binds other values than Session{DryRun} for the same statement: %s\n  ToSQL returned: %s", d, explained)
	} else if want := h19.DB.Dialector.Explain(dry.sql, dry.vars...); dry.err == nil && !dry.noMain && explained != want && len(tosqlVars) == len(dry.vars) {
		add("ToSQL string %q is not Explain(SQL, Vars) = %q", explained, want)
	}
	// an operation gorm refuses before its statement: the real run sent nothing and ended in an error of gorm's own.
	// What the real run sends is then "nothing, because of that error": every dry run of the same chain has to end in
	// the same error, not hand out a statement as if it were sent.
	refusal := 0
	if len(realEvents) == 0 && realOut.err != nil {
		c.Inc("real_refused_before_its_statement")
		for _, dr := range []struct {
			how string
			err error
			sql string
		}{{"Session{DryRun}", dry.err, dry.sql}, {"Config.DryRun", dryc.err, dryc.sql}, {"ToSQL", tosqlErr, tosqlSQL}} {
			if dr.err == nil {
				add("the real run sent no statement and failed with %q; %s reports no error and exposes %q", realOut.err, dr.how, dr.sql)
				refusal++
			} else if dr.err.Error() != realOut.err.Error() {
				add("the real run sent no statement and failed with %q; %s fails with %q", realOut.err, dr.how, dr.err)
				refusal++
			}
		}
		if refusal == 0 {
			c.Inc("refusal_reported_alike_by_all_dry_runs")
		}
	}
	if dry.noMain {
		c.Inc("ops_without_an_exposed_statement")
	} else if len(realEvents) == 0 {
		c.Inc("real_sent_no_statement")
		if dry.sql != "" && dry.err == nil && realOut.err == nil {
			add("dry run exposes %q but the real run sent no statement", dry.sql)
		}
	} else {
		ev := realEvents[0]
		if dry.mainLast {
			ev = realEvents[len(realEvents)-1]
		}
		textOnly := false
		if m.prep && ev.Kind == recdrv.KPrepare {
			// a handle in PrepareStmt mode prepares the statement (once per text) and binds the values to the
			// prepared statement: the values arrive with the execution that follows the prepare (none follows when
			// the database rejects the text)
			c.Inc("real_prepared_first")
			textOnly = true
			for _, e := range realEvents[1:] {
				if e.Kind != recdrv.KPrepare && !dry.mainLast {
					ev, textOnly = e, false
					break
				}
			}
		}
		if textOnly {
			if ev.Query != dry.sql {
				add("dry-run SQL differs from the statement prepared for real:\n  dry : %s\n  real: %s", dry.sql, ev.Query)
			}
		} else if ev.Query != dry.sql {
			add("dry-run SQL differs from the first statement sent for real:\n  dry : %s\n  real: %s", dry.sql, ev.Query)
		}
		if textOnly {
			c.Inc("real_prepare_only_text_compared")
		} else if len(ev.Args) != len(dry.vars) {
			add("dry run exposes %d bound values, the driver received %d", len(dry.vars), len(ev.Args))
		} else {
			for i, v := range dry.vars {
				cv, err := convert(v)
				if err != nil {
					continue
				}
				if !sameValue(cv, ev.Args[i].Value) {
					add("bound value #%d: dry run %#v, driver received %#v", i+1, cv, ev.Args[i].Value)
				}
			}
		}
	}
	if len(problems) > 0 {
		if refusal > 0 && refusal == len(problems) {
			// a class of its own: the dry run does not report the refusal of the real run
			what = "refusal-not-reported/" + what
		}
		c.Violation(what, map[string]interface{}{"chain": desc, "problems": problems, "dry_sql": dry.sql, "dry_vars": renderVars19(dry.vars)})
		return
	}
	if len(realEvents) > 0 && !dry.noMain && dry.sql != "" {
		c.Shape(what, strings.Fields(dry.sql)[0], len(dry.vars), len(realEvents), shapeOfSQL(dry.sql))
		c.Inc("compared_with_real_statement")
		if i := strings.Index(what, "/"); i > 0 {
			c.Inc("compared_with_real_statement_" + what[:i])
		} else {
			c.Inc("compared_with_real_statement_chains")
		}
		if c.WantSample() && len(dry.vars) > 2 {
			c.Sample(map[string]interface{}{"chain": desc, "sql": dry.sql, "vars": renderVars19(dry.vars), "driver_events_dry": len(dryEvents), "statements_real": len(realEvents)})
		}
	}
}

func run19(c *core.Ctx) {
	for k := 0; k < 4; k++ {
		seed := c.R.U64()
		fin := core.Pick(c.R, finishers)
		mk := func() op19 {
			return func(db *gorm.DB) (outcome, string) {
				g := newGen(core.NewRand(seed))
				g.realCols = realCols
				parts := g.genParts(db)
				var kept []part
				for _, p := range parts {
					// C19 covers reads, writes, upserts, soft deletes and raw SQL on one table
					if p.kind == "table" {
						continue
					}
					// Pluck scans one column; a two-column Select expression in front of it is
					// misuse (gorm's scanner panics on it), outside this property
					if p.kind == "select" && fin == "Pluck" {
						continue
					}
					kept = append(kept, p)
				}
				out, desc, _, _ := g.runChain(db, kept, fin)
				return out, desc
			}
		}
		mkSplit := func(db *gorm.DB) (*gorm.DB, func(tx *gorm.DB) outcome) {
			g := newGen(core.NewRand(seed))
			g.realCols = realCols
			parts := g.genParts(db)
			var kept []part
			for _, p := range parts {
				if p.kind == "table" || (p.kind == "select" && fin == "Pluck") {
					continue
				}
				kept = append(kept, p)
			}
			k := int(seed>>8) % (len(kept) + 1)
			recv := db
			for _, p := range kept[:k] {
				recv = p.apply(recv)
			}
			return recv, func(tx *gorm.DB) outcome {
				o, _, _, _ := g.runChainOn(db, tx, kept[k:], fin)
				return o
			}
		}
		compare19(c, drawMode(c.R, 2), mk, mkSplit, fin)
	}
	// soft-delete model
	for k := 0; k < 2; k++ {
		seed := c.R.U64()
		fin := core.Pick(c.R, []string{"Find", "First", "Count", "Update", "Updates", "Delete", "DeletePK", "UnscopedDelete", "UnscopedFind", "Save", "Create"})
		mk := func() op19 {
			return func(db *gorm.DB) (outcome, string) {
				g := newGen(core.NewRand(seed))
				g.realCols = []string{"c1", "c2"}
				var d []string
				n := g.r.Range(0, 2)
				if fin == "Update" || fin == "Updates" || fin == "Delete" || fin == "UnscopedDelete" {
					n = g.r.Range(1, 2)
				}
				root := db
				for i := 0; i < n; i++ {
					cd := g.simpleCond(root, 0)
					op := core.Pick(g.r, []string{"Where", "Or", "Not"})
					switch op {
					case "Where":
						db = db.Where(cd.query, cd.args...)
					case "Or":
						db = db.Or(cd.query, cd.args...)
					default:
						db = db.Not(cd.query, cd.args...)
					}
					d = append(d, op+"("+cd.desc+")")
				}
				l := g.newLeaf("c1", "string")
				var res *gorm.DB
				switch fin {
				case "Find":
					res = db.Find(&[]STag{})
				case "UnscopedFind":
					res = db.Unscoped().Find(&[]STag{})
				case "First":
					res = db.First(&STag{})
				case "Count":
					var cnt int64
					res = db.Model(&STag{}).Count(&cnt)
				case "Update":
					res = db.Model(&STag{}).Update("c1", l.val)
				case "Updates":
					res = db.Model(&STag{ID: 1}).Updates(STag{C1: l.val.(string), C2: 5})
				case "Delete":
					res = db.Delete(&STag{})
				case "DeletePK":
					res = db.Delete(&STag{ID: 1})
				case "UnscopedDelete":
					res = db.Unscoped().Delete(&STag{})
				case "Save":
					res = db.Save(&STag{ID: 1, C1: l.val.(string)})
				case "Create":
					res = db.Create(&STag{C1: l.val.(string), C2: 4})
				}
				d = append(d, fin)
				return outcome{sql: res.Statement.SQL.String(), vars: res.Statement.Vars, err: res.Error, res: res}, "STag: db." + strings.Join(d, ".")
			}
		}
		compare19(c, drawMode(c.R, 2), mk, nil, "soft/"+fin)
	}
	// Row() as finisher (it hands out a *sql.Row, the statement stays on the chain value), and a sub-query
	// handle chained from the operation's own handle that is used by two statements (count, then page)
	{
		seed := c.R.U64()
		fin := core.Pick(c.R, []string{"Row", "RawRow", "TableRow", "SubQueryTwice", "SubQueryTwice", "SubQueryTwiceInOne", "FirstOrCreateMissing", "FirstOrCreateMissing", "FirstOrInitMissing",
			"LateError", "LateError", "ScanSmaller", "ScanSmaller", "Batches"})
		mk := func() op19 {
			return func(db *gorm.DB) (outcome, string) {
				g := newGen(core.NewRand(seed))
				l1 := g.newLeaf("c2", "int")
				l2 := g.newLeaf("c1", "string")
				switch fin {
				case "Row", "RawRow", "TableRow":
					var tx *gorm.DB
					switch fin {
					case "Row":
						tx = db.Model(&Tag{}).Select("c1").Where("c2 > ?", l1.val)
					case "RawRow":
						tx = db.Raw("SELECT c1 FROM tags WHERE c2 > ? AND c1 <> ?", l1.val, l2.val)
					default:
						tx = db.Table("tags").Select("c2").Where("c1 <> ?", l2.val)
					}
					row := tx.Row()
					if !tx.DryRun && row != nil && !reflect.DeepEqual(*row, sql.Row{}) {
						var v interface{}
						row.Scan(&v)
					}
					return outcome{sql: tx.Statement.SQL.String(), vars: tx.Statement.Vars, err: tx.Error, res: tx}, "db." + fin + "()"
				case "ScanSmaller":
					// Scan of a model's rows into a smaller struct (or into maps / a column type): the statement is
					// built for the model, whatever the destination
					tx := db.Model(&Tag{}).Where("c2 > ?", l1.val)
					var res *gorm.DB
					var d string
					switch seed % 4 {
					case 0:
						var out []struct {
							ID int64
							C1 string
						}
						res, d = tx.Scan(&out), "Scan(&[]struct{ID; C1})"
					case 1:
						var out struct{ C2 int64 }
						res, d = tx.Scan(&out), "Scan(&struct{C2})"
					case 2:
						var out []map[string]interface{}
						res, d = tx.Scan(&out), "Scan(&[]map)"
					default:
						var out []Other
						res, d = tx.Scan(&out), "Scan(&[]Other)"
					}
					return outcome{sql: res.Statement.SQL.String(), vars: res.Statement.Vars, err: nil, res: res}, "db.Model(&Tag{}).Where(c2 > ?)." + d
				case "Batches":
					// a create cut into batches (the batch size from a session flag or from CreateInBatches; the slice
					// longer than one batch): several statements on handles of the operation's own
					tags := make([]Tag, 5)
					for i := range tags {
						tags[i] = Tag{C1: fmt.Sprintf("b%d", i), C2: int64(i)}
					}
					var res *gorm.DB
					d := "db.Session(&Session{CreateBatchSize: 2}).Create(&[5]Tag)"
					if seed%2 == 0 {
						res = db.Session(&gorm.Session{CreateBatchSize: 2}).Create(&tags)
					} else {
						res = db.CreateInBatches(&tags, 2)
						d = "db.CreateInBatches(&[5]Tag, 2)"
					}
					return outcome{err: res.Error, res: res, noMain: true}, d
				case "LateError":
					// the operation fails after its main statement: a refusing after-hook, a Preload of a
					// relation the model does not have. The real run has sent the statement by then, and a dry
					// run exposes the same statement next to the same error.
					var res *gorm.DB
					var d string
					switch seed % 5 {
					case 0:
						res = db.Create(&FTag{C1: l2.val.(string), C2: 3})
						d = "db.Create(&FTag{...}) whose AfterCreate returns an error"
					case 1:
						res = db.Create(&[]FTag{{C1: l2.val.(string)}, {C1: "w", C2: 4}})
						d = "db.Create(&[]FTag{...}) whose AfterCreate returns an error"
					case 2:
						res = db.Model(&FTag{ID: 1}).Update("c1", l2.val)
						d = "db.Model(&FTag{ID:1}).Update(c1, ?) whose AfterUpdate returns an error"
					case 3:
						res = db.Delete(&FTag{ID: 2})
						d = "db.Delete(&FTag{ID:2}) whose AfterDelete returns an error"
					default:
						res = db.Preload("NoSuchRelation").Where("c1 <> ?", l2.val).Find(&[]Tag{})
						d = "db.Preload(\"NoSuchRelation\").Where(c1 <> ?).Find(&[]Tag{})"
					}
					if res.Error == nil {
						panic("LateError: the operation did not fail")
					}
					return outcome{sql: res.Statement.SQL.String(), vars: res.Statement.Vars, err: res.Error, res: res}, d
				case "FirstOrCreateMissing", "FirstOrInitMissing":
					// compound finishers on the not-found path: for real the lookup finds no row and the
					// operation's last statement is the one that counts (the INSERT resp. the lookup itself);
					// a dry run finds no row either
					name := fmt.Sprintf("absent_%d", seed%100000)
					tx := db.Where(Tag{C1: name})
					d := fmt.Sprintf("db.Where(Tag{C1: %q})", name)
					switch seed % 3 {
					case 1:
						tx = tx.Attrs(Tag{C2: int64(seed % 50)})
						d += ".Attrs(Tag{C2})"
					case 2:
						tx = tx.Assign(map[string]interface{}{"c3": 1.5})
						d += ".Assign(map{c3})"
					}
					var res *gorm.DB
					if fin == "FirstOrCreateMissing" {
						res = tx.FirstOrCreate(&Tag{})
					} else {
						res = tx.FirstOrInit(&Tag{})
					}
					return outcome{sql: res.Statement.SQL.String(), vars: res.Statement.Vars, err: res.Error, res: res, mainLast: true}, d + "." + strings.TrimSuffix(fin, "Missing") + "(&Tag{})"
				case "SubQueryTwiceInOne":
					sub := db.Model(&Tag{}).Select("id").Where("c2 > ?", l1.val)
					res := db.Model(&Tag{}).Where("c1 <> ?", l2.val).Where("id IN (?) OR parent_id IN (?)", sub, sub).Find(&[]Tag{})
					return outcome{sql: res.Statement.SQL.String(), vars: res.Statement.Vars, err: res.Error, res: res}, "sub := db.Model(&Tag{}).Select(id).Where(c2 > ?); db.Where(c1 <> ?).Where(id IN (?) OR parent_id IN (?), sub, sub).Find"
				}
				sub := db.Model(&Tag{}).Select("id").Where("c2 > ?", l1.val)
				var n int64
				db.Model(&Tag{}).Where("c1 <> ?", l2.val).Where("id IN (?)", sub).Count(&n)
				res := db.Model(&Tag{}).Where("c1 <> ?", l2.val).Where("id IN (?)", sub).Order("id").Limit(2).Find(&[]Tag{})
				return outcome{sql: res.Statement.SQL.String(), vars: res.Statement.Vars, err: res.Error, res: res, mainLast: true},
					"sub := db.Model(&Tag{}).Select(id).Where(c2 > ?); db.Where(c1 <> ?).Where(id IN (?), sub).Count; the same chain .Order.Limit.Find"
			}
		}
		compare19(c, drawMode(c.R, 2), mk, nil, "extra/"+fin)
	}
	// model with unix-number time tracking
	{
		seed := c.R.U64()
		fin := core.Pick(c.R, []string{"Create", "CreateSlice", "CreatePreset", "CreatePtrSlice", "SaveNew", "SaveExisting", "Updates", "Update", "UpdateColumn", "Upsert"})
		mk := func() op19 {
			return func(db *gorm.DB) (outcome, string) {
				g := newGen(core.NewRand(seed))
				l := g.newLeaf("c1", "string")
				v := l.val.(string)
				var res *gorm.DB
				switch fin {
				case "Create":
					res = db.Create(&UTag{C1: v, C2: 4})
				case "CreateSlice":
					res = db.Create(&[]UTag{{C1: v, C2: 4}, {C1: v + "2", C2: 5, CreatedAt: 77}})
				case "CreatePtrSlice":
					res = db.Create(&[]*UTag{{C1: v, C2: 4}, {C1: v + "2", Stamp: 9}})
				case "CreatePreset":
					res = db.Create(&UTag{C1: v, CreatedAt: 11, UpdatedAt: 12, Stamp: 13, Seen: 14})
				case "SaveNew":
					res = db.Save(&UTag{C1: v})
				case "SaveExisting":
					res = db.Save(&UTag{ID: 1, C1: v})
				case "Updates":
					res = db.Model(&UTag{ID: 1}).Updates(UTag{C1: v, C2: 5})
				case "Update":
					res = db.Model(&UTag{}).Where("id = ?", 2).Update("c1", v)
				case "UpdateColumn":
					res = db.Model(&UTag{}).Where("id = ?", 2).UpdateColumn("c1", v)
				case "Upsert":
					res = db.Clauses(clause.OnConflict{UpdateAll: true}).Create(&UTag{ID: 2, C1: v})
				}
				return outcome{sql: res.Statement.SQL.String(), vars: res.Statement.Vars, err: res.Error, res: res}, "UTag: db." + fin
			}
		}
		compare19(c, drawMode(c.R, 2), mk, nil, "unixtime/"+fin)
	}
	// statements that depend on the context of the handle (hooks, scopes, gorm.Valuer values and field types, a
	// serializer): the handle carries a context with a tenant (7 of 8; by WithContext or Session{Context}), or the
	// operation derives such a handle itself as its first step
	{
		seed := c.R.U64()
		fin := core.Pick(c.R, ctxFins19)
		m := drawMode(c.R, 7)
		var inOp context.Context
		var inOpDesc string
		if m.ctx != nil && c.R.Chance(1, 4) {
			t := core.Pick(c.R, tenants19)
			inOp, inOpDesc = newCtx19(t), fmt.Sprintf(".WithContext(WithValue(Background(), tenant, %q))", t)
			if c.R.Bool() {
				// ... from a handle that carries no context, or (else) one that carries another tenant's
				m.ctx, m.desc = nil, m.descNoCtx
			}
		}
		compare19(c, m, func() op19 { return ctxOp19(fin, seed, inOp, inOpDesc) }, nil, "ctx/"+fin)
		if m.ctx != nil || inOp != nil {
			c.Inc("ops_under_a_context_with_a_tenant")
		}
	}
	// operations gorm refuses before their statement (a write without a condition while AllowGlobalUpdate is off,
	// nothing to create, no model), next to their neighbours that are sent
	{
		seed := c.R.U64()
		model, fin, cnd := core.Pick(c.R, refuseModels19), core.Pick(c.R, refuseFins19), core.Pick(c.R, refuseConds19)
		global := c.R.Chance(1, 4)
		compare19(c, drawMode(c.R, 2), func() op19 { return refuseOp19(model, fin, cnd, global, seed) }, nil, "refuse/"+fin)
	}
	// operations that reach their executor with the statement text already there
	if c.R.Chance(2, 3) {
		seed := c.R.U64()
		fin := core.Pick(c.R, prebuiltFins19)
		how := core.Pick(c.R, []string{"Raw", "Plugin"})
		m := drawMode(c.R, 2)
		if how == "Plugin" {
			// the handles whose callback chains carry the statement-writing callback
			h19, h19p = h19p, h19
			h19cfg, h19pcfg = h19pcfg, h19cfg
		}
		compare19(c, m, func() op19 { return prebuiltOp19(how, fin, seed) }, nil, "prebuilt/"+how+"/"+fin)
		if how == "Plugin" {
			h19, h19p = h19p, h19
			h19cfg, h19pcfg = h19pcfg, h19cfg
		}
	} else {
		seed := c.R.U64()
		first, second := core.Pick(c.R, reuseFirst19), core.Pick(c.R, reuseSecond19)
		compare19(c, drawMode(c.R, 2), func() op19 { return reuseOp19(first, second, seed) }, nil, "reuse/"+second)
	}
}

var EngineC19 = &core.Engine{
	ID:    "C19",
	Level: "exploration",
	Rule: "the chains and 25 finishers of C01 (raw/named/map/struct/clause/grouped conditions, sub-queries, Select/Joins/Having/Order expressions, creates from struct/slice/map/[]map, upserts, Save, Raw/Exec) on the real columns of a seeded SQLite table, plus Row() finishers, a sub-query handle used by two statements, 11 soft-delete operations, 10 writes of a model that tracks its times as unix numbers (seconds, milli, nano, unsigned), " +
		"18 operations of a multi-tenant model whose statement depends on the context of the handle (Before* hooks reading Statement.Context, a scope reading it, a gorm.Valuer as condition / assigned / map value, a field type with GormValue, a serializer using its ctx), " +
		"16 finishers entered with the statement text already there (Raw(text) followed by Create of a struct / slice / map, Find, First, Take, Scan, Pluck, Count, Update, Updates, UpdateColumn, Delete with and without inline condition, Row, Rows; or a plugin callback in front of the executor that writes Statement.SQL), and the second use (14 finishers) of the value a dry run (9 finishers) returned, " +
		"and 12 finishers that gorm may refuse before their statement, on a plain / soft-delete / unix-time model: Update, Updates(struct / map), UpdateColumn(s), Delete, Unscoped().Delete, Delete(&[]T{}) behind no condition that counts as a WHERE (none, Where(&T{}), Order, Select/Omit: refused with ErrMissingWhereClause) or behind one that does (Where, primary key in the model, inline condition), with AllowGlobalUpdate off or (1/4) switched on by a session, plus Create(&[]T{}), Update without Model, Updates(non-struct), Delete(nil); " +
		"each executed from identically derived handles and logical clocks: Session{DryRun}, a scope returning Session{DryRun}, Session{DryRun} derived mid-chain, Config.DryRun, ToSQL (on the handle, on a chain value carrying part of the chain, on handles that already run dry), and for real behind the recording driver; " +
		"the handles are the root handle or (drawn per operation) h.WithContext(ctx) / h.Session(&Session{Context: ctx}) with a value in ctx (1/4 of all operations, 7/8 of the context-dependent ones, where the operation may also derive the context handle itself), h.Session(&Session{PrepareStmt: true}) (1/8), a transaction h.Begin() rolled back afterwards (1/8), and their combinations; " +
		"distinct = (finisher, SQL verb, number of bound values, number of real statements, clause skeleton); non-trivial = the real run sent at least one statement that was compared with the dry run's SQL and bound values",
	Assumptions: []string{
		"the main statement of an operation is the first prepare/exec/query event of the real run (records carry no nested association values); on a PrepareStmt handle the text is the prepared one and the values are those of the execution that follows the prepare (text only when the database rejects the prepare); for FirstOrCreate/FirstOrInit on the not-found path and the count-then-page pair it is the last one",
		"bound values are compared after database/sql's own conversion (driver.DefaultParameterConverter), times with Equal; values of two dry runs of one operation are compared the same way",
		"statements SQLite rejects (unknown function FIELD, derived-table writes) are still compared: the recording driver logs text and values before executing",
		"a write in DryRun may open and commit an empty transaction; ToSQL must make no driver call at all (also on a transaction handle, a PrepareStmt handle, a handle with a context)",
		"contexts are live and carry one value; cancelled or expired contexts are not generated (what a dry run does under a dead context is not fixed by the statement)",
		"going on with the value a finisher returned is not a reusable handle: for the second use of a dry run's result only 'no statement reaches the driver' is demanded, not what it exposes; the real run executes the first operation only",
		"operations whose statement text is given beforehand (Raw + finisher, statement-writing plugin) are compared as they are: the given text and values are what the real run sends; hooks that run statements of their own are not generated",
		"an operation whose real run sends no statement and ends in an error (gorm refused it before the statement: ErrMissingWhereClause, ErrEmptySlice, ErrInvalidData, no model / table) sends 'nothing, because of that error': Session{DryRun}, Config.DryRun and ToSQL of the same chain must end in an error with the same text (signature refusal-not-reported/...); what Statement.SQL holds next to that error is not compared (gorm builds the text before it refuses, for real as well)",
		"Create(nil) is not generated (gorm panics on it, dry and for real alike: misuse outside the statement)",
		"the statement-writing plugin is registered on a separate pair of handles (registering re-sorts the callback chains), all other operations run on untouched chains",
	},
	Cases: func(tier string) int {
		// 10 operations per case (the same number of operations as the 8-per-case workload had with 20000 / 300000)
		if tier == "thorough" {
			return 240000
		}
		return 16000
	},
	Batch:         func(string) int { return 128 },
	Run:           run19,
	Init:          init19,
	MinNontrivial: 100,
}

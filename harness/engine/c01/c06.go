package c01

// C06: reusable handles are never changed by the chains and queries derived from them.
//
// A history interleaves: deriving reusable handles (Session, WithContext, Debug, Begin)
// from any existing reusable handle with chain methods in front; starting, extending,
// executing (DryRun finishers) and abandoning chains from any reusable handle at any time.
// For every finisher event the path of calls from Open is recorded together with the SQL
// and bound values it produced. Oracle: each path replayed ALONE on a fresh gorm.Open must
// produce exactly the same SQL and values. A second oracle compares the caller's own
// slice arguments with deep copies taken before the history.

import (
	"context"
	"fmt"
	"reflect"
	"regexp"
	"strings"

	"gorm.io/gorm"
	"gorm.io/gorm/clause"

	"verif/core"
	"verif/vdb"
)

type step06 struct {
	desc  string
	apply func(db *gorm.DB) *gorm.DB
	// args the caller keeps (to check gorm does not modify them)
	keep     interface{}
	keepCopy interface{}
}

type ctxKey06 struct{}

// HTag has hooks whose effect shows in the bound values: a chain that silently lost (or gained)
// hook execution is visible in the statement it builds.
type HTag struct {
	ID int64 `gorm:"primaryKey"`
	C1 string
	C2 int64
}

func (t *HTag) BeforeSave(tx *gorm.DB) error {
	t.C2 += 1000
	return nil
}

func (t *HTag) BeforeCreate(tx *gorm.DB) error {
	t.C1 = "hooked:" + t.C1
	return nil
}

// keptCols06: the caller's own list of columns, with room behind its two elements
var keptCols06 = append(make([]string, 0, 8), "c1", "c2")

// rawSub06: a raw sub-query the caller keeps in a variable and hands to several chains as a value (made anew for
// every history and for every isolated replay)
var rawSub06 *gorm.DB

func newRawSub06(root *gorm.DB) { rawSub06 = root.Raw("SELECT c3 FROM tags WHERE c2 > ?", 15) }

// HOwner and its relations: what Select(<relations>).Delete walks.
type HOwner struct {
	ID   int64 `gorm:"primaryKey"`
	Acct *HAcct
	Kids []HKid
}

type HAcct struct {
	ID       int64 `gorm:"primaryKey"`
	HOwnerID int64
}

type HKid struct {
	ID       int64 `gorm:"primaryKey"`
	HOwnerID int64
	Toys     []HToy
}

type HToy struct {
	ID     int64 `gorm:"primaryKey"`
	HKidID int64
}

// genStep builds one chain-method call from a seed; calling it twice with the same seed
// yields equal but independent argument values (history vs. isolated replay).
func genStep(seed uint64, root *gorm.DB) step06 {
	g := newGen(core.NewRand(seed))
	g.realCols = realCols
	r := g.r
	// the low bits of the seed carry the method form chosen from the history's palette
	switch k := int(seed % 32); {
	case k == 5:
		// the kept raw sub-query as a value, behind a bound value of the chain's own
		l := g.newLeaf("c2", "int")
		return step06{desc: `Where("c2 > ? AND c3 IN (?)", v, keptRawSubQuery)`, apply: func(db *gorm.DB) *gorm.DB {
			return db.Where("c2 > ? AND c3 IN (?)", l.val, rawSub06)
		}}
	case k < 6:
		c := g.simpleCond(root, 0)
		op := core.Pick(r, []string{"Where", "Where", "Or", "Not"})
		return step06{desc: op + "(" + c.desc + ")", apply: func(db *gorm.DB) *gorm.DB {
			switch op {
			case "Where":
				return db.Where(c.query, c.args...)
			case "Or":
				return db.Or(c.query, c.args...)
			}
			return db.Not(c.query, c.args...)
		}}
	case k == 6:
		cols := []string{"c1", "c2", "c3"}[:r.Range(1, 3)]
		sl := append(make([]string, 0, 8), cols...)
		return step06{desc: fmt.Sprintf("Select(%v)", sl), keep: sl, keepCopy: append([]string(nil), sl...), apply: func(db *gorm.DB) *gorm.DB { return db.Select(sl) }}
	case k == 7:
		return step06{desc: `Select("c1", "c5")`, apply: func(db *gorm.DB) *gorm.DB { return db.Select("c1", "c5") }}
	case k == 8:
		cols := append(make([]string, 0, 8), []string{"c4", "c9"}[:r.Range(1, 2)]...)
		return step06{desc: fmt.Sprintf("Omit(%v...)", cols), keep: cols, keepCopy: append([]string(nil), cols...), apply: func(db *gorm.DB) *gorm.DB { return db.Omit(cols...) }}
	case k == 9:
		o := core.Pick(r, []string{"c2 desc", "c1", "c3 desc, c1"})
		return step06{desc: fmt.Sprintf("Order(%q)", o), apply: func(db *gorm.DB) *gorm.DB { return db.Order(o) }}
	case k == 10:
		col := core.Pick(r, []string{"c1", "c2", "c5"})
		desc := r.Bool()
		return step06{desc: "Order(OrderByColumn " + col + ")", apply: func(db *gorm.DB) *gorm.DB {
			return db.Order(clause.OrderByColumn{Column: clause.Column{Name: col}, Desc: desc})
		}}
	case k == 11:
		n := r.Range(1, 9)
		return step06{desc: fmt.Sprintf("Limit(%d)", n), apply: func(db *gorm.DB) *gorm.DB { return db.Limit(n) }}
	case k == 12:
		n := r.Range(1, 9)
		return step06{desc: fmt.Sprintf("Offset(%d)", n), apply: func(db *gorm.DB) *gorm.DB { return db.Offset(n) }}
	case k == 13:
		col := core.Pick(r, []string{"c2", "c8"})
		return step06{desc: "Group(" + col + ")", apply: func(db *gorm.DB) *gorm.DB { return db.Group(col) }}
	case k == 14:
		c := g.simpleCond(root, 0)
		return step06{desc: "Having(" + c.desc + ")", apply: func(db *gorm.DB) *gorm.DB { return db.Having(c.query, c.args...) }}
	case k == 15:
		l := g.newLeaf("c1", "string")
		return step06{desc: "Joins(raw JOIN others)", apply: func(db *gorm.DB) *gorm.DB {
			return db.Joins("JOIN others ON others.tag_id = tags.id AND others.c1 = ?", l.val)
		}}
	case k == 16:
		return step06{desc: "Distinct()", apply: func(db *gorm.DB) *gorm.DB { return db.Distinct() }}
	case k == 17:
		return step06{desc: "Unscoped()", apply: func(db *gorm.DB) *gorm.DB { return db.Unscoped() }}
	case k == 18:
		l := g.newLeaf("c2", "int")
		return step06{desc: "Scopes(Where c2 > ?)", apply: func(db *gorm.DB) *gorm.DB {
			return db.Scopes(func(d *gorm.DB) *gorm.DB { return d.Where("c2 > ?", l.val) })
		}}
	case k == 19:
		cols := append(make([]clause.Column, 0, 8), []clause.Column{{Name: "c1"}, {Name: "c2"}, {Name: "id"}}[:r.Range(1, 3)]...)
		return step06{desc: fmt.Sprintf("Clauses(Returning%v)", cols), keep: cols, keepCopy: append([]clause.Column(nil), cols...), apply: func(db *gorm.DB) *gorm.DB {
			return db.Clauses(clause.Returning{Columns: cols})
		}}
	case k == 20:
		cols := append(make([]clause.OrderByColumn, 0, 8), clause.OrderByColumn{Column: clause.Column{Name: core.Pick(r, []string{"c3", "c5"})}, Desc: r.Bool()})
		return step06{desc: "Clauses(OrderBy columns)", keep: cols, keepCopy: append([]clause.OrderByColumn(nil), cols...), apply: func(db *gorm.DB) *gorm.DB {
			return db.Clauses(clause.OrderBy{Columns: cols})
		}}
	case k == 21:
		return step06{desc: "Clauses(Locking)", apply: func(db *gorm.DB) *gorm.DB { return db.Clauses(clause.Locking{Strength: "UPDATE"}) }}
	case k == 22:
		return step06{desc: "Clauses(OnConflict DoNothing)", apply: func(db *gorm.DB) *gorm.DB { return db.Clauses(clause.OnConflict{DoNothing: true}) }}
	case k == 23:
		l := g.newLeaf("c3", "float")
		exprs := append(make([]clause.Expression, 0, 8), clause.Gt{Column: "c3", Value: l.val})
		return step06{desc: "Clauses(Where{Gt c3})", apply: func(db *gorm.DB) *gorm.DB { return db.Clauses(clause.Where{Exprs: exprs}) }}
	case k == 24:
		return step06{desc: `Table("tags")`, apply: func(db *gorm.DB) *gorm.DB { return db.Table("tags") }}
	case k == 28:
		c := g.simpleCond(root, 0)
		return step06{desc: "Or(" + c.desc + ")", apply: func(db *gorm.DB) *gorm.DB { return db.Or(c.query, c.args...) }}
	case k == 29:
		c := g.simpleCond(root, 0)
		return step06{desc: "Where(" + c.desc + ")", apply: func(db *gorm.DB) *gorm.DB { return db.Where(c.query, c.args...) }}
	case k == 31:
		// a column list the caller keeps (a slice with spare capacity) handed to Select together with one more column:
		// what Select appends must not land in the caller's slice, which the next call hands in again
		extra := []string{"c3", "c5", "c6", "c8"}[(seed>>5)%4]
		return step06{desc: fmt.Sprintf("Select(keptCols, %q)", extra), apply: func(db *gorm.DB) *gorm.DB { return db.Select(keptCols06[:2], extra) }}
	case k == 30:
		// relations selected for a delete (with a nested path), in the orders an application may write them
		sels := [][]string{{"Acct", "Kids", "Kids.Toys"}, {"Kids", "Kids.Toys", "Acct"}, {"Kids.Toys", "Kids"}, {"Acct", "Kids"}}[(seed>>5)%4]
		args := make([]interface{}, len(sels)-1)
		for i, x := range sels[1:] {
			args[i] = x
		}
		return step06{desc: fmt.Sprintf("Select(%q...)", sels), apply: func(db *gorm.DB) *gorm.DB { return db.Select(sels[0], args...) }}
	case k == 26:
		// a call gorm rejects: the error belongs to this chain only
		return step06{desc: "Select(123)", apply: func(db *gorm.DB) *gorm.DB { return db.Select(123) }}
	case k == 27:
		return step06{desc: `Select("c1", 5)`, apply: func(db *gorm.DB) *gorm.DB { return db.Select("c1", 5) }}
	}
	return step06{desc: "Model(&Tag{})", apply: func(db *gorm.DB) *gorm.DB { return db.Model(&Tag{}) }}
}

var finishers06 = []string{"Find", "First", "Take", "Count", "Pluck", "Scan", "Update", "Updates", "Delete", "Create", "Save", "CountDirect", "CreateHooked", "SaveHooked", "FindInBatches", "Rows", "DeleteOwner"}

func genFinisher(seed uint64) (string, func(db *gorm.DB) *gorm.DB) {
	g := newGen(core.NewRand(seed))
	fin := core.Pick(g.r, finishers06)
	l := g.newLeaf("c1", "string")
	return fin, func(db *gorm.DB) *gorm.DB {
		switch fin {
		case "Find":
			return db.Find(&[]Tag{})
		case "First":
			return db.First(&Tag{})
		case "Take":
			return db.Take(&Tag{})
		case "Count":
			var n int64
			return db.Model(&Tag{}).Count(&n)
		case "Pluck":
			var xs []string
			return db.Model(&Tag{}).Pluck("c1", &xs)
		case "Scan":
			return db.Model(&Tag{}).Scan(&[]Tag{})
		case "Update":
			return db.Model(&Tag{}).Update("c1", l.val)
		case "Updates":
			return db.Model(&Tag{ID: 3}).Updates(map[string]interface{}{"c1": l.val, "c2": 5})
		case "Delete":
			return db.Delete(&Tag{})
		case "Create":
			return db.Create(&Tag{C1: l.val.(string), C2: 1})
		case "CountDirect":
			// the handle's own model / table, no Model() in front (the usual total of a paginated list)
			var n int64
			return db.Count(&n)
		case "DeleteOwner":
			// a delete that walks the selected relations of its model (has one, has many, a nested path)
			return db.Model(&HOwner{}).Delete(&HOwner{ID: 1})
		case "FindInBatches":
			return db.FindInBatches(&[]Tag{}, 2, func(tx *gorm.DB, batch int) error { return nil })
		case "Rows":
			tx := db.Model(&Tag{})
			if rows, err := tx.Rows(); err == nil && rows != nil {
				rows.Close()
			}
			return tx
		case "CreateHooked":
			return db.Model(&HTag{}).Create(&HTag{C1: l.val.(string), C2: 1})
		case "SaveHooked":
			return db.Model(&HTag{}).Save(&HTag{ID: 5, C1: l.val.(string), C2: 2})
		}
		return db.Save(&Tag{ID: 7, C1: l.val.(string)})
	}
}

// path element: chain step, reusable-maker or finisher, identified by seed so that it
// can be rebuilt independently for the isolated replay.
type pel struct {
	kind string // step | session | newdb | ctx | debug | begin | group
	seed uint64
	sub  []pel // group: path of the reusable handle passed as grouped condition
	hdl  *gorm.DB
}

func applyPel(p pel, db *gorm.DB, root *gorm.DB) (*gorm.DB, string, *step06) {
	switch p.kind {
	case "step":
		s := genStep(p.seed, root)
		return s.apply(db), s.desc, &s
	case "session":
		return db.Session(&gorm.Session{}), "Session(&Session{})", nil
	case "newdb":
		return db.Session(&gorm.Session{NewDB: true}), "Session(&Session{NewDB:true})", nil
	case "ctx":
		return db.WithContext(context.WithValue(context.Background(), ctxKey06{}, 1)), "WithContext(ctx)", nil
	case "debug":
		return db.Debug(), "Debug()", nil
	case "begin":
		return db.Begin(), "Begin()", nil
	case "ctxsame":
		// the context the handle already carries (context.Background() on a fresh handle, or the same
		// request context passed down a second time): still a new reusable handle
		ctx := db.Statement.Context
		if ctx == nil {
			ctx = context.Background()
		}
		return db.WithContext(ctx), "WithContext(<the context it already carries>)", nil
	case "skiphooks":
		return db.Session(&gorm.Session{SkipHooks: true}), "Session(&Session{SkipHooks:true})", nil
	case "newdb+skiphooks":
		return db.Session(&gorm.Session{NewDB: true, SkipHooks: true}), "Session(&Session{NewDB:true, SkipHooks:true})", nil
	case "newdb+ctx":
		return db.Session(&gorm.Session{NewDB: true, Context: context.WithValue(context.Background(), ctxKey06{}, 2)}), "Session(&Session{NewDB:true, Context:ctx2})", nil
	case "session+ctx":
		return db.Session(&gorm.Session{Context: context.WithValue(context.Background(), ctxKey06{}, 3)}), "Session(&Session{Context:ctx3})", nil
	case "newdb+dryprep":
		return db.Session(&gorm.Session{NewDB: true, PrepareStmt: true}), "Session(&Session{NewDB:true, PrepareStmt:true})", nil
	case "group":
		// a reusable handle used as grouped condition: in the history the live handle
		// itself, in the replay the handle rebuilt alone from its own path
		arg := p.hdl
		var ds []string
		if arg == nil {
			arg = root
			for _, q := range p.sub {
				var d string
				arg, d, _ = applyPel(q, arg, root)
				ds = append(ds, d)
			}
		}
		op := "Where"
		if p.seed%2 == 1 {
			op = "Or"
			return db.Or(arg), op + "(<handle db." + strings.Join(ds, ".") + ">)", nil
		}
		return db.Where(arg), op + "(<handle db." + strings.Join(ds, ".") + ">)", nil
	}
	panic(p.kind)
}

func hasBegin(path []pel) bool {
	for _, p := range path {
		if p.kind == "begin" {
			return true
		}
	}
	return false
}

type node06 struct {
	db   *gorm.DB
	path []pel
}

func open06() *vdb.Handle {
	h, err := vdb.Open(vdb.Options{Config: gorm.Config{DryRun: true}})
	if err != nil {
		panic(err)
	}
	return h
}

func fmtStmt(db *gorm.DB) string {
	parts := make([]string, len(db.Statement.Vars))
	for i, v := range renderVars(db.Statement.Vars) {
		parts[i] = v
	}
	s := db.Statement.SQL.String() + " :: [" + strings.Join(parts, ", ") + "]"
	// what the statement would run under is part of the chain's outcome (a cancelled context, skipped hooks)
	if db.Statement.Context != nil {
		if v := db.Statement.Context.Value(ctxKey06{}); v != nil {
			s += fmt.Sprintf(" ctx=%v", v)
		}
	}
	if db.Statement.SkipHooks {
		s += " skiphooks"
	}
	if len(db.Statement.Selects) > 0 {
		// what a finisher that walks relations (delete with selected associations) will act on
		s += fmt.Sprintf(" selects=%q", db.Statement.Selects)
	}
	if _, inTx := db.Statement.ConnPool.(gorm.TxCommitter); inTx {
		s += " in-transaction"
	}
	if db.Error != nil {
		// (an error text may print the address of a value: not part of the outcome)
		s += " ERR=" + addrRe06.ReplaceAllString(db.Error.Error(), "0xADDR")
	}
	return s
}

var addrRe06 = regexp.MustCompile(`0x[0-9a-f]{6,}`)

// replay builds the path alone on a fresh handle and executes the finisher.
func replay06(path []pel, finSeed uint64) (string, string) {
	h := open06()
	defer h.Close()
	root := h.DB
	newRawSub06(root)
	db := root
	var descs []string
	var txs []*gorm.DB
	for _, p := range path {
		var d string
		db, d, _ = applyPel(p, db, root)
		if p.kind == "begin" {
			txs = append(txs, db)
		}
		descs = append(descs, d)
	}
	fin, f := genFinisher(finSeed)
	res := f(db)
	out := fmtStmt(res)
	for _, tx := range txs {
		tx.Rollback()
	}
	return out, "db." + strings.Join(append(descs, fin), ".")
}

type event06 struct {
	path    []pel
	finSeed uint64
	got     string
}

func run06(c *core.Ctx) {
	r := c.R
	for i := 0; i < 3; i++ {
		reexec06(c)
	}
	for i := 0; i < 2; i++ {
		failed06(c)
	}
	h := open06()
	defer h.Close()
	root := h.DB
	newRawSub06(root)
	nodes := []*node06{{db: root}}
	type chain struct {
		db   *gorm.DB
		path []pel
	}
	var chains []*chain
	var events []event06
	var kept []*step06
	var txs []*gorm.DB
	var grouped []*node06 // handles already used as a grouped condition: they are used again (and again)
	pickGroup := func() *node06 {
		if len(grouped) > 0 && r.Bool() {
			return core.Pick(r, grouped)
		}
		return core.Pick(r, nodes)
	}
	nops := r.Range(10, 28)
	if r.Chance(1, 4) {
		// a reusable handle whose first condition is an Or (legal: a leading Or reads as Where), kept
		// at hand as grouped condition for the chains of this history
		var path []pel
		db := root
		for _, form := range []uint64{28, 29, 29}[:r.Range(2, 3)] {
			p := pel{kind: "step", seed: (r.U64() &^ 31) | form}
			db, _, _ = applyPel(p, db, root)
			path = append(path, p)
		}
		mk := pel{kind: "session"}
		db, _, _ = applyPel(mk, db, root)
		n := &node06{db: db, path: append(path, mk)}
		nodes = append(nodes, n)
		grouped = append(grouped, n, n)
		c.Inc("or_first_handles")
	}
	// each history draws from a small palette of method forms, so that the same clause is
	// touched again and again along related handles (aliasing needs repetition)
	palette := make([]int, r.Range(1, 5))
	for i := range palette {
		palette[i] = r.Intn(28)
	}
	if r.Chance(1, 4) {
		palette = append(palette, 30, 30)
	}
	if r.Chance(1, 4) {
		palette = append(palette, 31, 31)
	}
	// "deep" histories: one or two forms only and long prefixes, so that the slice a clause keeps (joins, conditions,
	// scopes, order columns ...) reaches every length - a slice that grew by append has spare capacity at 3, 5-7, 9-15 elements
	deep := r.Chance(1, 5)
	if deep {
		palette = []int{core.Pick(r, []int{15, 15, 0, 9, 13, 14, 18, 20, 23, 6, 8, 19})}
		if r.Bool() {
			palette = append(palette, r.Intn(28))
		}
		c.Inc("deep_histories")
	}
	stepSeed := func() uint64 { return (r.U64() &^ 31) | uint64(core.Pick(r, palette)) }
	for i := 0; i < nops; i++ {
		switch k := r.Intn(12); {
		case k >= 10:
			// sibling burst: several chains from one handle in flight at once, finished in
			// random order (aliasing of a parent's slice shows only between siblings)
			n := core.Pick(r, nodes)
			var sibs []*chain
			for s := r.Range(2, 3); s > 0; s-- {
				db := n.db
				path := append([]pel(nil), n.path...)
				for j := r.Range(1, 2); j > 0; j-- {
					p := pel{kind: "step", seed: stepSeed()}
					var st *step06
					db, _, st = applyPel(p, db, root)
					kept = append(kept, st)
					path = append(path, p)
				}
				sibs = append(sibs, &chain{db: db, path: path})
			}
			fs := r.U64()
			for _, i := range r.Perm(len(sibs)) {
				_, f := genFinisher(fs)
				events = append(events, event06{path: sibs[i].path, finSeed: fs, got: fmtStmt(f(sibs[i].db))})
				c.Inc("finishers_on_siblings")
			}
		case k < 2:
			// derive a reusable handle from an existing one with 0..3 chain methods in front
			n := core.Pick(r, nodes)
			db := n.db
			path := append([]pel(nil), n.path...)
			nfront := r.Intn(4)
			if deep {
				nfront = r.Range(1, 7)
			}
			for j := nfront; j > 0; j-- {
				p := pel{kind: "step", seed: stepSeed()}
				if p.seed%32 == 25 {
					// Model(&T{}) hands gorm a caller-owned object that update finishers write
					// back to by design; kept out of reusable handles (it would be shared
					// mutable state of the caller, not of the handle)
					p.seed--
				}
				var s *step06
				db, _, s = applyPel(p, db, root)
				kept = append(kept, s)
				path = append(path, p)
			}
			mk := pel{kind: core.Pick(r, []string{"session", "session", "session", "ctx", "debug", "begin", "newdb", "skiphooks", "newdb+skiphooks", "newdb+ctx", "session+ctx", "newdb+dryprep", "ctxsame", "ctxsame"})}
			before := db.Error
			db, _, _ = applyPel(mk, db, root)
			// a chain that gorm has refused (Select(123) ...) stays refused whatever is derived from it, except through
			// Session{NewDB}, which starts over
			if before != nil && !strings.HasPrefix(mk.kind, "newdb") && mk.kind != "begin" && db.Error == nil {
				c.Violation("error-lost-on-derive", map[string]interface{}{"path": "a chain carrying the error " + before.Error() + ", then " + mk.kind, "note": "the handle derived from a refused chain carries no error any more: finishers on it run"})
			}
			if before != nil {
				c.Inc("handles_derived_from_refused_chains")
			}
			if mk.kind == "begin" {
				txs = append(txs, db)
			}
			path = append(path, mk)
			nodes = append(nodes, &node06{db: db, path: path})
			c.Inc("handles_derived")
		case k < 3 && len(chains) > 0:
			// derive a reusable handle from a chain in progress; the chain itself goes on and is used again.
			// Only derivations that give the new handle a statement of its own: a plain Session(&Session{})
			// and a Session{NewDB} handle keep pointing at the chain's statement until their first use (documented: do not go on with the chain value)
			ch := core.Pick(r, chains)
			hasModel := false
			for _, q := range ch.path {
				// Model(&T{}) is a caller-owned object update finishers write back to: kept out of reusable handles
				if q.kind == "step" && q.seed%32 == 25 {
					hasModel = true
				}
			}
			if hasModel {
				continue
			}
			mk := pel{kind: core.Pick(r, []string{"ctx", "begin", "begin", "skiphooks", "session+ctx", "ctxsame"})}
			db, _, _ := applyPel(mk, ch.db, root)
			if mk.kind == "begin" {
				txs = append(txs, db)
			}
			nodes = append(nodes, &node06{db: db, path: append(append([]pel(nil), ch.path...), mk)})
			c.Inc("handles_derived_from_live_chains")
		case k < 5:
			// start a chain from a reusable handle
			n := core.Pick(r, nodes)
			p := pel{kind: "step", seed: stepSeed()}
			if r.Chance(1, 5) {
				// grouped condition built from another reusable handle of the tree
				if g := pickGroup(); !hasBegin(g.path) && len(g.path) > 0 {
					p = pel{kind: "group", seed: r.U64(), hdl: g.db, sub: g.path}
					grouped = append(grouped, g)
					c.Inc("handles_used_as_group")
				}
			}
			db, _, s := applyPel(p, n.db, root)
			kept = append(kept, s)
			isGroup := p.kind == "group"
			p.hdl = nil
			ch := &chain{db: db, path: append(append([]pel(nil), n.path...), p)}
			c.Inc("chains_started")
			if isGroup && r.Bool() {
				// the group is the chain's only condition and the chain is executed at once
				fs := r.U64()
				_, f := genFinisher(fs)
				events = append(events, event06{path: ch.path, finSeed: fs, got: fmtStmt(f(ch.db))})
				c.Inc("finishers_on_lone_group")
				continue
			}
			chains = append(chains, ch)
		case k < 7:
			// extend a chain in progress
			if len(chains) == 0 {
				continue
			}
			ch := core.Pick(r, chains)
			p := pel{kind: "step", seed: stepSeed()}
			if r.Chance(1, 6) {
				if g := pickGroup(); !hasBegin(g.path) && len(g.path) > 0 {
					p = pel{kind: "group", seed: r.U64(), hdl: g.db, sub: g.path}
					grouped = append(grouped, g)
					c.Inc("handles_used_as_group")
				}
			}
			var s *step06
			ch.db, _, s = applyPel(p, ch.db, root)
			kept = append(kept, s)
			p.hdl = nil
			ch.path = append(ch.path, p)
		case k < 9:
			// execute a finisher on a chain (which is then finished) ...
			if len(chains) == 0 {
				continue
			}
			idx := r.Intn(len(chains))
			ch := chains[idx]
			chains = append(chains[:idx], chains[idx+1:]...)
			fs := r.U64()
			_, f := genFinisher(fs)
			events = append(events, event06{path: ch.path, finSeed: fs, got: fmtStmt(f(ch.db))})
			c.Inc("finishers_on_chains")
		default:
			// ... or directly on a reusable handle (possibly several times over the history)
			n := core.Pick(r, nodes)
			fs := r.U64()
			_, f := genFinisher(fs)
			events = append(events, event06{path: append([]pel(nil), n.path...), finSeed: fs, got: fmtStmt(f(n.db))})
			c.Inc("finishers_on_handles")
		}
	}
	// abandon the remaining chains; finish transactions
	for _, tx := range txs {
		tx.Rollback()
	}
	// oracle 1: isolated replay
	for _, ev := range events {
		a, desc := replay06(ev.path, ev.finSeed)
		b, _ := replay06(ev.path, ev.finSeed)
		c.Inc("finisher_events")
		if i := strings.Index(a, "RETURNING"); i >= 0 && strings.Count(a[i:strings.Index(a, " :: ")], ",") >= 1 {
			c.Inc("events_with_merged_returning")
		}
		if strings.Contains(a, "ORDER BY") && strings.Count(a, " desc")+strings.Count(a, " DESC") >= 1 {
			c.Inc("events_with_order")
		}
		if a != b {
			c.Inc("nondeterministic_paths_dropped")
			continue
		}
		if ev.got != a {
			c.Violation("replay-differs", map[string]interface{}{"path": desc, "in_history": ev.got, "alone": a,
				"note": "the same call path from Open produced a different statement inside the history than when built alone on a fresh handle"})
			continue
		}
		if len(ev.path) >= 2 {
			kinds := make([]string, len(ev.path))
			for i, p := range ev.path {
				kinds[i] = p.kind
				if p.kind == "group" {
					kinds[i] = fmt.Sprintf("group%d", len(p.sub))
				}
				if p.kind == "step" {
					kinds[i] = genStep(p.seed, root).desc
					if j := strings.IndexAny(kinds[i], "( "); j > 0 {
						kinds[i] = kinds[i][:j]
					}
				}
			}
			fin, _ := genFinisher(ev.finSeed)
			c.Shape(strings.Join(kinds, "."), fin)
			c.Inc("nontrivial_events")
			if c.WantSample() && len(ev.path) >= 4 {
				c.Sample(map[string]interface{}{"path": desc, "statement": a, "history_ops": nops, "handles": len(nodes)})
			}
		}
	}
	// oracle 2: caller-owned slices unchanged
	for _, s := range kept {
		if s == nil || s.keep == nil {
			continue
		}
		c.Inc("caller_slices_checked")
		if !reflect.DeepEqual(s.keep, s.keepCopy) {
			c.Violation("caller-slice-modified", map[string]interface{}{"call": s.desc, "now": fmt.Sprint(s.keep), "was": fmt.Sprint(s.keepCopy)})
		}
	}
}

var EngineC06 = &core.Engine{
	ID:    "C06",
	Level: "exploration",
	Rule: "histories of 10..28 operations over a growing tree of reusable handles (Open; Session, Session{NewDB}, WithContext, Debug, Begin, Session{SkipHooks}, Session{NewDB} combined with SkipHooks / Context / PrepareStmt, Session{Context}, WithContext with the context already carried, with 0..3 chain methods in front): start a chain from any handle, extend any chain, execute a DryRun finisher (14 kinds, among them Count without Model() in front and writes of a model whose hooks change the bound values; the statement's context marker and SkipHooks flag are part of the compared outcome) on a chain or directly on a handle, abandon chains, pass a reusable handle (repeatedly the same one) as grouped condition to Where/Or at the start or in the middle of a chain; chain methods from 28 forms (two of them calls gorm rejects: the error must stay in that chain; Where/Or/Not in 4 renderings, Select list/varargs, Omit, Order, Limit, Offset, Group, Having, Joins, Distinct, Unscoped, Scopes, Clauses(Returning/OrderBy/Locking/OnConflict/Where), Table, Model) with slice arguments that have spare capacity; " +
		"every finisher event's path is replayed alone (twice) on a fresh Open and compared; distinct = (method-name path, finisher); non-trivial = path of at least 2 calls",
	Assumptions: []string{
		"results of chain methods (non-reusable handles) are only ever continued as that same chain, never forked, as gorm documents",
		"SQL and bound values under DryRun are the observable (C19 ties them to what a real run sends)",
		"a path whose two isolated replays differ from each other is dropped and counted",
		"Model(&T{}) is only used inside chains, not in front of Session/Begin: the model object is caller-owned and update finishers write the updated values (incl. the key) back into it by design",
	},
	Cases: func(tier string) int {
		if tier == "thorough" {
			return 120000
		}
		return 8000
	},
	Batch:         func(string) int { return 128 },
	Run:           run06,
	MinNontrivial: 200,
}

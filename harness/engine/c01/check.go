package c01

import (
	"database/sql/driver"
	"fmt"
	"reflect"
	"regexp"
	"strconv"
	"strings"
)

type tok struct {
	kind string // ident | ph | num | str | punct | comment
	text string
	n    int // placeholder number for $n, 0 for ?
}

// tokenize is a tolerant SQL tokenizer: quoted identifiers, string literals,
// numeric literals, comments, placeholders, punctuation.
func tokenize(sql string) []tok {
	var out []tok
	i := 0
	isIdent := func(c byte) bool {
		return c == '_' || (c >= 'a' && c <= 'z') || (c >= 'A' && c <= 'Z') || (c >= '0' && c <= '9') || c >= 0x80
	}
	for i < len(sql) {
		c := sql[i]
		switch {
		case c == ' ' || c == '\t' || c == '\n' || c == '\r':
			i++
		case c == '`' || c == '"':
			j := i + 1
			for j < len(sql) {
				if sql[j] == c {
					if j+1 < len(sql) && sql[j+1] == c {
						j += 2
						continue
					}
					break
				}
				j++
			}
			out = append(out, tok{kind: "ident", text: sql[i+1 : min(j, len(sql))]})
			i = j + 1
		case c == '\'':
			j := i + 1
			for j < len(sql) {
				if sql[j] == '\'' {
					if j+1 < len(sql) && sql[j+1] == '\'' {
						j += 2
						continue
					}
					break
				}
				j++
			}
			out = append(out, tok{kind: "str", text: sql[i:min(j+1, len(sql))]})
			i = j + 1
		case c == '-' && i+1 < len(sql) && sql[i+1] == '-':
			out = append(out, tok{kind: "comment", text: sql[i:]})
			i = len(sql)
		case c == '/' && i+1 < len(sql) && sql[i+1] == '*':
			out = append(out, tok{kind: "comment", text: sql[i:]})
			i = len(sql)
		case c == '?':
			out = append(out, tok{kind: "ph", text: "?"})
			i++
		case c == '$' && i+1 < len(sql) && sql[i+1] >= '0' && sql[i+1] <= '9':
			j := i + 1
			for j < len(sql) && sql[j] >= '0' && sql[j] <= '9' {
				j++
			}
			n, _ := strconv.Atoi(sql[i+1 : j])
			out = append(out, tok{kind: "ph", text: sql[i:j], n: n})
			i = j
		case c >= '0' && c <= '9':
			j := i
			for j < len(sql) && (sql[j] >= '0' && sql[j] <= '9' || sql[j] == '.') {
				j++
			}
			out = append(out, tok{kind: "num", text: sql[i:j]})
			i = j
		case isIdent(c):
			j := i
			for j < len(sql) && isIdent(sql[j]) {
				j++
			}
			out = append(out, tok{kind: "ident", text: sql[i:j]})
			i = j
		default:
			out = append(out, tok{kind: "punct", text: string(c)})
			i++
		}
	}
	return out
}

var colRe = regexp.MustCompile(`^(k\d+b?|c[1-9]|id)$`)

// contextCols returns, for every placeholder token in order, the tag column found
// in its syntactic context ("" when none).
func contextCols(toks []tok) []string {
	var out []string
	// INSERT ... (cols) VALUES (..),(..): positional
	insCols, valStart, valEnd := insertLayout(toks)
	tuplePos := map[int]int{} // token index of placeholder -> element position in its tuple
	if insCols != nil {
		depth, pos := 0, 0
		for i := valStart; i < valEnd; i++ {
			t := toks[i]
			if t.kind == "punct" && t.text == "(" {
				depth++
				if depth == 1 {
					pos = 0
				}
			} else if t.kind == "punct" && t.text == ")" {
				depth--
			} else if t.kind == "punct" && t.text == "," && depth == 1 {
				pos++
			} else if t.kind == "ph" && depth >= 1 {
				tuplePos[i] = pos
			}
		}
	}
	for i, t := range toks {
		if t.kind != "ph" {
			continue
		}
		if p, ok := tuplePos[i]; ok {
			if p < len(insCols) {
				out = append(out, insCols[p])
			} else {
				out = append(out, "?tuple-too-long")
			}
			continue
		}
		col := ""
		for j := i - 1; j >= 0; j-- {
			if toks[j].kind == "ident" && colRe.MatchString(toks[j].text) {
				col = toks[j].text
				break
			}
		}
		out = append(out, col)
	}
	return out
}

// insertLayout finds the column list and the VALUES region of an INSERT.
func insertLayout(toks []tok) (cols []string, valStart, valEnd int) {
	if len(toks) < 3 || !strings.EqualFold(toks[0].text, "INSERT") {
		return nil, 0, 0
	}
	i := 0
	for i < len(toks) && !(toks[i].kind == "punct" && toks[i].text == "(") {
		if strings.EqualFold(toks[i].text, "VALUES") || strings.EqualFold(toks[i].text, "DEFAULT") {
			return nil, 0, 0
		}
		i++
	}
	i++
	for i < len(toks) && !(toks[i].kind == "punct" && toks[i].text == ")") {
		if toks[i].kind == "ident" {
			cols = append(cols, toks[i].text)
		}
		i++
	}
	for i < len(toks) && !strings.EqualFold(toks[i].text, "VALUES") {
		i++
	}
	valStart = i + 1
	valEnd = valStart
	depth := 0
	for j := valStart; j < len(toks); j++ {
		t := toks[j]
		if t.kind == "punct" && t.text == "(" {
			depth++
		} else if t.kind == "punct" && t.text == ")" {
			depth--
		} else if depth == 0 && t.kind == "ident" {
			valEnd = j
			return
		}
		valEnd = j + 1
	}
	return
}

// checkStatement applies the oracle to one (SQL, Vars) pair.
func (g *gen) checkStatement(sqlText string, vars []interface{}, numbered bool, requireAll bool) (problems []string) {
	add := func(f string, a ...interface{}) { problems = append(problems, fmt.Sprintf(f, a...)) }
	// (1) no part of an argument value in the text
	if strings.Contains(sqlText, "⟦") {
		add("a marker value appears in the SQL text")
	}
	toks := tokenize(sqlText)
	var phs []tok
	for _, t := range toks {
		switch t.kind {
		case "str":
			add("string literal %s in the SQL text (templates contain none)", t.text)
		case "num":
			add("numeric literal %s in the SQL text (templates contain none)", t.text)
		case "comment":
			add("comment token in the SQL text: %.40q", t.text)
		case "ph":
			phs = append(phs, t)
		}
	}
	for _, t := range toks {
		if t.kind == "ident" && strings.HasPrefix(t.text, "@") {
			add("unbound named argument %s", t.text)
		}
		if t.kind == "punct" && t.text == "@" {
			add("unbound '@' in the SQL text")
		}
	}
	// (2) one placeholder per bound value
	if len(phs) != len(vars) {
		add("%d placeholders but %d bound values", len(phs), len(vars))
		return
	}
	if numbered {
		for i, t := range phs {
			if t.n != i+1 {
				add("placeholder #%d is %s, want $%d (left-to-right numbering)", i+1, t.text, i+1)
				break
			}
		}
	} else {
		for _, t := range phs {
			if t.text != "?" {
				add("placeholder %s under the positional dialect", t.text)
			}
		}
	}
	// slices expand to one placeholder per element: no bound value may itself be a slice
	// (byte slices are the one value kind that is bound whole)
	for i, v := range vars {
		rv := reflect.ValueOf(v)
		if rv.IsValid() && (rv.Kind() == reflect.Slice || rv.Kind() == reflect.Array) && rv.Type().Elem() != reflect.TypeOf(uint8(0)) {
			if _, isValuer := v.(driver.Valuer); !isValuer {
				add("bound value #%d is a whole %T: the slice was not expanded to one placeholder per element", i+1, v)
			}
		}
	}
	// (3) the i-th placeholder sits next to the column its value was generated for
	cols := contextCols(toks)
	seen := map[int]int{}
	for i, v := range vars {
		s := serialOf(v)
		if s < 0 {
			continue
		}
		l, ok := g.leaves[s]
		if !ok {
			add("bound value #%d carries serial %d that was never generated in this chain", i+1, s)
			continue
		}
		seen[s]++
		if l.col != "" && cols[i] != l.col {
			add("bound value #%d (serial %d, generated for column %s) is bound to the placeholder next to column %q", i+1, s, l.col, cols[i])
		}
	}
	// (4) nothing dropped or duplicated
	for s, n := range seen {
		if n > g.maxocc[s] {
			add("value with serial %d is bound %d times, handed in %d times", s, n, g.maxocc[s])
		}
	}
	if requireAll {
		for s, n := range g.expect {
			if seen[s] < n {
				add("value with serial %d (column %s) handed in %d times but bound %d times", s, g.leaves[s].col, n, seen[s])
			}
		}
	}
	return
}

func min(a, b int) int {
	if a < b {
		return a
	}
	return b
}

package c01

// C19, statements that depend on the handle's context.
//
// The handle an operation runs from may carry a context with values (db.WithContext(ctx), Session{Context: ctx}),
// and the statement may depend on it: hooks that read tx.Statement.Context, scopes that read it, a gorm.Valuer
// (GormValue(ctx, db)) used as condition value, as assigned value or as a field's type, a serializer that uses its
// ctx argument. Every way of running dry has to render the statement under the context of the handle it was
// called on, as the real run does.

import (
	"context"
	"database/sql"
	"database/sql/driver"
	"fmt"
	"reflect"

	"gorm.io/gorm"
	"gorm.io/gorm/clause"
	"gorm.io/gorm/schema"

	"verif/core"
)

type ctxKey19 struct{}

func tenantOf(ctx context.Context) string {
	if ctx == nil {
		return "<nil context>"
	}
	v, ok := ctx.Value(ctxKey19{}).(string)
	if !ok {
		return "<no tenant>"
	}
	return v
}

// CtxMark is a field type whose bound value is made by GormValue from the statement's context.
type CtxMark struct{ S string }

func (m CtxMark) Value() (driver.Value, error) { return m.S, nil }
func (m *CtxMark) Scan(v interface{}) error {
	switch x := v.(type) {
	case string:
		m.S = x
	case []byte:
		m.S = string(x)
	case nil:
		m.S = ""
	default:
		return fmt.Errorf("CtxMark: cannot scan %T", v)
	}
	return nil
}
func (CtxMark) GormDataType() string { return "string" }
func (m CtxMark) GormValue(ctx context.Context, db *gorm.DB) clause.Expr {
	return clause.Expr{SQL: "?", Vars: []interface{}{m.S + "@" + tenantOf(ctx)}}
}

// tenantArg is a condition / assignment value resolved from the statement's context.
type tenantArg struct{}

func (tenantArg) GormValue(ctx context.Context, db *gorm.DB) clause.Expr {
	return clause.Expr{SQL: "?", Vars: []interface{}{tenantOf(ctx)}}
}

// ctxSerializer19 stores a string field with the tenant of the context appended.
type ctxSerializer19 struct{}

func (ctxSerializer19) Scan(ctx context.Context, field *schema.Field, dst reflect.Value, dbValue interface{}) error {
	var s string
	switch x := dbValue.(type) {
	case string:
		s = x
	case []byte:
		s = string(x)
	}
	field.ReflectValueOf(ctx, dst).SetString(s)
	return nil
}

func (ctxSerializer19) Value(ctx context.Context, field *schema.Field, dst reflect.Value, fieldValue interface{}) (interface{}, error) {
	s, _ := fieldValue.(string)
	return s + "/" + tenantOf(ctx), nil
}

// CTag is a multi-tenant model: the tenant of every statement comes from the context of the handle.
type CTag struct {
	ID     int64 `gorm:"primaryKey"`
	Tenant string
	C1     string
	C2     int64
	Mark   CtxMark
	Memo   string `gorm:"serializer:ctx19"`
}

func (t *CTag) BeforeCreate(tx *gorm.DB) error {
	t.Tenant = tenantOf(tx.Statement.Context)
	return nil
}

func (t *CTag) BeforeUpdate(tx *gorm.DB) error {
	tx.Statement.SetColumn("Tenant", tenantOf(tx.Statement.Context))
	return nil
}

func (t *CTag) BeforeDelete(tx *gorm.DB) error {
	tx.Statement.AddClause(clause.Where{Exprs: []clause.Expression{clause.Eq{Column: clause.Column{Name: "tenant"}, Value: tenantOf(tx.Statement.Context)}}})
	return nil
}

func tenantScope19(d *gorm.DB) *gorm.DB {
	return d.Where("tenant = ?", tenantOf(d.Statement.Context))
}

func init() {
	schema.RegisterSerializer("ctx19", ctxSerializer19{})
}

// mode19: how the handles of one comparison are derived from the root handles (the same derivation for the dry runs
// and the real run).
type mode19 struct {
	ctx  context.Context // nil: the handles carry no context of their own
	how  int             // 1: db.WithContext(ctx)   2: db.Session(&Session{Context: ctx})
	prep bool            // db.Session(&Session{PrepareStmt: true})
	tx   bool            // the handles are transactions: h.Begin(), rolled back after the real run
	desc string
	// descNoCtx: desc without the context step
	descNoCtx string
}

func (m mode19) derive(db *gorm.DB) *gorm.DB {
	if m.prep {
		db = db.Session(&gorm.Session{PrepareStmt: true})
	}
	if m.ctx != nil {
		if m.how == 2 {
			db = db.Session(&gorm.Session{Context: m.ctx})
		} else {
			db = db.WithContext(m.ctx)
		}
	}
	return db
}

var tenants19 = []string{"acme", "globex", "initech", "t'1", ""}

func newCtx19(tenant string) context.Context {
	return context.WithValue(context.Background(), ctxKey19{}, tenant)
}

// drawMode: pctx of 8 comparisons run from handles that carry a context with a value.
func drawMode(r *core.Rand, pctx int) mode19 {
	var m mode19
	m.desc = "h"
	if r.Chance(1, 8) {
		m.tx = true
		m.desc = "h.Begin()"
	}
	if r.Chance(1, 8) {
		m.prep = true
		m.desc += ".Session(&Session{PrepareStmt: true})"
	}
	m.descNoCtx = m.desc
	if r.Chance(pctx, 8) {
		t := core.Pick(r, tenants19)
		m.ctx = newCtx19(t)
		m.how = r.Range(1, 2)
		if m.how == 2 {
			m.desc += fmt.Sprintf(".Session(&Session{Context: WithValue(Background(), tenant, %q)})", t)
		} else {
			m.desc += fmt.Sprintf(".WithContext(WithValue(Background(), tenant, %q))", t)
		}
	}
	return m
}

var ctxFins19 = []string{"CreateHook", "CreateSliceHook", "CreateMapValuer", "SaveHook", "UpdateHook", "UpdatesHook", "UpdateColumnValuer", "UpdateWhereValuer",
	"DeleteHook", "DeleteScope", "FindValuer", "FindScope", "FirstValuer", "CountScope", "RawValuer", "ExecValuer", "RowValuer", "UpsertHook"}

// ctxOp19: one operation on CTag whose statement depends on the context of the handle it is given. inOp: the
// operation itself derives the context handle (db.WithContext(ctx) is its first step) instead of receiving it.
func ctxOp19(fin string, seed uint64, inOp context.Context, inOpDesc string) op19 {
	return func(db *gorm.DB) (outcome, string) {
		g := newGen(core.NewRand(seed))
		v := g.newLeaf("c1", "string").val.(string)
		n := int64(g.r.Range(1, 50))
		pre := "db"
		if inOp != nil {
			db = db.WithContext(inOp)
			pre = "db" + inOpDesc
		}
		var res *gorm.DB
		var d string
		switch fin {
		case "CreateHook":
			res = db.Create(&CTag{C1: v, C2: n, Mark: CtxMark{"m"}, Memo: "memo"})
			d = "Create(&CTag{C1, C2, Mark, Memo})"
		case "CreateSliceHook":
			res = db.Create(&[]CTag{{C1: v, C2: n, Mark: CtxMark{"m1"}}, {C1: v + "2", Memo: "memo2"}})
			d = "Create(&[]CTag{{..}, {..}})"
		case "CreateMapValuer":
			res = db.Model(&CTag{}).Create(map[string]interface{}{"tenant": tenantArg{}, "c1": v, "c2": n})
			d = "Model(&CTag{}).Create(map{tenant: tenantArg{}, c1, c2})"
		case "UpsertHook":
			res = db.Clauses(clause.OnConflict{UpdateAll: true}).Create(&CTag{ID: 2, C1: v, Mark: CtxMark{"u"}, Memo: "um"})
			d = "Clauses(OnConflict{UpdateAll}).Create(&CTag{ID: 2, ..})"
		case "SaveHook":
			res = db.Save(&CTag{ID: 1, C1: v, C2: n, Mark: CtxMark{"s"}, Memo: "saved"})
			d = "Save(&CTag{ID: 1, ..})"
		case "UpdateHook":
			res = db.Model(&CTag{ID: 1}).Update("c1", v)
			d = "Model(&CTag{ID: 1}).Update(c1, ?)"
		case "UpdatesHook":
			res = db.Model(&CTag{ID: 1}).Updates(CTag{C1: v, Mark: CtxMark{"up"}, Memo: "upm"})
			d = "Model(&CTag{ID: 1}).Updates(CTag{C1, Mark, Memo})"
		case "UpdateColumnValuer":
			res = db.Model(&CTag{}).Where("id = ?", 2).UpdateColumn("tenant", tenantArg{})
			d = "Model(&CTag{}).Where(id = 2).UpdateColumn(tenant, tenantArg{})"
		case "UpdateWhereValuer":
			res = db.Model(&CTag{}).Where("tenant = ?", tenantArg{}).Update("c2", n)
			d = "Model(&CTag{}).Where(tenant = ?, tenantArg{}).Update(c2, ?)"
		case "DeleteHook":
			res = db.Delete(&CTag{ID: 2})
			d = "Delete(&CTag{ID: 2})"
		case "DeleteScope":
			res = db.Scopes(tenantScope19).Where("c2 < ?", n).Delete(&CTag{})
			d = "Scopes(tenantScope).Where(c2 < ?).Delete(&CTag{})"
		case "FindValuer":
			res = db.Where("tenant = ? AND c1 <> ?", tenantArg{}, v).Find(&[]CTag{})
			d = "Where(tenant = ? AND c1 <> ?, tenantArg{}, ?).Find(&[]CTag{})"
		case "FindScope":
			res = db.Scopes(tenantScope19).Where("c1 <> ?", v).Find(&[]CTag{})
			d = "Scopes(tenantScope).Where(c1 <> ?).Find(&[]CTag{})"
		case "FirstValuer":
			res = db.Where(map[string]interface{}{"tenant": tenantArg{}}).First(&CTag{})
			d = "Where(map{tenant: tenantArg{}}).First(&CTag{})"
		case "CountScope":
			var cnt int64
			res = db.Model(&CTag{}).Scopes(tenantScope19).Count(&cnt)
			d = "Model(&CTag{}).Scopes(tenantScope).Count"
		case "RawValuer":
			res = db.Raw("SELECT c1 FROM c_tags WHERE tenant = ? AND c2 < ?", tenantArg{}, n).Scan(&[]CTag{})
			d = "Raw(SELECT c1 FROM c_tags WHERE tenant = ? AND c2 < ?, tenantArg{}, ?).Scan"
		case "ExecValuer":
			res = db.Exec("UPDATE c_tags SET c1 = @v WHERE tenant = @t", sql.Named("v", v), sql.Named("t", tenantArg{}))
			d = "Exec(UPDATE c_tags SET c1 = @v WHERE tenant = @t, Named(v, ?), Named(t, tenantArg{}))"
		case "RowValuer":
			tx := db.Model(&CTag{}).Select("c1").Where("tenant = ?", tenantArg{})
			row := tx.Row()
			if !tx.DryRun && row != nil {
				var x interface{}
				row.Scan(&x)
			}
			return outcome{sql: tx.Statement.SQL.String(), vars: tx.Statement.Vars, err: tx.Error, res: tx}, "CTag: " + pre + ".Model(&CTag{}).Select(c1).Where(tenant = ?, tenantArg{}).Row()"
		default:
			panic("ctxOp19: " + fin)
		}
		return outcome{sql: res.Statement.SQL.String(), vars: res.Statement.Vars, err: res.Error, res: res}, "CTag: " + pre + "." + d
	}
}

package c01

import (
	"fmt"
	"strings"

	"gorm.io/gorm"
	"gorm.io/gorm/clause"

	"verif/core"
	"verif/vdb"
)

// Re-execution for real (not DryRun, where a statement keeps its text by design): a chain value is executed, executed
// again, a handle is derived from the executed chain and executed, and the pagination idiom (Count, then Find on the
// same value) is run. Executing a chain must leave nothing behind that alters the chains derived from it later: the
// statement the driver receives is the same every time.

var h06r *vdb.Handle

func real06() *vdb.Handle {
	if h06r == nil {
		h, err := vdb.Open(vdb.Options{})
		if err != nil {
			panic(err)
		}
		if err := h.DB.AutoMigrate(&Tag{}, &Other{}); err != nil {
			panic(err)
		}
		if _, err := h.SQL.Exec(`INSERT INTO tags(id,c1,c2,c3,c8) VALUES (3,'x',1,1.5,0),(7,'y',2,2.5,1),(9,'z',3,3.5,0); INSERT INTO others(tag_id,c1,c2) VALUES (3,'o',1),(7,'p',2); CREATE TABLE aux06(tid integer, lvl integer); INSERT INTO aux06(tid,lvl) VALUES (3,1),(7,2),(9,0)`); err != nil {
			panic(err)
		}
		h06r = h
	}
	return h06r
}

func reexec06(c *core.Ctx) {
	h := real06()
	r := c.R
	root := h.DB.Session(&gorm.Session{})
	newRawSub06(root)
	var seeds []uint64
	handJoin := r.Intn(3) == 0
	// association joins, one of them along a nested path (two joins for one Joins call)
	assocJoin := []string{"", "", "Parent", "Parent.Parent"}[r.Intn(4)]
	for n := r.Range(0, 4); n > 0; n-- {
		s := (r.U64() &^ 31) | uint64(r.Intn(28))
		if s%32 == 25 {
			s-- // Model(&T{}): a caller-owned object finishers write back to
		}
		seeds = append(seeds, s)
	}
	var descs []string
	build := func() *gorm.DB {
		db := root.Model(&Tag{})
		descs = descs[:0]
		if handJoin {
			from := clause.From{Joins: []clause.Join{{Type: clause.InnerJoin, Table: clause.Table{Name: "aux06", Alias: "o1"},
				ON: clause.Where{Exprs: []clause.Expression{clause.Expr{SQL: "o1.tid = tags.id AND o1.lvl >= ?", Vars: []interface{}{1}}}}}}}
			db = db.Clauses(from).Joins("LEFT JOIN aux06 o2 ON o2.tid = tags.id")
			descs = append(descs, "Clauses(From{INNER JOIN aux06 o1 ON o1.tid = tags.id AND o1.lvl >= 1})", `Joins("LEFT JOIN aux06 o2 ON o2.tid = tags.id")`)
		}
		if assocJoin != "" {
			db = db.Joins(assocJoin)
			descs = append(descs, fmt.Sprintf("Joins(%q)", assocJoin))
		}
		for _, s := range seeds {
			var d string
			db, d, _ = applyPel(pel{kind: "step", seed: s}, db, root)
			descs = append(descs, d)
		}
		return db
	}
	var lastErr error
	exec := func(x *gorm.DB) string {
		mark := h.Rec.Mark()
		var out []Tag
		res := x.Find(&out)
		lastErr = res.Error
		evs := stmtEvents(h.Rec.Since(mark))
		s := "(no statement)"
		if len(evs) > 0 {
			args := make([]string, len(evs[0].Args))
			for i, a := range evs[0].Args {
				args[i] = fmt.Sprintf("%v", a.Value)
			}
			s = evs[0].Query + " :: [" + strings.Join(args, ", ") + "]"
		}
		if res.Error != nil && len(evs) == 0 {
			s += " ERR=" + res.Error.Error()
		}
		return s
	}
	tx := build()
	t1 := exec(tx)
	if lastErr != nil {
		// a chain whose first execution fails keeps its error (by design): nothing to compare
		c.Inc("chains_whose_first_execution_failed")
		return
	}
	desc := "db.Model(&Tag{})." + strings.Join(descs, ".")
	var problems []string
	if t2 := exec(tx); t2 != t1 {
		problems = append(problems, fmt.Sprintf("Find a second time on the chain value:\n   first : %s\n   second: %s", t1, t2))
	}
	if t3 := exec(tx.Session(&gorm.Session{})); t3 != t1 {
		problems = append(problems, fmt.Sprintf("Find through a Session derived from the executed chain:\n   chain : %s\n   handle: %s", t1, t3))
	}
	tx2 := build()
	var n int64
	if res := tx2.Count(&n); res.Error == nil {
		if t4 := exec(tx2); t4 != t1 {
			problems = append(problems, fmt.Sprintf("Find after Count on the chain value:\n   Find alone      : %s\n   Find after Count: %s", t1, t4))
		}
	}
	c.Inc("chains_reexecuted_for_real")
	if len(problems) > 0 {
		c.Violation("reexecution-differs", map[string]interface{}{"chain": desc + ".Find", "problems": problems})
	} else if !strings.HasPrefix(t1, "(no statement)") {
		c.Shape("reexec", handJoin, assocJoin, len(seeds), shapeOfSQL(strings.SplitN(t1, " :: ", 2)[0]))
	}
}

// Bad06 is a destination gorm cannot parse (a nested plain struct is taken for a relation without foreign key).
type Bad06 struct {
	ID   uint
	Note struct{ Text string }
}

var failing06 = []string{"Not(nil pointer to a slice)", "Where(nil pointer to a slice)", "Or(nil pointer to a slice)", "ScanRows(bad)", "Find(bad)", "First(bad)", "Create(bad)", "Save(bad)", "Delete(bad)", "Model(bad).Count", "Model(bad).Update", "Raw.Scan(bad)",
	"Table(missing).Find", "Where(missing column).Find", "Exec(broken SQL)", "Raw(broken SQL).Rows", "Transaction(fails)", "Association(missing)", "AutoMigrate(bad)", "Select(123).Find", "Create(nil map)", "Row(broken)", "Pluck(missing)"}

// failed06: an operation that fails (or is refused) when started directly from a reusable handle leaves its error with
// its own chain: the handle is as usable as before, and the statement a later chain from it sends is unchanged.
func failed06(c *core.Ctx) {
	h := real06()
	r := c.R
	kind := core.Pick(r, []string{"session", "ctx", "debug", "begin", "skiphooks", "session+ctx", "ctxsame", "session.session"})
	var hd *gorm.DB
	if kind == "session.session" {
		hd = h.DB.Session(&gorm.Session{}).Session(&gorm.Session{})
	} else {
		hd, _, _ = applyPel(pel{kind: kind}, h.DB, h.DB)
	}
	if kind == "begin" {
		defer hd.Rollback()
	}
	find := func() string {
		mark := h.Rec.Mark()
		var out []Tag
		res := hd.Where("c2 >= ?", 2).Find(&out)
		evs := stmtEvents(h.Rec.Since(mark))
		s := "(no statement)"
		if len(evs) > 0 {
			s = fmt.Sprintf("%s :: %d args -> %d rows", evs[0].Query, len(evs[0].Args), len(out))
		}
		if res.Error != nil {
			s += " ERR=" + res.Error.Error()
		}
		return s
	}
	before := find()
	var done []string
	for n := r.Range(1, 3); n > 0; n-- {
		op := core.Pick(r, failing06)
		done = append(done, op)
		var err error
		var nilIDs *[]uint
		switch op {
		case "Not(nil pointer to a slice)":
			err = hd.Not(nilIDs).Find(&[]Tag{}).Error
		case "Where(nil pointer to a slice)":
			err = hd.Where(nilIDs).Find(&[]Tag{}).Error
		case "Or(nil pointer to a slice)":
			err = hd.Where("c2 > ?", 0).Or(nilIDs).Find(&[]Tag{}).Error
		case "ScanRows(bad)":
			rows, e := hd.Model(&Tag{}).Rows()
			if e != nil {
				panic(e)
			}
			for rows.Next() {
				var b Bad06
				err = hd.ScanRows(rows, &b)
			}
			rows.Close()
			err = fmt.Errorf("(whatever ScanRows said: %v)", err)
		case "Find(bad)":
			err = hd.Find(&[]Bad06{}).Error
		case "First(bad)":
			err = hd.First(&Bad06{}).Error
		case "Create(bad)":
			err = hd.Create(&Bad06{}).Error
		case "Save(bad)":
			err = hd.Save(&Bad06{ID: 1}).Error
		case "Delete(bad)":
			err = hd.Delete(&Bad06{ID: 1}).Error
		case "Model(bad).Count":
			var n int64
			err = hd.Model(&Bad06{}).Count(&n).Error
		case "Model(bad).Update":
			err = hd.Model(&Bad06{ID: 1}).Update("id", 2).Error
		case "Raw.Scan(bad)":
			err = hd.Raw("SELECT 1 AS id").Scan(&Bad06{}).Error
			if err == nil {
				err = fmt.Errorf("(accepted)")
			}
		case "Table(missing).Find":
			err = hd.Table("no_such_table").Find(&[]Tag{}).Error
		case "Where(missing column).Find":
			err = hd.Where("no_such_column = ?", 1).Find(&[]Tag{}).Error
		case "Exec(broken SQL)":
			err = hd.Exec("UPDATE no_such_table SET x = ?", 1).Error
		case "Raw(broken SQL).Rows":
			_, err = hd.Raw("SELECT FROM WHERE").Rows()
		case "Transaction(fails)":
			err = hd.Transaction(func(tx *gorm.DB) error {
				tx.Create(&Bad06{})
				return fmt.Errorf("given up")
			})
		case "Association(missing)":
			err = hd.Model(&Tag{ID: 3}).Association("NoSuchRelation").Error
		case "AutoMigrate(bad)":
			err = hd.AutoMigrate(&Bad06{})
		case "Select(123).Find":
			err = hd.Select(123).Find(&[]Tag{}).Error
		case "Create(nil map)":
			err = hd.Table("no_such_table").Create(map[string]interface{}{"a": 1}).Error
		case "Row(broken)":
			err = hd.Raw("SELECT FROM WHERE").Row().Err()
		case "Pluck(missing)":
			var xs []string
			err = hd.Model(&Tag{}).Pluck("no_such_column", &xs).Error
		}
		if err == nil {
			panic("the operation " + op + " was expected to fail")
		}
	}
	c.Inc("handles_after_failed_operations")
	var problems []string
	if hd.Error != nil {
		problems = append(problems, "the handle now carries the error: "+hd.Error.Error())
	}
	if after := find(); after != before {
		problems = append(problems, fmt.Sprintf("Where(c2 >= 2).Find from the handle:\n   before: %s\n   after : %s", before, after))
	}
	if len(problems) > 0 {
		c.Violation("handle-altered-by-failed-operation", map[string]interface{}{"handle": "db." + kind, "operations_that_failed": done, "problems": problems})
	} else {
		c.Shape("failed-op", kind, strings.Join(done, "+"))
	}
}

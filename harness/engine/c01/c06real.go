package c01

import (
	"fmt"
	"strings"

	"gorm.io/gorm"
	"gorm.io/gorm/clause"

	"verif/core"
	"verif/vdb"
)

// Re-execution for real (not DryRun, where a statement keeps its text by design): a chain value is executed, executed
// again, a handle is derived from the executed chain and executed, and the pagination idiom (Count, then Find on the
// same value) is run. Executing a chain must leave nothing behind that alters the chains derived from it later: the
// statement the driver receives is the same every time.

var h06r *vdb.Handle

func real06() *vdb.Handle {
	if h06r == nil {
		h, err := vdb.Open(vdb.Options{})
		if err != nil {
			panic(err)
		}
		if err := h.DB.AutoMigrate(&Tag{}, &Other{}); err != nil {
			panic(err)
		}
		if _, err := h.SQL.Exec(`INSERT INTO tags(id,c1,c2,c3,c8) VALUES (3,'x',1,1.5,0),(7,'y',2,2.5,1),(9,'z',3,3.5,0); INSERT INTO others(tag_id,c1,c2) VALUES (3,'o',1),(7,'p',2); CREATE TABLE aux06(tid integer, lvl integer); INSERT INTO aux06(tid,lvl) VALUES (3,1),(7,2),(9,0)`); err != nil {
			panic(err)
		}
		h06r = h
	}
	return h06r
}

func reexec06(c *core.Ctx) {
	h := real06()
	r := c.R
	root := h.DB.Session(&gorm.Session{})
	var seeds []uint64
	handJoin := r.Intn(3) == 0
	// association joins, one of them along a nested path (two joins for one Joins call)
	assocJoin := []string{"", "", "Parent", "Parent.Parent"}[r.Intn(4)]
	for n := r.Range(0, 4); n > 0; n-- {
		s := (r.U64() &^ 31) | uint64(r.Intn(28))
		if s%32 == 25 {
			s-- // Model(&T{}): a caller-owned object finishers write back to
		}
		seeds = append(seeds, s)
	}
	var descs []string
	build := func() *gorm.DB {
		db := root.Model(&Tag{})
		descs = descs[:0]
		if handJoin {
			from := clause.From{Joins: []clause.Join{{Type: clause.InnerJoin, Table: clause.Table{Name: "aux06", Alias: "o1"},
				ON: clause.Where{Exprs: []clause.Expression{clause.Expr{SQL: "o1.tid = tags.id AND o1.lvl >= ?", Vars: []interface{}{1}}}}}}}
			db = db.Clauses(from).Joins("LEFT JOIN aux06 o2 ON o2.tid = tags.id")
			descs = append(descs, "Clauses(From{INNER JOIN aux06 o1 ON o1.tid = tags.id AND o1.lvl >= 1})", `Joins("LEFT JOIN aux06 o2 ON o2.tid = tags.id")`)
		}
		if assocJoin != "" {
			db = db.Joins(assocJoin)
			descs = append(descs, fmt.Sprintf("Joins(%q)", assocJoin))
		}
		for _, s := range seeds {
			var d string
			db, d, _ = applyPel(pel{kind: "step", seed: s}, db, root)
			descs = append(descs, d)
		}
		return db
	}
	var lastErr error
	exec := func(x *gorm.DB) string {
		mark := h.Rec.Mark()
		var out []Tag
		res := x.Find(&out)
		lastErr = res.Error
		evs := stmtEvents(h.Rec.Since(mark))
		s := "(no statement)"
		if len(evs) > 0 {
			args := make([]string, len(evs[0].Args))
			for i, a := range evs[0].Args {
				args[i] = fmt.Sprintf("%v", a.Value)
			}
			s = evs[0].Query + " :: [" + strings.Join(args, ", ") + "]"
		}
		if res.Error != nil && len(evs) == 0 {
			s += " ERR=" + res.Error.Error()
		}
		return s
	}
	tx := build()
	t1 := exec(tx)
	if lastErr != nil {
		// a chain whose first execution fails keeps its error (by design): nothing to compare
		c.Inc("chains_whose_first_execution_failed")
		return
	}
	desc := "db.Model(&Tag{})." + strings.Join(descs, ".")
	var problems []string
	if t2 := exec(tx); t2 != t1 {
		problems = append(problems, fmt.Sprintf("Find a second time on the chain value:\n   first : %s\n   second: %s", t1, t2))
	}
	if t3 := exec(tx.Session(&gorm.Session{})); t3 != t1 {
		problems = append(problems, fmt.Sprintf("Find through a Session derived from the executed chain:\n   chain : %s\n   handle: %s", t1, t3))
	}
	tx2 := build()
	var n int64
	if res := tx2.Count(&n); res.Error == nil {
		if t4 := exec(tx2); t4 != t1 {
			problems = append(problems, fmt.Sprintf("Find after Count on the chain value:\n   Find alone      : %s\n   Find after Count: %s", t1, t4))
		}
	}
	c.Inc("chains_reexecuted_for_real")
	if len(problems) > 0 {
		c.Violation("reexecution-differs", map[string]interface{}{"chain": desc + ".Find", "problems": problems})
	} else if !strings.HasPrefix(t1, "(no statement)") {
		c.Shape("reexec", handJoin, assocJoin, len(seeds), shapeOfSQL(strings.SplitN(t1, " :: ", 2)[0]))
	}
}

package c14

import (
	"bytes"
	"context"
	"database/sql/driver"
	"fmt"
	"os"
	"runtime"
	"strconv"
	"strings"
	"sync"
	"time"

	"verif/core"
	"verif/recdrv"
)

type wkeyT struct{}

var wkey = wkeyT{}

// gate is one parked call.
type gate struct {
	worker  int
	kind    string // prepare | stmt-exec | stmt-query | prepare.miss | prepare.published | prepare.done
	query   string
	tx      bool
	release chan error
}

func (g *gate) String() string {
	t := ""
	if g.tx {
		t = "(tx)"
	}
	return fmt.Sprintf("w%d:%s%s:%s", g.worker, g.kind, t, label(g.query))
}

// injected errors
type errPrepare struct {
	n     int
	owner int
	// doneTick is the logical time at which the operation that owned the failing
	// preparation returned (0 = still running)
	doneTick int
}

func (e *errPrepare) Error() string { return fmt.Sprintf("verif: injected prepare failure #%d", e.n) }

type sched struct {
	mu       sync.Mutex
	r        *core.Rand
	parked   []*gate
	changed  chan struct{}
	total    int
	finished int
	trace    []string
	goids    map[int64]int // goroutine id -> worker

	// observations
	prepNonTx   map[string]int // gorm-level PrepareContext calls per text outside transactions
	prepTx      map[string]int
	prepFailed  map[string]int
	evicted     map[string]int
	closerStart int
	closerDone  int
	closers     map[interface{}]int
	tick        int
	resets      int
	closeIssued bool
	injected    []*errPrepare
	badconn     map[int]int // worker -> remaining forced ErrBadConn on statement execution
	badconnHit  map[int]bool

	// budgets
	failBudget    int
	badconnBudget int
	parkHooks     bool
	// badconnTxFirst: the ErrBadConn budget is spent on the first statement executed inside a transaction
	badconnTxFirst bool

	// holdBack: one prepared-statement execution that is in flight at the driver (the victim) is completed
	// last - the driver may finish calls in any order, and its completion may depend on the others
	// (a row lock held by them): nobody else's progress may depend on the victim's completion
	holdBack    bool
	holdTx      bool        // the victim is a statement executed inside a transaction (which holds its connection meanwhile)
	cancelTick  map[int]int // worker -> logical time at which the controller cancelled its context
	victim      *gate
	lastDump    []string
	rowErr      map[int]error // error of the worker's last Row() finisher
	ctlInFlight int           // controller actions (Reset / Close) that were started and have not returned yet
	ctlPanics   []string

	verbose    bool
	systematic bool       // beyond the forced prefix always take the first option (enumeration)
	lastCtl    *ctlAction // offered only when no other controller action is left

	// choice control (forced prefix for systematic enumeration)
	forced  []int
	choices [][2]int // (chosen, options) per step
	steps   int
}

func newSched(r *core.Rand, total int) *sched {
	return &sched{r: r, total: total, changed: make(chan struct{}, 1), goids: map[int64]int{},
		prepNonTx: map[string]int{}, prepTx: map[string]int{}, prepFailed: map[string]int{}, evicted: map[string]int{},
		badconn: map[int]int{}, badconnHit: map[int]bool{}, cancelTick: map[int]int{}}
}

func (s *sched) signal() {
	select {
	case s.changed <- struct{}{}:
	default:
	}
}

func goid() int64 {
	var buf [64]byte
	n := runtime.Stack(buf[:], false)
	f := bytes.Fields(buf[:n])
	if len(f) < 2 {
		return -1
	}
	id, _ := strconv.ParseInt(string(f[1]), 10, 64)
	return id
}

func (s *sched) register(worker int) {
	s.mu.Lock()
	s.goids[goid()] = worker
	s.mu.Unlock()
}

func (s *sched) workerOf(ctx context.Context) int {
	if ctx != nil {
		if w, ok := ctx.Value(wkey).(int); ok {
			return w
		}
	}
	return 0
}

// park blocks the calling worker until the scheduler releases the call; calls that do
// not belong to a worker (seeding, closers) pass through.
func (s *sched) park(ctx context.Context, kind, query string, tx bool) error {
	return s.parkW(s.workerOf(ctx), kind, query, tx)
}

func (s *sched) parkW(worker int, kind, query string, tx bool) error {
	if worker == 0 {
		return nil
	}
	g := &gate{worker: worker, kind: kind, query: query, tx: tx, release: make(chan error, 1)}
	s.mu.Lock()
	if kind == "prepare" {
		if tx {
			s.prepTx[query]++
		} else {
			s.prepNonTx[query]++
		}
	}
	s.parked = append(s.parked, g)
	s.mu.Unlock()
	s.signal()
	return <-g.release
}

// failed: a preparation issued for a worker failed at database/sql (e.g. the caller's context had ended): like an
// injected failure it must not be cached, the text may be prepared again in the same generation
func (s *sched) failed(ctx context.Context, query string, err error) {
	if err == nil || s.workerOf(ctx) == 0 {
		return
	}
	s.mu.Lock()
	s.prepFailed[query]++
	s.mu.Unlock()
}

func (s *sched) note(what, query string, err error) {
	s.mu.Lock()
	if err != nil {
		s.trace = append(s.trace, fmt.Sprintf("  %s %s -> %v", what, label(query), err))
	}
	s.mu.Unlock()
}

// hookPoint is installed through gorm's verifhook.
func (s *sched) hookPoint(point string, arg interface{}) {
	if s.verbose {
		fmt.Printf("   HOOK %s g%d %T %p\n", point, goid(), arg, arg)
	}
	switch point {
	case "closer.start":
		s.mu.Lock()
		if s.closers == nil {
			s.closers = map[interface{}]int{}
		}
		s.closers[arg]++ // the same statement may be closed by several Reset / Close calls (shared map)
		s.closerStart++
		s.mu.Unlock()
	case "closer.done":
		// closers of an earlier (aborted) schedule may finish late: count our own only
		s.mu.Lock()
		if s.closers[arg] > 0 {
			s.closers[arg]--
			s.closerDone++
		}
		s.mu.Unlock()
		s.signal()
	case "evict":
		q, _ := arg.(string)
		s.mu.Lock()
		s.evicted[q]++
		s.mu.Unlock()
	case "prepare.miss", "prepare.published", "prepare.done":
		if !s.parkHooks {
			return
		}
		s.mu.Lock()
		w := s.goids[goid()]
		s.mu.Unlock()
		q, _ := arg.(string)
		s.parkW(w, point, q, false)
	}
}

// driverHook parks prepared-statement executions at the driver.
func (s *sched) driverHook(ev *recdrv.Event) error {
	if ev.Kind != recdrv.KStmtExec && ev.Kind != recdrv.KStmtQuery {
		return nil
	}
	w, _ := ev.CtxVal.(int)
	if w == 0 {
		return nil
	}
	s.mu.Lock()
	if n := s.badconn[w]; n > 0 {
		s.badconn[w] = n - 1
		s.mu.Unlock()
		return driver.ErrBadConn
	}
	s.mu.Unlock()
	return s.parkW(w, string(ev.Kind), ev.Query, ev.Tx != 0)
}

func (s *sched) workerDone() {
	s.mu.Lock()
	s.finished++
	s.mu.Unlock()
	s.signal()
}

// settle waits until every worker is parked or finished, or nothing changed for a
// short while (some workers are then blocked inside gorm / the pool / SQLite waiting for
// another worker - any release order is still a schedule the program can have).
func (s *sched) settle() {
	quiet := 0
	for {
		s.mu.Lock()
		n := len(s.parked) + s.finished
		s.mu.Unlock()
		if n >= s.total {
			return
		}
		select {
		case <-s.changed:
			quiet = 0
		case <-time.After(1500 * time.Microsecond):
			quiet++
			if quiet >= 2 {
				return
			}
		}
	}
}

func (s *sched) choose(n int) int {
	var k int
	if s.steps < len(s.forced) {
		k = s.forced[s.steps] % n
	} else if s.systematic {
		k = 0
	} else {
		k = s.r.Intn(n)
	}
	s.choices = append(s.choices, [2]int{k, n})
	s.steps++
	return k
}

type ctlAction struct {
	name string
	do   func()
}

// startCtl runs a controller action (Reset / Close) on a goroutine of its own - the cache's own
// clean-up may have to wait for a worker, and a worker for the scheduler - and waits a short while for
// it: an action that has not returned by then stays in flight while the scheduler goes on releasing calls.
func (s *sched) startCtl(a ctlAction) {
	s.mu.Lock()
	s.ctlInFlight++
	s.mu.Unlock()
	done := make(chan struct{})
	go func() {
		defer func() {
			if p := recover(); p != nil {
				s.mu.Lock()
				s.ctlPanics = append(s.ctlPanics, fmt.Sprintf("%s panicked: %v", a.name, p))
				s.mu.Unlock()
			}
			s.mu.Lock()
			s.ctlInFlight--
			s.mu.Unlock()
			close(done)
			s.signal()
		}()
		a.do()
	}()
	select {
	case <-done:
	case <-time.After(100 * time.Millisecond):
		s.mu.Lock()
		s.trace = append(s.trace, "  ("+a.name+" has not returned yet)")
		s.mu.Unlock()
	}
}

// waitCtl waits (bounded) until every controller action has returned.
func (s *sched) waitCtl() bool {
	for i := 0; i < 120; i++ {
		s.mu.Lock()
		n := s.ctlInFlight
		s.mu.Unlock()
		if n == 0 {
			return true
		}
		select {
		case <-s.changed:
		case <-time.After(50 * time.Millisecond):
		}
	}
	return false
}

// run drives the schedule; it returns "" or a description of a lack of progress.
func (s *sched) run(ctl []ctlAction) (stuck string) {
	for {
		s.settle()
		s.mu.Lock()
		opts := len(s.parked)
		fin := s.finished
		s.mu.Unlock()
		if len(ctl) == 0 && s.lastCtl != nil {
			ctl = append(ctl, *s.lastCtl)
			s.lastCtl = nil
		}
		nopt := opts + len(ctl)
		if fin >= s.total && opts == 0 {
			break
		}
		if opts == 0 {
			// nothing parked although workers are unfinished: they are running or blocked.
			// Give them time (logical progress = a change signal); controller actions stay available.
			progressed := false
			for i := 0; i < 40 && !progressed; i++ {
				select {
				case <-s.changed:
					progressed = true
				case <-time.After(5 * time.Millisecond):
				}
			}
			if progressed {
				continue
			}
			if len(ctl) == 0 {
				// bounded progress: wait generously, then inspect goroutine state
				for i := 0; i < 100 && !progressed; i++ {
					select {
					case <-s.changed:
						progressed = true
					case <-time.After(50 * time.Millisecond):
					}
				}
				if progressed {
					continue
				}
				return s.describeStuck()
			}
		}
		if s.holdBack {
			s.mu.Lock()
			if s.victim == nil {
				for _, g := range s.parked {
					if (g.kind == "stmt-exec" || g.kind == "stmt-query") && g.tx == s.holdTx {
						s.victim = g
						s.trace = append(s.trace, "held back until the end: "+g.String())
						break
					}
				}
			}
			// move the victim to the end of the parked list and keep it out of the choice
			if s.victim != nil {
				for i, g := range s.parked {
					if g == s.victim {
						s.parked = append(append(s.parked[:i:i], s.parked[i+1:]...), g)
						opts--
						nopt--
						break
					}
				}
			}
			s.mu.Unlock()
			if s.victim != nil && nopt == 0 {
				if fin >= s.total-1 {
					// everybody else has returned: now the held-back call completes
					s.mu.Lock()
					g := s.victim
					s.parked = s.parked[:len(s.parked)-1]
					s.victim, s.holdBack = nil, false
					s.trace = append(s.trace, "release (held back) "+g.String()+" -> ok")
					s.mu.Unlock()
					g.release <- nil
					continue
				}
				// others are neither parked nor finished: give them time, then decide
				progressed := false
				for i := 0; i < 140 && !progressed; i++ {
					select {
					case <-s.changed:
						progressed = true
					case <-time.After(50 * time.Millisecond):
					}
				}
				if progressed {
					continue
				}
				d := s.describeStuck()
				if strings.HasPrefix(d, "deadlock") {
					d = "deadlock (the only call in flight at the driver, " + s.victim.String() + ", is completed last): " + strings.TrimPrefix(d, "deadlock: ")
				}
				return d
			}
		}
		k := s.choose(nopt)
		if k < opts {
			s.mu.Lock()
			g := s.parked[k]
			s.parked = append(s.parked[:k], s.parked[k+1:]...)
			var rel error
			decision := "ok"
			if g.kind == "prepare" && s.failBudget > 0 && s.choose(4) == 0 {
				s.failBudget--
				e := &errPrepare{n: len(s.injected) + 1, owner: g.worker}
				s.injected = append(s.injected, e)
				s.prepFailed[g.query]++
				rel = e
				decision = e.Error()
			} else if (g.kind == "stmt-exec" || g.kind == "stmt-query") && s.badconnBudget > 0 && ((s.badconnTxFirst && g.tx) || (!s.badconnTxFirst && s.choose(6) == 0)) {
				s.badconnBudget--
				s.badconn[g.worker] = 2 // database/sql retries the call twice more (also inside a transaction): fail those too
				s.badconnHit[g.worker] = true
				rel = driver.ErrBadConn
				decision = "ErrBadConn (and the retries)"
			}
			s.trace = append(s.trace, fmt.Sprintf("release %s -> %s", g, decision))
			s.mu.Unlock()
			g.release <- rel
		} else {
			a := ctl[k-opts]
			ctl = append(ctl[:k-opts], ctl[k-opts+1:]...)
			s.mu.Lock()
			s.trace = append(s.trace, "controller: "+a.name)
			s.mu.Unlock()
			s.startCtl(a)
		}
	}
	if s.lastCtl != nil {
		ctl = append(ctl, *s.lastCtl)
		s.lastCtl = nil
	}
	for _, a := range ctl {
		s.mu.Lock()
		s.trace = append(s.trace, "controller (at end): "+a.name)
		s.mu.Unlock()
		s.startCtl(a)
	}
	if !s.waitCtl() {
		return s.describeStuck()
	}
	return ""
}

// describeStuck inspects the goroutine dump: workers blocked in gorm frames on a channel
// or mutex with nothing parked and nothing left to release is a deadlock.
func (s *sched) describeStuck() string {
	buf := make([]byte, 1<<20)
	n := runtime.Stack(buf, true)
	dump := string(buf[:n])
	if os.Getenv("VERIF_C14_DUMP") != "" {
		fmt.Println(dump)
	}
	// compact form of every goroutine that is inside gorm, database/sql or the SQLite driver
	s.lastDump = nil
	for _, g := range strings.Split(dump, "\n\n") {
		if !strings.Contains(g, "gorm.io/gorm") && !strings.Contains(g, "database/sql") && !strings.Contains(g, "go-sqlite3") {
			continue
		}
		lines := strings.Split(g, "\n")
		item := []string{lines[0]}
		for _, l := range lines[1:] {
			if !strings.HasPrefix(l, "\t") && len(item) < 14 {
				if i := strings.LastIndex(l, "("); i > 0 {
					l = l[:i]
				}
				item = append(item, strings.TrimSpace(l))
			}
		}
		s.lastDump = append(s.lastDump, strings.Join(item, " < "))
	}
	// a goroutine inside SQLite's busy handler (BEGIN IMMEDIATE / a write waiting for the single writer
	// lock, while database/sql holds that connection's mutex) ends by itself after the busy timeout: what
	// looks stuck then is a long wait created by the test database, not a deadlock of the cache
	for _, g := range strings.Split(dump, "\n\n") {
		if strings.Contains(g, "[syscall") && strings.Contains(g, "go-sqlite3") {
			return "inconclusive: no progress while a connection waits for SQLite's writer lock (bounded by the busy timeout)"
		}
	}
	var blocked []string
	for _, g := range strings.Split(dump, "\n\n") {
		if strings.Contains(g, "c14.(*sched).parkW") {
			continue // parked by the scheduler (a held-back call), not blocked in the cache
		}
		if strings.Contains(g, "gorm.io/gorm.(*PreparedStmt") && (strings.Contains(g, "chan receive") || strings.Contains(g, "sync.Mutex") || strings.Contains(g, "sync.RWMutex") || strings.Contains(g, "semacquire") || strings.Contains(g, "select")) {
			lines := strings.Split(g, "\n")
			keep := []string{lines[0]}
			for _, l := range lines {
				if strings.Contains(l, "gorm.io/gorm") || strings.Contains(l, "database/sql.(*DB).conn") {
					keep = append(keep, strings.TrimSpace(l))
				}
			}
			if len(keep) > 8 {
				keep = keep[:8]
			}
			blocked = append(blocked, strings.Join(keep, " | "))
		}
	}
	if len(blocked) == 0 {
		return "inconclusive: no progress but no goroutine blocked in the prepared-statement cache"
	}
	return "deadlock: " + strings.Join(blocked, " ;; ")
}

func label(q string) string {
	if len(q) > 48 {
		return q[:48] + "…"
	}
	return q
}

// Package c14: the prepared-statement cache is transparent, leak-free, safe in any interleaving.
//
// Up to 4 worker goroutines run small programs (raw queries, model queries, updates,
// transactions) through one prepared-statement handle. Every PrepareContext the cache
// issues (observed at a wrapping ConnPool, also inside transactions), every prepared
// statement execution at the driver and three windows inside PreparedStmtDB.prepare
// (verifhook points) are PARKED; a scheduler releases one parked call at a time in a
// seeded (thorough: partly enumerated) order, interleaved with Reset() and Close(), with
// injected preparation failures and ErrBadConn, and with callers whose context has ended
// before their call or is cancelled by the scheduler at a logical step (also while a
// transaction keeps the pool's only connection). Oracle: progress (no deadlock once nothing
// is parked), results equal to the known table contents, errors only as injected or clean
// errors after Close, at most one preparation per text and generation, failed
// preparations not cached, no driver statement left open after Close has quiesced
// (closer goroutines balanced), and no race report (-race build).
package c14

import (
	"context"
	"database/sql"
	"database/sql/driver"
	"errors"
	"fmt"
	"os"
	"path/filepath"
	"reflect"
	"regexp"
	"strings"
	"sync"
	"time"

	"gorm.io/driver/sqlite"
	"gorm.io/gorm"
	"gorm.io/gorm/logger"
	"gorm.io/gorm/utils/verifhook"

	"verif/core"
	"verif/dialects"
	"verif/recdrv"
)

type PS struct {
	ID int64 `gorm:"primaryKey"`
	V  string
	N  int64
}

func (PS) TableName() string { return "ps" }

const (
	textA = "SELECT v FROM ps WHERE id = ?"
	textB = "SELECT v FROM ps WHERE id = ? AND 1 = 1"
	textU = "UPDATE ps SET n = n + 1 WHERE id = ?"
	textN = "SELECT n FROM ps WHERE id = ?"
)

type opKind string

// ROW / TXROW read the worker's own counter row through Row() (outside / inside a transaction, there
// after an increment of its own: the transaction must read its own write)
// QAERR executes the text of QA with one argument too many: a failure private to the caller (the statement
// itself is fine), which must neither cost the other users of that text their statement nor a new preparation.
// TXOUTROW / TXOUTQ / TXOUTX: a transaction increments the worker's counter and, still inside its block, issues one
// statement (Row() / Raw().Scan / Exec) through the handle OUTSIDE the transaction with a context that has already
// ended: that call returns "context canceled" at once in non-prepared mode, whether or not a pool connection is free
// (the transaction itself may hold the only one).
var opKinds = []opKind{"QA", "QB", "FIND", "EXEC", "TXQA", "TXEXEC", "QA", "QB", "ROW", "TXROW", "QAERR", "TXNEST", "CONNQA", "TXOUT"}

var txOutKinds = []opKind{"TXOUTROW", "TXOUTQ", "TXOUTX"}

func txOut(op opKind) bool { return op == "TXOUTROW" || op == "TXOUTQ" || op == "TXOUTX" }

type opResult struct {
	op          opKind
	err         error
	val         string
	rows        int64
	n           int64 // counter value read by ROW / TXROW
	closeBefore bool  // Close had been issued before the operation started
	closeAfter  bool  // ... before it returned
	resetsAt    [2]int
	startTick   int
	endTick     int
	preEnded    bool  // the operation was started with a context that had already ended
	ctxEnded    bool  // its context had ended before it returned (from the start, or the controller cancelled it)
	outDone     bool  // TXOUT*: the statement through the outer handle was issued
	outErr      error // ... and returned this
}

// usesEndedCtx: some statement of the operation ran (or may have run) under a context that had ended
func (r opResult) usesEndedCtx() bool { return r.ctxEnded || (txOut(r.op) && r.outDone) }

// ctxClass: what database/sql (and the SQLite driver) report for a statement whose context has ended; a
// transaction whose context ended is rolled back by database/sql, later statements report ErrTxDone
func ctxClass(err error) bool {
	return errors.Is(err, context.Canceled) || errors.Is(err, sql.ErrTxDone) || strings.Contains(err.Error(), "interrupted")
}

type world struct {
	both bool
	s    *sched
	root *gorm.DB // session-level mode: every operation derives its own Session{PrepareStmt: true} from here
	db   *gorm.DB
	rec  *recdrv.Recorder
	psdb *gorm.PreparedStmtDB
	path string
	sdb  *sql.DB
	ctxs []context.Context // per worker (index worker-1): carries the worker's number, cancelled by the controller action "cancel"
	stop []context.CancelFunc
}

func openWorld(c *core.Ctx, s *sched, sessionLevel bool, maxOpen int, both bool) *world {
	path := filepath.Join(c.Dir, fmt.Sprintf("c14_%d_%d.db", c.Case, s.r.Intn(1<<30)))
	rec := recdrv.NewRecorder()
	rec.CtxKey = wkey
	rec.Recording = c.Verbose
	dsn := "file:" + path + "?_journal_mode=WAL&_busy_timeout=60000&_synchronous=OFF&_txlock=immediate"
	sdb := recdrv.Open(dsn, rec)
	if maxOpen > 0 {
		sdb.SetMaxOpenConns(maxOpen)
	}
	if _, err := sdb.Exec("CREATE TABLE ps(id integer primary key, v text, n integer); INSERT INTO ps(id,v,n) VALUES (1,'a',0),(2,'b',0),(101,'w1',0),(102,'w2',0),(103,'w3',0),(104,'w4',0)"); err != nil {
		panic(err)
	}
	pool := &poolWrap{db: sdb, s: s}
	db, err := gorm.Open(dialects.VSQLite{Dialector: sqlite.Dialector{Conn: pool}}, &gorm.Config{PrepareStmt: !sessionLevel || both, Logger: logger.Discard})
	if err != nil {
		panic(err)
	}
	w := &world{s: s, db: db, rec: rec, path: path, both: both, sdb: sdb}
	for i := 1; i <= s.total; i++ {
		ctx, cancel := context.WithCancel(context.WithValue(context.Background(), wkey, i))
		w.ctxs, w.stop = append(w.ctxs, ctx), append(w.stop, cancel)
	}
	if sessionLevel {
		tx := db.Session(&gorm.Session{PrepareStmt: true})
		w.psdb, _ = tx.Statement.ConnPool.(*gorm.PreparedStmtDB)
		// the canonical instance lives in the handle's cache; sessions share its map and mutex:
		// every operation derives a session of its own from the root handle
		w.db = tx
		w.root = db
		if both {
			// the application resets / closes the manager it got from the configuration
			w.psdb, _ = db.ConnPool.(*gorm.PreparedStmtDB)
		}
	} else {
		w.psdb, _ = db.ConnPool.(*gorm.PreparedStmtDB)
	}
	// Row() hands out a *sql.Row and keeps the error to itself: record it per worker
	db.Callback().Row().After("gorm:row").Register("verif:row_error", func(tx *gorm.DB) {
		if wk, ok := tx.Statement.Context.Value(wkey).(int); ok {
			s.mu.Lock()
			if s.rowErr == nil {
				s.rowErr = map[int]error{}
			}
			s.rowErr[wk] = tx.Error
			s.mu.Unlock()
		}
	})
	rec.SetHook(s.driverHook)
	verifhook.Set(s.hookPoint)
	return w
}

// errRowUnusable: Row() handed out a zero *sql.Row and reported no error (Scan on it panics inside
// database/sql): PreparedStmtDB/PreparedStmtTX.QueryRowContext swallow the error of prepare().
var errRowUnusable = errors.New("verif: Row() returned an unusable empty *sql.Row and no error")

// scanRow scans the counter out of a Row() result; a failed Row() hands out an empty *sql.Row (whose
// Scan would panic inside database/sql): the error recorded by the callback is returned instead.
func (w *world) scanRow(worker int, row *sql.Row, dst *int64) error {
	w.s.mu.Lock()
	err := w.s.rowErr[worker]
	w.s.mu.Unlock()
	if err != nil {
		return err
	}
	if row == nil || reflect.DeepEqual(*row, sql.Row{}) {
		return errRowUnusable
	}
	return row.Scan(dst)
}

func (w *world) close() {
	for _, f := range w.stop {
		f()
	}
	verifhook.Set(nil)
	w.rec.SetHook(nil)
	if sdb, err := w.db.DB(); err == nil {
		sdb.Close()
	}
	os.Remove(w.path)
	os.Remove(w.path + "-wal")
	os.Remove(w.path + "-shm")
}

// handle: the handle an operation of the worker uses (non-transaction), bound to ctx
func (w *world) handle(ctx context.Context, worker int, op opKind) *gorm.DB {
	db := w.db.WithContext(ctx)
	if w.root != nil {
		db = w.root.Session(&gorm.Session{PrepareStmt: true}).WithContext(ctx)
		if w.both && (worker+len(op))%2 == 0 {
			// configuration and session level together: some operations use the configured handle as it is
			db = w.root.WithContext(ctx)
		}
	}
	return db
}

func ended(ctx context.Context) context.Context {
	c, cancel := context.WithCancel(ctx)
	cancel()
	return c
}

func (w *world) runOp(worker int, op opKind, pre bool) opResult {
	ctx := w.ctxs[worker-1]
	if pre {
		ctx = ended(ctx)
	}
	db := w.handle(ctx, worker, op)
	r := opResult{op: op, preEnded: pre}
	w.s.mu.Lock()
	r.closeBefore = w.s.closeIssued
	r.resetsAt[0] = w.s.resets
	w.s.tick++
	r.startTick = w.s.tick
	w.s.mu.Unlock()
	own := int64(100 + worker)
	switch op {
	case "QA":
		r.err = db.Raw(textA, 1).Scan(&r.val).Error
	case "QB":
		r.err = db.Raw(textB, 2).Scan(&r.val).Error
	case "QAERR":
		r.err = db.Raw(textA, 1, 2).Scan(&r.val).Error
	case "CONNQA":
		// the text of QA on a dedicated connection (db.Connection): whatever that does with the statement cache, the
		// other users of the text must not end up on that connection, nor on it after it was given back
		r.err = db.Connection(func(tx *gorm.DB) error { return tx.Raw(textA, 1).Scan(&r.val).Error })
	case "FIND":
		var p PS
		res := db.First(&p, 2)
		r.err, r.val = res.Error, p.V
	case "EXEC":
		res := db.Exec(textU, own)
		r.err, r.rows = res.Error, res.RowsAffected
	case "TXQA":
		r.err = db.Transaction(func(tx *gorm.DB) error { return tx.Raw(textA, 1).Scan(&r.val).Error })
	case "ROW":
		r.err = w.scanRow(worker, db.Raw(textN, own).Row(), &r.n)
	case "TXROW":
		r.err = db.Transaction(func(tx *gorm.DB) error {
			res := tx.Exec(textU, own)
			if res.Error != nil {
				return res.Error
			}
			r.rows = res.RowsAffected
			return w.scanRow(worker, tx.Raw(textN, own).Row(), &r.n)
		})
	case "TXOUTROW", "TXOUTQ", "TXOUTX":
		r.err = db.Transaction(func(tx *gorm.DB) error {
			res := tx.Exec(textU, own)
			if res.Error != nil {
				return res.Error
			}
			r.rows = res.RowsAffected
			out := w.handle(ended(ctx), worker, op)
			r.outDone = true
			switch op {
			case "TXOUTROW":
				var n int64
				r.outErr = w.scanRow(worker, out.Raw(textN, own).Row(), &n)
			case "TXOUTQ":
				var v string
				r.outErr = out.Raw(textB, 2).Scan(&v).Error
			case "TXOUTX":
				r.outErr = out.Exec(textU, own).Error // never applied: its context has ended
			}
			return nil
		})
	case "TXNEST":
		// an increment, then a nested block that increments again and fails: its save point takes that one back
		r.err = db.Transaction(func(tx *gorm.DB) error {
			res := tx.Exec(textU, own)
			if res.Error != nil {
				return res.Error
			}
			r.rows = res.RowsAffected
			tx.Transaction(func(tx2 *gorm.DB) error {
				if e := tx2.Exec(textU, own).Error; e != nil {
					return e
				}
				return errNestedFails
			})
			return nil
		})
	case "TXEXEC":
		r.err = db.Transaction(func(tx *gorm.DB) error {
			res := tx.Exec(textU, own)
			if res.Error != nil {
				return res.Error
			}
			r.rows = res.RowsAffected
			return tx.Raw(textB, 2).Scan(&r.val).Error
		})
	}
	w.s.mu.Lock()
	r.closeAfter = w.s.closeIssued
	r.resetsAt[1] = w.s.resets
	w.s.tick++
	r.endTick = w.s.tick
	r.ctxEnded = pre || w.s.cancelTick[worker] != 0
	var pe *errPrepare
	if errors.As(r.err, &pe) && pe.owner == worker && pe.doneTick == 0 {
		pe.doneTick = w.s.tick
	}
	w.s.mu.Unlock()
	return r
}

func expected(op opKind) (string, int64) {
	switch op {
	case "QA", "TXQA", "CONNQA":
		return "a", 0
	case "QB", "FIND":
		return "b", 0
	case "EXEC", "TXROW", "TXNEST", "TXOUTROW", "TXOUTQ", "TXOUTX":
		return "", 1
	case "TXEXEC":
		return "b", 1
	}
	return "", 0
}

func increments(op opKind) bool {
	return op == "EXEC" || op == "TXEXEC" || op == "TXROW" || op == "TXNEST" || txOut(op)
}

var errNestedFails = errors.New("verif: the nested block fails")

var cleanAfterClose = regexp.MustCompile(`invalid db|statement is closed|database is closed`)

type scenario struct {
	workers      [][]opKind
	resets       int
	closeEarly   bool
	sessionLevel bool
	maxOpen      int
	failBudget   int
	badconn      int
	parkHooks    bool
	badconnTx    bool
	holdBack     bool
	both         bool // PrepareStmt in the configuration AND a Session{PrepareStmt: true} per operation: one cache
	// ended contexts: ended[i][j] = operation j of worker i+1 starts with a context that has already ended;
	// cancels = workers whose context the controller cancels at some step of the schedule (it stays ended)
	ended   [][]bool
	cancels []int
	// holdTx: the call held back (holdBack) is the first statement a transaction executes at the driver: the
	// transaction keeps its pool connection until everybody else has returned
	holdTx bool
}

func (sc *scenario) clearCtx() { sc.ended, sc.cancels = nil, nil }

func (sc scenario) pre(i, j int) bool {
	return i < len(sc.ended) && j < len(sc.ended[i]) && sc.ended[i][j]
}

func (sc scenario) String() string {
	var ws []string
	for i, p := range sc.workers {
		ops := make([]string, len(p))
		for j, o := range p {
			ops[j] = string(o)
			if sc.pre(i, j) {
				ops[j] += "(context ended before the call)"
			}
		}
		ws = append(ws, fmt.Sprintf("w%d[%s]", i+1, strings.Join(ops, ",")))
	}
	return fmt.Sprintf("%s resets=%d closeEarly=%v sessionLevel=%v maxOpen=%d prepareFailures<=%d badConn<=%d hookWindows=%v badConnInTx=%v holdBackOneExecution=%v(inTransaction=%v) configAndSession=%v controllerCancelsContextOf=%v",
		strings.Join(ws, " "), sc.resets, sc.closeEarly, sc.sessionLevel, sc.maxOpen, sc.failBudget, sc.badconn, sc.parkHooks, sc.badconnTx, sc.holdBack, sc.holdTx, sc.both, sc.cancels)
}

func genScenario(r *core.Rand) scenario {
	sc := scenario{}
	n := r.Range(2, 4)
	for i := 0; i < n; i++ {
		var p []opKind
		for j := r.Range(1, 3); j > 0; j-- {
			op := core.Pick(r, opKinds)
			if op == "TXOUT" {
				op = core.Pick(r, txOutKinds)
			}
			p = append(p, op)
		}
		sc.workers = append(sc.workers, p)
	}
	sc.resets = r.Intn(3)
	sc.closeEarly = r.Chance(1, 3)
	sc.sessionLevel = r.Chance(1, 4)
	sc.both = sc.sessionLevel && r.Bool()
	sc.failBudget = r.Intn(3)
	sc.badconn = r.Intn(2)
	sc.parkHooks = r.Bool()
	// callers whose context ends: before the call (a third of the scenarios, a quarter of their operations) or at
	// a step the scheduler chooses (a fifth of the scenarios, one worker)
	if r.Chance(1, 3) {
		for _, p := range sc.workers {
			e := make([]bool, len(p))
			for j, op := range p {
				e[j] = op != "QAERR" && r.Chance(1, 4)
			}
			sc.ended = append(sc.ended, e)
		}
	}
	if r.Chance(1, 5) {
		sc.cancels = []int{r.Range(1, n)}
	}
	return sc
}

type outcome struct {
	dump     []string
	problems []string
	trace    []string
	results  [][]opResult
	sc       scenario
	choices  [][2]int
	inconcl  string
	prepares int
	waits    int
}

// execute runs one schedule of a scenario.
func execute(c *core.Ctx, sc scenario, r *core.Rand, forced []int) outcome {
	s := newSched(r, len(sc.workers))
	s.failBudget, s.badconnBudget, s.parkHooks, s.forced = sc.failBudget, sc.badconn, sc.parkHooks, forced
	s.verbose = c.Verbose
	s.badconnTxFirst = sc.badconnTx
	s.holdBack = sc.holdBack
	s.holdTx = sc.holdTx
	s.systematic = forced != nil
	w := openWorld(c, s, sc.sessionLevel, sc.maxOpen, sc.both)
	out := outcome{sc: sc, results: make([][]opResult, len(sc.workers))}
	defer w.close()
	var wg sync.WaitGroup
	panics := make(chan string, 8)
	for i := range sc.workers {
		wg.Add(1)
		go func(i int) {
			defer wg.Done()
			defer s.workerDone()
			defer func() {
				if p := recover(); p != nil {
					panics <- fmt.Sprintf("worker %d panicked: %v", i+1, p)
				}
			}()
			s.register(i + 1)
			for j, op := range sc.workers[i] {
				out.results[i] = append(out.results[i], w.runOp(i+1, op, sc.pre(i, j)))
			}
		}(i)
	}
	var ctl []ctlAction
	for k := 0; k < sc.resets; k++ {
		ctl = append(ctl, ctlAction{"Reset()", func() {
			s.mu.Lock()
			s.resets++
			s.mu.Unlock()
			w.psdb.Reset()
		}})
	}
	for _, wk := range sc.cancels {
		wk := wk
		ctl = append(ctl, ctlAction{fmt.Sprintf("cancel the context of w%d", wk), func() {
			s.mu.Lock()
			s.tick++
			s.cancelTick[wk] = s.tick
			s.mu.Unlock()
			w.stop[wk-1]()
		}})
	}
	closeAct := ctlAction{"Close()", func() {
		s.mu.Lock()
		s.closeIssued = true
		s.mu.Unlock()
		w.psdb.Close()
	}}
	if sc.closeEarly {
		// Close is the cache's last controller action (a Reset after Close would re-open it)
		s.lastCtl = &closeAct
	}
	stuck := s.run(ctl)
	if stuck != "" {
		if strings.HasPrefix(stuck, "deadlock") {
			out.problems = append(out.problems, stuck)
			out.dump = s.lastDump
		} else {
			out.inconcl = stuck
		}
		// release whatever is parked so that the goroutines can end
		s.mu.Lock()
		for _, g := range s.parked {
			g.release <- errors.New("verif: schedule aborted")
		}
		s.parked = nil
		s.mu.Unlock()
		out.trace = s.trace
		return out
	}
	wg.Wait()
	close(panics)
	for p := range panics {
		out.problems = append(out.problems, p)
	}
	if !sc.closeEarly {
		s.startCtl(closeAct)
		if !s.waitCtl() {
			out.problems = append(out.problems, s.describeStuck())
			out.dump = s.lastDump
		}
	}
	if w.root != nil {
		// session-level mode: operations that started after the Close went through sessions of their own
		// and may have prepared statements again; at shutdown the application closes the manager of a
		// fresh session, which shares the one cache of the handle
		fin := ctlAction{"Close() through a fresh session at shutdown", func() {
			if m, ok := w.root.Session(&gorm.Session{PrepareStmt: true}).Statement.ConnPool.(*gorm.PreparedStmtDB); ok {
				m.Close()
			}
		}}
		s.startCtl(fin)
		if !s.waitCtl() {
			out.problems = append(out.problems, s.describeStuck())
			out.dump = s.lastDump
		}
	}
	s.mu.Lock()
	out.problems = append(out.problems, s.ctlPanics...)
	s.mu.Unlock()
	// quiescence: closer goroutines balanced (logical condition), then the driver must
	// hold no open statement; statements evicted after ErrBadConn are closed by plain
	// goroutines: give them bounded time
	deadline := 0
	for {
		s.mu.Lock()
		bal := s.closerStart == s.closerDone
		s.mu.Unlock()
		open := w.rec.Counters().OpenStmts
		if bal && open == 0 {
			break
		}
		deadline++
		if deadline > 400 {
			s.mu.Lock()
			if c.Verbose {
				for _, e := range w.rec.Since(0) {
					fmt.Println("   EV", e.String())
				}
			}
			out.problems = append(out.problems, fmt.Sprintf("after Close() and quiescence %d driver statements are still open (closer goroutines started %d, finished %d): %v", open, s.closerStart, s.closerDone, w.rec.OpenStmtQueries()))
			s.mu.Unlock()
			break
		}
		time.Sleep(5 * time.Millisecond)
	}
	s.mu.Lock()
	defer s.mu.Unlock()
	out.trace = s.trace
	out.choices = s.choices
	// the counters as stored at the end: a worker's row holds exactly its successful increments (when none of its
	// incrementing operations failed, i.e. when that number is certain)
	// (an incrementing operation that returned an error may or may not have applied its ONE increment; the second
	// increment of TXNEST sits in a nested block that always fails and is never durable)
	for i, rs := range out.results {
		incs, unsure := int64(0), int64(0)
		for _, r := range rs {
			if increments(r.op) {
				if r.err == nil {
					incs++
				} else {
					unsure++
				}
			}
		}
		var n int64
		if err := w.sdb.QueryRow("SELECT n FROM ps WHERE id = ?", 100+i+1).Scan(&n); err == nil && (n < incs || n > incs+unsure) {
			out.problems = append(out.problems, fmt.Sprintf("w%d: its counter row holds %d at the end; %d of its incrementing operations succeeded and %d failed, which allows %d..%d (non-prepared mode)", i+1, n, incs, unsure, incs, incs+unsure))
		}
	}
	// endedInFlight: an operation of another worker, some statement of which ran under an ended context, was in
	// flight during r's lifetime (the failure of its preparation may legally be reported to r as a waiter)
	endedInFlight := func(i int, r opResult) bool {
		for j, xs := range out.results {
			for _, x := range xs {
				if j != i && x.usesEndedCtx() && x.endTick > r.startTick && x.startTick < r.endTick {
					return true
				}
			}
		}
		return false
	}
	// results
	for i, rs := range out.results {
		incs, certain := int64(0), true // the worker's own successful increments so far
		for _, r := range rs {
			wantV, wantN := expected(r.op)
			if r.op == "QAERR" {
				var pe *errPrepare
				if r.err == nil {
					out.problems = append(out.problems, fmt.Sprintf("w%d QAERR (one argument too many) returned no error", i+1))
				} else if !strings.Contains(r.err.Error(), "arguments") && !(r.ctxEnded && ctxClass(r.err)) && !(errors.Is(r.err, context.Canceled) && endedInFlight(i, r)) && !errors.As(r.err, &pe) && !errors.Is(r.err, driver.ErrBadConn) && !(r.closeAfter && cleanAfterClose.MatchString(r.err.Error())) && !strings.Contains(r.err.Error(), "statement is closed") {
					out.problems = append(out.problems, fmt.Sprintf("w%d QAERR returned %q, non-prepared mode reports the argument count", i+1, r.err))
				}
				if r.err != nil && strings.Contains(r.err.Error(), "statement is closed") && !(r.closeAfter && cleanAfterClose.MatchString(r.err.Error())) {
					out.problems = append(out.problems, fmt.Sprintf("w%d %s returned %q (Close issued before it returned: %v, Reset count during it: %d)", i+1, r.op, r.err, r.closeAfter, r.resetsAt[1]))
				}
				continue
			}
			if txOut(r.op) && r.outDone {
				// the statement issued through the outer handle under an ended context
				var pe *errPrepare
				switch {
				case r.outErr == nil:
					out.problems = append(out.problems, fmt.Sprintf("w%d %s: the statement issued through the non-transaction handle with a context that had ended before the call returned no error; non-prepared mode returns %q", i+1, r.op, context.Canceled))
				case ctxClass(r.outErr), errors.As(r.outErr, &pe):
				case r.closeAfter && cleanAfterClose.MatchString(r.outErr.Error()):
				case errors.Is(r.outErr, errRowUnusable):
					out.problems = append(out.problems, fmt.Sprintf("w%d %s: Row() returned a zero *sql.Row and no error (its Scan panics); non-prepared mode returns a row carrying the error (Close issued before it returned: %v)", i+1, r.op, r.closeAfter))
				default:
					out.problems = append(out.problems, fmt.Sprintf("w%d %s: the statement issued through the non-transaction handle with an ended context returned %q, non-prepared mode returns %q (Close issued before it returned: %v, Reset count during it: %d)", i+1, r.op, r.outErr, context.Canceled, r.closeAfter, r.resetsAt[1]))
				}
			}
			if r.err == nil && r.preEnded {
				out.problems = append(out.problems, fmt.Sprintf("w%d %s was called with a context that had ended before the call and returned no error (%q, %d rows); non-prepared mode returns %q", i+1, r.op, r.val, r.rows, context.Canceled))
				continue
			}
			if r.err == nil {
				if r.val != wantV || r.rows != wantN {
					out.problems = append(out.problems, fmt.Sprintf("w%d %s returned (%q, %d rows), non-prepared mode returns (%q, %d rows)", i+1, r.op, r.val, r.rows, wantV, wantN))
				}
				if increments(r.op) {
					incs++
				}
				if (r.op == "ROW" || r.op == "TXROW") && certain && r.n != incs {
					out.problems = append(out.problems, fmt.Sprintf("w%d %s read its counter as %d through Row(), non-prepared mode reads %d (its own increments so far, the one of this transaction included)", i+1, r.op, r.n, incs))
				}
				continue
			}
			if increments(r.op) {
				certain = false // a failed increment may or may not have been applied
			}
			var pe *errPrepare
			switch {
			case errors.As(r.err, &pe):
				// a waiter may receive the failure of a preparation that was still in flight when
				// it arrived; once the owning operation has returned the failure must be gone
				if pe.doneTick != 0 && pe.doneTick < r.startTick {
					out.problems = append(out.problems, fmt.Sprintf("w%d %s received %v, which was injected outside the operation's lifetime (a failed preparation was cached)", i+1, r.op, r.err))
				}
			case r.ctxEnded && ctxClass(r.err):
				// its own context had ended before it returned: what non-prepared mode reports
			case errors.Is(r.err, context.Canceled):
				// its own context is live: this is the failure of a preparation another caller's ended context
				// broke, reported to a waiter - legal only while that caller's operation was in flight
				if !endedInFlight(i, r) {
					out.problems = append(out.problems, fmt.Sprintf("w%d %s returned %q although its own context is live and no operation with an ended context was in flight during its lifetime (a failed preparation was cached)", i+1, r.op, r.err))
				}
			case errors.Is(r.err, driver.ErrBadConn):
				if !s.badconnHit[i+1] {
					out.problems = append(out.problems, fmt.Sprintf("w%d %s returned ErrBadConn that was never injected for it", i+1, r.op))
				}
			case errors.Is(r.err, errRowUnusable):
				out.problems = append(out.problems, fmt.Sprintf("w%d %s: Row() returned a zero *sql.Row and no error (its Scan panics); non-prepared mode returns a row carrying the error (Close issued before it returned: %v)", i+1, r.op, r.closeAfter))
			case r.closeAfter && cleanAfterClose.MatchString(r.err.Error()):
				// clean error once the cache is closed
			default:
				out.problems = append(out.problems, fmt.Sprintf("w%d %s returned %q (Close issued before it returned: %v, Reset count during it: %d)", i+1, r.op, r.err, r.closeAfter, r.resetsAt[1]))
			}
		}
	}
	// at most one preparation per text and generation
	usedTx, usedOut := map[string]bool{}, map[string]bool{}
	for q := range s.prepTx {
		usedTx[q] = true
	}
	for q := range s.prepNonTx {
		usedOut[q] = true
	}
	gens := s.resets + 1
	if sc.closeEarly {
		gens++
	}
	for q, n := range s.prepNonTx {
		total := n + s.prepTx[q]
		per := 1
		if usedTx[q] {
			per = 2 // prepared inside a transaction first, then again outside (documented upgrade)
		}
		// a failed upgrade removes the entry for both uses
		allowed := (gens + s.prepFailed[q] + s.evicted[q]) * per
		if total > allowed {
			out.problems = append(out.problems, fmt.Sprintf("text %q was prepared %d times (%d in transactions); generations=%d failures=%d evictions=%d allow %d", label(q), total, s.prepTx[q], gens, s.prepFailed[q], s.evicted[q], allowed))
		}
		out.prepares += total
	}
	for q, n := range s.prepTx {
		if !usedOut[q] {
			allowed := gens + s.prepFailed[q] + s.evicted[q]
			if n > allowed {
				out.problems = append(out.problems, fmt.Sprintf("text %q was prepared %d times inside transactions; generations=%d failures=%d allow %d", label(q), n, gens, s.prepFailed[q], allowed))
			}
			out.prepares += n
		}
	}
	return out
}

func run(c *core.Ctx) {
	r := c.R
	sc := genScenario(r)
	special := c.Case % 16
	if c.Case%32 == 0 {
		special = 100
	} else if special == 0 {
		special = 15
	}
	switch special {
	case 100:
		// the pool has one connection: a transaction holding it must not wait for a
		// preparation that needs it
		sc.maxOpen = 1
		sc.resets, sc.failBudget, sc.badconn = 0, 0, 0
		sc.clearCtx()
		sc.workers = [][]opKind{{"TXQA"}, {"QA"}}
		if r.Bool() {
			sc.workers = append(sc.workers, []opKind{core.Pick(r, []opKind{"QA", "TXQA", "QB"})})
		}
		if c.Case%128 != 0 {
			// one worker alone: whatever its transaction prepares or reads (Row() included) has to get by
			// with the connection the transaction holds. Nobody else is there to wait for.
			// A statement it issues through the outer handle under an ended context (TXOUT*) needs no connection at
			// all: it returns at once.
			sc.workers = [][]opKind{{core.Pick(r, []opKind{"TXROW", "TXQA", "TXEXEC", "TXROW", "TXOUTROW", "TXOUTQ", "TXOUTX"}), core.Pick(r, []opKind{"TXROW", "ROW", "QA", "TXEXEC", "TXOUTROW", "TXOUTQ", "TXOUTX"})}}
			sc.closeEarly, sc.parkHooks, sc.holdBack = false, false, false
		}
	case 1:
		// many goroutines, one text, one failing preparation
		sc.workers = [][]opKind{{"QA", "QA"}, {"QA"}, {"QA"}, {"QA", "QA"}}
		sc.failBudget, sc.resets = 2, 0
		sc.clearCtx()
	case 4:
		// a text prepared outside a transaction, then executed inside one on a connection
		// that reports ErrBadConn: the evicted statement must still be closed
		// (the statement must also live on another connection than the transaction's, whose
		// driver statements die with the bad connection anyway)
		sc.workers = [][]opKind{{"TXQA"}, {"QA", "QA"}, {"QA"}}
		if r.Bool() {
			sc.workers = [][]opKind{{"TXEXEC"}, {"EXEC", "EXEC"}, {"EXEC"}}
		}
		sc.resets, sc.failBudget, sc.badconn, sc.badconnTx, sc.sessionLevel = 0, 0, 1, true, false
		sc.clearCtx()
	case 5, 6:
		// one execution stays in flight at the driver until everybody else has returned, another
		// execution of the same statement meets a bad connection (eviction), a third worker uses the cache
		sc.workers = [][]opKind{{"EXEC"}, {"EXEC"}, {core.Pick(r, []opKind{"QB", "QA", "FIND"})}}
		if r.Bool() {
			sc.workers = append(sc.workers, []opKind{"EXEC", "QA"})
		}
		// (no Reset / early Close here: closing statements that are still in use makes their users wait for
		// each other - KF-C14-1 - which is not what this scenario is about)
		sc.resets, sc.closeEarly, sc.failBudget, sc.badconn, sc.sessionLevel, sc.parkHooks = 0, false, 0, 1, r.Chance(1, 4), false
		sc.holdBack = true
		sc.clearCtx()
	case 8:
		// the pool has one connection and a transaction keeps it (its first statement stays in flight at the driver
		// until everybody else has returned); every other caller's context ends - before its call, or cancelled by the
		// controller at some step while it runs or waits for a connection: whatever it asks for (Row(), raw query,
		// model query, update; text cached or not) it has to return without the connection, as in non-prepared mode
		sc.maxOpen = 1
		sc.workers = [][]opKind{{core.Pick(r, []opKind{"TXQA", "TXEXEC", "TXROW", "TXNEST"})}}
		sc.clearCtx()
		sc.ended = [][]bool{{false}}
		for k := r.Range(1, 2); k > 0; k-- {
			var p []opKind
			for j := r.Range(1, 2); j > 0; j-- {
				p = append(p, core.Pick(r, []opKind{"ROW", "QA", "QB", "FIND", "EXEC", "ROW"}))
			}
			sc.workers = append(sc.workers, p)
			if r.Bool() {
				sc.ended = append(sc.ended, make([]bool, len(p)))
				sc.cancels = append(sc.cancels, len(sc.workers))
			} else {
				e := make([]bool, len(p))
				for j := range e {
					e[j] = true
				}
				sc.ended = append(sc.ended, e)
			}
		}
		sc.resets, sc.closeEarly, sc.failBudget, sc.badconn, sc.badconnTx = 0, false, r.Intn(2), 0, false
		sc.holdBack, sc.holdTx = true, true
	case 7:
		// one caller's private failure (an argument too many) next to healthy users of the same text; nothing else
		// happens to the cache: no Reset, no early Close, no injected failure
		sc.workers = [][]opKind{{"QAERR", "QA"}, {"QA", "QA"}, {core.Pick(r, []opKind{"QA", "TXQA", "QAERR"})}}
		if r.Bool() {
			sc.workers = append(sc.workers, []opKind{"QA", "QAERR", "QA"})
		}
		sc.resets, sc.closeEarly, sc.failBudget, sc.badconn, sc.holdBack = 0, false, 0, 0, false
		sc.clearCtx()
	case 2:
		// Reset while preparations are in flight
		sc.workers = [][]opKind{{"QA", "QB"}, {"QA", "QB"}, {"QB", "QA"}}
		sc.resets, sc.parkHooks, sc.failBudget, sc.badconn = 2, true, 0, 0
		sc.clearCtx()
	}
	c.Logf("SCENARIO %s", sc.String())
	if c.Thorough && special == 3 {
		enumerate(c, r)
		return
	}
	out := execute(c, sc, r.Fork(), nil)
	report(c, sc, out)
}

// enumerate explores the choice tree of a small scenario systematically: every run forces
// a prefix of scheduler choices (release order, controller actions, fault decisions) and
// takes the first option afterwards; the next prefix is the odometer successor.
func enumerate(c *core.Ctx, r *core.Rand) {
	small := [][][]opKind{
		{{"QA"}, {"QA"}},
		{{"QA"}, {"TXQA"}},
		{{"QA", "QA"}, {"QA"}},
		{{"QA"}, {"QA"}, {"QA"}},
		{{"EXEC"}, {"QA"}},
	}
	sc := scenario{workers: small[r.Intn(len(small))], resets: r.Intn(2), closeEarly: r.Bool(), sessionLevel: r.Chance(1, 4),
		failBudget: r.Intn(2), parkHooks: r.Bool()}
	forced := []int{}
	limit := 250
	for n := 0; n < limit; n++ {
		out := execute(c, sc, core.NewRand(1), forced)
		c.Inc("enumerated_schedules")
		report(c, sc, out)
		// odometer successor
		ch := out.choices
		i := len(ch) - 1
		for ; i >= 0; i-- {
			if ch[i][0]+1 < ch[i][1] {
				break
			}
		}
		if i < 0 {
			c.Inc("choice_trees_exhausted")
			return
		}
		forced = forced[:0]
		for _, x := range ch[:i] {
			forced = append(forced, x[0])
		}
		forced = append(forced, ch[i][0]+1)
	}
}

func report(c *core.Ctx, sc scenario, out outcome) {
	c.Inc("schedules")
	c.Add("scheduler_steps", len(out.choices))
	c.Add("gorm_level_preparations", out.prepares)
	if out.inconcl != "" {
		c.Inconclusive(out.inconcl)
		return
	}
	if len(out.problems) > 0 {
		byClass := map[string][]string{}
		for _, p := range out.problems {
			sig := "result"
			switch {
			case strings.HasPrefix(p, "deadlock"):
				sig = "deadlock"
				if sc.maxOpen == 1 && sc.holdTx {
					// not KF-C14-2: every caller but the transaction has an ended context, none of them may wait for
					// the connection (KF-C14-2's in-flight preparation fails at once or when its context is cancelled)
					sig = "deadlock-maxopen1-ended-context"
				} else if sc.maxOpen == 1 {
					sig = "deadlock-maxopen1"
					if len(sc.workers) == 1 {
						// not KF-C14-2, which needs a second worker preparing the same text outside a transaction
						sig = "deadlock-maxopen1-single-worker"
					}
				}
			case strings.Contains(p, "still open"):
				sig = "leak"
				if sc.both && sc.closeEarly {
					// Close() of the configuration's manager while sessions derived earlier are still in use:
					// they do not notice it and go on preparing into the shared map (KF-C14-3)
					sig = "leak:config-close-with-live-sessions"
				}
			case strings.Contains(p, "was prepared"):
				sig = "duplicate-prepare"
			case strings.Contains(p, "returned no error") && strings.Contains(p, "had ended before the call"):
				sig = "ended-context-ignored"
			case strings.Contains(p, "returned a zero *sql.Row"):
				sig = "row-swallows-prepare-error"
			case strings.Contains(p, "a failed preparation was cached"):
				sig = "cached-failure"
			case strings.Contains(p, "statement is closed") && strings.Contains(p, "Close issued before it returned: false") && !strings.Contains(p, "Reset count during it: 0"):
				sig = "statement-closed-after-reset"
			}
			byClass[sig] = append(byClass[sig], p)
		}
		for sig, ps := range byClass {
			d := map[string]interface{}{"scenario": sc.String(), "problems": ps, "schedule": out.trace}
			if strings.HasPrefix(sig, "deadlock") {
				d["goroutines"] = out.dump
			}
			c.Violation(sig, d)
		}
		return
	}
	// distinct schedule = the sequence of released calls
	c.Shape(strings.Join(out.trace, ";"))
	if c.WantSample() && len(out.trace) > 8 {
		c.Sample(map[string]interface{}{"scenario": sc.String(), "schedule": out.trace})
	}
}

func postChild(dir string, batch int, res *core.Result) { core.ScanRaceLogs(dir, res, nil) }

var Engine = &core.Engine{
	ID:    "C14",
	Level: "exploration",
	Rule: "scenario = 2..4 workers x 1..3 operations (raw queries on two texts, model query, update, Row() reads of the worker's own counter, transactions with one and two statements incl. increment-then-Row(), a nested block that fails, a statement with an argument too many, a dedicated connection, a transaction that issues Row() / a raw query / an update through the OUTER handle under an ended context) x 0..2 Reset() + Close() (early or at the end) x {config-level PrepareStmt, session-level PrepareStmt with a session derived per operation, both at once (one shared cache)} x prepare failures (<=2) x ErrBadConn (<=1) x parking of the three windows inside prepare() on/off x callers whose context ends (a third of the scenarios: a quarter of the operations start with a context that has already ended; a fifth: the controller cancels one worker's context at a seeded step, like Reset/Close) - such an operation returns what non-prepared mode returns (context canceled, never rows when the context had ended before the call), a live waiter may receive that failure only while the operation was in flight; dedicated scenarios (single-connection pool incl. one worker alone; single-connection pool kept by a transaction whose first statement stays in flight at the driver until everybody else has returned while all other callers (Row(), raw and model queries, updates, cached and uncached texts) have contexts that end before or during their call: they must return without the connection; one text + failing preparation; a caller's private failure next to healthy users of the text; Reset during in-flight preparations; ErrBadConn on the first statement of a transaction; one execution held in flight at the driver until everybody else has returned while another execution of the same statement meets a bad connection); " +
		"one schedule per case: every gorm-level PrepareContext, every prepared-statement execution at the driver and every hook window is parked and released one at a time in a seeded order; distinct = the literal sequence of released calls and controller actions; every schedule is non-trivial (at least two workers share a handle, or one worker's transaction and its own calls through the outer handle share the single connection)",
	Assumptions: []string{
		"schedules are explored at the driver / ConnPool boundary and at three hook windows; interleavings inside database/sql and the Go runtime are left to the race detector and natural scheduling",
		"'eventually closed' is decided after Close(): closer goroutines balanced (hook counters) and bounded waiting for the ErrBadConn eviction goroutines, then the driver must hold no open statement",
		"no progress is a deadlock only when the goroutine dump shows workers blocked inside PreparedStmtDB/PreparedStmtTX frames with nothing parked and nothing left to release; otherwise the case is inconclusive",
		"settling uses short timeouts only to decide WHEN to release the next call; any release order is a legal schedule, so timing cannot create a false alarm",
		"contexts end by cancellation at a logical step (before the call, or as a controller action of the schedule), never by a wall-clock deadline; an operation whose context ended while it ran may return its result or the context error (a failed increment counts as uncertain); the statement with an argument too many never starts with an ended context; in the scenario where a transaction keeps the only connection, no Reset / early Close / ErrBadConn is generated (closing statements in use makes their users wait for each other: KF-C14-1) and every caller other than the transaction has an ended context, so nobody may legitimately wait for the connection",
		"a preparation that fails at database/sql because the caller's context ended counts as a failed preparation: it may be reported to waiters that arrived while the operation was in flight, and the text may be prepared again in the same generation",
	},
	Cases: func(tier string) int {
		if tier == "thorough" {
			return 24000
		}
		return 1600
	},
	Batch: func(string) int { return 100 },
	Run:   run,
	ChildEnv: func(dir string, batch int) []string {
		return []string{"GORACE=halt_on_error=0 log_path=" + filepath.Join(dir, "race")}
	},
	PostChild:     postChild,
	MinNontrivial: 100,
	ChildTimeoutS: 1200,
}

package c14

import (
	"context"
	"database/sql"

	"gorm.io/gorm"
)

// poolWrap is the ConnPool handed to gorm: it delegates to *sql.DB and lets the
// scheduler observe, park and fail every PrepareContext the prepared-statement cache
// issues (outside and inside transactions).
type poolWrap struct {
	db *sql.DB
	s  *sched
}

func (p *poolWrap) PrepareContext(ctx context.Context, query string) (*sql.Stmt, error) {
	if err := p.s.park(ctx, "prepare", query, false); err != nil {
		return nil, err
	}
	st, err := p.db.PrepareContext(ctx, query)
	p.s.note("prepared", query, err)
	p.s.failed(ctx, query, err)
	return st, err
}

func (p *poolWrap) ExecContext(ctx context.Context, query string, args ...interface{}) (sql.Result, error) {
	return p.db.ExecContext(ctx, query, args...)
}

func (p *poolWrap) QueryContext(ctx context.Context, query string, args ...interface{}) (*sql.Rows, error) {
	return p.db.QueryContext(ctx, query, args...)
}

func (p *poolWrap) QueryRowContext(ctx context.Context, query string, args ...interface{}) *sql.Row {
	return p.db.QueryRowContext(ctx, query, args...)
}

// BeginTx makes poolWrap a gorm.ConnPoolBeginner, so that the transaction's own
// PrepareContext calls are observable too.
func (p *poolWrap) BeginTx(ctx context.Context, opts *sql.TxOptions) (gorm.ConnPool, error) {
	tx, err := p.db.BeginTx(ctx, opts)
	if err != nil {
		return nil, err
	}
	return &txWrap{Tx: tx, s: p.s}, nil
}

func (p *poolWrap) GetDBConn() (*sql.DB, error) { return p.db, nil }

type txWrap struct {
	*sql.Tx
	s *sched
}

func (t *txWrap) PrepareContext(ctx context.Context, query string) (*sql.Stmt, error) {
	if err := t.s.park(ctx, "prepare", query, true); err != nil {
		return nil, err
	}
	st, err := t.Tx.PrepareContext(ctx, query)
	t.s.note("prepared-tx", query, err)
	t.s.failed(ctx, query, err)
	return st, err
}

// Package c18: every statement of an operation carries the caller's context.
//
// Each operation is started from WithContext / Session{Context} (on the root handle, on the tx of
// an enclosing Transaction block, or handed back by a scope of the operation's chain) with a context carrying a
// unique operation id; the recording driver stores ctx.Value(key) for every begin / prepare /
// exec / query / prepared-statement call. Oracle: every such event between the operation's
// start and end marks shows the operation's id (and so do the contexts seen by hooks);
// with an already-cancelled context no statement event occurs and an error is returned.
package c18

import (
	"context"
	"database/sql"
	"errors"
	"fmt"
	"strings"
	"sync/atomic"
	"time"

	"gorm.io/gorm"
	"gorm.io/gorm/clause"

	"verif/core"
	"verif/recdrv"
	"verif/txm"
	"verif/vdb"
)

type ctxKey struct{}

var handles [2]*vdb.Handle // [0] plain, [1] PrepareStmt

func initEnv(c *core.Ctx) {
	for i := range handles {
		h, err := vdb.Open(vdb.Options{CtxKey: ctxKey{}, Config: gorm.Config{PrepareStmt: i == 1}})
		if err != nil {
			panic(err)
		}
		if err := h.DB.AutoMigrate(txm.AllModels...); err != nil {
			panic(err)
		}
		if err := h.DB.AutoMigrate(&doc{}); err != nil {
			panic(err)
		}
		handles[i] = h
	}
	txm.H.Enabled = true
	txm.H.Audit = true
	txm.H.SetCols = true
	txm.H.CtxKey = ctxKey{}
}

type op struct {
	desc string
	run  func(db *gorm.DB) error
	// multi: the operation starts more than one chain from the handle it is given, so the handle has to be a
	// reusable one (a session); a chain value (result of Set/Where/Scopes...) is good for one chain only
	multi bool
	// noScope: the operation makes driver calls before / without running the scopes of the handle it is given (it opens
	// with Transaction / SavePoint, is an association-mode call, or inserts in several batches inside a block of its
	// own): when a context bound by a scope takes effect for it is not fixed by the statement
	noScope bool
}

var readKinds = []string{"PreloadNested", "PreloadAll", "JoinsCompany", "FindInBatches", "Rows", "Scan", "Pluck", "Count", "First", "Last", "FirstOrCreate", "FirstOrInit",
	"AssocAppend", "AssocReplace", "AssocDelete", "AssocClear", "AssocCount", "AssocFind", "AssocAppendM2M", "AssocReplaceM2M", "Raw", "Exec", "SavePoint", "PreloadCond",
	"NestedTxError", "NestedTxPanic", "TxError", "SoftDeleteReturning", "SoftDeleteWhere", "UpsertCompany",
	"FindInBatchesLimit", "Row", "Take", "FindMaps", "JoinsPreloadNested", "ScopeSession",
	"MigratorHas", "MigratorColumnTypes", "TxOptions", "BeginOptions"}

// doc is soft-deleted: its Delete is an UPDATE (with RETURNING: sent as a query and scanned back)
type doc struct {
	ID        uint
	Name      string
	DeletedAt gorm.DeletedAt
}

func (doc) TableName() string { return "c18_docs" }

const seedDocs = "DELETE FROM c18_docs; INSERT INTO c18_docs(id,name) VALUES (1,'d1'),(2,'d2'),(3,'d2');"

func genOp(r *core.Rand, idx int) op {
	nk := len(txm.OpKinds)
	if idx%(nk+len(readKinds)) < nk {
		o := txm.GenOp(txm.OpKinds[idx%(nk+len(readKinds))], r.U64())
		// CreateInBatches over several batches opens a block of its own (BEGIN / SAVEPOINT) before any scope runs
		return op{desc: o.Desc, run: func(db *gorm.DB) error { return o.Run(db).Error }, noScope: o.Kind == "CreateInBatches"}
	}
	kind := readKinds[idx%(nk+len(readKinds))-nk]
	o := op{desc: kind}
	switch {
	case strings.HasPrefix(kind, "Assoc"), kind == "SavePoint", kind == "NestedTxError", kind == "NestedTxPanic", kind == "TxError",
		strings.HasPrefix(kind, "Migrator"), kind == "TxOptions", kind == "BeginOptions":
		o.noScope = true
	}
	switch kind {
	case "PreloadNested":
		o.run = func(db *gorm.DB) error {
			return db.Preload("Orders.Lines").Preload("Company").Preload("Roles").Find(&[]txm.User{}).Error
		}
	case "PreloadAll":
		o.run = func(db *gorm.DB) error { return db.Preload(clause.Associations).Find(&[]txm.User{}).Error }
	case "PreloadCond":
		o.run = func(db *gorm.DB) error {
			return db.Preload("Orders", "item <> ?", "x").Preload("Notes", func(tx *gorm.DB) *gorm.DB { return tx.Order("id") }).First(&txm.User{}, 1).Error
		}
	case "JoinsCompany":
		o.run = func(db *gorm.DB) error { return db.Joins("Company").Preload("Profile").Find(&[]txm.User{}).Error }
	case "FindInBatches":
		o.run = func(db *gorm.DB) error {
			var us []txm.User
			return db.Preload("Orders").FindInBatches(&us, 2, func(tx *gorm.DB, batch int) error {
				// a statement issued through the batch handle is part of the operation
				var n int64
				return tx.Model(&txm.Order{}).Count(&n).Error
			}).Error
		}
	case "FindInBatchesLimit":
		// conditions, a limit and an offset: the batches after the first come from a session FindInBatches derives again;
		// the batch handle writes
		o.run = func(db *gorm.DB) error {
			var us []txm.User
			return db.Where("age > ?", 0).Or("name = ?", "nobody").Limit(5).Offset(1).FindInBatches(&us, 2, func(tx *gorm.DB, batch int) error {
				return tx.Model(&txm.User{ID: us[0].ID}).UpdateColumn("age", gorm.Expr("age + ?", 1)).Error
			}).Error
		}
	case "Row":
		o.run = func(db *gorm.DB) error {
			var name string
			return db.Model(&txm.User{}).Select("name").Where("id = ?", 1).Row().Scan(&name)
		}
	case "Take":
		o.run = func(db *gorm.DB) error { return db.Preload("Notes").Take(&txm.User{}, 2).Error }
	case "FindMaps":
		o.run = func(db *gorm.DB) error {
			return db.Model(&txm.User{}).Where("age > ?", 1).Find(&[]map[string]interface{}{}).Error
		}
	case "JoinsPreloadNested":
		o.run = func(db *gorm.DB) error {
			return db.Joins("Company").Preload("Orders.Lines").Preload("Notes").Order("users.id").Find(&[]txm.User{}).Error
		}
	case "ScopeSession":
		// scopes of the operation's own chain that add a condition and hand back a new session: the context stays
		o.run = func(db *gorm.DB) error {
			return db.Scopes(func(d *gorm.DB) *gorm.DB { return d.Where("age > ?", 1) }, func(d *gorm.DB) *gorm.DB { return d.Session(&gorm.Session{}) }).
				Preload("Orders").Find(&[]txm.User{}).Error
		}
	case "MigratorHas":
		// the migrator's look-ups are statements made on behalf of the handle Migrator() was called on
		o.multi = true
		o.run = func(db *gorm.DB) error {
			m := db.Migrator()
			if !m.HasTable(&txm.User{}) || !m.HasColumn(&txm.User{}, "Name") || m.HasTable("c18_no_such_table") {
				return fmt.Errorf("migrator look-up gave a wrong answer")
			}
			m.HasIndex(&txm.User{}, "idx_c18_none")
			return nil
		}
	case "MigratorColumnTypes":
		o.multi = true
		o.run = func(db *gorm.DB) error {
			if _, err := db.Migrator().ColumnTypes(&doc{}); err != nil {
				return err
			}
			_, err := db.Migrator().GetTables()
			return err
		}
	case "TxOptions":
		// a Transaction block with explicit options: its BEGIN and its statements are the operation's
		o.run = func(db *gorm.DB) error {
			return db.Transaction(func(tx *gorm.DB) error {
				if err := tx.Create(&txm.Company{Name: "txo"}).Error; err != nil {
					return err
				}
				return tx.Preload("Orders").First(&txm.User{}, 1).Error
			}, &sql.TxOptions{})
		}
	case "BeginOptions":
		o.run = func(db *gorm.DB) error {
			tx := db.Begin(&sql.TxOptions{})
			if tx.Error != nil {
				return tx.Error
			}
			if err := tx.Model(&txm.User{ID: 2}).Update("age", 31).Error; err != nil {
				tx.Rollback()
				return err
			}
			var n int64
			tx.Model(&txm.Order{}).Count(&n)
			return tx.Commit().Error
		}
	case "Rows":
		o.multi = true
		o.run = func(db *gorm.DB) error {
			rows, err := db.Model(&txm.User{}).Where("age > ?", 1).Rows()
			if err != nil {
				return err
			}
			defer rows.Close()
			for rows.Next() {
				var u txm.User
				if err := db.ScanRows(rows, &u); err != nil {
					return err
				}
			}
			return nil
		}
	case "Scan":
		o.run = func(db *gorm.DB) error {
			return db.Model(&txm.User{}).Select("name, age").Scan(&[]struct {
				Name string
				Age  int64
			}{}).Error
		}
	case "Pluck":
		o.run = func(db *gorm.DB) error { var xs []string; return db.Model(&txm.User{}).Pluck("name", &xs).Error }
	case "Count":
		o.run = func(db *gorm.DB) error {
			var n int64
			return db.Model(&txm.User{}).Where("age > ?", 20).Count(&n).Error
		}
	case "First":
		o.run = func(db *gorm.DB) error { return db.First(&txm.User{}).Error }
	case "Last":
		o.run = func(db *gorm.DB) error { return db.Last(&txm.User{}).Error }
	case "FirstOrCreate":
		name := fmt.Sprintf("foc%d", r.Intn(1000))
		o.run = func(db *gorm.DB) error {
			return db.Where(txm.User{Name: name}).Attrs(txm.User{Age: 5}).FirstOrCreate(&txm.User{}).Error
		}
	case "FirstOrInit":
		o.run = func(db *gorm.DB) error { return db.Where(txm.User{Name: "nobody"}).FirstOrInit(&txm.User{}).Error }
	case "AssocAppend":
		o.run = func(db *gorm.DB) error {
			return db.Model(&txm.User{ID: 2}).Association("Orders").Append(&txm.Order{Item: "appended", Lines: []txm.Line{{Qty: 1}}})
		}
	case "AssocReplace":
		o.run = func(db *gorm.DB) error {
			return db.Model(&txm.User{ID: 1}).Association("Orders").Replace(&txm.Order{Item: "repl"}, &txm.Order{ID: 2, UserID: 1, Item: "ink"})
		}
	case "AssocDelete":
		o.run = func(db *gorm.DB) error {
			return db.Model(&txm.User{ID: 1}).Association("Orders").Delete(&txm.Order{ID: 1})
		}
	case "AssocClear":
		o.run = func(db *gorm.DB) error { return db.Model(&txm.User{ID: 1}).Association("Notes").Clear() }
	case "AssocCount":
		o.run = func(db *gorm.DB) error {
			a := db.Model(&txm.User{ID: 1}).Association("Roles")
			a.Count()
			return a.Error
		}
	case "AssocFind":
		o.run = func(db *gorm.DB) error {
			return db.Model(&txm.User{ID: 1}).Association("Roles").Find(&[]txm.Role{})
		}
	case "AssocAppendM2M":
		o.run = func(db *gorm.DB) error {
			return db.Model(&txm.User{ID: 3}).Association("Roles").Append(&txm.Role{ID: 1, Name: "admin"}, &txm.Role{Name: "fresh"})
		}
	case "AssocReplaceM2M":
		o.run = func(db *gorm.DB) error {
			return db.Model(&txm.User{ID: 1}).Association("Roles").Replace(&txm.Role{ID: 2, Name: "dev"})
		}
	case "Raw":
		o.run = func(db *gorm.DB) error {
			return db.Raw("SELECT name FROM users WHERE id = ?", 1).Scan(&[]string{}).Error
		}
	case "Exec":
		o.run = func(db *gorm.DB) error { return db.Exec("UPDATE users SET age = age + ? WHERE id = ?", 1, 1).Error }
	case "SavePoint":
		o.run = func(db *gorm.DB) error {
			return db.Transaction(func(tx *gorm.DB) error {
				if err := tx.Create(&txm.Company{Name: "sp"}).Error; err != nil {
					return err
				}
				tx.SavePoint("sp1")
				tx.Create(&txm.Company{Name: "sp2"})
				tx.RollbackTo("sp1")
				return tx.Transaction(func(tx2 *gorm.DB) error { return tx2.Model(&txm.User{ID: 1}).Update("age", 9).Error })
			})
		}
	case "NestedTxError":
		// the inner block fails: its ROLLBACK TO SAVEPOINT is a statement of the operation too
		o.run = func(db *gorm.DB) error {
			return db.Transaction(func(tx *gorm.DB) error {
				if err := tx.Create(&txm.Company{Name: "outer"}).Error; err != nil {
					return err
				}
				tx.Transaction(func(tx2 *gorm.DB) error {
					tx2.Create(&txm.Company{Name: "inner"})
					return fmt.Errorf("inner block fails")
				})
				return tx.Model(&txm.User{ID: 1}).Update("age", 8).Error
			})
		}
	case "NestedTxPanic":
		o.run = func(db *gorm.DB) error {
			return db.Transaction(func(tx *gorm.DB) error {
				func() {
					defer func() { recover() }()
					tx.Transaction(func(tx2 *gorm.DB) error {
						tx2.Create(&txm.Company{Name: "inner"})
						panic("inner block panics")
					})
				}()
				return tx.Create(&txm.Company{Name: "after"}).Error
			})
		}
	case "TxError":
		o.multi = true
		o.run = func(db *gorm.DB) error {
			db.Transaction(func(tx *gorm.DB) error {
				tx.Create(&txm.Company{Name: "gone"})
				return fmt.Errorf("block fails")
			})
			return db.First(&txm.Company{}).Error
		}
	case "SoftDeleteReturning":
		id := uint(1 + r.Intn(3))
		o.desc = fmt.Sprintf("SoftDeleteReturning db.Clauses(clause.Returning{}).Delete(&doc{ID:%d})", id)
		o.run = func(db *gorm.DB) error { return db.Clauses(clause.Returning{}).Delete(&doc{ID: id}).Error }
	case "SoftDeleteWhere":
		o.run = func(db *gorm.DB) error { return db.Where("name = ?", "d2").Delete(&[]doc{}).Error }
	case "UpsertCompany":
		o.run = func(db *gorm.DB) error {
			return db.Clauses(clause.OnConflict{UpdateAll: true}).Create(&[]txm.Company{{ID: 1, Name: "acme2"}, {Name: "fresh"}}).Error
		}
	default:
		panic(kind)
	}
	return o
}

func ctxEvents(evs []recdrv.Event) []recdrv.Event {
	var out []recdrv.Event
	for _, e := range evs {
		switch e.Kind {
		case recdrv.KBegin, recdrv.KPrepare, recdrv.KExec, recdrv.KQuery, recdrv.KStmtExec, recdrv.KStmtQuery:
			out = append(out, e)
		}
	}
	return out
}

// binding says where and how the operation's context is bound.
type binding struct {
	// how: 0 on the receiver (WithContext / Session{Context}); 1 by a scope that hands back d.WithContext(ctx);
	// 2 by a scope that hands back d.Session(&gorm.Session{Context: ctx})
	how int
	// depth: number of Transaction blocks already open when the context is bound (0 = before everything; a scope
	// binds on the handle given to the operation itself: depth == nest)
	depth int
	// outer: what the handle is bound to before that (the blocks opened above run under it): 0 nothing
	// (context.Background()), 1 another live context carrying the value "outer-of-<op>"
	outer int
}

// span: positions in the driver log of one run: [pre, lo) is what binding the handle sent (the siblings' statements),
// [lo, hi) what was sent on behalf of the bound handle
type span struct{ pre, lo, hi int }

func run(c *core.Ctx) {
	r := c.R
	prep := c.Case%2 == 1
	h := handles[c.Case%2]
	if err := reseed(h); err != nil {
		c.Inconclusive("could not restore the tables: " + err.Error())
		return
	}
	o := genOp(r, c.Case/2)
	nest := r.Intn(3)
	viaSession := r.Bool()
	opID := fmt.Sprintf("op-%d", c.Case)
	// the caller's context may carry a deadline (far away) or be a cancellable child: still the same context.
	// Every phase gets a fresh one (phase 1 ends its context after the operation to see which driver calls notice)
	ctxKind := (c.Case / 2) % 3
	newParent := func() (context.Context, context.CancelFunc) {
		p := context.WithValue(context.Background(), ctxKey{}, opID)
		switch ctxKind {
		case 1:
			return context.WithDeadline(p, time.Now().Add(6*time.Hour))
		case 2:
			return context.WithCancel(p)
		}
		return p, func() {}
	}
	sibling := r.Intn(6)                   // what else is derived from the context-bound handle before the operation uses it
	sibCtx := r.Intn(3)                    // the sibling's context: alive, already cancelled, deadline passed
	sibUse := r.Intn(2)                    // what the sibling is used for
	chain := r.Intn(7)                     // the bound handle may be a chain value (a chain method was called on it: clone == 0) instead of a session
	manualTx := r.Intn(3) == 0 && nest > 0 // outermost transaction by Begin / Commit / Rollback instead of a Transaction block
	sess := r.Intn(7)                      // further session options on the bound handle
	if sess > 3 || (prep && sess != 3) {
		sess = 0
	}
	// where the context is bound: before everything (half of the cases), inside the 1st..nest-th Transaction block
	// (on the block's tx), or by a scope of the chain handed to the operation
	var bd binding
	switch b := r.Intn(10); {
	case b >= 8 && !o.noScope && !o.multi:
		bd.how, bd.depth = 1+r.Intn(2), nest
	case b >= 5 && nest > 0:
		bd.depth = r.Range(1, nest)
	}
	if bd.how != 0 || bd.depth > 0 {
		bd.outer = r.Intn(2)
	}
	// Session{Context} may ask for a fresh statement as well (NewDB): still the handle at hand (same pool / tx), bound
	newDB := viaSession && bd.how == 0 && r.Intn(3) == 0
	// db.Connection(func(tx) ...): everything runs on ONE checked-out connection. connPos 1: the bound handle opens the
	// block (bound.Connection: the operation and the blocks opened below the binding run through the block's handle) -
	// only from a handle that is not inside a transaction (Connection would take a second connection there) and not
	// for a scope binding (Connection does not run scopes). connPos 2: the outer handle opens the block and the context
	// is bound inside it (on the block's handle, or deeper). conn 2 / 3: the block sends a statement of its own outside
	// any transaction before / after the rest and ignores its error (a block that only logs failures)
	conn, connPos := 0, 0
	if r.Intn(3) == 0 {
		conn = 1 + r.Intn(3)
		connPos = 1 + r.Intn(2)
		if connPos == 1 && (bd.depth != 0 || bd.how != 0) {
			connPos = 2
		}
	}
	// a chain value is good for ONE chain: an operation that starts two gets it only through a Transaction block
	if chain > 4 || (o.multi && bd.depth == nest && connPos != 1) {
		chain = 0
	}
	outerID := "outer-of-" + opID
	var outerVal interface{}
	if bd.outer == 1 {
		outerVal = outerID
	}
	bindDesc := []string{map[bool]string{true: "Session{Context}", false: "WithContext"}[viaSession] + map[bool]string{true: " (with NewDB)", false: ""}[newDB], "Scopes(func(d) d.WithContext(ctx))", "Scopes(func(d) d.Session(&Session{Context: ctx}))"}[bd.how]
	if bd.depth > 0 || bd.how != 0 {
		bindDesc += fmt.Sprintf(" on the handle inside %d open block(s), outer handle %s", bd.depth, []string{"unbound", "bound to another live context"}[bd.outer])
	}
	desc := fmt.Sprintf("prepareStmt=%v context=%s nest=%d%s via=%s%s session=%s chain=%s sibling=%d/%s :: %s", prep, []string{"value", "value+deadline", "value+cancellable"}[ctxKind], nest,
		map[bool]string{true: "(outermost by Begin/Commit)", false: ""}[manualTx], bindDesc,
		[]string{"", " then bound.Connection(", " inside outer.Connection("}[connPos]+[]string{"", "block)", "block: tx.Exec first, error ignored)", "block: tx.Raw last, error ignored)"}[conn],
		[]string{"-", "bound.Session{PrepareStmt}", "handle.Session{PrepareStmt} then bound", "bound.Session{SkipDefaultTransaction}"}[sess],
		[]string{"-", "bound.Set(k,v)", "bound.Scopes(identity)", "bound.Where(\"1 = 1\")", "bound.InstanceSet(k,v)"}[chain],
		sibling, []string{"live", "cancelled", "expired"}[sibCtx], o.desc)
	c.Logf("OP %s", desc)
	other := context.WithValue(context.Background(), ctxKey{}, "sibling-of-"+opID)
	switch sibCtx {
	case 1:
		var cancelO context.CancelFunc
		other, cancelO = context.WithCancel(other)
		cancelO()
	case 2:
		var cancelO context.CancelFunc
		other, cancelO = context.WithDeadline(other, time.Unix(1, 0))
		defer cancelO()
	}
	bindScope := func(how int, ctx context.Context) func(*gorm.DB) *gorm.DB {
		if how == 2 {
			return func(d *gorm.DB) *gorm.DB { return d.Session(&gorm.Session{Context: ctx}) }
		}
		return func(d *gorm.DB) *gorm.DB { return d.WithContext(ctx) }
	}
	// bindTo binds the handle at hand (the root handle, or the tx of a Transaction block) to ctx
	bindTo := func(root *gorm.DB, ctx context.Context) *gorm.DB {
		if sess == 2 {
			root = root.Session(&gorm.Session{PrepareStmt: true})
		}
		var base *gorm.DB
		switch {
		case bd.how != 0:
			base = root.Scopes(bindScope(bd.how, ctx))
		case viaSession:
			base = root.Session(&gorm.Session{Context: ctx, NewDB: newDB})
		default:
			base = root.WithContext(ctx)
		}
		switch sess {
		case 1:
			base = base.Session(&gorm.Session{PrepareStmt: true})
		case 3:
			base = base.Session(&gorm.Session{SkipDefaultTransaction: true})
		}
		// a chain value bound to the context: it is good for ONE chain (the operation), but sessions may be derived
		// from it (Session / WithContext clone its statement) before that without touching it
		switch chain {
		case 1:
			base = base.Set("verif:c18", opID)
		case 2:
			base = base.Scopes(func(d *gorm.DB) *gorm.DB { return d })
		case 3:
			base = base.Where("1 = 1")
		case 4:
			base = base.InstanceSet("verif:c18", opID)
		}
		// a handle bound to a context is reusable: sessions derived from it for other work carry their
		// own context and leave the handle's alone
		var sib *gorm.DB
		switch sibling {
		case 1:
			sib = base.Session(&gorm.Session{NewDB: true, Context: other})
		case 2:
			sib = base.Session(&gorm.Session{Context: other})
		case 3:
			sib = base.WithContext(other)
		case 4:
			sib = base.Session(&gorm.Session{NewDB: true, Context: other, PrepareStmt: true})
		case 5:
			sib = base.Debug().WithContext(other)
		}
		if sib != nil {
			if sibUse == 0 {
				var one int
				sib.Raw("SELECT 1").Scan(&one)
			} else {
				var n int64
				sib.Table("companies").Count(&n)
			}
		}
		return base
	}
	// exec runs the operation inside its blocks; [lo, hi) is the part of the driver log made on behalf of the handle
	// bound to ctx (the operation and the blocks opened from the bound handle); what lies outside (the blocks opened
	// above the binding, their SAVEPOINT / ROLLBACK TO) belongs to the outer handle.
	// rebind: 1 / 2 = the bound handle is bound again to context.Background() (WithContext / Session{Context};
	// for a scope binding: by one more scope of that form)
	blockRan := false // a Connection block was entered during the last exec
	exec := func(ctx context.Context, rebind int) (err error, w span) {
		blockRan = false
		pre, lo, hi := -1, -1, -1
		var f func(db *gorm.DB, n int) error
		inConn := false
		connBlock := func(db *gorm.DB, body func(tx *gorm.DB) error) error {
			return db.Connection(func(tx *gorm.DB) error {
				blockRan = true
				if conn == 2 {
					tx.Exec("UPDATE companies SET name = name || ? WHERE id = ?", "+", 1)
				}
				err := body(tx)
				if conn == 3 {
					var one int
					tx.Raw("SELECT count(*) FROM users").Scan(&one)
				}
				return err
			})
		}
		f = func(db *gorm.DB, n int) error {
			if nest-n == bd.depth && !inConn {
				pre = h.Rec.Mark() // what the siblings derived while binding send is theirs
				db = bindTo(db, ctx)
				switch {
				case rebind != 0 && bd.how != 0:
					db = db.Scopes(bindScope(rebind, context.Background()))
				case rebind == 1:
					db = db.WithContext(context.Background())
				case rebind == 2:
					db = db.Session(&gorm.Session{Context: context.Background()})
				}
				lo = h.Rec.Mark()
				defer func() { hi = h.Rec.Mark() }()
				if connPos == 1 {
					// everything below runs on one checked-out connection, through the block's handle (a session)
					inConn = true
					return connBlock(db, func(tx *gorm.DB) error { return f(tx, n) })
				}
			}
			if n == 0 {
				return o.run(db)
			}
			if manualTx && n == nest {
				tx := db.Begin()
				if tx.Error != nil {
					return tx.Error
				}
				if err := f(tx, n-1); err != nil {
					tx.Rollback()
					return err
				}
				return tx.Commit().Error
			}
			return db.Transaction(func(tx *gorm.DB) error { return f(tx, n-1) })
		}
		root := h.DB
		if bd.outer == 1 {
			root = h.DB.WithContext(context.WithValue(context.Background(), ctxKey{}, outerID))
		}
		if connPos == 2 {
			err = connBlock(root, func(tx *gorm.DB) error { return f(tx, nest) })
		} else {
			err = f(root, nest)
		}
		end := h.Rec.Mark()
		if pre < 0 {
			pre = end
		}
		if lo < 0 {
			lo = end
		}
		if hi < 0 {
			hi = end
		}
		return err, span{pre, lo, hi}
	}
	// window splits the context-carrying driver calls made since mark into those of the bound handle and the others
	window := func(mark int, w span) (in, out []recdrv.Event) {
		all := h.Rec.Since(mark)
		in = ctxEvents(all[w.lo-mark : w.hi-mark])
		out = append(ctxEvents(all[:w.pre-mark]), ctxEvents(all[w.hi-mark:])...)
		return
	}
	name := strings.Fields(o.desc)[0]
	// (1) live context
	parent1, cancelParent1 := newParent()
	defer cancelParent1()
	txm.ResetHooks()
	mark := h.Rec.Mark()
	err, w := exec(parent1, 0)
	liveErr := err
	evs, outEvs := window(mark, w)
	hooks := txm.H.Log
	c.Logf("  %d context-carrying driver calls on behalf of the bound handle, %d of the blocks above it, %d hooks", len(evs), len(outEvs), len(hooks))
	var problems []string
	if err != nil {
		c.Inc("op_errors")
		c.Logf("  op error: %v", err)
		if errors.Is(err, context.Canceled) || errors.Is(err, context.DeadlineExceeded) {
			problems = append(problems, fmt.Sprintf("the operation failed with %q although its context is alive (no context but the sibling's has ended)", err))
		}
	}
	for _, e := range evs {
		if e.CtxVal != opID {
			problems = append(problems, fmt.Sprintf("driver call without the operation's context (value %v): %s", e.CtxVal, short(e.String())))
		} else if e.CtxErr != nil {
			problems = append(problems, fmt.Sprintf("driver call under a context that had ended (%v) although the operation's is alive: %s", e.CtxErr, short(e.String())))
		}
	}
	for _, e := range outEvs {
		// the blocks opened above the binding were started from the outer handle: they keep its context
		if e.CtxVal != outerVal || e.CtxErr != nil {
			problems = append(problems, fmt.Sprintf("driver call of a block opened from the outer handle (context value %v) carries context value %v (err %v): %s", outerVal, e.CtxVal, e.CtxErr, short(e.String())))
		}
	}
	for _, hk := range hooks {
		if hk.CtxVal != opID {
			problems = append(problems, fmt.Sprintf("hook %s received a handle without the operation's context (value %v)", hk.String(), hk.CtxVal))
		}
	}
	c.Inc("operations")
	c.Add("driver_events_checked", len(evs)+len(outEvs))
	c.Add("hook_contexts_checked", len(hooks))
	// the context OBJECT of every driver call is the caller's: same deadline, and when the caller's context ends
	// (after the operation) the context of every call the operation made has ended too
	var detached []string
	pdl, pok := parent1.Deadline()
	for _, e := range evs {
		if e.Ctx == nil {
			detached = append(detached, "driver call without any context: "+short(e.String()))
			continue
		}
		if dl, ok := e.Ctx.Deadline(); ok != pok || !dl.Equal(pdl) {
			detached = append(detached, fmt.Sprintf("driver call under a context with another deadline (has one: %v) than the caller's (has one: %v): %s", ok, pok, short(e.String())))
		}
	}
	cancelParent1()
	if ctxKind != 0 {
		for _, e := range evs {
			if e.Ctx != nil && e.Ctx.Err() == nil {
				detached = append(detached, fmt.Sprintf("driver call under a context that does not end when the caller's is cancelled (Done()==nil: %v, Err()==nil): %s", e.Ctx.Done() == nil, short(e.String())))
			}
		}
		c.Add("driver_contexts_cancelled_after", len(evs))
	}
	if len(detached) > 0 {
		c.Violation("ctx-detached/"+name, map[string]interface{}{"op": desc, "problems": detached})
	}
	if len(problems) > 0 {
		c.Violation("ctx-lost/"+name, map[string]interface{}{"op": desc, "problems": problems})
	} else if len(evs) >= 2 {
		kinds := map[recdrv.Kind]bool{}
		for _, e := range evs {
			kinds[e.Kind] = true
		}
		c.Shape(name, prep, nest, viaSession, len(kinds), len(evs) > 6, chain > 0, manualTx, sess, bd.how, bd.depth, bd.outer, conn, connPos)
		if conn != 0 {
			c.Inc("connection_block_runs")
		}
		if chain > 0 && sibling > 0 {
			c.Inc("chain_value_with_sibling_runs")
		}
		if bd.how != 0 {
			c.Inc("bound_by_a_scope_runs")
		} else if bd.depth > 0 {
			c.Inc("bound_inside_a_block_runs")
		}
		if c.WantSample() && len(evs) > 4 {
			ss := []string{}
			for _, e := range evs {
				ss = append(ss, fmt.Sprintf("%s ctx=%v %s", e.Kind, e.CtxVal, short(e.Query)))
			}
			c.Sample(map[string]interface{}{"op": desc, "events": ss})
		}
	}
	parent, cancelParent := newParent()
	defer cancelParent()
	// (2) already-cancelled context: no statement may run
	if err := reseed(h); err != nil {
		c.Inconclusive("could not restore the tables: " + err.Error())
		return
	}
	cctx, cancel := context.WithCancel(parent)
	cancel()
	if c.Case%4 >= 2 {
		// ... or one whose deadline has passed
		cctx, cancel = context.WithDeadline(parent, time.Unix(1, 0))
		defer cancel()
	}
	txm.ResetHooks()
	mark = h.Rec.Mark()
	err, w = exec(cctx, 0)
	var ran []string
	allOnConn := true
	for _, e := range h.Rec.Since(mark)[w.lo-mark : w.hi-mark] {
		if e.IsStatement() || e.Kind == recdrv.KBegin {
			ran = append(ran, short(e.String()))
			allOnConn = allOnConn && onCheckedOutConn(connPos, opID, e)
		}
	}
	c.Inc("cancelled_runs")
	if len(ran) > 0 || err == nil || (connPos == 1 && blockRan) {
		p := []string{}
		if len(ran) > 0 {
			p = append(p, fmt.Sprintf("%d driver calls ran under an already-cancelled context: %v", len(ran), ran))
		}
		if err == nil {
			p = append(p, "no error returned for a cancelled context")
		}
		sig := "cancelled/" + name
		// (bound.Connection itself must refuse an already-cancelled context: only a block opened by the outer handle
		// can get as far as a statement on the connection)
		if len(ran) > 0 && allOnConn && connPos == 2 {
			sig = sigOnConn
		}
		if connPos == 1 && blockRan {
			p = append(p, "bound.Connection entered its block although the bound context had already ended")
		}
		c.Violation(sig, map[string]interface{}{"op": desc, "problems": p})
	}
	// (2b) a handle bound to a (cancelled) context and bound again to context.Background(): the operation runs under
	// the new context; nothing of the old one (its value, its cancellation) reaches a driver call or a hook
	if c.Case%3 == 0 {
		if err := reseed(h); err != nil {
			c.Inconclusive("could not restore the tables: " + err.Error())
			return
		}
		txm.ResetHooks()
		mark = h.Rec.Mark()
		rerr, w := exec(cctx, 1+c.Case%2)
		in, _ := window(mark, w)
		var p []string
		for _, e := range in {
			if e.CtxVal != nil || e.CtxErr != nil {
				p = append(p, fmt.Sprintf("a driver call of the re-bound handle still carries the old context (value %v, err %v): %s", e.CtxVal, e.CtxErr, short(e.String())))
				break
			}
		}
		for _, hk := range txm.H.Log {
			if hk.CtxVal != nil {
				p = append(p, fmt.Sprintf("hook %s of the re-bound handle received the old context (value %v)", hk.String(), hk.CtxVal))
				break
			}
		}
		if (rerr == nil) != (liveErr == nil) {
			p = append(p, fmt.Sprintf("re-bound to context.Background() the operation returned %v, under its live context %v", rerr, liveErr))
		}
		c.Inc("rebound_to_background_runs")
		if len(p) > 0 {
			c.Violation("rebound/"+name, map[string]interface{}{"op": desc, "problems": p})
		}
	}
	// (3) cancelled in mid-operation, at up to 3 (thorough: every) positions
	K := len(evs)
	var ks []int
	if c.Thorough || K <= 4 {
		for k := 1; k < K; k++ {
			ks = append(ks, k)
		}
	} else {
		ks = []int{1, 1 + r.Intn(K-1), K - 1}
	}
	for _, k := range ks {
		if err := reseed(h); err != nil {
			c.Inconclusive("could not restore the tables after a cancelled run: " + err.Error())
			return
		}
		cancelMidway(c, h, parent, opID, exec, window, k, desc, name, connPos)
	}
}

// cancelMidway runs the operation once more and cancels its context while the k-th driver call made under it
// is being made (that call itself may still complete): no later call on behalf of the bound handle may reach the
// driver, an error must come back. A statement issued through a fresh internal session after that point would show
// here. (Calls of blocks opened from an outer handle - their ROLLBACK TO SAVEPOINT - are under the outer context.)
func cancelMidway(c *core.Ctx, h *vdb.Handle, parent context.Context, opID string, exec func(context.Context, int) (error, span),
	window func(mark int, w span) (in, out []recdrv.Event), k int, desc, name string, connPos int) {
	cctx, cancel := context.WithCancel(parent)
	defer cancel()
	txm.ResetHooks()
	var n, cancelSeq, cancelStmt int64
	h.Rec.SetHook(func(ev *recdrv.Event) error {
		switch ev.Kind {
		case recdrv.KBegin, recdrv.KPrepare, recdrv.KExec, recdrv.KQuery, recdrv.KStmtExec, recdrv.KStmtQuery:
			if ev.CtxVal != opID {
				return nil
			}
			if atomic.AddInt64(&n, 1) == int64(k) {
				atomic.StoreInt64(&cancelSeq, ev.Seq)
				if ev.Kind == recdrv.KPrepare {
					// database/sql prepares a statement on the connection at hand and executes it there within ONE
					// of its calls: the execution of this very driver statement still belongs to the call in flight
					atomic.StoreInt64(&cancelStmt, ev.Stmt)
				}
				cancel()
			}
		}
		return nil
	})
	mark := h.Rec.Mark()
	err, w := exec(cctx, 0)
	h.Rec.SetHook(nil)
	cs := atomic.LoadInt64(&cancelSeq)
	if cs == 0 {
		return // the operation made fewer calls this time
	}
	c.Inc("cancelled_midway_runs")
	var ran []string
	allOnConn := true
	in, _ := window(mark, w)
	for _, e := range in {
		if e.Seq > cs && !(e.Stmt != 0 && e.Stmt == atomic.LoadInt64(&cancelStmt) && (e.Kind == recdrv.KStmtExec || e.Kind == recdrv.KStmtQuery)) {
			ran = append(ran, fmt.Sprintf("(context value %v, its Err at the call: %v) %s", e.CtxVal, e.CtxErr, short(e.String())))
			allOnConn = allOnConn && onCheckedOutConn(connPos, opID, e)
		}
	}
	var p []string
	if len(ran) > 0 {
		p = append(p, fmt.Sprintf("%d driver calls were made after the context had been cancelled during call %d: %v", len(ran), k, ran))
	}
	if err == nil && len(ran) > 0 {
		p = append(p, "and no error was returned")
	}
	if len(p) > 0 {
		sig := "cancelled-midway/" + name
		if len(ran) > 0 && allOnConn {
			sig = sigOnConn
		}
		c.Violation(sig, map[string]interface{}{"op": desc, "cancelled_during_call": k, "problems": p})
	}
}

// sigOnConn is the one class of violation of its own: inside a db.Connection block a statement (or a BEGIN) started
// from a handle whose context has ALREADY ended is handed to the driver - with that ended context - directly on the
// checked-out *sql.Conn, outside any transaction (sql.Conn does not look at the context before calling the driver,
// sql.DB and sql.Tx do, and gorm does not look either)
const sigOnConn = "ended-context-statement-on-checked-out-connection"

func onCheckedOutConn(connPos int, opID string, e recdrv.Event) bool {
	// (a call whose context has ended reaches the driver only that way: sql.DB and sql.Tx refuse it before)
	return connPos != 0 && e.CtxVal == opID && e.CtxErr != nil
}

// reseed restores the tables. A run whose context was cancelled may have left a transaction that database/sql
// rolls back on a goroutine of its own, or rows it closes there: wait for that (bounded), then retry on "locked".
func reseed(h *vdb.Handle) error {
	for i := 0; i < 2000; i++ {
		if ct := h.Rec.Counters(); ct.OpenTx == 0 && ct.OpenRows == 0 {
			break
		}
		time.Sleep(time.Millisecond)
	}
	var err error
	for i := 0; i < 400; i++ {
		if _, err = h.SQL.Exec(txm.SeedSQL + seedDocs); err == nil || !strings.Contains(err.Error(), "locked") {
			return err
		}
		time.Sleep(5 * time.Millisecond)
	}
	return err
}

func short(s string) string {
	if len(s) > 140 {
		return s[:140] + "…"
	}
	return s
}

var Engine = &core.Engine{
	ID:    "C18",
	Level: "exploration",
	Rule: "operations = the 19 write kinds of C05 over seeded association graphs (hooks write through tx; Delete/Updates with RETURNING among them) + 40 read / association-mode / raw / savepoint / failing-nested-block / migrator / transaction-with-options kinds (Migrator HasTable/HasColumn/HasIndex, Migrator ColumnTypes/GetTables, Transaction(fc, &sql.TxOptions{}), Begin(&sql.TxOptions{})/Commit, nested and conditional Preload, clause.Associations, Joins, Joins with nested Preload, FindInBatches with a statement in the callback, FindInBatches with Where/Or/Limit/Offset and a write through the batch handle, Rows+ScanRows, Row, Scan, Pluck, Count, First/Last/Take, Find into maps, a chain whose own scopes add a condition and hand back a new session, FirstOrCreate/Init, Association Append/Replace/Delete/Clear/Count/Find on has-many and many-to-many, Raw, Exec, SavePoint/RollbackTo/nested Transaction, soft delete with and without RETURNING, OnConflict upsert) x {PrepareStmt off, on by config, on by Session{PrepareStmt} before or after binding the context, Session{SkipDefaultTransaction}} x nesting in 0..2 Transaction blocks (outermost one in three by Begin/Commit/Rollback) x {WithContext, Session{Context}, Session{Context, NewDB}} x where the context is bound {on the root handle before everything (half of the cases); on the tx of the 1st..nest-th Transaction block, the blocks above it opened from an outer handle that is unbound or bound to another live context; by a scope of the chain handed to the operation that hands back d.WithContext(ctx) or d.Session(&Session{Context: ctx}), receiver unbound or bound to another live context} x db.Connection block {none (two in three); opened by the bound handle (bound.Connection: only for a binding on the root handle, not by a scope) so that the operation and the blocks below run through the block's handle; opened by the outer handle with the context bound inside it} x the block sends {nothing more, an Exec of its own first, a Raw of its own last - outside any transaction, error ignored} x caller's context {value, value+far deadline, value+cancellable} x bound handle {session, chain value: Set / Scopes / Where / InstanceSet called on it, used for the one chain of the operation} x {nothing, one of five sibling sessions with another context (alive, cancelled, expired) derived from the bound handle / chain value and used (Raw or Count) first}; " +
		"each run: (1) live context: every begin/prepare/exec/query/prepared-exec event made on behalf of the bound handle (from the binding to the end of the block it happened in) and every hook shows the operation id, no call's context had ended, no context error comes back; the calls of the blocks above the binding (BEGIN, SAVEPOINT, ROLLBACK TO) show the outer handle's context; the context object of every call has the caller's deadline, and once the caller's context is cancelled after the operation the context of every call it made reports an error; (2) already cancelled / expired context: no driver statement, error returned, a Connection block of the bound handle is not entered; (2b, one in three) that handle bound again to context.Background() (for a scope binding: by one more scope): nothing of the old context reaches a call; (3) context cancelled during the k-th call made under it (3 positions, thorough: all): no later call on behalf of the bound handle; distinct = (operation, PrepareStmt, nesting, entry, event kinds, size class, chain value, manual transaction, session option, binding form, binding depth, outer handle, connection block and its position); a statement or BEGIN that reaches the driver with the operation's ENDED context inside a Connection block (possible only directly on the checked-out *sql.Conn) is the class of its own ended-context-statement-on-checked-out-connection - except when bound.Connection was called with the context already ended, which must fail before the block (cancelled/<op>); non-trivial = at least 2 context-carrying driver events",
	Assumptions: []string{
		"COMMIT/ROLLBACK carry no context in database/sql's driver interface and are not checked",
		"SQLite behind the recording driver; prepared-statement preparation is observed as a prepare event with its context",
		"a chain value (clone==0 result of a chain method) is used for exactly one chain; operations that start two chains from their handle (Rows+ScanRows, TxError) get a chain value only inside a Transaction block (whose tx is a session)",
		"'receives that context' is checked by what the driver can observe of it: the identifying value, the deadline (equal to the caller's) and, for cancellable callers, that cancelling the caller's context ends it; for a plain value context (never ends) only value and absence of a deadline are demanded; object identity is not demanded",
		"DryRun sessions are not generated (no driver call: C19). db.Connection blocks are opened only from a handle that is not inside a transaction (inside one Connection checks out a second connection) and never on a chain that carries the binding scope (Connection does not run scopes)",
		"the migrator is used for look-ups only (HasTable / HasColumn / HasIndex / ColumnTypes / GetTables), from a reusable handle; schema changes are C20's",
		"a context bound by a scope takes effect when the scopes run: it is generated only for operations whose every driver call comes after that (finishers that go through the callback processors, FindInBatches, FirstOrCreate/Init, Save). Not generated, because the statement does not say which context applies before the scopes have run: Transaction / Begin / SavePoint called on a chain that carries the scope (they do not run scopes), CreateInBatches (several batches open a block of their own first), association mode (it never runs scopes as a step of its own), operations that start two chains from their handle",
		"inside a Transaction block the context is bound on the block's tx (tx.WithContext / tx.Session{Context}); the blocks above run under the outer handle's context, which stays alive, so a cancelled operation context never ends the enclosing transaction by itself",
	},
	Cases: func(tier string) int {
		if tier == "thorough" {
			return 118 * 466
		}
		return 118 * 47
	},
	Batch:         func(string) int { return 40 },
	Run:           run,
	Init:          initEnv,
	MinNontrivial: 50,
}

// Package c18: every statement of an operation carries the caller's context.
//
// Each operation is started from WithContext / Session{Context} with a context carrying a
// unique operation id; the recording driver stores ctx.Value(key) for every begin / prepare /
// exec / query / prepared-statement call. Oracle: every such event between the operation's
// start and end marks shows the operation's id (and so do the contexts seen by hooks);
// with an already-cancelled context no statement event occurs and an error is returned.
package c18

import (
	"context"
	"fmt"
	"strings"
	"sync/atomic"
	"time"

	"gorm.io/gorm"
	"gorm.io/gorm/clause"

	"verif/core"
	"verif/recdrv"
	"verif/txm"
	"verif/vdb"
)

type ctxKey struct{}

var handles [2]*vdb.Handle // [0] plain, [1] PrepareStmt

func initEnv(c *core.Ctx) {
	for i := range handles {
		h, err := vdb.Open(vdb.Options{CtxKey: ctxKey{}, Config: gorm.Config{PrepareStmt: i == 1}})
		if err != nil {
			panic(err)
		}
		if err := h.DB.AutoMigrate(txm.AllModels...); err != nil {
			panic(err)
		}
		handles[i] = h
	}
	txm.H.Enabled = true
	txm.H.Audit = true
	txm.H.SetCols = true
	txm.H.CtxKey = ctxKey{}
}

type op struct {
	desc string
	run  func(db *gorm.DB) error
}

var readKinds = []string{"PreloadNested", "PreloadAll", "JoinsCompany", "FindInBatches", "Rows", "Scan", "Pluck", "Count", "First", "Last", "FirstOrCreate", "FirstOrInit",
	"AssocAppend", "AssocReplace", "AssocDelete", "AssocClear", "AssocCount", "AssocFind", "AssocAppendM2M", "AssocReplaceM2M", "Raw", "Exec", "SavePoint", "PreloadCond",
	"NestedTxError", "NestedTxPanic", "TxError"}

func genOp(r *core.Rand, idx int) op {
	nk := len(txm.OpKinds)
	if idx%(nk+len(readKinds)) < nk {
		o := txm.GenOp(txm.OpKinds[idx%(nk+len(readKinds))], r.U64())
		return op{desc: o.Desc, run: func(db *gorm.DB) error { return o.Run(db).Error }}
	}
	kind := readKinds[idx%(nk+len(readKinds))-nk]
	o := op{desc: kind}
	switch kind {
	case "PreloadNested":
		o.run = func(db *gorm.DB) error {
			return db.Preload("Orders.Lines").Preload("Company").Preload("Roles").Find(&[]txm.User{}).Error
		}
	case "PreloadAll":
		o.run = func(db *gorm.DB) error { return db.Preload(clause.Associations).Find(&[]txm.User{}).Error }
	case "PreloadCond":
		o.run = func(db *gorm.DB) error {
			return db.Preload("Orders", "item <> ?", "x").Preload("Notes", func(tx *gorm.DB) *gorm.DB { return tx.Order("id") }).First(&txm.User{}, 1).Error
		}
	case "JoinsCompany":
		o.run = func(db *gorm.DB) error { return db.Joins("Company").Preload("Profile").Find(&[]txm.User{}).Error }
	case "FindInBatches":
		o.run = func(db *gorm.DB) error {
			var us []txm.User
			return db.Preload("Orders").FindInBatches(&us, 2, func(tx *gorm.DB, batch int) error {
				// a statement issued through the batch handle is part of the operation
				var n int64
				return tx.Model(&txm.Order{}).Count(&n).Error
			}).Error
		}
	case "Rows":
		o.run = func(db *gorm.DB) error {
			rows, err := db.Model(&txm.User{}).Where("age > ?", 1).Rows()
			if err != nil {
				return err
			}
			defer rows.Close()
			for rows.Next() {
				var u txm.User
				if err := db.ScanRows(rows, &u); err != nil {
					return err
				}
			}
			return nil
		}
	case "Scan":
		o.run = func(db *gorm.DB) error {
			return db.Model(&txm.User{}).Select("name, age").Scan(&[]struct {
				Name string
				Age  int64
			}{}).Error
		}
	case "Pluck":
		o.run = func(db *gorm.DB) error { var xs []string; return db.Model(&txm.User{}).Pluck("name", &xs).Error }
	case "Count":
		o.run = func(db *gorm.DB) error {
			var n int64
			return db.Model(&txm.User{}).Where("age > ?", 20).Count(&n).Error
		}
	case "First":
		o.run = func(db *gorm.DB) error { return db.First(&txm.User{}).Error }
	case "Last":
		o.run = func(db *gorm.DB) error { return db.Last(&txm.User{}).Error }
	case "FirstOrCreate":
		name := fmt.Sprintf("foc%d", r.Intn(1000))
		o.run = func(db *gorm.DB) error {
			return db.Where(txm.User{Name: name}).Attrs(txm.User{Age: 5}).FirstOrCreate(&txm.User{}).Error
		}
	case "FirstOrInit":
		o.run = func(db *gorm.DB) error { return db.Where(txm.User{Name: "nobody"}).FirstOrInit(&txm.User{}).Error }
	case "AssocAppend":
		o.run = func(db *gorm.DB) error {
			return db.Model(&txm.User{ID: 2}).Association("Orders").Append(&txm.Order{Item: "appended", Lines: []txm.Line{{Qty: 1}}})
		}
	case "AssocReplace":
		o.run = func(db *gorm.DB) error {
			return db.Model(&txm.User{ID: 1}).Association("Orders").Replace(&txm.Order{Item: "repl"}, &txm.Order{ID: 2, UserID: 1, Item: "ink"})
		}
	case "AssocDelete":
		o.run = func(db *gorm.DB) error {
			return db.Model(&txm.User{ID: 1}).Association("Orders").Delete(&txm.Order{ID: 1})
		}
	case "AssocClear":
		o.run = func(db *gorm.DB) error { return db.Model(&txm.User{ID: 1}).Association("Notes").Clear() }
	case "AssocCount":
		o.run = func(db *gorm.DB) error {
			a := db.Model(&txm.User{ID: 1}).Association("Roles")
			a.Count()
			return a.Error
		}
	case "AssocFind":
		o.run = func(db *gorm.DB) error {
			return db.Model(&txm.User{ID: 1}).Association("Roles").Find(&[]txm.Role{})
		}
	case "AssocAppendM2M":
		o.run = func(db *gorm.DB) error {
			return db.Model(&txm.User{ID: 3}).Association("Roles").Append(&txm.Role{ID: 1, Name: "admin"}, &txm.Role{Name: "fresh"})
		}
	case "AssocReplaceM2M":
		o.run = func(db *gorm.DB) error {
			return db.Model(&txm.User{ID: 1}).Association("Roles").Replace(&txm.Role{ID: 2, Name: "dev"})
		}
	case "Raw":
		o.run = func(db *gorm.DB) error {
			return db.Raw("SELECT name FROM users WHERE id = ?", 1).Scan(&[]string{}).Error
		}
	case "Exec":
		o.run = func(db *gorm.DB) error { return db.Exec("UPDATE users SET age = age + ? WHERE id = ?", 1, 1).Error }
	case "SavePoint":
		o.run = func(db *gorm.DB) error {
			return db.Transaction(func(tx *gorm.DB) error {
				if err := tx.Create(&txm.Company{Name: "sp"}).Error; err != nil {
					return err
				}
				tx.SavePoint("sp1")
				tx.Create(&txm.Company{Name: "sp2"})
				tx.RollbackTo("sp1")
				return tx.Transaction(func(tx2 *gorm.DB) error { return tx2.Model(&txm.User{ID: 1}).Update("age", 9).Error })
			})
		}
	case "NestedTxError":
		// the inner block fails: its ROLLBACK TO SAVEPOINT is a statement of the operation too
		o.run = func(db *gorm.DB) error {
			return db.Transaction(func(tx *gorm.DB) error {
				if err := tx.Create(&txm.Company{Name: "outer"}).Error; err != nil {
					return err
				}
				tx.Transaction(func(tx2 *gorm.DB) error {
					tx2.Create(&txm.Company{Name: "inner"})
					return fmt.Errorf("inner block fails")
				})
				return tx.Model(&txm.User{ID: 1}).Update("age", 8).Error
			})
		}
	case "NestedTxPanic":
		o.run = func(db *gorm.DB) error {
			return db.Transaction(func(tx *gorm.DB) error {
				func() {
					defer func() { recover() }()
					tx.Transaction(func(tx2 *gorm.DB) error {
						tx2.Create(&txm.Company{Name: "inner"})
						panic("inner block panics")
					})
				}()
				return tx.Create(&txm.Company{Name: "after"}).Error
			})
		}
	case "TxError":
		o.run = func(db *gorm.DB) error {
			db.Transaction(func(tx *gorm.DB) error {
				tx.Create(&txm.Company{Name: "gone"})
				return fmt.Errorf("block fails")
			})
			return db.First(&txm.Company{}).Error
		}
	default:
		panic(kind)
	}
	return o
}

func ctxEvents(evs []recdrv.Event) []recdrv.Event {
	var out []recdrv.Event
	for _, e := range evs {
		switch e.Kind {
		case recdrv.KBegin, recdrv.KPrepare, recdrv.KExec, recdrv.KQuery, recdrv.KStmtExec, recdrv.KStmtQuery:
			out = append(out, e)
		}
	}
	return out
}

func run(c *core.Ctx) {
	r := c.R
	prep := c.Case%2 == 1
	h := handles[c.Case%2]
	if err := reseed(h); err != nil {
		c.Inconclusive("could not restore the tables: " + err.Error())
		return
	}
	o := genOp(r, c.Case/2)
	nest := r.Intn(3)
	viaSession := r.Bool()
	opID := fmt.Sprintf("op-%d", c.Case)
	parent := context.WithValue(context.Background(), ctxKey{}, opID)
	// the caller's context may carry a deadline (far away) or be a cancellable child: still the same context
	ctxKind := (c.Case / 2) % 3
	switch ctxKind {
	case 1:
		var cancelDl context.CancelFunc
		parent, cancelDl = context.WithDeadline(parent, time.Now().Add(6*time.Hour))
		defer cancelDl()
	case 2:
		var cancelP context.CancelFunc
		parent, cancelP = context.WithCancel(parent)
		defer cancelP()
	}
	sibling := r.Intn(6) // what else is derived from the context-bound handle before the operation uses it
	desc := fmt.Sprintf("prepareStmt=%v context=%s nest=%d via=%s sibling=%d :: %s", prep, []string{"value", "value+deadline", "value+cancellable"}[ctxKind], nest, map[bool]string{true: "Session{Context}", false: "WithContext"}[viaSession], sibling, o.desc)
	c.Logf("OP %s", desc)
	other := context.WithValue(context.Background(), ctxKey{}, "sibling-of-"+opID)
	mk := func(ctx context.Context) *gorm.DB {
		var base *gorm.DB
		if viaSession {
			base = h.DB.Session(&gorm.Session{Context: ctx})
		} else {
			base = h.DB.WithContext(ctx)
		}
		// a handle bound to a context is reusable: sessions derived from it for other work carry their
		// own context and leave the handle's alone
		var sib *gorm.DB
		switch sibling {
		case 1:
			sib = base.Session(&gorm.Session{NewDB: true, Context: other})
		case 2:
			sib = base.Session(&gorm.Session{Context: other})
		case 3:
			sib = base.WithContext(other)
		case 4:
			sib = base.Session(&gorm.Session{NewDB: true, Context: other, PrepareStmt: true})
		case 5:
			sib = base.Debug().WithContext(other)
		}
		if sib != nil {
			var one int
			sib.Raw("SELECT 1").Scan(&one)
		}
		return base
	}
	exec := func(db *gorm.DB) error {
		var f func(db *gorm.DB, n int) error
		f = func(db *gorm.DB, n int) error {
			if n == 0 {
				return o.run(db)
			}
			return db.Transaction(func(tx *gorm.DB) error { return f(tx, n-1) })
		}
		return f(db, nest)
	}
	// (1) live context
	bound := mk(parent)
	txm.ResetHooks()
	mark := h.Rec.Mark()
	err := exec(bound)
	liveErr := err
	evs := ctxEvents(h.Rec.Since(mark))
	hooks := txm.H.Log
	var problems []string
	if err != nil {
		c.Inc("op_errors")
		c.Logf("  op error: %v", err)
	}
	for _, e := range evs {
		if e.CtxVal != opID {
			problems = append(problems, fmt.Sprintf("driver call without the operation's context (value %v): %s", e.CtxVal, short(e.String())))
		}
	}
	for _, hk := range hooks {
		if hk.CtxVal != opID {
			problems = append(problems, fmt.Sprintf("hook %s received a handle without the operation's context (value %v)", hk.String(), hk.CtxVal))
		}
	}
	c.Inc("operations")
	c.Add("driver_events_checked", len(evs))
	c.Add("hook_contexts_checked", len(hooks))
	if len(problems) > 0 {
		c.Violation("ctx-lost/"+strings.Fields(o.desc)[0], map[string]interface{}{"op": desc, "problems": problems})
	} else if len(evs) >= 2 {
		kinds := map[recdrv.Kind]bool{}
		for _, e := range evs {
			kinds[e.Kind] = true
		}
		c.Shape(strings.Fields(o.desc)[0], prep, nest, viaSession, len(kinds), len(evs) > 6)
		if c.WantSample() && len(evs) > 4 {
			ss := []string{}
			for _, e := range evs {
				ss = append(ss, fmt.Sprintf("%s ctx=%v %s", e.Kind, e.CtxVal, short(e.Query)))
			}
			c.Sample(map[string]interface{}{"op": desc, "events": ss})
		}
	}
	// (2) already-cancelled context: no statement may run
	if err := reseed(h); err != nil {
		c.Inconclusive("could not restore the tables: " + err.Error())
		return
	}
	cctx, cancel := context.WithCancel(parent)
	cancel()
	if c.Case%4 >= 2 {
		// ... or one whose deadline has passed
		cctx, cancel = context.WithDeadline(parent, time.Unix(1, 0))
		defer cancel()
	}
	bound = mk(cctx)
	txm.ResetHooks()
	mark = h.Rec.Mark()
	err = exec(bound)
	var ran []string
	for _, e := range h.Rec.Since(mark) {
		if e.IsStatement() || e.Kind == recdrv.KBegin {
			ran = append(ran, short(e.String()))
		}
	}
	c.Inc("cancelled_runs")
	if len(ran) > 0 || err == nil {
		p := []string{}
		if len(ran) > 0 {
			p = append(p, fmt.Sprintf("%d driver calls ran under an already-cancelled context: %v", len(ran), ran))
		}
		if err == nil {
			p = append(p, "no error returned for a cancelled context")
		}
		c.Violation("cancelled/"+strings.Fields(o.desc)[0], map[string]interface{}{"op": desc, "problems": p})
	}
	// (2b) a handle bound to a (cancelled) context and bound again to context.Background(): the operation runs under
	// the new context; nothing of the old one (its value, its cancellation) reaches a driver call or a hook
	if c.Case%3 == 0 {
		if err := reseed(h); err != nil {
			c.Inconclusive("could not restore the tables: " + err.Error())
			return
		}
		rebound := mk(cctx).WithContext(context.Background())
		if c.Case%2 == 0 {
			rebound = mk(cctx).Session(&gorm.Session{Context: context.Background()})
		}
		txm.ResetHooks()
		mark = h.Rec.Mark()
		rerr := exec(rebound)
		var p []string
		for _, e := range ctxEvents(h.Rec.Since(mark)) {
			if e.CtxVal != nil || e.CtxErr != nil {
				p = append(p, fmt.Sprintf("a driver call of the re-bound handle still carries the old context (value %v, err %v): %s", e.CtxVal, e.CtxErr, short(e.String())))
				break
			}
		}
		for _, hk := range txm.H.Log {
			if hk.CtxVal != nil {
				p = append(p, fmt.Sprintf("hook %s of the re-bound handle received the old context (value %v)", hk.String(), hk.CtxVal))
				break
			}
		}
		if (rerr == nil) != (liveErr == nil) {
			p = append(p, fmt.Sprintf("re-bound to context.Background() the operation returned %v, under its live context %v", rerr, liveErr))
		}
		c.Inc("rebound_to_background_runs")
		if len(p) > 0 {
			c.Violation("rebound/"+strings.Fields(o.desc)[0], map[string]interface{}{"op": desc, "problems": p})
		}
	}
	// (3) cancelled in mid-operation, at up to 3 (thorough: every) positions
	K := len(evs)
	var ks []int
	if c.Thorough || K <= 4 {
		for k := 1; k < K; k++ {
			ks = append(ks, k)
		}
	} else {
		ks = []int{1, 1 + r.Intn(K-1), K - 1}
	}
	for _, k := range ks {
		cancelMidway(c, h, parent, mk, exec, k, desc, strings.Fields(o.desc)[0])
	}
}

// cancelMidway runs the operation once more and cancels its context while the k-th context-carrying driver call
// is being made (that call itself may still complete): no later call of the operation may reach the driver, an
// error must come back. A statement issued through a fresh internal session after that point would show here.
func cancelMidway(c *core.Ctx, h *vdb.Handle, parent context.Context, mk func(context.Context) *gorm.DB, exec func(*gorm.DB) error, k int, desc, name string) {
	if err := reseed(h); err != nil {
		c.Inconclusive("could not restore the tables after a cancelled run: " + err.Error())
		return
	}
	cctx, cancel := context.WithCancel(parent)
	defer cancel()
	bound := mk(cctx)
	txm.ResetHooks()
	var n, cancelSeq, cancelStmt int64
	h.Rec.SetHook(func(ev *recdrv.Event) error {
		switch ev.Kind {
		case recdrv.KBegin, recdrv.KPrepare, recdrv.KExec, recdrv.KQuery, recdrv.KStmtExec, recdrv.KStmtQuery:
			if atomic.AddInt64(&n, 1) == int64(k) {
				atomic.StoreInt64(&cancelSeq, ev.Seq)
				if ev.Kind == recdrv.KPrepare {
					// database/sql prepares a statement on the connection at hand and executes it there within ONE
					// of its calls: the execution of this very driver statement still belongs to the call in flight
					atomic.StoreInt64(&cancelStmt, ev.Stmt)
				}
				cancel()
			}
		}
		return nil
	})
	mark := h.Rec.Mark()
	err := exec(bound)
	h.Rec.SetHook(nil)
	cs := atomic.LoadInt64(&cancelSeq)
	if cs == 0 {
		return // the operation made fewer calls this time
	}
	c.Inc("cancelled_midway_runs")
	var ran []string
	for _, e := range ctxEvents(h.Rec.Since(mark)) {
		if e.Seq > cs && !(e.Stmt != 0 && e.Stmt == atomic.LoadInt64(&cancelStmt) && (e.Kind == recdrv.KStmtExec || e.Kind == recdrv.KStmtQuery)) {
			ran = append(ran, fmt.Sprintf("(context value %v, its Err at the call: %v) %s", e.CtxVal, e.CtxErr, short(e.String())))
		}
	}
	var p []string
	if len(ran) > 0 {
		p = append(p, fmt.Sprintf("%d driver calls were made after the context had been cancelled during call %d: %v", len(ran), k, ran))
	}
	if err == nil && len(ran) > 0 {
		p = append(p, "and no error was returned")
	}
	if len(p) > 0 {
		c.Violation("cancelled-midway/"+name, map[string]interface{}{"op": desc, "cancelled_during_call": k, "problems": p})
	}
}

// reseed restores the tables. A run whose context was cancelled may have left a transaction that database/sql
// rolls back on a goroutine of its own, or rows it closes there: wait for that (bounded), then retry on "locked".
func reseed(h *vdb.Handle) error {
	for i := 0; i < 2000; i++ {
		if ct := h.Rec.Counters(); ct.OpenTx == 0 && ct.OpenRows == 0 {
			break
		}
		time.Sleep(time.Millisecond)
	}
	var err error
	for i := 0; i < 400; i++ {
		if _, err = h.SQL.Exec(txm.SeedSQL); err == nil || !strings.Contains(err.Error(), "locked") {
			return err
		}
		time.Sleep(5 * time.Millisecond)
	}
	return err
}

func short(s string) string {
	if len(s) > 140 {
		return s[:140] + "…"
	}
	return s
}

var Engine = &core.Engine{
	ID:    "C18",
	Level: "exploration",
	Rule: "operations = the 16 write kinds of C05 over seeded association graphs (hooks write through tx) + 27 read / association-mode / raw / savepoint / failing-nested-block kinds (nested and conditional Preload, clause.Associations, Joins, FindInBatches with a statement in the callback, Rows+ScanRows, Scan, Pluck, Count, First/Last, FirstOrCreate/Init, Association Append/Replace/Delete/Clear/Count/Find on has-many and many-to-many, Raw, Exec, SavePoint/RollbackTo/nested Transaction) x {PrepareStmt off, on} x nesting in 0..2 Transaction blocks x {WithContext, Session{Context}} x {nothing, one of five sibling sessions with another context derived (and used) from the bound handle first}; " +
		"each run twice: live context (every begin/prepare/exec/query/prepared-exec event and every hook must show the operation id) and cancelled context (no driver statement, error returned); distinct = (operation, PrepareStmt, nesting, entry, event kinds, size class); non-trivial = at least 2 context-carrying driver events",
	Assumptions: []string{
		"COMMIT/ROLLBACK carry no context in database/sql's driver interface and are not checked",
		"SQLite behind the recording driver; prepared-statement preparation is observed as a prepare event with its context",
	},
	Cases: func(tier string) int {
		if tier == "thorough" {
			return 80 * 600
		}
		return 80 * 60
	},
	Batch:         func(string) int { return 40 },
	Run:           run,
	Init:          initEnv,
	MinNontrivial: 50,
}

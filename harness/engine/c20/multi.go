package c20

import (
	"fmt"
	"reflect"
	"sort"
	"strings"

	"gorm.io/gorm"

	"verif/core"
	"verif/engine/c20/multi"
	"verif/vdb"
)

// ---- parallel relations: ONE owner with SEVERAL has-one / has-many relations to the SAME child ----
//
// The foreign key of a has-one / has-many is declared by the owner but lives in the child table;
// with several such relations between the same two models the child table has to carry one
// constraint per relation (all to the same parent table), whether the relations are there when
// the table is created (v1 with two relations, the new table parcels in v2) or are added in v2 to
// a populated table (new column + index + constraint). Drawn per case: the v1 owner (0, 1 or 2
// relations, both declaration orders), the v2 owner (1..4 relations to letters, has-one and
// has-many mixed, new relations declared before or after the old ones, ON DELETE / ON UPDATE
// actions, a constraint name of its own, 2 relations to a table that is new in v2), a second owner
// (offices) whose relation to the same child has the same NAME as one of the first owner's,
// argument order, one call or two, db.AutoMigrate or db.Migrator().AutoMigrate, foreign key
// enforcement of the connections, DisableForeignKeyConstraintWhenMigrating.

type mRel struct {
	field    string // Go field of the owner
	child    string // child table
	col      string // foreign key column in the child table
	one      bool   // has-one
	onDelete string // as pragma_foreign_key_list reports it
	onUpdate string
}

var (
	relR = mRel{"Received", "letters", "receiver_id", false, "CASCADE", "NO ACTION"}
	relS = mRel{"Sent", "letters", "sender_id", false, "SET NULL", "NO ACTION"}
	relC = mRel{"Copied", "letters", "cc_id", false, "NO ACTION", "NO ACTION"}
	relD = mRel{"Draft", "letters", "draft_of_id", true, "SET NULL", "CASCADE"}
	relP = mRel{"Shipped", "parcels", "from_id", false, "CASCADE", "NO ACTION"}
	relG = mRel{"Got", "parcels", "to_id", false, "NO ACTION", "NO ACTION"}
	relO = mRel{"Sent", "letters", "office_id", false, "NO ACTION", "NO ACTION"}
)

type mOwner struct {
	name  string
	val   interface{}
	child interface{} // the letters model this owner goes with
	rels  []mRel      // the owner's relations in declaration order
	back  bool        // the child also belongs to the owner (field Receiver over receiver_id)
	extra []mRel      // foreign keys of the child that are not declared by the owner (the belongs-to's)
}

// relB: the child's own belongs-to (declared by the child, no constraint tag).
var relB = mRel{"(Letter).Receiver", "letters", "receiver_id", false, "NO ACTION", "NO ACTION"}

var multiV1 = []*mOwner{
	{name: "A0", val: &multi.PersonA0{}, child: &multi.LetterA{}},
	{name: "A1", val: &multi.PersonA1{}, child: &multi.LetterA{}, rels: []mRel{relR}},
	{name: "B2", val: &multi.PersonB2{}, child: &multi.LetterB{}, rels: []mRel{relS, relR}},
	{name: "B2r", val: &multi.PersonB2r{}, child: &multi.LetterB{}, rels: []mRel{relR, relS}},
	{name: "Y1", val: &multi.PersonA0{}, child: &multi.LetterY1{}, back: true, extra: []mRel{relB}},
}

var multiV2 = []*mOwner{
	{name: "Zr", val: &multi.PersonZr{}, child: &multi.LetterZ{}, rels: []mRel{relR}},
	{name: "Zsr", val: &multi.PersonZsr{}, child: &multi.LetterZ{}, rels: []mRel{relS, relR}},
	{name: "Zrs", val: &multi.PersonZrs{}, child: &multi.LetterZ{}, rels: []mRel{relR, relS}},
	{name: "Zrsc", val: &multi.PersonZrsc{}, child: &multi.LetterZ{}, rels: []mRel{relR, relS, relC, relP, relG}},
	{name: "Zcdsr", val: &multi.PersonZcdsr{}, child: &multi.LetterZ{}, rels: []mRel{relC, relD, relG, relP, relS, relR}},
	{name: "Zrd", val: &multi.PersonZrd{}, child: &multi.LetterZ{}, rels: []mRel{relR, relD}},
	// both directions: belongs-to over receiver_id (its own constraint) + has-many over sender_id
	{name: "Ys", val: &multi.PersonYs{}, child: &multi.LetterYs{}, rels: []mRel{relS}, back: true, extra: []mRel{relB}},
	// both directions over the SAME column + a second has-many (one foreign key on receiver_id is enough)
	{name: "Yrs", val: &multi.PersonYrs{}, child: &multi.LetterYrs{}, rels: []mRel{relR, relS}, back: true},
}

func (o *mOwner) has(r mRel) bool {
	for _, x := range o.rels {
		if x == r {
			return true
		}
	}
	return false
}

// fkFull lists the foreign keys of a table: "from->table" -> "ON DELETE x ON UPDATE y".
func fkFull(h *vdb.Handle, table string) map[string][]string {
	rows, _ := vdb.RowMaps(h.SQL, "SELECT \"table\" AS t, \"from\" AS f, on_delete AS d, on_update AS u FROM pragma_foreign_key_list(?)", table)
	out := map[string][]string{}
	for _, r := range rows {
		k := fmt.Sprint(r["f"], "->", r["t"])
		out[k] = append(out[k], fmt.Sprint("ON DELETE ", r["d"], " ON UPDATE ", r["u"]))
	}
	return out
}

// fkMissing compares the foreign keys of the child tables with the relations of the owners.
func fkMissing(h *vdb.Handle, owners map[string][]mRel, tables map[string]bool) (missing []string) {
	var ots []string
	for t := range owners {
		ots = append(ots, t)
	}
	sort.Strings(ots)
	have := map[string]map[string][]string{}
	for _, ot := range ots {
		for _, r := range owners[ot] {
			if !tables[r.child] {
				continue
			}
			if have[r.child] == nil {
				have[r.child] = fkFull(h, r.child)
			}
			key, want := r.col+"->"+ot, "ON DELETE "+r.onDelete+" ON UPDATE "+r.onUpdate
			if got, ok := have[r.child][key]; !ok {
				missing = append(missing, fmt.Sprintf("foreign key %s.%s (relation %s, parent table %s)", r.child, key, r.field, ot))
			} else if !setOf(got)[want] {
				missing = append(missing, fmt.Sprintf("foreign key %s.%s is %v, relation %s says %s", r.child, key, got, r.field, want))
			}
		}
	}
	return
}

func runMulti(c *core.Ctx) {
	r := c.R
	o1 := core.Pick(r, multiV1)
	var cands []*mOwner
	for _, o := range multiV2 {
		ok := true
		for _, x := range o1.rels {
			ok = ok && o.has(x)
		}
		if ok && (o.back || !o1.back) {
			cands = append(cands, o)
		}
	}
	o2 := core.Pick(r, cands)
	fkOn := r.Chance(2, 3)
	noFK := r.Chance(1, 8)
	opt := vdb.Options{Config: gorm.Config{DisableForeignKeyConstraintWhenMigrating: noFK}}
	if fkOn {
		opt.DSNExtra = "_foreign_keys=1"
	}
	h, err := vdb.Open(opt)
	if err != nil {
		panic(err)
	}
	defer h.Close()
	if got := vdb.Ints(h.SQL, "PRAGMA foreign_keys"); len(got) != 1 || (got[0] == 1) != fkOn {
		panic(fmt.Sprintf("c20 harness: PRAGMA foreign_keys = %v, wanted enforcement %v", got, fkOn))
	}
	x := &relHist{c: c, h: h, models: "engine/c20/multi (Person" + o1.name + " -> Person" + o2.name + ", Letter, Parcel, Office)"}
	x.op("gorm.Open(sqlite %q, &gorm.Config{DisableForeignKeyConstraintWhenMigrating: %v})", "file:...?mode=memory&cache=shared&"+opt.DSNExtra, noFK)
	defer func() {
		if c.Verbose {
			for _, o := range x.ops {
				c.Logf("OP %s", o)
			}
		}
	}()
	must := func(q string, a ...interface{}) {
		if _, err := h.SQL.Exec(q, a...); err != nil {
			panic(fmt.Sprintf("c20 harness: %s: %v", q, err))
		}
	}

	// ---- v1
	officeV1 := r.Bool()
	v1 := []interface{}{o1.val, o1.child}
	if officeV1 {
		v1 = append(v1, &multi.OfficeA{})
	}
	if _, err := x.migrate(perm(r, v1)); err != nil {
		x.violation("multi_migrate_v1_error", map[string]interface{}{"error": err.Error()})
		return
	}
	tables := setOf(vdb.Tables(h.SQL))
	var missing []string
	for _, t := range []string{"people", "letters"} {
		if !tables[t] {
			missing = append(missing, "table "+t)
		}
	}
	if !noFK {
		missing = append(missing, fkMissing(h, map[string][]mRel{"people": append(append([]mRel(nil), o1.rels...), o1.extra...)}, tables)...)
	}
	if len(missing) > 0 {
		x.violation("multi_v1_object_missing", map[string]interface{}{"missing": missing,
			"expected": "the child table carries one foreign key per has-one/has-many relation of the owner migrated in the same call"})
		return
	}
	nP, nL := r.Range(1, 3), r.Range(1, 4)
	for i := 1; i <= nP; i++ {
		must("INSERT INTO people(id,name) VALUES (?,?)", i, fmt.Sprint("p'", i))
	}
	_, twoCols := o1.child.(*multi.LetterB)
	type letter struct {
		body     string
		receiver int
		sender   interface{}
	}
	var letters []letter
	for i := 1; i <= nL; i++ {
		l := letter{body: fmt.Sprint("l'tter ", i), receiver: r.Range(1, nP)}
		if i == nL && r.Bool() {
			l.body = "" // the column default
		}
		if twoCols {
			if r.Bool() {
				l.sender = r.Range(1, nP)
			}
			must("INSERT INTO letters(id,body,receiver_id,sender_id) VALUES (?,?,?,?)", i, l.body, l.receiver, l.sender)
		} else {
			must("INSERT INTO letters(id,body,receiver_id) VALUES (?,?,?)", i, l.body, l.receiver)
		}
		letters = append(letters, l)
	}
	if officeV1 {
		must("INSERT INTO offices(id,city) VALUES (1,'Ulm'),(2,'Graz')")
	}
	x.op("raw rows: %d people, %d letters (receiver_id%s always an existing person), offices: %v", nP, nL, map[bool]string{true: ", sender_id", false: ""}[twoCols], officeV1)
	cols := map[string][]string{}
	for _, t := range vdb.Tables(h.SQL) {
		cols[t] = tableCols(h, t)
	}
	before := dumpCols(h, cols)
	schemaBefore := x.schemaSQL()

	ddl, err := x.migrate(perm(r, v1))
	if err != nil {
		x.violation("multi_remigrate_v1_error", map[string]interface{}{"error": err.Error()})
		return
	}
	if len(ddl) > 0 {
		x.violation("multi_remigrate_v1_ddl:"+ddlClass(ddl), map[string]interface{}{"schema_changing_statements": ddl, "schema_before": schemaBefore})
	}
	c.Inc("remigrations_checked")
	if after := dumpCols(h, cols); !same(before, after) {
		x.violation("multi_remigrate_v1_data", diff(before, after))
		return
	}

	// ---- v2: the owner and the child always; parcels / offices at random
	withParcel := (o2.has(relP) || o2.has(relG)) && r.Chance(2, 3)
	withOffice := r.Chance(1, 2) && !o2.back // Office's relation goes to LetterZ
	owners := []interface{}{o2.val}
	if withOffice {
		owners = append(owners, &multi.Office{})
	}
	children := []interface{}{o2.child}
	if withParcel {
		children = append(children, &multi.Parcel{})
	}
	viaMigrator, split := r.Chance(1, 4), r.Chance(1, 4)
	failedCall := ""
	migrate2 := func() (args string, ddl []string, err error) {
		var groups [][]interface{}
		if split {
			// a relation's foreign key is declared by the owner and lives in the child table: a call that
			// migrates the child without having seen the owner cannot know it (not generated, see
			// Assumptions) - the owners come first, the list is cut anywhere
			vals := append(perm(r, owners), perm(r, children)...)
			k := r.Range(1, len(vals)-1)
			groups = [][]interface{}{vals[:k], vals[k:]}
		} else {
			groups = [][]interface{}{perm(r, append(append([]interface{}(nil), owners...), children...))}
		}
		for _, g := range groups {
			mark := h.Rec.Mark()
			if viaMigrator {
				err = h.DB.Session(&gorm.Session{}).Migrator().AutoMigrate(g...)
				x.op("db.Migrator().AutoMigrate(%s) -> err=%v", names(g), err)
			} else {
				err = h.DB.Session(&gorm.Session{}).AutoMigrate(g...)
				x.op("db.AutoMigrate(%s) -> err=%v", names(g), err)
			}
			d := ddlOf(h.Rec.Since(mark))
			x.ops[len(x.ops)-1] += fmt.Sprintf(", %d schema-changing statements", len(d))
			ddl = append(ddl, d...)
			args += names(g) + " / "
			if err != nil {
				failedCall = names(g)
				return
			}
		}
		return
	}
	args2, ddl2, err := migrate2()
	if err != nil {
		sig := "multi_migrate_v2_error"
		// one recognisable class: the populated child table is rebuilt (to receive the foreign key of the
		// second owner's relation) before the second owner's table exists, because the child precedes
		// that owner in the argument list
		if withOffice && !officeV1 && strings.Contains(err.Error(), "no such table: main.offices") {
			if li, oi := strings.Index(failedCall, names([]interface{}{o2.child})), strings.Index(failedCall, "&multi.Office{}"); li >= 0 && oi > li {
				sig += ":child-listed-before-new-owner"
			}
		}
		x.violation(sig, map[string]interface{}{"error": err.Error(), "schema_before": schemaBefore, "schema_changing_statements": ddl2, "failed_call": "AutoMigrate(" + failedCall + ")",
			"expected": "v2 = v1 + added fields/relations: the migration succeeds whatever the order of the arguments"})
		return
	}
	c.Add("v2_migration_statements", len(ddl2))
	if after := dumpCols(h, cols); !same(before, after) {
		d := diff(before, after)
		d["schema_changing_statements"] = ddl2
		x.violation("multi_v2_data_changed", d)
		return
	}
	tables = setOf(vdb.Tables(h.SQL))
	missing = nil
	wantCols := map[string][]string{
		"people":  {"id", "name", "nick"},
		"letters": {"id", "body", "receiver_id", "sender_id", "cc_id", "draft_of_id", "office_id", "subject"},
	}
	wantIdx := map[string]map[string]bool{
		"people":  {"idx_people_nick": false},
		"letters": {"idx_letters_receiver_id": false, "idx_letters_sender_id": false, "idx_letters_draft_of_id": false},
	}
	if withParcel {
		wantCols["parcels"] = []string{"id", "label", "from_id", "to_id"}
		wantIdx["parcels"] = map[string]bool{"idx_parcels_from_id": false}
	}
	if withOffice {
		wantCols["offices"] = []string{"id", "city", "zip"}
	} else if officeV1 {
		wantCols["offices"] = []string{"id", "city"}
	}
	var ts []string
	for t := range wantCols {
		ts = append(ts, t)
	}
	sort.Strings(ts)
	for _, t := range ts {
		if !tables[t] {
			missing = append(missing, "table "+t)
			continue
		}
		have, idx := setOf(tableCols(h, t)), indexList(h, t)
		for _, cn := range wantCols[t] {
			if !have[cn] {
				missing = append(missing, "column "+t+"."+cn)
			}
		}
		var ns []string
		for n := range wantIdx[t] {
			ns = append(ns, n)
		}
		sort.Strings(ns)
		for _, n := range ns {
			if u, ok := idx[n]; !ok {
				missing = append(missing, "index "+n)
			} else if u != wantIdx[t][n] {
				missing = append(missing, fmt.Sprintf("index %s unique=%v, model says %v", n, u, wantIdx[t][n]))
			}
		}
	}
	ownerRels := map[string][]mRel{"people": append(append([]mRel(nil), o2.rels...), o2.extra...)}
	if withOffice {
		ownerRels["offices"] = []mRel{relO}
	}
	if !noFK {
		missing = append(missing, fkMissing(h, ownerRels, tables)...)
	}
	if len(missing) > 0 {
		x.violation("multi_v2_object_missing", map[string]interface{}{"missing": missing, "schema_changing_statements": ddl2, "schema_before": schemaBefore,
			"expected": "every has-one/has-many relation of an owner passed with (or before) the child has its foreign key in the child table, with the actions of its constraint tag"})
		return
	}
	// the constraints act (connections with enforcement only): a dangling reference is refused
	if fkOn && !noFK {
		for _, ot := range []string{"offices", "people"} {
			for _, rel := range ownerRels[ot] {
				if !tables[rel.child] {
					continue
				}
				tx, err := h.SQL.Begin()
				if err != nil {
					panic(err)
				}
				var e error
				if rel.child == "letters" {
					args := map[string]interface{}{"receiver_id": 1}
					args[rel.col] = 4711
					q, a := "INSERT INTO letters(body", []interface{}{"probe"}
					var ks []string
					for k := range args {
						ks = append(ks, k)
					}
					sort.Strings(ks)
					for _, k := range ks {
						q += "," + k
						a = append(a, args[k])
					}
					_, e = tx.Exec(q+") VALUES (?"+strings.Repeat(",?", len(ks))+")", a...)
				} else {
					_, e = tx.Exec("INSERT INTO parcels(label," + rel.col + ") VALUES ('probe',4711)")
				}
				tx.Rollback()
				if e == nil {
					missing = append(missing, fmt.Sprintf("foreign key %s.%s->%s: a dangling reference was accepted under enforcement", rel.child, rel.col, ot))
				} else if !strings.Contains(e.Error(), "FOREIGN KEY constraint failed") {
					panic(fmt.Sprintf("c20 harness: foreign key probe on %s.%s failed differently: %v", rel.child, rel.col, e))
				}
			}
		}
		if len(missing) > 0 {
			x.violation("multi_v2_object_missing", map[string]interface{}{"missing": missing, "schema_changing_statements": ddl2, "schema_before": schemaBefore})
			return
		}
	}

	// ---- the rows inserted under v1 are returned through the new models
	var back []multi.LetterZ
	if e := h.DB.Session(&gorm.Session{}).Order("id").Find(&back).Error; e != nil {
		x.violation("multi_v2_old_row_unreadable", map[string]interface{}{"error": e.Error()})
		return
	}
	x.op("db.Order(\"id\").Find(&[]multi.LetterZ{}) -> %d records", len(back))
	var problems []string
	if len(back) != nL {
		problems = append(problems, fmt.Sprintf("%d records, %d rows were inserted", len(back), nL))
	} else {
		for i, l := range letters {
			b := back[i]
			var snd interface{}
			if b.SenderID != nil {
				snd = int(*b.SenderID)
			}
			if int(b.ID) != i+1 || b.Body != l.body || int(b.ReceiverID) != l.receiver || snd != l.sender || b.CcID != nil || b.DraftOfID != nil || b.OfficeID != nil {
				problems = append(problems, fmt.Sprintf("record %+v, inserted id=%d body=%q receiver_id=%d sender_id=%v", b, i+1, l.body, l.receiver, l.sender))
			}
		}
	}
	for i := 1; i <= nP && len(problems) == 0; i++ {
		out := reflect.New(reflect.TypeOf(o2.val).Elem())
		if e := h.DB.Session(&gorm.Session{}).First(out.Interface(), i).Error; e != nil {
			problems = append(problems, fmt.Sprintf("First(&%s, %d): %v", reflect.TypeOf(o2.val).Elem(), i, e))
		} else if n := out.Elem().FieldByName("Name").String(); n != fmt.Sprint("p'", i) || !out.Elem().FieldByName("Nick").IsNil() {
			problems = append(problems, fmt.Sprintf("person %d read back as %+v", i, out.Elem().Interface()))
		}
	}
	if len(problems) > 0 {
		x.violation("multi_v2_old_row_differs", map[string]interface{}{"problems": problems})
		return
	}
	c.Add("old_rows_read_through_v2", nL+nP)

	// ---- a record of the new owner with one or two children under EVERY relation is accepted and returned
	create := func(val interface{}, rels []mRel, nameField, name string) {
		rec := reflect.New(reflect.TypeOf(val).Elem())
		rec.Elem().FieldByName(nameField).SetString(name)
		want := map[string][]string{}
		var desc []string
		for _, rel := range rels {
			if !tables[rel.child] {
				continue
			}
			n := 1
			if !rel.one {
				n = r.Range(1, 2)
			}
			f := rec.Elem().FieldByName(rel.field)
			for k := 0; k < n; k++ {
				text := fmt.Sprintf("%s %s %d", name, rel.field, k)
				want[rel.field] = append(want[rel.field], text)
				et := f.Type().Elem() // element type of the slice, pointee of the pointer
				e := reflect.New(et)
				if rel.child == "parcels" {
					e.Elem().FieldByName("Label").SetString(text)
				} else {
					e.Elem().FieldByName("Body").SetString(text)
					e.Elem().FieldByName("ReceiverID").SetUint(1)
				}
				if rel.one {
					f.Set(e)
				} else {
					f.Set(reflect.Append(f, e.Elem()))
				}
			}
			desc = append(desc, fmt.Sprintf("%s: %d", rel.field, n))
		}
		err := h.DB.Session(&gorm.Session{}).Create(rec.Interface()).Error
		id := rec.Elem().FieldByName("ID").Uint()
		x.op("db.Create(&%s{%s:%q, %s (children: text, ReceiverID:1)}) -> id=%d err=%v", reflect.TypeOf(val).Elem(), nameField, name, strings.Join(desc, ", "), id, err)
		if err != nil {
			x.violation("multi_create_v2_error", map[string]interface{}{"error": err.Error()})
			return
		}
		var problems []string
		q := h.DB.Session(&gorm.Session{})
		for _, rel := range rels {
			if want[rel.field] == nil {
				continue
			}
			tcol := map[string]string{"letters": "body", "parcels": "label"}[rel.child]
			rows, _ := vdb.RowMaps(h.SQL, "SELECT "+tcol+" AS t FROM "+rel.child+" WHERE "+rel.col+" = ? ORDER BY 1", id)
			var got []string
			for _, rw := range rows {
				got = append(got, fmt.Sprint(rw["t"]))
			}
			if strings.Join(got, "|") != strings.Join(want[rel.field], "|") {
				problems = append(problems, fmt.Sprintf("raw: %s rows with %s = %d: %q, created under %s: %q", rel.child, rel.col, id, got, rel.field, want[rel.field]))
			}
			q = q.Preload(rel.field)
		}
		out := reflect.New(reflect.TypeOf(val).Elem())
		if e := q.First(out.Interface(), id).Error; e != nil {
			problems = append(problems, "First(+Preload): "+e.Error())
		} else {
			if g := out.Elem().FieldByName(nameField).String(); g != name {
				problems = append(problems, fmt.Sprintf("First: %s = %q, created with %q", nameField, g, name))
			}
			for _, rel := range rels {
				if want[rel.field] == nil {
					continue
				}
				var got []string
				f := out.Elem().FieldByName(rel.field)
				switch {
				case rel.one && !f.IsNil():
					got = append(got, f.Elem().FieldByName("Body").String())
				case !rel.one:
					for k := 0; k < f.Len(); k++ {
						if rel.child == "parcels" {
							got = append(got, f.Index(k).FieldByName("Label").String())
						} else {
							got = append(got, f.Index(k).FieldByName("Body").String())
						}
					}
				}
				sort.Strings(got)
				if strings.Join(got, "|") != strings.Join(want[rel.field], "|") {
					problems = append(problems, fmt.Sprintf("First+Preload(%q) returned %q, created with %q", rel.field, got, want[rel.field]))
				}
			}
		}
		if len(problems) > 0 {
			x.violation("multi_roundtrip_v2", map[string]interface{}{"problems": problems})
		} else {
			c.Inc("v2_records_round_tripped")
		}
	}
	create(o2.val, o2.rels, "Name", "new o'person")
	if o2.back && !x.failed {
		// the other direction: a child record that names its parent through the belongs-to
		rec := reflect.New(reflect.TypeOf(o2.child).Elem())
		rec.Elem().FieldByName("Body").SetString("to a new o'person")
		par := reflect.New(reflect.TypeOf(o2.val).Elem())
		par.Elem().FieldByName("Name").SetString("nested parent")
		rec.Elem().FieldByName("Receiver").Set(par)
		err := h.DB.Session(&gorm.Session{}).Create(rec.Interface()).Error
		id := rec.Elem().FieldByName("ID").Uint()
		x.op("db.Create(&%s{Body:..., Receiver:&%s{Name:\"nested parent\"}}) -> id=%d err=%v", reflect.TypeOf(o2.child).Elem(), reflect.TypeOf(o2.val).Elem(), id, err)
		if err != nil {
			x.violation("multi_create_v2_error", map[string]interface{}{"error": err.Error(), "how": "child with nested belongs-to parent"})
		} else {
			rows, _ := vdb.RowMaps(h.SQL, "SELECT l.body AS b, p.name AS n FROM letters l JOIN people p ON p.id = l.receiver_id WHERE l.id = ?", id)
			out := reflect.New(reflect.TypeOf(o2.child).Elem())
			e := h.DB.Session(&gorm.Session{}).Preload("Receiver").First(out.Interface(), id).Error
			var problems []string
			if len(rows) != 1 || fmt.Sprint(rows[0]["b"], "|", rows[0]["n"]) != "to a new o'person|nested parent" {
				problems = append(problems, fmt.Sprintf("raw: letters JOIN people for the record: %v", rows))
			}
			if e != nil {
				problems = append(problems, "First(+Preload Receiver): "+e.Error())
			} else if rc := out.Elem().FieldByName("Receiver"); rc.IsNil() || rc.Elem().FieldByName("Name").String() != "nested parent" || out.Elem().FieldByName("Body").String() != "to a new o'person" {
				problems = append(problems, fmt.Sprintf("First(+Preload Receiver) returned %+v", out.Elem().Interface()))
			}
			if len(problems) > 0 {
				x.violation("multi_roundtrip_v2", map[string]interface{}{"problems": problems, "how": "child with nested belongs-to parent"})
			} else {
				c.Inc("v2_records_round_tripped")
			}
		}
	}
	if withOffice {
		create(&multi.Office{}, []mRel{relO}, "City", "Bonn")
	}

	// ---- v2 again (another order of the same arguments)
	cols2 := map[string][]string{}
	for _, t := range vdb.Tables(h.SQL) {
		cols2[t] = tableCols(h, t)
	}
	before2 := dumpCols(h, cols2)
	schemaBefore = x.schemaSQL()
	_, ddl, err = migrate2()
	if err != nil {
		x.violation("multi_remigrate_v2_error", map[string]interface{}{"error": err.Error()})
		return
	}
	if len(ddl) > 0 {
		x.violation("multi_remigrate_v2_ddl:"+ddlClass(ddl), map[string]interface{}{"schema_changing_statements": ddl, "schema_before": schemaBefore})
	}
	c.Inc("remigrations_checked")
	if after := dumpCols(h, cols2); !same(before2, after) {
		x.violation("multi_remigrate_v2_data", diff(before2, after))
	}
	c.Inc("histories_parallel_relations")
	if fkOn {
		c.Inc("histories_with_fk_enforcement")
	}
	if !x.failed {
		added := 0
		for _, rel := range o2.rels {
			if !o1.has(rel) {
				added++
			}
		}
		c.Add("parallel_relations_added_in_v2", added)
		c.Inc("multi_" + o1.name + "_to_" + o2.name)
		c.Shape("multi", o1.name, o2.name, officeV1, fkOn, noFK, args2, split, viaMigrator)
		c.Inc("nontrivial_histories")
		if c.WantSample() && c.Case%32 == 1 {
			c.Sample(map[string]interface{}{"family": "parallel relations multi.Person" + o1.name + " -> multi.Person" + o2.name, "operations": x.ops})
		}
	}
}

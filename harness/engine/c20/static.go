package c20

import (
	"fmt"
	"reflect"
	"sort"
	"strings"

	"gorm.io/gorm"
	"gorm.io/gorm/clause"

	"verif/core"
	"verif/engine/c20/relv1"
	"verif/engine/c20/relv2"
	"verif/vdb"
)

// ---- single-table static families (anonymous embedding, gorm.Model) ----

func runStatic(c *core.Ctx) {
	h, err := vdb.Open(vdb.Options{})
	if err != nil {
		panic(err)
	}
	defer h.Close()
	var x *hist
	var m *model
	fam := core.Pick(c.R, []string{"Doc", "Acct"})
	switch fam {
	case "Doc":
		x = &hist{c: c, h: h, table: "docs", t1: reflect.TypeOf(relv1.Doc{}), t2: reflect.TypeOf(relv2.Doc{}), pkAuto: true}
		m = &model{table: "docs",
			idx: []*idxExp{
				{Name: "idx_docs_deleted_at", Cols: []string{"deleted_at"}},
				{Name: "idx_docs_title", Cols: []string{"title"}},
				{Name: "idx_docs_slug", Unique: true, Cols: []string{"slug"}, V2: true},
				{Name: "idx_docs_lang_views", Cols: []string{"lang", "views"}, V2: true},
			},
			chk: []*chkExp{{Col: "rating", Expr: "rating >= 0", Bad: float64(-5), V2: true}},
		}
	case "Acct":
		x = &hist{c: c, h: h, table: "accts", t1: reflect.TypeOf(relv1.Acct{}), t2: reflect.TypeOf(relv2.Acct{})}
		m = &model{table: "accts",
			idx: []*idxExp{
				{Name: "ux_accts_owner", Unique: true, Cols: []string{"owner"}},
				{Name: "idx_accts_limit", Cols: []string{"lim"}, V2: true},
			},
			chk: []*chkExp{{Col: "balance", Expr: "balance > -1000000", Bad: float64(-1e7), V2: true}},
		}
	}
	x.info = map[string]interface{}{"model_v1": "relv1." + fam, "model_v2": "relv2." + fam + " (engine/c20/relv2/models.go)"}
	x.run(m, "relv1."+fam, "relv2."+fam)
	c.Inc("histories_static")
	if !x.failed {
		c.Shape("static", fam, len(x.known))
		c.Inc("nontrivial_histories")
	}
	if c.Verbose {
		for _, o := range x.ops {
			c.Logf("OP %s", o)
		}
	}
}

// ---- related family through ReorderModels ----

type relHist struct {
	c      *core.Ctx
	h      *vdb.Handle
	ops    []string
	failed bool
	models string // which static family (for the violation detail)
}

func (x *relHist) op(f string, a ...interface{}) { x.ops = append(x.ops, fmt.Sprintf(f, a...)) }

func (x *relHist) schemaSQL() []string {
	rows, _ := vdb.RowMaps(x.h.SQL, "SELECT sql FROM sqlite_master WHERE sql IS NOT NULL AND name NOT LIKE 'sqlite_%' ORDER BY tbl_name, type DESC, name")
	var out []string
	for _, r := range rows {
		out = append(out, fmt.Sprint(r["sql"]))
	}
	return out
}

func (x *relHist) violation(sig string, extra map[string]interface{}) {
	models := x.models
	if models == "" {
		models = "engine/c20/relv1 and relv2 (Co, Lang, Pet, User, Prof)"
	}
	d := map[string]interface{}{"models": models, "operations": append([]string(nil), x.ops...), "schema_now": x.schemaSQL()}
	for k, v := range extra {
		d[k] = v
	}
	x.c.Violation(sig, d)
	x.failed = true
}

func names(vals []interface{}) string {
	var s []string
	for _, v := range vals {
		s = append(s, "&"+strings.TrimPrefix(reflect.TypeOf(v).String(), "*")+"{}")
	}
	return strings.Join(s, ", ")
}

func (x *relHist) migrate(vals []interface{}) ([]string, error) {
	mark := x.h.Rec.Mark()
	err := x.h.DB.Session(&gorm.Session{}).AutoMigrate(vals...)
	ddl := ddlOf(x.h.Rec.Since(mark))
	x.op("db.AutoMigrate(%s) -> err=%v, %d schema-changing statements", names(vals), err, len(ddl))
	return ddl, err
}

func tableCols(h *vdb.Handle, t string) []string {
	rows, _ := vdb.RowMaps(h.SQL, "SELECT name FROM pragma_table_info(?) ORDER BY cid", t)
	var out []string
	for _, r := range rows {
		out = append(out, fmt.Sprint(r["name"]))
	}
	return out
}

// dumpCols dumps the given columns of every table in cols.
func dumpCols(h *vdb.Handle, cols map[string][]string) []string {
	var ts []string
	for t := range cols {
		ts = append(ts, t)
	}
	sort.Strings(ts)
	var out []string
	for _, t := range ts {
		q := make([]string, len(cols[t]))
		for i, c := range cols[t] {
			q[i] = "`" + c + "`"
		}
		rows, err := vdb.RowMaps(h.SQL, "SELECT "+strings.Join(q, ",")+" FROM `"+t+"`")
		if err != nil {
			out = append(out, t+": ERR "+err.Error())
			continue
		}
		var lines []string
		for _, r := range rows {
			parts := make([]string, len(cols[t]))
			for i, c := range cols[t] {
				parts[i] = c + "=" + vdb.Render(r[c])
			}
			lines = append(lines, t+": "+strings.Join(parts, " | "))
		}
		sort.Strings(lines)
		out = append(out, lines...)
	}
	return out
}

func perm(r *core.Rand, vals []interface{}) []interface{} {
	out := make([]interface{}, len(vals))
	for i, p := range r.Perm(len(vals)) {
		out[i] = vals[p]
	}
	return out
}

func runRelational(c *core.Ctx) {
	r := c.R
	h, err := vdb.Open(vdb.Options{})
	if err != nil {
		panic(err)
	}
	defer h.Close()
	x := &relHist{c: c, h: h}
	defer func() {
		if c.Verbose {
			for _, o := range x.ops {
				c.Logf("OP %s", o)
			}
		}
	}()
	withPet, withCo, withLang := r.Chance(3, 4), r.Bool(), r.Bool()
	v1 := []interface{}{&relv1.User{}}
	v2 := []interface{}{&relv2.User{}}
	if withPet {
		v1 = append(v1, &relv1.Pet{})
		v2 = append(v2, &relv2.Pet{})
	}
	if withCo {
		v1 = append(v1, &relv1.Co{})
		v2 = append(v2, &relv2.Co{})
	}
	if withLang {
		v1 = append(v1, &relv1.Lang{})
		v2 = append(v2, &relv2.Lang{})
	}
	withProf := r.Bool()
	if withProf {
		v2 = append(v2, &relv2.Prof{})
	}
	if _, err := x.migrate(perm(r, v1)); err != nil {
		x.violation("rel_migrate_v1_error", map[string]interface{}{"error": err.Error()})
		return
	}
	// rows by raw SQL
	must := func(q string, a ...interface{}) {
		if _, err := h.SQL.Exec(q, a...); err != nil {
			panic(fmt.Sprintf("c20 harness: %s: %v", q, err))
		}
	}
	nCo, nU := r.Range(1, 3), r.Range(1, 4)
	for i := 1; i <= nCo; i++ {
		must("INSERT INTO cos(id,name) VALUES (?,?)", i, fmt.Sprint("co", i))
	}
	for _, l := range []string{"en", "fr", "de"} {
		must("INSERT INTO langs(code,title) VALUES (?,?)", l, "lang "+l)
	}
	for i := 1; i <= nU; i++ {
		var co interface{}
		if r.Bool() {
			co = r.Range(1, nCo)
		}
		var del interface{}
		if r.Chance(1, 4) {
			del = baseTime
		}
		must("INSERT INTO users(id,created_at,updated_at,deleted_at,name,co_id) VALUES (?,?,?,?,?,?)", i, baseTime.Add(1e9*3600), baseTime, del, fmt.Sprint("u'", i), co)
		must("INSERT INTO user_langs(user_id,lang_code) VALUES (?,?)", i, core.Pick(r, []string{"en", "fr", "de"}))
		if withPet {
			for k := 0; k < r.Intn(3); k++ {
				must("INSERT INTO pets(user_id,name) VALUES (?,?)", i, fmt.Sprint("pet", i, "_", k))
			}
		}
	}
	x.op("raw rows: %d cos, 3 langs, %d users (+ user_langs, pets)", nCo, nU)
	cols := map[string][]string{}
	for _, t := range vdb.Tables(h.SQL) {
		cols[t] = tableCols(h, t)
	}
	before := dumpCols(h, cols)
	schemaBefore := x.schemaSQL()

	ddl, err := x.migrate(perm(r, v1))
	if err != nil {
		x.violation("rel_remigrate_v1_error", map[string]interface{}{"error": err.Error()})
		return
	}
	if len(ddl) > 0 {
		x.violation("rel_remigrate_v1_ddl:"+ddlClass(ddl), map[string]interface{}{"schema_changing_statements": ddl, "schema_before": schemaBefore})
	}
	c.Inc("remigrations_checked")
	if after := dumpCols(h, cols); !same(before, after) {
		x.violation("rel_remigrate_v1_data", diff(before, after))
		return
	}

	args2 := perm(r, v2)
	ddl2, err := x.migrate(args2)
	if err != nil {
		x.violation("rel_migrate_v2_error", map[string]interface{}{"error": err.Error(), "schema_before": schemaBefore})
		return
	}
	c.Add("v2_migration_statements", len(ddl2))
	if after := dumpCols(h, cols); !same(before, after) {
		d := diff(before, after)
		d["schema_changing_statements"] = ddl2
		x.violation("rel_v2_data_changed", d)
		return
	}
	// what v2 adds (and what v1 had) must exist
	want := map[string][]string{
		"users": {"id", "created_at", "updated_at", "deleted_at", "name", "co_id", "age", "email", "manager_id"},
		"cos":   {"id", "name", "country"},
		"langs": {"code", "title", "native"},
	}
	if withPet {
		want["pets"] = []string{"id", "user_id", "name", "kind", "age"}
	}
	wantIdx := map[string]bool{"idx_users_deleted_at": false, "idx_users_name": false, "idx_users_email": true, "ux_cos_name": true, "idx_langs_native": false}
	if withPet {
		wantIdx["idx_pets_user_id"] = false
		wantIdx["idx_pets_kind"] = false
	}
	if withProf {
		want["profs"] = []string{"id", "user_id", "bio"}
		wantIdx["idx_profs_user_id"] = true
	}
	var missing []string
	for t, cs := range want {
		have := map[string]bool{}
		for _, cn := range tableCols(h, t) {
			have[cn] = true
		}
		for _, cn := range cs {
			if !have[cn] {
				missing = append(missing, "column "+t+"."+cn)
			}
		}
	}
	idxRows, _ := vdb.RowMaps(h.SQL, "SELECT name, sql FROM sqlite_master WHERE type='index' AND sql IS NOT NULL")
	haveIdx := map[string]bool{}
	for _, rw := range idxRows {
		haveIdx[fmt.Sprint(rw["name"])] = strings.HasPrefix(strings.ToUpper(fmt.Sprint(rw["sql"])), "CREATE UNIQUE")
	}
	for n, u := range wantIdx {
		if hu, ok := haveIdx[n]; !ok {
			missing = append(missing, "index "+n)
		} else if hu != u {
			missing = append(missing, fmt.Sprintf("index %s unique=%v, model says %v", n, hu, u))
		}
	}
	usersSQL := ""
	for _, s := range x.schemaSQL() {
		if strings.HasPrefix(s, "CREATE TABLE `users`") || strings.HasPrefix(s, "CREATE TABLE \"users\"") {
			usersSQL = s
		}
	}
	for _, fk := range []string{"fk_users_co", "fk_users_manager"} {
		if !strings.Contains(usersSQL, fk) {
			missing = append(missing, "foreign key constraint "+fk+" on users")
		}
	}
	// foreign keys that live in OTHER tables than the owner's: has-many / has-one children passed in the
	// same call as User (always true here), and the join table of the many2many
	wantFK := map[string][]string{"user_langs": {"user_id->users", "lang_code->langs"}}
	if withPet {
		wantFK["pets"] = []string{"user_id->users"}
	}
	if withProf {
		wantFK["profs"] = []string{"user_id->users"}
	}
	for _, t := range []string{"pets", "profs", "user_langs"} {
		have := fkList(h, t)
		for _, fk := range wantFK[t] {
			if !have[fk] {
				missing = append(missing, "foreign key "+t+"."+fk)
			}
		}
	}
	if withPet {
		tx, _ := h.SQL.Begin()
		_, e := tx.Exec("INSERT INTO pets(user_id,name,kind,age) VALUES (1,'p','dog',-4)")
		tx.Rollback()
		if e == nil {
			missing = append(missing, "check (age >= 0) on pets: a violating value was accepted")
		}
	}
	if len(missing) > 0 {
		x.violation("rel_v2_object_missing", map[string]interface{}{"missing": missing, "schema_changing_statements": ddl2, "schema_before": schemaBefore})
	}

	// a record of the new model round-trips
	email := fmt.Sprintf("e%d@x.y", c.Case)
	mgr := uint(1)
	co := int64(1)
	u := relv2.User{Name: "new o'user", CoID: &co, Age: 33, Email: &email, ManagerID: &mgr}
	u.CreatedAt = baseTime.Add(5e9)
	u.UpdatedAt = baseTime.Add(6e9)
	err = h.DB.Session(&gorm.Session{}).Omit(clause.Associations).Create(&u).Error
	x.op("db.Omit(clause.Associations).Create(&relv2.User{Name:%q, CoID:&1, Age:33, Email:&%q, ManagerID:&1}) -> id=%d err=%v", u.Name, email, u.ID, err)
	if err != nil {
		x.violation("rel_create_v2_error", map[string]interface{}{"error": err.Error()})
	} else {
		var problems []string
		rows, _ := vdb.RowMaps(h.SQL, "SELECT name, co_id, age, email, manager_id, deleted_at FROM users WHERE id = ?", u.ID)
		if len(rows) != 1 {
			problems = append(problems, fmt.Sprintf("%d rows with id %d", len(rows), u.ID))
		} else if g := fmt.Sprintf("%v|%v|%v|%v|%v|%v", rows[0]["name"], rows[0]["co_id"], rows[0]["age"], rows[0]["email"], rows[0]["manager_id"], rows[0]["deleted_at"]); g != fmt.Sprintf("new o'user|1|33|%s|1|<nil>", email) {
			problems = append(problems, "raw row: "+g)
		}
		var got relv2.User
		if e := h.DB.Session(&gorm.Session{}).First(&got, u.ID).Error; e != nil {
			problems = append(problems, "First: "+e.Error())
		} else if got.Name != u.Name || got.CoID == nil || *got.CoID != 1 || got.Age != 33 || got.Email == nil || *got.Email != email ||
			got.ManagerID == nil || *got.ManagerID != 1 || !got.CreatedAt.Equal(u.CreatedAt) || !got.UpdatedAt.Equal(u.UpdatedAt) || got.DeletedAt.Valid {
			problems = append(problems, fmt.Sprintf("First returned %+v", got))
		}
		if len(problems) > 0 {
			x.violation("rel_roundtrip_v2", map[string]interface{}{"problems": problems})
		} else {
			c.Inc("v2_records_round_tripped")
		}
	}

	cols2 := map[string][]string{}
	for _, t := range vdb.Tables(h.SQL) {
		cols2[t] = tableCols(h, t)
	}
	before2 := dumpCols(h, cols2)
	schemaBefore = x.schemaSQL()
	ddl, err = x.migrate(perm(r, v2))
	if err != nil {
		x.violation("rel_remigrate_v2_error", map[string]interface{}{"error": err.Error()})
		return
	}
	if len(ddl) > 0 {
		x.violation("rel_remigrate_v2_ddl:"+ddlClass(ddl), map[string]interface{}{"schema_changing_statements": ddl, "schema_before": schemaBefore})
	}
	c.Inc("remigrations_checked")
	if after := dumpCols(h, cols2); !same(before2, after) {
		x.violation("rel_remigrate_v2_data", diff(before2, after))
	}
	c.Inc("histories_relational")
	if !x.failed {
		c.Shape("rel", names(v1), names(args2), nU)
		c.Inc("nontrivial_histories")
		if c.WantSample() && c.Case%16 == 7 {
			c.Sample(map[string]interface{}{"family": "relv1 -> relv2", "operations": x.ops})
		}
	}
}

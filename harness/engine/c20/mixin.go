package c20

import (
	"reflect"
	"strings"

	"verif/core"
)

// ---- generated mix-in structs: embedded fields that are SHADOWED by fields of the model ----
//
// A mix-in is a struct type built with reflect.StructOf and embedded into the model either
// anonymously or through a named field tagged `embedded` (no prefix). It brings 0..2 columns of
// its own and 0..2 fields whose column is also declared by a field of the model itself. gorm's
// rule (schema.Parse: "shortest path ... prioritized") makes the model's own field the owner of
// such a column; the mix-in's field is shadowed, exactly as the promoted Go field is hidden by
// the outer one. The column, its constraints and the records of the model are those of the
// OWNING field: a `check` written on the shadowed field only must not restrict the table.

var mixNames = []string{"Mix", "Bulk", "Audit", "Base"}

// freshIdent is used for the shadowed field when it is spelled with a Go name of its own
// and reaches the owner's column through a column tag.
func freshIdent(o *fieldGen) string { return o.goName + "Old" }

func hasAnyFeat(f *fieldGen, ps ...string) bool {
	for _, p := range ps {
		if hasFeat(f.feats, p) || hasFeat(f.feats2, "+"+p) {
			return true
		}
	}
	return false
}

// unsatExpr: an expression NO generated value of the class satisfies (values are >= 10 resp.
// start with "v"), so a table that enforced it would refuse every row of the workload.
func unsatExpr(class, col string) string {
	switch class {
	case "int", "uint", "float":
		return col + " < -5000"
	default:
		return "length(" + col + ") > 900"
	}
}

// genMixin adds one mix-in and returns how many names of free it used. A second mix-in may also
// collide with the own columns of the first one: both fields have the same depth, the one declared
// first owns the column ("first appear prioritized"; reorder keeps the first mix-in in front).
func (m *model) genMixin(r *core.Rand, free []nameCol) int {
	name := core.Pick(r, mixNames)
	for _, f := range m.fields {
		if f.mixin && f.goName == name {
			name += "2"
		}
	}
	mix := &fieldGen{goName: name, emb: true, mixin: true, inV1: r.Bool(), anon: r.Bool()}
	mix.kind = goKind{name: "mixin"}
	if !mix.anon {
		mix.tags1 = []string{"embedded"}
		mix.feats = append(mix.feats, "mixin:tag")
	} else {
		mix.feats = append(mix.feats, "mixin:anon")
	}
	added := !mix.inV1

	// fields of the model this mix-in may collide with: they must exist whenever the mix-in does
	var owners []*fieldGen
	usable := func(f *fieldGen) bool {
		return !(f.emb || f.class == "json" || f.class == "tagged" || f.class == "bytes" || (mix.inV1 && !f.inV1))
	}
	for _, f := range m.fields {
		if f.mixin {
			for _, s := range f.sub {
				if s.shadowOf == nil && usable(s) {
					owners = append(owners, s)
				}
			}
		} else if usable(f) {
			owners = append(owners, f)
		}
	}
	nsh := 0
	if r.Chance(5, 6) {
		nsh = r.Range(1, 2)
	}
	if nsh > len(owners) {
		nsh = len(owners)
	}
	nfresh := r.Range(0, 2)
	if nsh == 0 && nfresh == 0 {
		nfresh = 1
	}
	if nfresh > len(free) {
		nfresh = len(free)
	}

	var subs []*fieldGen
	for _, k := range r.Perm(len(owners))[:nsh] {
		o := owners[k]
		s := &fieldGen{goName: o.goName, snake: o.snake, col: o.col, kind: o.kind, class: o.class, wrap: o.wrap, inV1: mix.inV1, shadowOf: o}
		if r.Chance(1, 4) {
			// another Go type of the same class: the column is the owner's, whatever the mix-in says
			var same []goKind
			for _, g := range kinds {
				if strings.HasPrefix(g.name, "Emb") {
					continue
				}
				if c, w := classOf(g.typ); c == o.class && w == "plain" {
					same = append(same, g)
				}
			}
			if len(same) > 0 {
				s.kind = core.Pick(r, same)
				_, s.wrap = classOf(s.kind.typ)
			}
		}
		add := func(tag, feat string) {
			s.tags1 = append(s.tags1, tag)
			mix.feats = append(mix.feats, "shadow:"+feat)
		}
		if !o.pk && r.Chance(1, 4) {
			s.goName = freshIdent(o)
		}
		if s.goName != o.goName || o.col != o.snake {
			s.tags1 = append(s.tags1, "column:"+o.col)
		}
		if o.pk {
			if r.Bool() {
				add("primaryKey", "pk")
			} else {
				mix.feats = append(mix.feats, "shadow:key")
			}
			subs = append(subs, s)
			continue
		}
		var opts []string
		if (o.class == "int" || o.class == "uint" || o.class == "float" || o.class == "string") && !hasAnyFeat(o, "check") {
			opts = append(opts, "check", "check", "check")
		}
		if !hasAnyFeat(o, "notnull") {
			opts = append(opts, "notnull")
		}
		if !hasAnyFeat(o, "default") && !hasAnyFeat(o, "autotime") {
			opts = append(opts, "default")
		}
		if o.class != "bool" && !hasAnyFeat(o, "unique", "uniqueIndex", "index:unique", "index:class", "composite") {
			opts = append(opts, "unique")
		}
		opts = append(opts, "index", "comment", "none")
		if o.class == "string" {
			opts = append(opts, "size")
		}
		used := map[string]bool{}
		for n := r.Range(1, 2); n > 0; n-- {
			o2 := core.Pick(r, opts)
			if used[o2] {
				continue
			}
			used[o2] = true
			switch o2 {
			case "check":
				e := &chkExp{Col: o.col, V2: added}
				flavour := "check"
				if r.Bool() {
					e.Expr, e.Bad = checkExpr(o.class, o.col, r)
				} else {
					e.Expr = unsatExpr(o.class, o.col) // Bad stays nil: every ordinary row violates it
					flavour = "check:unsat"
				}
				m.shadowChk = append(m.shadowChk, e)
				if r.Bool() {
					add("check:"+m.nextName("chk")+","+e.Expr, flavour+":named")
				} else {
					add("check:"+e.Expr, flavour)
				}
			case "notnull":
				add("not null", "notnull")
			case "default":
				if t, ft := defaultTag(r, s, false); t != "" {
					add(t, ft)
				}
			case "unique":
				add("unique", "unique")
				m.shadowUniq = append(m.shadowUniq, &uniqExp{Col: o.col, V2: added})
			case "index":
				// a name of its own: the default name would be the one of the owner's index
				add("index:"+m.nextName("idx"), "index:named")
			case "comment":
				add("comment:from the mix-in", "comment")
			case "size":
				add("size:8", "size")
			}
		}
		subs = append(subs, s)
	}
	for k := 0; k < nfresh; k++ {
		nc := free[k]
		g := core.Pick(r, kinds)
		for strings.HasPrefix(g.name, "Emb") {
			g = core.Pick(r, kinds)
		}
		s := &fieldGen{goName: nc.goName, snake: nc.col, col: nc.col, kind: g, inV1: mix.inV1}
		s.class, s.wrap = classOf(g.typ)
		m.genField(r, s, added)
		for _, ft := range s.feats {
			mix.feats = append(mix.feats, "mix."+ft)
		}
		subs = append(subs, s)
	}
	// declaration order inside the mix-in
	for _, k := range r.Perm(len(subs)) {
		mix.sub = append(mix.sub, subs[k])
	}
	for _, s := range mix.sub {
		if s.shadowOf == nil {
			s.tieIn = mix.goName
		}
	}
	m.fields = append(m.fields, mix)
	m.mixins = append(m.mixins, mix)
	return nfresh
}

func (f *fieldGen) mixType() reflect.Type {
	var sf []reflect.StructField
	for _, s := range f.sub {
		st := reflect.StructField{Name: s.goName, Type: s.kind.typ}
		if t := s.tag(false); t != "" {
			st.Tag = reflect.StructTag(`gorm:"` + t + `"`)
		}
		sf = append(sf, st)
	}
	return reflect.StructOf(sf)
}

func (s *fieldGen) where() string {
	if s.shadowOf.tieIn != "" {
		return "in the mix-in " + s.shadowOf.tieIn + " in front of this one"
	}
	return "by the model itself"
}

func (f *fieldGen) mixText() string {
	var parts []string
	for _, s := range f.sub {
		p := s.goName + " " + s.kind.name
		if t := s.tag(false); t != "" {
			p += " `gorm:\"" + t + "\"`"
		}
		if s.shadowOf != nil {
			p += " /* shadowed: column " + s.shadowOf.col + " belongs to " + s.shadowOf.goName + " declared " + s.where() + " */"
		}
		parts = append(parts, p)
	}
	return "struct{ " + strings.Join(parts, "; ") + " }"
}

// reorder moves mix-ins and (1 of 2 models) the fields added in v2 to random positions of the
// struct: an embedded struct declared BEFORE the field that shadows it is registered first and
// replaced later (schema.Parse), one declared after it never gets the column; added fields need
// not be the last ones of the struct.
func (m *model) reorder(r *core.Rand) {
	moveAdded := r.Bool()
	var stay, move []*fieldGen
	for _, f := range m.fields {
		if f.mixin || (moveAdded && !f.inV1 && r.Bool()) {
			move = append(move, f)
		} else {
			stay = append(stay, f)
		}
	}
	for _, f := range move {
		at := r.Intn(len(stay) + 1)
		stay = append(stay, nil)
		copy(stay[at+1:], stay[at:])
		stay[at] = f
	}
	// two mix-ins keep their order of generation (the second one may collide with the first)
	first := -1
	for i, f := range stay {
		if f.mixin {
			if first < 0 {
				first = i
			} else if stay[first].sub != nil && m.mixOrder(stay[first]) > m.mixOrder(f) {
				stay[first], stay[i] = stay[i], stay[first]
			}
		}
	}
	m.fields = stay
}

func (m *model) mixOrder(f *fieldGen) int {
	for i, g := range m.mixins {
		if g == f {
			return i
		}
	}
	return -1
}

// ---- spelling of tags ----
//
// gorm reads the keys of a tag case-insensitively and ignores blanks around them
// (schema.ParseTagSetting: strings.TrimSpace(strings.ToUpper(key))), also for the options of an
// index after a comma; `gorm:"size:64; index"`, `gorm:"NOT NULL;Index:idx_a, Priority:2"` are the
// same declarations as their compact forms. Only KEYS are respelled: values (names, expressions,
// numbers) are taken literally by gorm.

func spellKey(r *core.Rand, k string, n *int) string {
	o := k
	switch r.Intn(6) {
	case 0:
		k = strings.ToUpper(k)
	case 1:
		k = strings.ToLower(k)
	}
	if r.Chance(1, 3) {
		k = core.Pick(r, []string{" ", " ", " ", "  ", "  ", "\t"}) + k
	}
	if r.Chance(1, 8) {
		k += " "
	}
	if k != o {
		*n++
	}
	return k
}

func spellPiece(r *core.Rand, piece string, n *int) string {
	c := strings.Index(piece, ":")
	if c < 0 {
		return spellKey(r, piece, n)
	}
	key, val := piece[:c], piece[c+1:]
	lk := strings.ToLower(key)
	if lk == "index" || lk == "uniqueindex" {
		// name[,option[:value]]...
		parts := strings.Split(val, ",")
		for i := 1; i < len(parts); i++ {
			if c2 := strings.Index(parts[i], ":"); c2 >= 0 {
				parts[i] = spellKey(r, parts[i][:c2], n) + parts[i][c2:]
			} else {
				parts[i] = spellKey(r, parts[i], n)
			}
		}
		val = strings.Join(parts, ",")
	}
	return spellKey(r, key, n) + ":" + val
}

func (m *model) respell(r *core.Rand) {
	var walk func(fs []*fieldGen)
	walk = func(fs []*fieldGen) {
		for _, f := range fs {
			for i := range f.tags1 {
				f.tags1[i] = spellPiece(r, f.tags1[i], &m.respelled)
			}
			for i := range f.tags2 {
				f.tags2[i] = spellPiece(r, f.tags2[i], &m.respelled)
			}
			if len(f.tags1) > 0 && r.Chance(1, 10) {
				// an empty piece at the end of the tag
				f.tags1[len(f.tags1)-1] += core.Pick(r, []string{";", "; "})
				m.respelled++
			}
			walk(f.sub)
		}
	}
	walk(m.fields)
}

func (m *model) mixinInfo() (mixins, shadowed int) {
	for _, f := range m.fields {
		if f.mixin {
			mixins++
			for _, s := range f.sub {
				if s.shadowOf != nil {
					shadowed++
				}
			}
		}
	}
	return
}

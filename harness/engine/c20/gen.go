package c20

import (
	"database/sql"
	"fmt"
	"reflect"
	"sort"
	"strings"
	"time"

	"verif/core"
)

// EmbA / EmbB are embedded (non-anonymous, `embedded;embeddedPrefix:`) structs.
type EmbA struct {
	X int64
	Y string `gorm:"size:20"`
	Z *float64
}

type EmbB struct {
	P int32 `gorm:"index;default:5"`
	Q sql.NullString
	R time.Time
}

type goKind struct {
	name string
	typ  reflect.Type
}

func ptrTo(v interface{}) reflect.Type { return reflect.PtrTo(reflect.TypeOf(v)) }

var kinds = []goKind{
	{"int", reflect.TypeOf(int(0))}, {"int8", reflect.TypeOf(int8(0))}, {"int16", reflect.TypeOf(int16(0))},
	{"int32", reflect.TypeOf(int32(0))}, {"int64", reflect.TypeOf(int64(0))},
	{"uint", reflect.TypeOf(uint(0))}, {"uint8", reflect.TypeOf(uint8(0))}, {"uint16", reflect.TypeOf(uint16(0))},
	{"uint32", reflect.TypeOf(uint32(0))}, {"uint64", reflect.TypeOf(uint64(0))},
	{"float32", reflect.TypeOf(float32(0))}, {"float64", reflect.TypeOf(float64(0))},
	{"bool", reflect.TypeOf(false)}, {"string", reflect.TypeOf("")}, {"string", reflect.TypeOf("")}, {"string", reflect.TypeOf("")},
	{"bytes", bytesType}, {"time", timeType}, {"time", timeType},
	{"*int64", ptrTo(int64(0))}, {"*int", ptrTo(int(0))}, {"*uint32", ptrTo(uint32(0))}, {"*string", ptrTo("")},
	{"*bool", ptrTo(false)}, {"*float64", ptrTo(float64(0))}, {"*time", ptrTo(time.Time{})},
	{"NullInt64", reflect.TypeOf(sql.NullInt64{})}, {"NullInt32", reflect.TypeOf(sql.NullInt32{})},
	{"NullString", reflect.TypeOf(sql.NullString{})}, {"NullBool", reflect.TypeOf(sql.NullBool{})},
	{"NullFloat64", reflect.TypeOf(sql.NullFloat64{})}, {"NullTime", reflect.TypeOf(sql.NullTime{})},
	{"Tagged", taggedType}, {"json", stringsType},
	{"EmbA", reflect.TypeOf(EmbA{})}, {"EmbB", reflect.TypeOf(EmbB{})},
}

type nameCol struct{ goName, col string }

var namePool = []nameCol{
	{"Name", "name"}, {"Age", "age"}, {"Email", "email"}, {"Score", "score"}, {"Active", "active"}, {"Bio", "bio"},
	{"Payload", "payload"}, {"BornAt", "born_at"}, {"NickName", "nick_name"}, {"Level", "level"}, {"Ratio", "ratio"},
	{"Flag", "flag"}, {"Note", "note"}, {"SeenAt", "seen_at"}, {"UserCode", "user_code"}, {"Rank", "rank"},
	{"Weight", "weight"}, {"Qty", "qty"}, {"City", "city"}, {"Zip", "zip"}, {"Token", "token"}, {"Amount", "amount"},
	{"Visits", "visits"}, {"Grade", "grade"}, {"HomeTown", "home_town"}, {"Price2", "price2"},
}

type fieldGen struct {
	goName string
	snake  string // snake form of the Go name (default index names derive from it)
	col    string // expected column name ("" for embedded structs)
	kind   goKind
	class  string
	wrap   string
	emb    bool
	inV1   bool
	pk     bool
	tags1  []string
	tags2  []string // tags added in v2 (only meaningful when inV1)
	feats  []string // features of the v1 tag set (or of the added field)
	feats2 []string // features added in v2 on an existing field
	// generated mix-in struct (mixin.go): emb is set, kind.typ is built from sub on demand
	mixin    bool
	anon     bool        // anonymous embedding (otherwise a named field tagged `embedded`)
	sub      []*fieldGen // the mix-in's own fields
	shadowOf *fieldGen   // (sub field) the field that owns this field's column
	tieIn    string      // (sub field with a column of its own) name of its mix-in
	rel      *relGen     // a many2many relation field (keyed.go): no column
}

func (f *fieldGen) tag(v2 bool) string {
	t := append([]string(nil), f.tags1...)
	if v2 {
		t = append(t, f.tags2...)
	}
	return strings.Join(t, ";")
}

// idxExp / chkExp / uniqExp: what the generator expects to exist in the database once the
// model version carrying the tag has been migrated (derived from the tags, not from gorm).
type idxExp struct {
	Name    string
	Unique  bool
	Cols    []string
	Expr    bool // indexes an expression (no column list to compare)
	Partial bool
	V2      bool // only part of v2
}

type chkExp struct {
	Col  string
	Expr string
	Bad  interface{} // a value violating the expression
	V2   bool
}

type uniqExp struct {
	Col string
	V2  bool
}

type model struct {
	table  string
	pkKind string
	fields []*fieldGen
	seq    int
	idx    []*idxExp
	chk    []*chkExp
	uniq   []*uniqExp
	// declared ONLY by a shadowed field of a mix-in (the field owning the column declares none)
	shadowChk  []*chkExp
	shadowUniq []*uniqExp
	respelled  int // tag keys written with blanks / in another letter case
	mixins     []*fieldGen
	namer      bool      // the table comes from the handle's NamingStrategy
	rels       []*relGen // generated many2many relations (namer histories only)
}

func (m *model) addIdx(name string, unique bool, col string, expr, partial, v2 bool) {
	for _, e := range m.idx {
		if e.Name == name {
			e.Cols = append(e.Cols, col)
			e.Unique = e.Unique || unique
			return
		}
	}
	m.idx = append(m.idx, &idxExp{Name: name, Unique: unique, Cols: []string{col}, Expr: expr, Partial: partial, V2: v2})
}

func (m *model) defIdx(sub string) string { return "idx_" + m.table + "_" + sub }

func (m *model) nextName(prefix string) string {
	m.seq++
	return fmt.Sprintf("%s_%s_n%d", prefix, m.table, m.seq)
}

func (m *model) structType(v2 bool) reflect.Type {
	var sf []reflect.StructField
	for _, f := range m.fields {
		if !v2 && !f.inV1 {
			continue
		}
		st := reflect.StructField{Name: f.goName, Type: f.kind.typ}
		if f.mixin {
			st.Type = f.mixType()
			st.Anonymous = f.anon
		}
		if t := f.tag(v2); t != "" {
			st.Tag = reflect.StructTag(`gorm:"` + t + `"`)
		}
		sf = append(sf, st)
	}
	return reflect.StructOf(sf)
}

func (m *model) describe(v2 bool) []string {
	var out []string
	for _, f := range m.fields {
		if !v2 && !f.inV1 {
			continue
		}
		s := fmt.Sprintf("%s %s", f.goName, f.kind.name)
		if f.mixin {
			s = f.goName + " " + f.mixText()
			if f.anon {
				s = f.mixText() + "  /* anonymous embedding, field name " + f.goName + " */"
			}
		}
		if t := f.tag(v2); t != "" {
			s += " `gorm:\"" + t + "\"`"
		}
		if v2 && !f.inV1 {
			s += "   // added"
		} else if v2 && len(f.tags2) > 0 {
			s += "   // added: " + strings.Join(f.tags2, ";")
		}
		out = append(out, s)
	}
	return out
}

func hasFeat(fs []string, p string) bool {
	for _, f := range fs {
		if strings.HasPrefix(f, p) {
			return true
		}
	}
	return false
}

// checkExpr returns a CHECK expression every generated value and every generated default satisfies.
func checkExpr(class, col string, r *core.Rand) (string, interface{}) {
	switch class {
	case "int", "uint":
		return core.Pick(r, []string{col + " > -100", col + " >= -50 AND " + col + " < 100000", col + " IN (7,0,-3) OR " + col + " > 5"}), int64(-1000)
	case "float":
		if r.Bool() {
			return col + " >= 0", float64(-5)
		}
		return col + " < 1000000", float64(1e7)
	default:
		if r.Bool() {
			return "length(" + col + ") < 500", strings.Repeat("x", 600)
		}
		return col + " <> 'zzz'", "zzz"
	}
}

// indexTag returns one index-ish tag for a field.
func (m *model) indexTag(r *core.Rand, f *fieldGen, v2, noUnique bool) (tag, feat string) {
	uniqueOK := f.class != "bool" && f.class != "json" && !noUnique
	opts := []string{"index", "index:named", "index:sort", "index:length", "index:comment"}
	if uniqueOK {
		opts = append(opts, "index:unique", "uniqueIndex", "uniqueIndex:named", "index:class")
	}
	if f.class == "string" {
		opts = append(opts, "index:collate")
	}
	if f.class == "int" || f.class == "float" {
		opts = append(opts, "index:expression")
	}
	if f.class == "int" || f.class == "uint" || f.class == "string" {
		opts = append(opts, "index:where")
	}
	o := core.Pick(r, opts)
	def := m.defIdx(f.snake)
	switch o {
	case "index":
		m.addIdx(def, false, f.col, false, false, v2)
		return "index", o
	case "index:named":
		n := m.nextName("idx")
		m.addIdx(n, false, f.col, false, false, v2)
		return "index:" + n, o
	case "index:sort":
		m.addIdx(def, false, f.col, false, false, v2)
		return "index:,sort:desc", o
	case "index:length":
		m.addIdx(def, false, f.col, false, false, v2)
		return "index:,length:8", o
	case "index:comment":
		m.addIdx(def, false, f.col, false, false, v2)
		return "index:,comment:lookup", o
	case "index:unique":
		m.addIdx(def, true, f.col, false, false, v2)
		return "index:,unique", o
	case "uniqueIndex":
		m.addIdx(def, true, f.col, false, false, v2)
		return "uniqueIndex", o
	case "uniqueIndex:named":
		n := m.nextName("ux")
		m.addIdx(n, true, f.col, false, false, v2)
		return "uniqueIndex:" + n, o
	case "index:class":
		m.addIdx(def, true, f.col, false, false, v2)
		return "index:,class:UNIQUE", o
	case "index:collate":
		m.addIdx(def, false, f.col, false, false, v2)
		return "index:,collate:NOCASE", o
	case "index:expression":
		n := m.nextName("idx")
		m.addIdx(n, false, f.col, true, false, v2)
		return "index:" + n + ",expression:abs(" + f.col + ")", o
	case "index:where":
		n := m.nextName("idx")
		m.addIdx(n, false, f.col, false, true, v2)
		return "index:" + n + ",where:" + f.col + " IS NOT NULL", o
	}
	panic(o)
}

func defaultTag(r *core.Rand, f *fieldGen, added bool) (tag, feat string) {
	nullable := f.wrap != "plain"
	var opts [][2]string
	switch f.class {
	case "int":
		opts = [][2]string{{"default:7", "default:int"}, {"default:0", "default:zero"}, {"default:-3", "default:neg"}}
	case "uint":
		opts = [][2]string{{"default:7", "default:int"}, {"default:0", "default:zero"}}
	case "float":
		opts = [][2]string{{"default:1.5", "default:float"}, {"default:2", "default:floatint"}, {"default:0.25", "default:float"}, {"default:1.0", "default:float.0"}, {"default:0.0", "default:float.0"}}
	case "bool":
		opts = [][2]string{{"default:true", "default:bool"}, {"default:false", "default:bool"}}
	case "string":
		opts = [][2]string{{"default:abc", "default:bare"}, {"default:'abc'", "default:quoted"}, {"default:'hello world'", "default:spaced"}, {"default:''", "default:empty"}}
	case "time":
		opts = [][2]string{{"default:'2020-01-02 03:04:05'", "default:timelit"}}
		if !added {
			opts = append(opts, [2]string{"default:CURRENT_TIMESTAMP", "default:now"})
		}
	default:
		return "", ""
	}
	if nullable {
		opts = append(opts, [2]string{"default:null", "default:null"})
	}
	o := core.Pick(r, opts)
	return o[0], o[1]
}

// genField fills the tags of a (non-key) field. added = the field only exists in v2.
func (m *model) genField(r *core.Rand, f *fieldGen, added bool) {
	add := func(tag, feat string) {
		if tag != "" {
			f.tags1 = append(f.tags1, tag)
			f.feats = append(f.feats, feat)
		}
	}
	if f.emb {
		add("embedded", "embedded")
		pre := strings.ToLower(f.goName) + "_"
		add("embeddedPrefix:"+pre, "prefix")
		if f.kind.name == "EmbB" {
			m.addIdx(m.defIdx("p"), false, pre+"p", false, false, added)
		}
		return
	}
	if r.Chance(1, 4) {
		f.col = "c_" + f.col
		add("column:"+f.col, "column")
	}
	switch f.class {
	case "tagged":
		add("type:text", "type:text")
	case "json":
		add("type:text", "type:text")
		add("serializer:json", "serializer")
	}
	simple := f.class != "tagged" && f.class != "json"
	hasDefault := false
	if simple && f.class != "bytes" && r.Chance(1, 3) {
		t, ft := defaultTag(r, f, added)
		add(t, ft)
		hasDefault = t != "" && t != "default:null"
	}
	if r.Chance(1, 4) && (!added || hasDefault) && !hasFeat(f.feats, "default:null") {
		add("not null", "notnull")
	}
	if f.class == "string" {
		switch r.Intn(8) {
		case 0, 1:
			add(fmt.Sprintf("size:%d", core.Pick(r, []int{16, 64, 255, 1000})), "size")
		case 2:
			add("type:varchar(64)", "type:varchar")
		case 3:
			add("type:text", "type:text")
		}
	}
	if f.class == "float" && r.Chance(1, 6) {
		add("precision:10", "precision")
		add("scale:2", "scale")
	}
	if (f.class == "int" || f.class == "uint") && r.Chance(1, 10) {
		add("size:32", "size")
	}
	if r.Chance(1, 10) {
		add("comment:some note", "comment")
	}
	// a column added to a populated table with a constant default holds that default in every
	// existing row: a unique constraint on it cannot be built (the database's refusal, not gorm's)
	noUnique := added && hasDefault
	if simple && f.class != "bool" && f.class != "bytes" && !noUnique && r.Chance(1, 8) {
		add("unique", "unique")
		m.uniq = append(m.uniq, &uniqExp{Col: f.col, V2: added})
	}
	if r.Chance(2, 5) {
		add(m.indexTag(r, f, added, noUnique))
		if r.Chance(1, 6) {
			n := m.nextName("idx")
			m.addIdx(n, false, f.col, false, false, added)
			add("index:"+n, "index:second")
		}
	}
	if (f.class == "int" || f.class == "uint" || f.class == "float" || f.class == "string") && r.Chance(1, 5) {
		e, bad := checkExpr(f.class, f.col, r)
		m.chk = append(m.chk, &chkExp{Col: f.col, Expr: e, Bad: bad, V2: added})
		if r.Bool() {
			add("check:"+m.nextName("chk")+","+e, "check:named")
		} else {
			add("check:"+e, "check")
		}
	}
	if r.Chance(1, 12) {
		add("<-:create", "perm")
	}
	if f.wrap == "plain" && !hasDefault && r.Chance(1, 8) {
		switch {
		case f.class == "time":
			add(core.Pick(r, []string{"autoCreateTime", "autoUpdateTime"}), "autotime")
		case f.kind.name == "int64":
			add(core.Pick(r, []string{"autoCreateTime", "autoUpdateTime:milli", "autoUpdateTime:nano"}), "autotime")
		}
	}
}

// addToExisting adds index / uniqueIndex / unique / check tags to a v1 field in v2.
func (m *model) addToExisting(r *core.Rand, f *fieldGen) {
	add := func(tag, feat string) {
		f.tags2 = append(f.tags2, tag)
		f.feats2 = append(f.feats2, "+"+feat)
	}
	simple := !f.emb && f.class != "tagged" && f.class != "json"
	var opts []string
	if !f.emb && !hasFeat(f.feats, "index") && !hasFeat(f.feats, "uniqueIndex") && !hasFeat(f.feats2, "+index") && !hasFeat(f.feats2, "+uniqueIndex") {
		opts = append(opts, "index", "index")
	}
	if !f.emb {
		opts = append(opts, "index2")
	}
	if simple && f.class != "bool" && f.class != "bytes" && !hasFeat(f.feats, "unique") && !hasFeat(f.feats2, "+unique") && !f.pk {
		opts = append(opts, "unique")
	}
	if simple && !hasFeat(f.feats, "check") && !hasFeat(f.feats2, "+check") && (f.class == "int" || f.class == "uint" || f.class == "float" || f.class == "string") {
		opts = append(opts, "check", "check")
	}
	if len(opts) == 0 {
		return
	}
	switch core.Pick(r, opts) {
	case "index":
		add(m.indexTag(r, f, true, false))
	case "index2":
		n := m.nextName("idx")
		m.addIdx(n, false, f.col, false, false, true)
		add("index:"+n, "index:named")
	case "unique":
		add("unique", "unique")
		m.uniq = append(m.uniq, &uniqExp{Col: f.col, V2: true})
	case "check":
		e, bad := checkExpr(f.class, f.col, r)
		m.chk = append(m.chk, &chkExp{Col: f.col, Expr: e, Bad: bad, V2: true})
		if r.Bool() {
			add("check:"+m.nextName("chk")+","+e, "check:named")
		} else {
			add("check:"+e, "check")
		}
	}
}

func (m *model) composite(r *core.Rand, fs []*fieldGen, v2 bool) {
	var el []*fieldGen
	for _, f := range fs {
		if !f.emb && f.class != "json" {
			el = append(el, f)
		}
	}
	if len(el) < 2 {
		return
	}
	p := r.Perm(len(el))
	n := r.Range(2, 3)
	if n > len(el) {
		n = len(el)
	}
	style := r.Intn(3)
	var name, iname string
	switch style {
	case 0:
		iname = m.nextName("idx")
		name = "index:" + iname
	case 1:
		iname = m.nextName("ux")
		name = "uniqueIndex:" + iname
	default:
		m.seq++
		iname = m.defIdx(fmt.Sprintf("grp%d", m.seq))
		name = fmt.Sprintf("index:,composite:grp%d", m.seq)
	}
	// a unique composite needs a column whose existing values are distinct (or NULL): a v1 non-bool column
	allBool := true
	for k := 0; k < n; k++ {
		if el[p[k]].class != "bool" && el[p[k]].inV1 {
			allBool = false
		}
	}
	if allBool && style == 1 {
		iname = m.nextName("idx")
		name = "index:" + iname
		style = 0
	}
	unique := style != 1 && !allBool && r.Chance(1, 4)
	prio := r.Perm(n)
	for k := 0; k < n; k++ {
		f := el[p[k]]
		t := name
		if r.Chance(2, 3) {
			t += fmt.Sprintf(",priority:%d", prio[k]+1)
		}
		if unique && k == 0 {
			t += ",unique"
		}
		m.addIdx(iname, unique || style == 1, f.col, false, false, v2)
		if v2 && f.inV1 {
			f.tags2 = append(f.tags2, t)
			f.feats2 = append(f.feats2, "+composite")
		} else {
			f.tags1 = append(f.tags1, t)
			f.feats = append(f.feats, "composite")
		}
	}
}

func genModel(r *core.Rand, n int) *model {
	m := &model{table: core.Pick(r, []string{"items", "user_profiles", "t", "orders2", "acct"}) + fmt.Sprint(n%7)}
	m.pkKind = core.Pick(r, []string{"auto", "auto", "uintID", "string", "composite", "noauto"})
	key := func(name, col string, k goKind, tags ...string) {
		c, w := classOf(k.typ)
		m.fields = append(m.fields, &fieldGen{goName: name, snake: col, col: col, kind: k, class: c, wrap: w, inV1: true, pk: true, tags1: tags, feats: []string{"pk:" + m.pkKind}})
	}
	switch m.pkKind {
	case "auto":
		key("ID", "id", goKind{"int64", reflect.TypeOf(int64(0))}, "primaryKey")
	case "uintID":
		key("ID", "id", goKind{"uint", reflect.TypeOf(uint(0))})
	case "string":
		key("Code", "code", goKind{"string", reflect.TypeOf("")}, "primaryKey", "size:32")
	case "composite":
		key("K1", "k1", goKind{"int64", reflect.TypeOf(int64(0))}, "primaryKey", "autoIncrement:false")
		key("K2", "k2", goKind{"string", reflect.TypeOf("")}, "primaryKey")
	case "noauto":
		key("ID", "id", goKind{"int32", reflect.TypeOf(int32(0))}, "primaryKey", "autoIncrement:false")
	}
	names := r.Perm(len(namePool))
	nv1 := r.Range(1, 7)
	nv2 := r.Range(0, 4)
	embUsed := map[string]bool{}
	for i := 0; i < nv1+nv2; i++ {
		nc := namePool[names[i]]
		k := core.Pick(r, kinds)
		for strings.HasPrefix(k.name, "Emb") && embUsed[k.name] {
			k = core.Pick(r, kinds)
		}
		f := &fieldGen{goName: nc.goName, snake: nc.col, col: nc.col, kind: k, inV1: i < nv1}
		if strings.HasPrefix(k.name, "Emb") {
			embUsed[k.name] = true
			f.emb = true
			f.col = ""
		} else {
			f.class, f.wrap = classOf(k.typ)
		}
		m.genField(r, f, !f.inV1)
		m.fields = append(m.fields, f)
	}
	var v1, all []*fieldGen
	for _, f := range m.fields {
		if f.pk {
			continue
		}
		all = append(all, f)
		if f.inV1 {
			v1 = append(v1, f)
		}
	}
	if r.Chance(1, 3) {
		m.composite(r, v1, false)
	}
	// v2 additions on existing fields
	nadd := r.Range(0, 3)
	if nv2 == 0 && nadd == 0 {
		nadd = 1
	}
	var inV1 []*fieldGen
	for _, f := range m.fields {
		if f.inV1 {
			inV1 = append(inV1, f)
		}
	}
	for k := 0; k < nadd; k++ {
		m.addToExisting(r, core.Pick(r, inV1))
	}
	if r.Chance(1, 3) {
		m.composite(r, all, true)
	}
	// last, so that every tag of the outer fields is known: a generated mix-in (mixin.go)
	var free []nameCol
	for _, k := range names[nv1+nv2:] {
		free = append(free, namePool[k])
	}
	if r.Chance(1, 3) {
		n := m.genMixin(r, free)
		if r.Chance(1, 4) {
			m.genMixin(r, free[n:])
		}
	}
	// how the table is named: per call (Table / scopes), or (1 of 4) by the handle's NamingStrategy;
	// only then can the model have relations (keyed.go)
	if r.Chance(1, 4) {
		m.namer = true
		if r.Chance(2, 3) {
			m.genRelations(r, free)
		}
	}
	m.reorder(r)
	if r.Chance(1, 2) || (len(m.rels) > 0 && r.Bool()) {
		m.respell(r)
	}
	return m
}

// features returns the sorted feature sets (v1, additions) used as the case shape.
func (m *model) features() (v1, add []string) {
	s1, s2 := map[string]bool{}, map[string]bool{}
	for _, f := range m.fields {
		if f.inV1 {
			for _, x := range f.feats {
				s1[x] = true
			}
			for _, x := range f.feats2 {
				s2[x] = true
			}
		} else {
			for _, x := range f.feats {
				s2["new:"+x] = true
			}
			if f.rel != nil && f.rel.bt {
				s2["new:belongs-to"] = true
			} else if f.rel != nil {
				s2["new:m2m"] = true
			} else if f.mixin {
				s2["new:mixin"] = true
			} else if f.emb {
				s2["new:emb"] = true
			} else {
				s2["new:k:"+f.class] = true
			}
		}
	}
	for k := range s1 {
		v1 = append(v1, k)
	}
	for k := range s2 {
		add = append(add, k)
	}
	sort.Strings(v1)
	sort.Strings(add)
	return
}

// Package c20: AutoMigrate is idempotent and never loses data.
//
// History per case, on a fresh in-memory SQLite database behind the recording driver:
// migrate(v1) -> rows (raw SQL + gorm Create) -> migrate(v1) [no schema-changing statement,
// dump unchanged] -> migrate(v2 = v1 + fields/indexes/unique/check) [dump restricted to v1's
// columns unchanged, added columns/indexes/constraints present, v1's still present] ->
// records of the v2 type round-trip (Create; raw SQL and First) -> migrate(v2) [no DDL].
//
// Generated models (gen.go) may carry generated mix-ins whose fields are shadowed by fields of
// the model (mixin.go), tag keys spelled with blanks / in another case, added fields declared
// between old ones; every AutoMigrate call draws one of four call forms, and every call of a
// history draws how it names the table: db.Table(t), a scope calling Table(t), a scope that
// registers that scope (two and three levels), next to a do-nothing scope. One generated history in
// four names its table through the handle's NamingStrategy instead (nothing per call), and two
// thirds of those carry generated RELATIONS to declared types (keyed.go): many2many keyed by the
// primary key or by a non-primary column with the whole index / unique grammar, belongs-to with a
// new foreign key column - part of v1 or added in v2 to the populated table.
//
// One case in eight (grow.go) adds RELATIONS in v2 to populated tables, with the models passed in
// random order / subsets / split calls and SQLite foreign key enforcement on for most of them, so
// that the dependency order computed by ReorderModels is observable (a rebuilt child table whose
// new parent does not exist yet fails with "no such table").
//
// One case in sixteen (multi.go) has ONE owner with SEVERAL has-one/has-many relations to the
// SAME child model (in v1 already, or added in v2 to the populated child table), a second owner
// with a relation of the same name, and both directions between the two models; the child table
// must carry one foreign key per relation.
//
// Tag values NOT generated because their non-idempotence is caused by the external SQLite
// dialector's DDL parser (gorm.io/driver/sqlite ddlmod.go), not by migrator/migrator.go:
//   - default:(expr)  e.g. default:(abs(-5)), default:(lower('AB')): defaultValueRegexp strips the
//     opening parenthesis only and reports "abs(-5))" as the column default
//   - type:decimal(10,2): columnRegexp stops at the comma, the column type is mis-read
//   - type:<int type>(N) on integer kinds (tinyint(1)): the parser reports N as a column length,
//     which MigrateColumn compares with the field's bit size
//
// Deviations of /repo the engine reports (signatures):
//   - v2_unique_constraint_missing / remigrate_v2_ddl:rebuild-adds-unique-constraint:
//     a field added with `unique` gets its column but not its constraint (AutoMigrate's
//     AddColumn branch); the next AutoMigrate of the same model rebuilds the table to add it
//   - remigrate_v{1,2}_ddl:rebuild-without-change: a numeric default spelled differently from
//     Go's rendering of the parsed value (default:1.0, default:0.0) makes every AutoMigrate
//     rebuild the table (MigrateColumn compares the database's "1" with the tag text "1.0")
//   - remigrate_v1_ddl:rebuild-drops-unique-of-shadowed-field: a mix-in field that is shadowed by a
//     field of the model says `unique`, the owning field does not: CreateTable installs
//     CONSTRAINT uni_<table>_<col> (ParseUniqueConstraints ranges over schema.Fields), the next
//     AutoMigrate of the same model rebuilds the table to drop it (MigrateColumnUnique looks at the
//     owning field)
//   - v{1,2}_constraint_of_shadowed_field: a CHECK written only on a shadowed mix-in field is
//     enforced by the table (not on the unchanged tree: ParseCheckConstraints ranges over
//     FieldsByDBName)
//   - migrate_v{1,2}_error:join-table-takes-check-of-key-field: a many2many key field (primary key or
//     foreignKey:F) that declares `check:` - the join table's field is built from the key field's tag, the
//     check is compiled into CREATE TABLE <join> where its column does not exist ("no such column")
//   - v{1,2}_join_table_unique_on_one_key:<cause> / migrate_v{1,2}_error:join-table-takes-index-of-key-field:<cause>:
//     schema/utils.go removeSettingFromTag removes each of column/autoIncrement/index/unique/uniqueIndex
//     once and only when the name is directly followed by `:`/`;`/`"`: with two index settings on the key
//     field (`unique;uniqueIndex`, `index:a;index:b`) or a blank behind the name (`unique ;`, `index :a`,
//     `uniqueIndex; `) one survives in the join table: UNIQUE on one join column (the second associated
//     record of an owner is dropped silently) or CREATE INDEX with the name of the owner's index
//     ("index ... already exists")
//   - multi_migrate_v2_error:child-listed-before-new-owner: AutoMigrate(&Letter{}, &Office{}) where
//     letters exists with rows, offices does not, and Office declares a has-many to Letter: under
//     _foreign_keys=1 the call fails with "no such table: main.offices" (ReorderModels reads the
//     child's dependencies before the later argument Office was parsed, so letters is rebuilt
//     first); AutoMigrate(&Office{}, &Letter{}) succeeds
package c20

import (
	"fmt"
	"reflect"
	"sort"
	"strings"

	"gorm.io/gorm"
	"gorm.io/gorm/schema"

	"verif/core"
	"verif/recdrv"
	"verif/vdb"
)

func isDDL(q string) bool {
	t := strings.ToUpper(strings.TrimSpace(q))
	return strings.HasPrefix(t, "CREATE") || strings.HasPrefix(t, "ALTER") || strings.HasPrefix(t, "DROP") ||
		strings.Contains(t, "RENAME") || strings.Contains(t, "__TEMP")
}

func ddlOf(evs []recdrv.Event) []string {
	var out []string
	for _, e := range evs {
		if e.IsStatement() && isDDL(e.Query) {
			out = append(out, e.Query)
		}
	}
	return out
}

// ddlClass gives DDL violations a stable signature suffix.
func ddlClass(ddl []string) string {
	for _, q := range ddl {
		if strings.Contains(strings.ToUpper(q), "__TEMP") {
			return "table-rebuild"
		}
	}
	t := strings.ToUpper(strings.TrimSpace(ddl[0]))
	switch {
	case strings.HasPrefix(t, "CREATE UNIQUE INDEX"), strings.HasPrefix(t, "CREATE INDEX"):
		return "create-index"
	case strings.HasPrefix(t, "CREATE TABLE"):
		return "create-table"
	case strings.HasPrefix(t, "ALTER TABLE") && strings.Contains(t, " ADD "):
		return "alter-add"
	}
	f := strings.Fields(t)
	if len(f) > 1 {
		return strings.ToLower(f[0] + "-" + f[1])
	}
	return "other"
}

// fragments splits the body of a CREATE TABLE statement at its top-level commas.
func fragments(sql string) []string {
	a, b := strings.Index(sql, "("), strings.LastIndex(sql, ")")
	if a < 0 || b < a {
		return nil
	}
	var out []string
	depth, quote, start := 0, rune(0), 0
	body := sql[a+1 : b]
	for i, ch := range body {
		switch {
		case quote != 0:
			if ch == quote {
				quote = 0
			}
		case ch == '\'' || ch == '"' || ch == '`':
			quote = ch
		case ch == '(':
			depth++
		case ch == ')':
			depth--
		case ch == ',' && depth == 0:
			out = append(out, strings.TrimSpace(body[start:i]))
			start = i + 1
		}
	}
	return append(out, strings.TrimSpace(body[start:]))
}

// remigrationCause names what a schema-changing re-migration did to the table definition
// (part of the violation signature, so that classes of deviations stay recognisable).
func remigrationCause(ddl, before, after []string) (string, map[string]interface{}) {
	cls := ddlClass(ddl)
	if cls != "table-rebuild" || len(before) == 0 || len(after) == 0 {
		return cls, nil
	}
	fb, fa := fragments(before[0]), fragments(after[0])
	in := func(xs []string) map[string]bool {
		m := map[string]bool{}
		for _, x := range xs {
			m[x] = true
		}
		return m
	}
	mb, ma := in(fb), in(fa)
	var added, removed []string
	for _, f := range fa {
		if !mb[f] {
			added = append(added, f)
		}
	}
	for _, f := range fb {
		if !ma[f] {
			removed = append(removed, f)
		}
	}
	info := map[string]interface{}{"definition_fragments_added": added, "definition_fragments_removed": removed}
	switch {
	case len(added) == 0 && len(removed) == 0:
		return "rebuild-without-change", info
	case len(added) == 0:
		all := true
		for _, f := range removed {
			if !strings.HasPrefix(f, "CONSTRAINT `uni_") {
				all = false
			}
		}
		if all {
			return "rebuild-drops-unique-constraint", info
		}
	case len(removed) == 0:
		all := true
		for _, f := range added {
			if !strings.HasPrefix(f, "CONSTRAINT `uni_") {
				all = false
			}
		}
		if all {
			return "rebuild-adds-unique-constraint", info
		}
	}
	return "rebuild-changes-definition", info
}

// hist is one migration history on one table.
type hist struct {
	c      *core.Ctx
	h      *vdb.Handle
	table  string
	t1, t2 reflect.Type
	l1, l2 []*leaf
	rows   int // row index counter (values derive from it)
	pkAuto bool
	info   map[string]interface{}
	ops    []string
	failed bool
	m      *model
	namer  bool // the table comes from the handle's NamingStrategy (no Table()/Scopes per call)
	scoped int  // calls that named the table through a scope
	// known rows: pk canon values + v1 leaf canon
	known []map[string]string
}

// ---- how a call names the table of a single-table history ----
//
// db.Table(t), a scope that calls Table(t), a scope that registers that scope (a scope may register
// further scopes: gorm runs them generation by generation), three levels, a do-nothing scope next to
// it - all the same request. In `namer` histories nothing is said per call: the handle's
// NamingStrategy gives the (anonymous) model type its table, as a named type would have it.

func tblScope(t string) func(*gorm.DB) *gorm.DB {
	return func(db *gorm.DB) *gorm.DB { return db.Table(t) }
}

func nestScope(f func(*gorm.DB) *gorm.DB) func(*gorm.DB) *gorm.DB {
	return func(db *gorm.DB) *gorm.DB { return db.Scopes(f) }
}

func noopScope(db *gorm.DB) *gorm.DB { return db }

const selNotation = "tbl(t) = func(db *gorm.DB) *gorm.DB { return db.Table(t) }; nest(f) = func(db *gorm.DB) *gorm.DB { return db.Scopes(f) }; noop = func(db *gorm.DB) *gorm.DB { return db }"

// sel returns a reusable handle that names the table, and its literal text; the form is drawn per call.
func (x *hist) sel() (*gorm.DB, string) {
	if x.namer {
		return x.h.DB.Session(&gorm.Session{}), "db"
	}
	t := x.table
	var db *gorm.DB
	var text string
	switch x.c.R.Intn(10) {
	case 0:
		db, text = x.h.DB.Scopes(tblScope(t)), fmt.Sprintf("db.Scopes(tbl(%q))", t)
	case 1, 2:
		db, text = x.h.DB.Scopes(nestScope(tblScope(t))), fmt.Sprintf("db.Scopes(nest(tbl(%q)))", t)
	case 3:
		db, text = x.h.DB.Scopes(nestScope(nestScope(tblScope(t)))), fmt.Sprintf("db.Scopes(nest(nest(tbl(%q))))", t)
	case 4:
		if x.c.R.Bool() {
			db, text = x.h.DB.Scopes(noopScope, nestScope(tblScope(t))), fmt.Sprintf("db.Scopes(noop, nest(tbl(%q)))", t)
		} else {
			db, text = x.h.DB.Scopes(nestScope(tblScope(t)), noopScope), fmt.Sprintf("db.Scopes(nest(tbl(%q)), noop)", t)
		}
	default:
		db, text = x.h.DB.Table(t), fmt.Sprintf("db.Table(%q)", t)
	}
	if text != fmt.Sprintf("db.Table(%q)", t) {
		x.scoped++
		if x.info == nil {
			x.info = map[string]interface{}{}
		}
		x.info["notation"] = selNotation
	}
	return db.Session(&gorm.Session{}), text
}

func (x *hist) tx() *gorm.DB { db, _ := x.sel(); return db }

// parseTable is the table name handed to the schema parser (none when the naming strategy decides).
func (x *hist) parseTable() string {
	if x.namer {
		return ""
	}
	return x.table
}

func (x *hist) op(f string, a ...interface{}) { x.ops = append(x.ops, fmt.Sprintf(f, a...)) }

func (x *hist) violation(sig string, extra map[string]interface{}) {
	d := map[string]interface{}{"table": x.table, "operations": append([]string(nil), x.ops...), "table_ddl_now": x.masterSQL()}
	for k, v := range x.info {
		d[k] = v
	}
	for k, v := range extra {
		d[k] = v
	}
	x.c.Violation(sig, d)
	x.failed = true
}

func (x *hist) masterSQL() []string {
	rows, err := vdb.RowMaps(x.h.SQL, "SELECT sql FROM sqlite_master WHERE tbl_name = ? AND sql IS NOT NULL ORDER BY type DESC, name", x.table)
	if err != nil {
		return []string{"ERR " + err.Error()}
	}
	var out []string
	for _, r := range rows {
		out = append(out, fmt.Sprint(r["sql"]))
	}
	return out
}

func leavesOf(h *vdb.Handle, table string, t reflect.Type) []*leaf {
	stmt := &gorm.Statement{DB: h.DB}
	if err := stmt.ParseWithSpecialTableName(reflect.New(t).Interface(), table); err != nil {
		panic(fmt.Sprintf("c20 harness: model does not parse: %v", err))
	}
	// a column declared twice (a mix-in's field and a field of the model) belongs to the field
	// with the shortest path, the first one among equals; the other one is shadowed
	owner := map[string]*schema.Field{}
	for _, f := range stmt.Schema.Fields {
		if f.DBName == "" {
			continue
		}
		if o, ok := owner[f.DBName]; !ok || len(f.BindNames) < len(o.BindNames) {
			owner[f.DBName] = f
		}
	}
	var out []*leaf
	for _, f := range stmt.Schema.Fields {
		if f.DBName == "" || f.IgnoreMigration || owner[f.DBName] != f {
			continue
		}
		l := &leaf{path: append([]string(nil), f.BindNames...), col: f.DBName, typ: f.FieldType, f: f, ord: len(out)}
		l.class, l.wrap = classOf(f.FieldType)
		out = append(out, l)
	}
	return out
}

func (x *hist) migrate(t reflect.Type, label string, also ...interface{}) (ddl []string, err error) {
	mark := x.h.Rec.Mark()
	db, sel := x.sel()
	args := func(v interface{}) []interface{} { return append([]interface{}{v}, also...) }
	alsoText := ""
	if len(also) > 0 {
		alsoText = ", " + names(also)
	}
	// call form, drawn per call: the four are the same request
	form := "%s.AutoMigrate(&%s{}%s)"
	switch x.c.R.Intn(10) {
	case 0, 1:
		form = "%s.Migrator().AutoMigrate(&%s{}%s)"
		err = db.Migrator().AutoMigrate(args(reflect.New(t).Interface())...)
	case 2:
		form = "%s.AutoMigrate(%s{}%s)"
		err = db.AutoMigrate(args(reflect.New(t).Elem().Interface())...)
	case 3:
		form = "tx := %s.Begin(); tx.AutoMigrate(&%s{}%s); tx.Commit() [Rollback on error]"
		tx := db.Begin()
		if err = tx.Error; err == nil {
			if err = tx.AutoMigrate(args(reflect.New(t).Interface())...); err != nil {
				tx.Rollback()
			} else {
				err = tx.Commit().Error
			}
		}
	default:
		err = db.AutoMigrate(args(reflect.New(t).Interface())...)
	}
	ddl = ddlOf(x.h.Rec.Since(mark))
	x.op(form+"  -> err=%v, %d schema-changing statements", sel, label, alsoText, err, len(ddl))
	return
}

func quoteCols(ls []*leaf) string {
	cs := make([]string, len(ls))
	for i, l := range ls {
		cs[i] = "`" + l.col + "`"
	}
	return strings.Join(cs, ",")
}

// dump returns the sorted rows restricted to the columns of ls.
func (x *hist) dump(ls []*leaf) []string {
	rows, err := x.h.SQL.Query("SELECT " + quoteCols(ls) + " FROM `" + x.table + "`")
	if err != nil {
		return []string{"ERR " + err.Error()}
	}
	defer rows.Close()
	var out []string
	for rows.Next() {
		vals := make([]interface{}, len(ls))
		ptrs := make([]interface{}, len(ls))
		for i := range vals {
			ptrs[i] = &vals[i]
		}
		if err := rows.Scan(ptrs...); err != nil {
			return []string{"ERR " + err.Error()}
		}
		parts := make([]string, len(ls))
		for i, l := range ls {
			parts[i] = l.col + "=" + vdb.Render(vals[i])
		}
		out = append(out, strings.Join(parts, " | "))
	}
	sort.Strings(out)
	return out
}

func same(a, b []string) bool { return strings.Join(a, "\n") == strings.Join(b, "\n") }

func diff(a, b []string) map[string]interface{} {
	in := func(xs []string) map[string]bool {
		m := map[string]bool{}
		for _, x := range xs {
			m[x] = true
		}
		return m
	}
	ma, mb := in(a), in(b)
	var gone, fresh []string
	for _, l := range a {
		if !mb[l] {
			gone = append(gone, l)
		}
	}
	for _, l := range b {
		if !ma[l] {
			fresh = append(fresh, l)
		}
	}
	return map[string]interface{}{"rows_before": len(a), "rows_after": len(b), "rows_only_before": gone, "rows_only_after": fresh}
}

// values for a new row: every leaf non-zero; NULL only where the column allows and no default interferes.
func (x *hist) newRow(ls []*leaf, forGorm, allowNull bool) (int, []lval) {
	x.rows++
	i := x.rows
	vals := make([]lval, len(ls))
	for k, l := range ls {
		null := false
		if allowNull && l.wrap != "plain" && !l.f.NotNull && !l.f.PrimaryKey && !(forGorm && l.f.HasDefaultValue) {
			null = x.c.R.Chance(1, 4)
		}
		if l.wrap == "deleted" {
			null = true
		}
		vals[k] = mk(l, i, null, forGorm && l.f.HasDefaultValue)
	}
	return i, vals
}

func (x *hist) remember(ls []*leaf, vals []lval) {
	m := map[string]string{}
	for k, l := range ls {
		m[l.col] = canon(l, vals[k])
	}
	x.known = append(x.known, m)
}

func (x *hist) rawInsert(ls []*leaf, vals []lval) error {
	args := make([]interface{}, len(ls))
	ph := make([]string, len(ls))
	for k, l := range ls {
		args[k] = rawArg(l, vals[k])
		ph[k] = "?"
	}
	_, err := x.h.SQL.Exec("INSERT INTO `"+x.table+"` ("+quoteCols(ls)+") VALUES ("+strings.Join(ph, ",")+")", args...)
	return err
}

func pkLeaves(ls []*leaf) []*leaf {
	var out []*leaf
	for _, l := range ls {
		if l.f.PrimaryKey {
			out = append(out, l)
		}
	}
	return out
}

func pkWhere(ls []*leaf, rv reflect.Value) (string, []interface{}) {
	var conds []string
	var args []interface{}
	for _, l := range pkLeaves(ls) {
		conds = append(conds, "`"+l.col+"` = ?")
		args = append(args, fieldAt(rv, l.path).Interface())
	}
	return strings.Join(conds, " AND "), args
}

// gormCreate creates one record of type t through gorm and returns it.
func (x *hist) gormCreate(t reflect.Type, ls []*leaf, label string, zeroKey bool) (reflect.Value, []lval, error) {
	_, vals := x.newRow(ls, true, true)
	rec := reflect.New(t)
	for k, l := range ls {
		if zeroKey && l.f.PrimaryKey {
			continue
		}
		setGo(rec.Elem(), l, vals[k])
	}
	db, sel := x.sel()
	err := db.Create(rec.Interface()).Error
	x.op("%s.Create(&%s{...row %d...}) -> err=%v", sel, label, x.rows, err)
	if err == nil && zeroKey {
		for k, l := range ls {
			if l.f.PrimaryKey {
				vals[k] = lval{i: fieldAt(rec.Elem(), l.path).Convert(reflect.TypeOf(int64(0))).Int()}
			}
		}
	}
	return rec, vals, err
}

// readRaw reads the row with the record's key using raw SQL and canonicalises it.
func (x *hist) readRaw(ls []*leaf, rec reflect.Value) (map[string]string, error) {
	w, args := pkWhere(ls, rec.Elem())
	rows, err := vdb.RowMaps(x.h.SQL, "SELECT "+quoteCols(ls)+" FROM `"+x.table+"` WHERE "+w, args...)
	if err != nil {
		return nil, err
	}
	if len(rows) != 1 {
		return nil, fmt.Errorf("%d rows with key %v", len(rows), args)
	}
	out := map[string]string{}
	for _, l := range ls {
		out[l.col] = fromRaw(l, rows[0][l.col])
	}
	return out, nil
}

func (x *hist) checkRoundTrip(t reflect.Type, ls []*leaf, rec reflect.Value, vals []lval, how string) {
	var problems []string
	got, err := x.readRaw(ls, rec)
	if err != nil {
		problems = append(problems, "raw read: "+err.Error())
	} else {
		for k, l := range ls {
			if want := canon(l, vals[k]); got[l.col] != want {
				problems = append(problems, fmt.Sprintf("column %s stored %s, record had %s", l.col, got[l.col], want))
			}
		}
	}
	out := reflect.New(t)
	w, args := pkWhere(ls, rec.Elem())
	db, sel := x.sel()
	if err := db.Where(w, args...).First(out.Interface()).Error; err != nil {
		problems = append(problems, fmt.Sprintf("%s.Where(%q, %v).First: %v", sel, w, args, err))
	} else {
		for k, l := range ls {
			if g, want := fromGo(out.Elem(), l), canon(l, vals[k]); g != want {
				problems = append(problems, fmt.Sprintf("First: field %s = %s, created with %s", strings.Join(l.path, "."), g, want))
			}
		}
	}
	if len(problems) > 0 {
		x.violation("roundtrip_v2", map[string]interface{}{"how": how, "problems": problems})
	} else {
		x.c.Inc("v2_records_round_tripped")
	}
}

type tableInfo struct {
	cols    map[string]bool
	indexes map[string]bool // name -> unique
	idxCols map[string][]string
}

func (x *hist) inspect() tableInfo {
	ti := tableInfo{cols: map[string]bool{}, indexes: map[string]bool{}, idxCols: map[string][]string{}}
	rows, _ := vdb.RowMaps(x.h.SQL, "SELECT name FROM pragma_table_info(?)", x.table)
	for _, r := range rows {
		ti.cols[fmt.Sprint(r["name"])] = true
	}
	rows, _ = vdb.RowMaps(x.h.SQL, "SELECT name, \"unique\" AS u FROM pragma_index_list(?)", x.table)
	for _, r := range rows {
		n := fmt.Sprint(r["name"])
		ti.indexes[n] = fmt.Sprint(r["u"]) == "1"
		cs, _ := vdb.RowMaps(x.h.SQL, "SELECT name FROM pragma_index_info(?) ORDER BY seqno", n)
		for _, c := range cs {
			if c["name"] == nil {
				ti.idxCols[n] = append(ti.idxCols[n], "<expr>")
			} else {
				ti.idxCols[n] = append(ti.idxCols[n], fmt.Sprint(c["name"]))
			}
		}
	}
	return ti
}

func sortedCopy(xs []string) []string {
	o := append([]string(nil), xs...)
	sort.Strings(o)
	return o
}

// checkObjects verifies that the expected columns / indexes / unique / check constraints exist
// (indexes by catalogue, constraints by behaviour inside a rolled-back transaction).
func (x *hist) checkObjects(m *model, ls []*leaf, v2 bool) (missing, foreign []string) {
	ti := x.inspect()
	for _, l := range ls {
		if !ti.cols[l.col] {
			missing = append(missing, "column "+l.col)
		}
	}
	if m == nil {
		return
	}
	for _, e := range m.idx {
		if e.V2 && !v2 {
			continue
		}
		u, ok := ti.indexes[e.Name]
		if !ok {
			missing = append(missing, fmt.Sprintf("index %s (from v2 only: %v)", e.Name, e.V2))
			continue
		}
		if u != e.Unique {
			missing = append(missing, fmt.Sprintf("index %s unique=%v, model says %v", e.Name, u, e.Unique))
		}
		if !e.Expr {
			if g, w := sortedCopy(ti.idxCols[e.Name]), sortedCopy(e.Cols); strings.Join(g, ",") != strings.Join(w, ",") {
				missing = append(missing, fmt.Sprintf("index %s covers %v, model says %v", e.Name, g, w))
			}
		}
	}
	colLeaf := map[string]int{}
	for k, l := range ls {
		colLeaf[l.col] = k
	}
	// a CHECK written only on a shadowed field of a mix-in is no constraint of the model: a row
	// that violates it (and nothing the owning fields declare) must be accepted
	for _, e := range m.shadowChk {
		if e.V2 && !v2 {
			continue
		}
		i := x.rows + 1
		args := make([]interface{}, len(ls))
		ph := make([]string, len(ls))
		for k, l := range ls {
			args[k] = rawArg(l, mk(l, i, l.wrap == "deleted", false))
			if l.col == e.Col && e.Bad != nil {
				args[k] = e.Bad
			}
			ph[k] = "?"
		}
		tx, err := x.h.SQL.Begin()
		if err != nil {
			panic(err)
		}
		_, err = tx.Exec("INSERT INTO `"+x.table+"` ("+quoteCols(ls)+") VALUES ("+strings.Join(ph, ",")+")", args...)
		tx.Rollback()
		x.c.Inc("shadowed_check_probes")
		if err != nil {
			if !strings.Contains(err.Error(), "CHECK constraint failed") {
				panic(fmt.Sprintf("c20 harness: shadowed-check probe failed differently: %v", err))
			}
			foreign = append(foreign, fmt.Sprintf("check (%s) is declared only by a shadowed mix-in field, the field owning column %s declares none, yet a row violating it is refused: %v", e.Expr, e.Col, err))
		}
	}
	if len(foreign) > 0 {
		return
	}
	try := func(mod func(a, b []lval)) (errA, errB error) {
		// probe rows are rolled back: their row numbers are reused (keeps values inside int8)
		defer func(n int) { x.rows = n }(x.rows)
		x.rows++
		ia := x.rows
		x.rows++
		ib := x.rows
		a, b := make([]lval, len(ls)), make([]lval, len(ls))
		for k, l := range ls {
			a[k] = mk(l, ia, l.wrap == "deleted", false)
			b[k] = mk(l, ib, l.wrap == "deleted", false)
		}
		mod(a, b)
		tx, err := x.h.SQL.Begin()
		if err != nil {
			panic(err)
		}
		defer tx.Rollback()
		ins := func(vals []lval, override map[string]interface{}) error {
			args := make([]interface{}, len(ls))
			ph := make([]string, len(ls))
			for k, l := range ls {
				args[k] = rawArg(l, vals[k])
				if o, ok := override[l.col]; ok {
					args[k] = o
				}
				ph[k] = "?"
			}
			_, err := tx.Exec("INSERT INTO `"+x.table+"` ("+quoteCols(ls)+") VALUES ("+strings.Join(ph, ",")+")", args...)
			return err
		}
		errA = ins(a, nil)
		if errA == nil {
			errB = ins(b, nil)
		}
		return
	}
	dup := func(cols []string, what string) {
		errA, errB := try(func(a, b []lval) {
			for _, c := range cols {
				b[colLeaf[c]] = a[colLeaf[c]]
			}
		})
		if errA != nil {
			panic(fmt.Sprintf("c20 harness: probe row rejected: %v", errA))
		}
		if errB == nil {
			missing = append(missing, what+": a duplicate was accepted")
		} else if !strings.Contains(errB.Error(), "UNIQUE constraint failed") {
			panic(fmt.Sprintf("c20 harness: duplicate probe failed differently: %v", errB))
		}
	}
	for _, e := range m.uniq {
		if e.V2 && !v2 {
			continue
		}
		dup([]string{e.Col}, "unique constraint on "+e.Col)
	}
	for _, e := range m.idx {
		if (e.V2 && !v2) || !e.Unique || e.Expr {
			continue
		}
		if _, ok := ti.indexes[e.Name]; ok {
			dup(e.Cols, "unique index "+e.Name)
		}
	}
	for _, e := range m.chk {
		if e.V2 && !v2 {
			continue
		}
		// single probe row carrying the violating value (rolled back, row number reused)
		i := x.rows + 1
		args := make([]interface{}, len(ls))
		ph := make([]string, len(ls))
		for k, l := range ls {
			args[k] = rawArg(l, mk(l, i, l.wrap == "deleted", false))
			if l.col == e.Col {
				args[k] = e.Bad
			}
			ph[k] = "?"
		}
		tx, err := x.h.SQL.Begin()
		if err != nil {
			panic(err)
		}
		_, err = tx.Exec("INSERT INTO `"+x.table+"` ("+quoteCols(ls)+") VALUES ("+strings.Join(ph, ",")+")", args...)
		tx.Rollback()
		if err == nil {
			missing = append(missing, fmt.Sprintf("check (%s): a violating value was accepted", e.Expr))
		} else if !strings.Contains(err.Error(), "CHECK constraint failed") {
			panic(fmt.Sprintf("c20 harness: check probe failed differently: %v", err))
		}
	}
	return
}

// run executes the history; m may be nil (static types: no generator expectations).
func (x *hist) run(m *model, name1, name2 string) {
	c := x.c
	x.m = m
	defer func() { c.Add("calls_naming_table_through_scope", x.scoped) }()
	// declared types on the other side of generated relations: passed along with the model or left to
	// AutoMigrate's dependency resolution; in v1 already (then with a row) or new in v2
	var also1, also2, also3 []interface{}
	if m != nil {
		for _, rg := range m.rels {
			if c.R.Bool() {
				also1 = append(also1, reflect.New(rg.tgt.typ).Interface())
			}
			if c.R.Chance(1, 3) {
				also2 = append(also2, reflect.New(rg.tgt.typ).Interface())
			}
			if c.R.Chance(1, 3) {
				also3 = append(also3, reflect.New(rg.tgt.typ).Interface())
			}
		}
	}
	x.l1 = leavesOf(x.h, x.parseTable(), x.t1)
	x.l2 = leavesOf(x.h, x.parseTable(), x.t2)
	x.resolveJoins(x.t1, false)
	x.resolveJoins(x.t2, true)

	// 1. migrate(v1) on the empty database
	ddl1, err := x.migrate(x.t1, name1, also1...)
	if err != nil {
		x.violation("migrate_v1_error"+x.migrateErrorClass(err, false), map[string]interface{}{"error": err.Error(), "schema_changing_statements": ddl1})
		return
	}
	miss, foreign := x.checkObjects(m, x.l1, false)
	if len(foreign) > 0 {
		x.violation("v1_constraint_of_shadowed_field", map[string]interface{}{"not_of_the_model": foreign})
		return
	}
	if len(miss) > 0 {
		x.violation("v1_object_missing", map[string]interface{}{"missing": miss})
		return
	}
	if !x.checkJoins(false, ddl1) {
		return
	}
	if m != nil {
		have := setOf(vdb.Tables(x.h.SQL))
		for _, rg := range m.rels {
			if have[rg.tgt.table] {
				x.rawTargetRow(rg.tgt)
				x.op("1 row inserted into %s with raw SQL", rg.tgt.table)
			}
		}
	}
	// 2. rows: raw SQL and gorm
	nRaw := c.R.Range(1, 5)
	for k := 0; k < nRaw; k++ {
		_, vals := x.newRow(x.l1, false, true)
		if err := x.rawInsert(x.l1, vals); err != nil {
			if strings.Contains(err.Error(), "constraint failed") {
				// the values satisfy everything the model declares
				x.violation("v1_table_rejects_row", map[string]interface{}{"error": err.Error(), "row": fmt.Sprint(vals)})
				return
			}
			panic(fmt.Sprintf("c20 harness: raw insert failed: %v", err))
		}
		x.remember(x.l1, vals)
	}
	x.op("%d rows inserted with raw SQL", nRaw)
	nG := c.R.Range(0, 2)
	for k := 0; k < nG; k++ {
		_, vals, err := x.gormCreate(x.t1, x.l1, name1, x.pkAuto && c.R.Bool())
		if err != nil {
			x.violation("create_v1_error", map[string]interface{}{"error": err.Error()})
			return
		}
		x.remember(x.l1, vals)
	}
	before := x.dump(x.l1)
	sideBefore := x.sideDump()
	ddlBefore := x.masterSQL()

	// 3. migrate(v1) again: the database matches the model
	ddl, err := x.migrate(x.t1, name1, also1...)
	if err != nil {
		x.violation("remigrate_v1_error", map[string]interface{}{"error": err.Error()})
		return
	}
	if len(ddl) > 0 {
		cause, info := remigrationCause(ddl, ddlBefore, x.masterSQL())
		cause = x.refineCause(m, cause, info)
		x.violation("remigrate_v1_ddl:"+cause, map[string]interface{}{"schema_changing_statements": ddl, "table_ddl_before": ddlBefore, "cause": info,
			"expected": "no CREATE/ALTER/DROP/RENAME statement: the table was created from this very model"})
	}
	c.Inc("remigrations_checked")
	if after := x.dump(x.l1); !same(before, after) {
		x.violation("remigrate_v1_data", diff(before, after))
		return
	}

	// 4. migrate(v2)
	ddlBefore = x.masterSQL()
	if after := x.sideDump(); !same(sideBefore, after) {
		x.violation("remigrate_v1_data", diff(sideBefore, after))
		return
	}
	ddl2, err := x.migrate(x.t2, name2, also2...)
	if err != nil {
		x.violation("migrate_v2_error"+x.migrateErrorClass(err, true), map[string]interface{}{"error": err.Error(), "table_ddl_before": ddlBefore, "rows_before": before, "schema_changing_statements": ddl2})
		return
	}
	c.Add("v2_migration_statements", len(ddl2))
	if after := x.dump(x.l1); !same(before, after) {
		d := diff(before, after)
		d["schema_changing_statements"] = ddl2
		x.violation("v2_data_changed", d)
		return
	}
	if after := x.sideDump(); !same(sideBefore, after) {
		d := diff(sideBefore, after)
		d["schema_changing_statements"] = ddl2
		x.violation("v2_data_changed", d)
		return
	}
	miss, foreign = x.checkObjects(m, x.l2, true)
	if len(foreign) > 0 {
		x.violation("v2_constraint_of_shadowed_field", map[string]interface{}{"not_of_the_model": foreign, "schema_changing_statements": ddl2, "table_ddl_before": ddlBefore})
		return
	}
	if len(miss) > 0 {
		sig := "v2_object_missing"
		onlyUnique := true
		for _, s := range miss {
			if !strings.HasPrefix(s, "unique constraint on ") {
				onlyUnique = false
			}
		}
		if onlyUnique {
			sig = "v2_unique_constraint_missing"
		}
		x.violation(sig, map[string]interface{}{"missing": miss, "schema_changing_statements": ddl2, "table_ddl_before": ddlBefore})
	}
	joinsOK := x.checkJoins(true, ddl2)
	// old rows through the new model
	x.checkOldRows()

	// 5. records of the new model round-trip
	rec, vals, err := x.gormCreate(x.t2, x.l2, name2, x.pkAuto && c.R.Bool())
	if err != nil {
		x.violation("create_v2_error", map[string]interface{}{"error": err.Error()})
	} else {
		x.checkRoundTrip(x.t2, x.l2, rec, vals, "Create(&rec)")
	}
	// slice of two
	sl := reflect.New(reflect.SliceOf(x.t2))
	var svals [][]lval
	for k := 0; k < 2; k++ {
		_, v := x.newRow(x.l2, true, true)
		e := reflect.New(x.t2).Elem()
		for j, l := range x.l2 {
			if x.pkAuto && l.f.PrimaryKey {
				continue
			}
			setGo(e, l, v[j])
		}
		sl.Elem().Set(reflect.Append(sl.Elem(), e))
		svals = append(svals, v)
	}
	db, sel := x.sel()
	err = db.Create(sl.Interface()).Error
	x.op("%s.Create(&[]%s{2 records}) -> err=%v", sel, name2, err)
	if err != nil {
		x.violation("create_v2_error", map[string]interface{}{"error": err.Error(), "how": "slice"})
	} else {
		for k := 0; k < 2; k++ {
			e := sl.Elem().Index(k).Addr()
			if x.pkAuto {
				for j, l := range x.l2 {
					if l.f.PrimaryKey {
						svals[k][j] = lval{i: fieldAt(e.Elem(), l.path).Convert(reflect.TypeOf(int64(0))).Int()}
					}
				}
			}
			x.checkRoundTrip(x.t2, x.l2, e, svals[k], fmt.Sprintf("Create(&slice)[%d]", k))
		}
	}

	// 5b. records of the new model with associated records
	if joinsOK {
		x.relationRoundTrip(name2)
	}

	// 6. migrate(v2) again
	before2 := x.dump(x.l2)
	sideBefore = x.sideDump()
	ddlBefore = x.masterSQL()
	ddl, err = x.migrate(x.t2, name2, also3...)
	if err != nil {
		x.violation("remigrate_v2_error", map[string]interface{}{"error": err.Error()})
		return
	}
	if len(ddl) > 0 {
		cause, info := remigrationCause(ddl, ddlBefore, x.masterSQL())
		cause = x.refineCause(m, cause, info)
		x.violation("remigrate_v2_ddl:"+cause, map[string]interface{}{"schema_changing_statements": ddl, "table_ddl_before": ddlBefore, "cause": info,
			"expected": "no CREATE/ALTER/DROP/RENAME statement: this model was migrated just before"})
	}
	c.Inc("remigrations_checked")
	if after := x.dump(x.l2); !same(before2, after) {
		x.violation("remigrate_v2_data", diff(before2, after))
	}
	if after := x.sideDump(); !same(sideBefore, after) {
		x.violation("remigrate_v2_data", diff(sideBefore, after))
	}
}

// refineCause: a rebuild that only drops unique constraints which no column-owning field declares
// (they came from `unique` on a shadowed mix-in field) is a class of its own.
func (x *hist) refineCause(m *model, cause string, info map[string]interface{}) string {
	if cause != "rebuild-drops-unique-constraint" || m == nil || len(m.shadowUniq) == 0 {
		return cause
	}
	removed, _ := info["definition_fragments_removed"].([]string)
	for _, f := range removed {
		ok := false
		for _, e := range m.shadowUniq {
			if strings.HasPrefix(f, "CONSTRAINT `uni_"+x.table+"_"+e.Col+"` ") {
				ok = true
			}
		}
		if !ok {
			return cause
		}
	}
	return "rebuild-drops-unique-of-shadowed-field"
}

// checkOldRows reads every row created under v1 through the v2 model and compares v1's fields.
func (x *hist) checkOldRows() {
	byCol := map[string]*leaf{}
	for _, l := range x.l2 {
		byCol[l.col] = l
	}
	for _, row := range x.known {
		var conds []string
		var args []interface{}
		for _, l := range pkLeaves(x.l1) {
			conds = append(conds, "`"+l.col+"` = "+sqlLit(row[l.col]))
		}
		out := reflect.New(x.t2)
		db, sel := x.sel()
		if err := db.Where(strings.Join(conds, " AND "), args...).First(out.Interface()).Error; err != nil {
			x.violation("v2_old_row_unreadable", map[string]interface{}{"key": conds, "error": err.Error(), "read_with": sel + ".Where(key).First(&V2{})"})
			return
		}
		var problems []string
		for _, l1 := range x.l1 {
			l := byCol[l1.col]
			if l == nil {
				problems = append(problems, "v2 model lacks column "+l1.col)
				continue
			}
			if g := fromGo(out.Elem(), l); g != row[l.col] {
				problems = append(problems, fmt.Sprintf("field %s = %s, inserted %s", strings.Join(l.path, "."), g, row[l.col]))
			}
		}
		if len(problems) > 0 {
			x.violation("v2_old_row_differs", map[string]interface{}{"key": conds, "problems": problems})
			return
		}
		x.c.Inc("old_rows_read_through_v2")
	}
}

// sqlLit renders a canonical key value (int or string class) as an SQL literal.
func sqlLit(canon string) string {
	if strings.HasPrefix(canon, "s:") {
		return "'" + strings.ReplaceAll(canon[2:], "'", "''") + "'"
	}
	return canon
}

func runGenerated(c *core.Ctx) {
	r := c.R
	m := genModel(r, c.Case)
	o := vdb.Options{}
	if m.namer {
		o.Config.NamingStrategy = caseNamer{NamingStrategy: schema.NamingStrategy{IdentifierMaxLength: 64}, table: m.table}
	}
	h, err := vdb.Open(o)
	if err != nil {
		panic(err)
	}
	defer h.Close()
	x := &hist{c: c, h: h, table: m.table, t1: m.structType(false), t2: m.structType(true), namer: m.namer,
		pkAuto: m.pkKind == "auto" || m.pkKind == "uintID"}
	x.info = map[string]interface{}{"model_v1": m.describe(false), "model_v2": m.describe(true)}
	if m.namer {
		x.info["table_named_by"] = fmt.Sprintf("gorm.Config{NamingStrategy: gorm's default strategy, with TableName(\"\") = %q for the generated (anonymous) model type} - no Table()/Scopes per call", m.table)
		c.Inc("histories_named_by_strategy")
	}
	if len(m.rels) > 0 {
		x.info["declared_types"] = m.targetTexts()
		c.Inc("histories_with_generated_relations")
		for _, rg := range m.rels {
			if rg.bt {
				c.Inc("generated_belongs_to_relations")
			} else {
				c.Inc("generated_many2many_relations")
			}
			if rg.nonPK {
				c.Inc("many2many_keyed_by_non_primary_column")
			}
		}
	}
	c.Logf("MODEL table=%s\n  v1: %s\n  v2: %s", m.table, strings.Join(m.describe(false), "\n      "), strings.Join(m.describe(true), "\n      "))
	x.run(m, "V1", "V2")
	c.Inc("histories_generated")
	if m.respelled > 0 {
		c.Inc("models_with_respelled_tag_keys")
	}
	if nm, ns := m.mixinInfo(); nm > 0 {
		c.Inc("models_with_generated_mixin")
		c.Add("shadowed_mixin_fields", ns)
	}
	if !x.failed {
		f1, f2 := m.features()
		if len(f2) > 0 {
			c.Shape("gen", m.pkKind, strings.Join(f1, ","), strings.Join(f2, ","))
			c.Inc("nontrivial_histories")
		}
		for _, f := range f2 {
			c.Inc("added_" + f)
		}
		if c.WantSample() && len(f2) > 1 && c.Case%7 == 3 {
			c.Sample(map[string]interface{}{"table": m.table, "model_v1": m.describe(false), "model_v2": m.describe(true), "operations": x.ops})
		}
	}
	if c.Verbose {
		for _, o := range x.ops {
			c.Logf("OP %s", o)
		}
	}
}

func run(c *core.Ctx) {
	switch {
	case c.Case%8 == 7:
		runRelational(c)
	case c.Case%8 == 3:
		runStatic(c)
	case c.Case%8 == 5:
		runGrow(c)
	case c.Case%16 == 1:
		runMulti(c)
	default:
		runGenerated(c)
	}
}

var Engine = &core.Engine{
	ID:    "C20",
	Level: "exploration",
	Rule: "per case a fresh in-memory SQLite database and the history migrate(v1) -> 1..5 rows by raw SQL + 0..2 by gorm Create -> migrate(v1) -> migrate(v2) -> Create of v2 records (single, slice) read back by raw SQL and First -> migrate(v2); " +
		"9 of 16 cases: model types generated with reflect.StructOf (5 key shapes; 1..7 fields of 33 Go kinds incl. pointers, sql.Null*, a custom Scanner/Valuer, a json serializer field, embedded structs with prefix; tags column, default (literal, quoted, spaced, empty, null, function), not null, size, type, precision, comment, unique, check (named/unnamed), index (plain, named, sort, length, comment, unique, class, collate, expression, partial), uniqueIndex, composite indexes with priorities, permissions, autoCreate/UpdateTime); v2 = v1 + 0..4 fields + 0..3 index/unique/check tags on existing fields + composite indexes spanning old and new fields; " +
		"1 of 3 generated models carries a generated MIX-IN (engine/c20/mixin.go): a struct type built with reflect.StructOf, embedded anonymously or through a field tagged `embedded` (no prefix), part of v1 or added in v2, declared at a random position (before or after the fields it collides with), with 0..2 columns of its own (whole tag grammar) and 0..2 fields whose column is ALSO declared by a field of the model itself (same Go name, or a name of its own with a column tag; the same or another Go type of the class; key fields too, with or without primaryKey) and which are therefore SHADOWED; a shadowed field carries tags its owner lacks: check (named/unnamed; satisfied by the data, or violated by every row of the workload), not null, default, unique, a named index, size, comment; 1 of 4 such models has a second mix-in that may also collide with the own columns of the first (equal depth: the mix-in declared first owns the column); demanded: columns, constraints and records are those of the OWNING fields - after v1 and after v2 a row that violates only a shadowed field's check is accepted (probe in a rolled-back transaction), rows, Create, round trip and old rows go through the owning fields, re-migration issues no DDL; " +
		"1 of 2 generated models has its tag KEYS respelled the way gorm reads them (schema.ParseTagSetting trims and upper-cases keys): blanks in front of a key (i.e. after the `;` separator, or after the `,` of an index option), a blank between key and colon, upper / lower case, an empty piece at the end of the tag - e.g. `gorm:\"size:64; index\"`, `gorm:\"NOT NULL; uniqueIndex :ux_a, Priority:2;\"`; values are never touched; 1 of 2 models declares (some of) the fields added in v2 between the old ones; " +
		"every AutoMigrate call of the single-table histories draws its form: h.AutoMigrate(&T{}) (6 of 10), h.Migrator().AutoMigrate(&T{}) (2), the model passed by value (1), tx := h.Begin(); tx.AutoMigrate(&T{}); tx.Commit() (1); " +
		"and EVERY call of such a history (AutoMigrate, Create, First) draws how the handle h names the table: db.Table(t) (5 of 10), db.Scopes(tbl) with tbl = func(db){return db.Table(t)} (1), a scope that REGISTERS that scope db.Scopes(func(db){return db.Scopes(tbl)}) (2), three levels (1), the nested scope next to a do-nothing scope in either order (1) - the same request, on the first migration, the re-migrations and v2 alike; " +
		"1 of 4 generated histories names the table through the handle instead (gorm.Config.NamingStrategy = the default strategy with the generated anonymous type's table; plain db.AutoMigrate / db.Create per call) and 2 of 3 of those carry 1..2 generated RELATIONS to declared types (engine/c20/keyed.go: Badge, Label `Code not null; uniqueIndex`, Topic `Slug size:24; unique`, Venue string key, Squad `Num NOT NULL;UNIQUEINDEX`), part of v1 (1 of 4) or added in v2 to the populated table: " +
		"3 of 4 many2many, keyed on the model's side by its primary key (single, string, composite; foreignKey written or left out) or (2 of 3) by a NON-PRIMARY column foreignKey:F synthesised for it (int/uint/string; column, not null, size, comment; unique 1 of 4; 4 of 5 one tag of the whole index grammar: plain, named, sort, length, comment, unique, class, collate, expression, partial, uniqueIndex named or not; these index tags part of v1 or, 1 of 3, added in v2 with the relation; keys respelled like every other tag, 3 of 4 such models), joinForeignKey always given, on the other side by the primary key or references:Code/Slug/Num, joinReferences given or defaulted; " +
		"1 of 4 belongs-to: a new pointer column (index tag 1 of 2) + relation with gorm's default names (Badge *Badge, BadgeID *uint) or foreignKey:HomeBadgeKey[;references:Code]; the declared types are passed in the same AutoMigrate call or left to its dependency resolution, exist since v1 (then with a raw row that must survive) or are new in v2; " +
		"demanded of relations: after the migration that brings the relation the join table exists with the join columns gorm's own parse names and a foreign key per side, and holds rows (owner 1, record 1), (owner 1, record 2), (owner 2, record 1) inserted with raw SQL in a rolled-back transaction; a belongs-to has its foreign key in the model's table (pragma_foreign_key_list); rows of the other tables unchanged by every migration; a v2 record created with two new associated records per many2many (a nested record per belongs-to) is stored (raw join) and returned (Preload); an OLD row read through v2 takes Association().Append of a new record and of one shared with the new record, both owners keep theirs; re-migration issues no DDL on any table; " +
		"1 of 8: static types with anonymous embedding (gorm.Model, soft delete); 1 of 8: a related family (belongs-to, has-many, many2many, self reference, has-one added in v2) migrated as a random permutation/subset through ReorderModels (demanded besides columns/indexes: the foreign keys of users, and those that live in other tables - pets and profs for the has-many/has-one of User, the join table user_langs); " +
		"1 of 8: a family whose RELATIONS are added in v2 to tables that exist and hold rows (engine/c20/grow.go): v1 = books -> shelves plus a random subset of unrelated authors/publishers/tags tables with rows; v2 = one of three Book variants on table books (belongs-to only; has-many + many2many only; two belongs-to to one parent + has-many + many2many + unique index) with Author gaining a belongs-to to Publisher (dependency chain of depth 2) and a check, new tables reviews/book_tags; drawn per case: which referenced tables already exist, which models are passed and in which order (Book always; the others 2/3 each, otherwise reached as dependencies only; an unrelated model at times), one AutoMigrate call or the list split over two calls, db.AutoMigrate or db.Migrator().AutoMigrate, foreign key enforcement of the connections (_foreign_keys=1, 2 of 3), DisableForeignKeyConstraintWhenMigrating (1 of 8); demanded: no error, v1 cells unchanged, v1 objects kept, columns/indexes/foreign keys (pragma_foreign_key_list)/checks of every passed model and the tables its belongs-to/many2many point to exist, a v2 record with nested new associations round-trips (raw SQL and First+Preload), v2 again in another order issues no DDL; " +
		"1 of 16: PARALLEL RELATIONS (engine/c20/multi.go, models engine/c20/multi): one owner (people) with several has-one/has-many relations to the SAME child (letters), so the child table carries one foreign key per relation, all to the same parent table; v1 = one of 5 owner/child pairs (no relation; one has-many; two has-many created with the table, either declaration order; the child belongs to the owner) plus an unrelated offices table at times, rows by raw SQL; v2 = one of 8 owners on the same tables whose relations include v1's (1..4 relations to letters: has-many and has-one mixed, new relations declared before or after the old ones, ON DELETE/ON UPDATE actions, a constraint with a name of its own, two more has-many to a table parcels that is new in v2; belongs-to and has-many in both directions between the two models over different columns or over the same column) and, 1 of 2, a second owner Office whose has-many to letters has the same relation NAME (Sent) as Person's, its table new or existing; drawn per case: argument order, one call or two (owners first, cut anywhere), db.AutoMigrate or db.Migrator().AutoMigrate, _foreign_keys=1 (2 of 3), DisableForeignKeyConstraintWhenMigrating (1 of 8); demanded: no error, v1 cells unchanged, every column/index, for EVERY relation of a passed owner its foreign key in the child table (pragma_foreign_key_list: column, parent table, ON DELETE, ON UPDATE) after v1 and after v2, under enforcement a dangling reference in each such column is refused, old rows read back through the v2 models, a v2 owner created with 1..2 children under every relation round-trips (raw SQL per foreign key column and First+Preload of every relation; a child with a nested belongs-to parent), v1 again / v2 again in another order issue no DDL; " +
		"distinct = (key shape, set of v1 tag features, set of added features incl. relation kind / key tags / target) resp. (family, argument order, additions) resp. (variant, enforcement, v1 tables, v2 argument order, call form) resp. (v1 owner, v2 owner, offices in v1, enforcement, v2 argument order, call form); non-trivial = v2 adds something and the whole history ran",
	Assumptions: []string{
		"values are non-zero, distinct per row and satisfy every generated CHECK; data that would make the database itself refuse the new constraint (duplicates under a new unique index, a new NOT NULL column without constant default, a non-constant default on ADD COLUMN, a unique constraint on an added column that has a constant default) is not generated",
		"schema-changing statement = text starting with CREATE/ALTER/DROP or containing RENAME/__temp on the recording driver (the SQLite dialector rebuilds tables through <table>__temp)",
		"column introspection is the external SQLite dialector's DDL parser (gorm.io/driver/sqlite, not under /repo); tag values whose non-idempotence is caused there are not generated: parenthesised expression defaults `default:(abs(-5))` / `default:(lower('AB'))` (its regexp strips only the opening parenthesis), `type:decimal(10,2)` (its column regexp stops at the comma), `type:tinyint(1)`-style lengths on integer kinds",
		"models that contradict themselves (type:varchar(64) with size:32, a type tag carrying NOT NULL/DEFAULT clauses, autoIncrement on a non-key column) and changes other than additions (altered types, defaults, sizes, dropped fields, columns added to an existing index) are outside the statement and not generated",
		"index column order is compared as a set (equal priorities leave the order to sort.Slice)",
		"foreign key enforcement (_foreign_keys=1) is switched on only in the growing-relations family, where no table that v2 has to rebuild is referenced by rows of another table: the external SQLite dialector adds a constraint by CREATE <t>__temp / INSERT..SELECT / DROP TABLE <t> / RENAME, and DROP TABLE of a referenced, populated parent fails under enforcement (`FOREIGN KEY constraint failed`, e.g. users gaining fk_users_manager while pets/user_langs rows point to it) - cause outside /repo, so the older relational family runs without enforcement",
		"growing-relations family: the foreign key of a has-many is declared by the owner (Book.Reviews) but lives in the child table; a separate earlier AutoMigrate(&Review{}) call that has not seen Book cannot know it and the later AutoMigrate(&Book{}) does not touch reviews - the statement does not fix who adds it, so when the argument list is split over two calls Review is never in an earlier call than Book; has-many children that are not passed are not expected to exist; v2 columns are demanded only of models that were passed (for tables reached as dependencies only their existence is demanded, and nested associations in the round-trip record are used only for passed models)",
		"with DisableForeignKeyConstraintWhenMigrating no foreign key is demanded (nor its absence); IgnoreRelationshipsWhenMigrating is not generated",
		"parallel-relations family: as in the growing family the foreign key of a has-one/has-many is known only to a call that has seen the owner, so the child (letters, parcels) is never passed in an earlier call than an owner and is never passed without the owner; foreign keys are compared by (column, parent table, ON DELETE, ON UPDATE), never by constraint name, and additional foreign keys on the same column are tolerated (v1's belongs-to constraint next to v2's has-many constraint over the same column: the statement does not say whether they are one constraint); every v2 relation repeats the tags of its v1 version; constraint:- , polymorphic relations, composite and non-primary references, and relations inside embedded structs are not generated; the owner tables gain only a plain column and an index in v2 (a constraint added to a parent table that is referenced by rows makes the external SQLite dialector's table rebuild fail under enforcement, see above); every reference in the raw rows points to an existing person",
		"mix-ins: a column declared by several fields belongs to the field with the shortest path, the first one among equals (gorm's rule in schema.Parse, Go's rule for promoted fields); the harness computes the owner itself and sets / reads only owning fields; `uniqueIndex` and index tags with the default name are not generated on a shadowed field (gorm builds an index for every field, shadowed or not, on creation and on migration alike; the statement does not say whether an index written on a shadowed field belongs to the model - a NAMED plain index is generated there, nothing is demanded of it), and no uniqueness probe is made on a column whose shadowed field says `unique`; a mix-in is the same type in v1 and v2, collides only with fields that exist whenever it does, is not pointer-embedded and has no prefix when it collides; two mix-ins keep their order",
		"only tag KEYS are respelled: values are literal to gorm (`size: 64`, `index: name`, `priority: 2`, `size:64 ;` are other values) and are never written with blanks; a blank in front of a key is one or two spaces or (1 of 6) a tab",
		"gorm.Config{PrepareStmt:true} is not generated: the external SQLite dialector's ColumnTypes takes the column list from `SELECT * FROM t LIMIT 1`, and database/sql + go-sqlite3 report for a cached prepared statement the column list of BEFORE an ALTER TABLE ADD (reproduced without gorm), so the AutoMigrate after one that added a column fails with `duplicate column name` - cause outside /repo",
		"generated relations: the generated model types have no name (reflect.StructOf), so db.Table(t) cannot be combined with relations (it would name the table of every model of the call); such histories name the table through the NamingStrategy, always give joinForeignKey (there is no type name to derive it from) and relate only to declared types; the names of the join table's columns are taken from gorm's own parse of the model (the statement does not fix them; a `column :c` tag spelled with a blank behind the name keeps the owner's column name in the join table: counted as join_columns_not_named_by_the_join_tags, not judged); the key column of a many2many carries only column / not null / size / comment / index / unique / uniqueIndex tags when it is synthesised, a primary key may receive what the generator adds to any v1 field (index, check); foreign key enforcement is off, has-one / has-many towards generated types, polymorphic and self-referential relations and relations between two generated types are not generated; an index the join table may take over from a key field without refusing rows or failing is not looked for (the statement does not fix the join table's indexes); Association().Append to an old row is left out when an autoUpdateTime column of the model carries a generated check (Append touches the owner, the time gorm writes lies outside the check's range)",
		"table-naming scopes only call Table(t) or register such a scope; scopes that add conditions, and a scope combined with db.Table(other), are not generated",
		"a DryRun session (Session{DryRun:true}.AutoMigrate) is outside the statement (it fixes what a migration adds and preserves, not that a dry run leaves the database alone) and is not generated",
	},
	Cases: func(tier string) int {
		if tier == "thorough" {
			return 120000
		}
		return 4000
	},
	Batch:         func(string) int { return 50 },
	Run:           run,
	MinNontrivial: 100,
}

package c20

import (
	"database/sql"
	"database/sql/driver"
	"encoding/hex"
	"encoding/json"
	"fmt"
	"reflect"
	"strconv"
	"strings"
	"time"

	"gorm.io/gorm"
	"gorm.io/gorm/schema"
)

// Tagged is a string-based custom Scanner/Valuer (value receiver Valuer, pointer receiver Scanner).
type Tagged string

func (t Tagged) Value() (driver.Value, error) { return "t:" + string(t), nil }
func (t *Tagged) Scan(v interface{}) error {
	var s string
	switch x := v.(type) {
	case string:
		s = x
	case []byte:
		s = string(x)
	case nil:
		*t = ""
		return nil
	default:
		return fmt.Errorf("Tagged: cannot scan %T", v)
	}
	if !strings.HasPrefix(s, "t:") {
		return fmt.Errorf("Tagged: stored value %q lacks the prefix", s)
	}
	*t = Tagged(s[2:])
	return nil
}

var (
	timeType    = reflect.TypeOf(time.Time{})
	taggedType  = reflect.TypeOf(Tagged(""))
	stringsType = reflect.TypeOf([]string(nil))
	bytesType   = reflect.TypeOf([]byte(nil))
	deletedType = reflect.TypeOf(gorm.DeletedAt{})
	nullTypes   = map[reflect.Type]string{
		reflect.TypeOf(sql.NullInt64{}):   "int",
		reflect.TypeOf(sql.NullInt32{}):   "int",
		reflect.TypeOf(sql.NullString{}):  "string",
		reflect.TypeOf(sql.NullBool{}):    "bool",
		reflect.TypeOf(sql.NullFloat64{}): "float",
		reflect.TypeOf(sql.NullTime{}):    "time",
	}
)

// classOf maps a leaf Go type to (value class, wrapper).
// classes: int uint float bool string bytes time tagged json ; wrappers: plain ptr null deleted
func classOf(t reflect.Type) (class, wrap string) {
	if t == deletedType {
		return "time", "deleted"
	}
	if c, ok := nullTypes[t]; ok {
		return c, "null"
	}
	if t.Kind() == reflect.Ptr {
		c, _ := classOf(t.Elem())
		return c, "ptr"
	}
	switch {
	case t == timeType:
		return "time", "plain"
	case t == taggedType:
		return "tagged", "plain"
	case t == stringsType:
		return "json", "plain"
	case t == bytesType:
		return "bytes", "plain"
	}
	switch t.Kind() {
	case reflect.Int, reflect.Int8, reflect.Int16, reflect.Int32, reflect.Int64:
		return "int", "plain"
	case reflect.Uint, reflect.Uint8, reflect.Uint16, reflect.Uint32, reflect.Uint64:
		return "uint", "plain"
	case reflect.Float32, reflect.Float64:
		return "float", "plain"
	case reflect.Bool:
		return "bool", "plain"
	case reflect.String:
		return "string", "plain"
	}
	panic("c20: unsupported leaf type " + t.String())
}

// leaf is one column of a model, addressed by the path of Go field names.
type leaf struct {
	path  []string
	col   string
	typ   reflect.Type
	class string
	wrap  string
	ord   int
	f     *schema.Field
}

// lval is a logical value.
type lval struct {
	null bool
	i    int64
	f    float64
	b    bool
	s    string
	by   []byte
	t    time.Time
	ss   []string
}

var baseTime = time.Date(2021, 3, 4, 5, 6, 7, 0, time.UTC)

var strDecor = []string{"", " x", "é", "'q", "%_", "\"d"}

// mk builds the logical value of leaf l in row i: non-zero, distinct across rows for every class but bool.
func mk(l *leaf, i int, null bool, forceTrue bool) lval {
	if null {
		return lval{null: true}
	}
	c := int64(l.ord % 3)
	switch l.class {
	case "int", "uint":
		return lval{i: 10 + 3*int64(i) + c}
	case "float":
		return lval{f: float64(i) + 0.25*float64(c+1)}
	case "bool":
		return lval{b: forceTrue || i%2 == 0}
	case "string", "tagged":
		return lval{s: fmt.Sprintf("v%d_%d%s", l.ord, i, strDecor[(i+l.ord)%len(strDecor)])}
	case "bytes":
		return lval{by: []byte{byte(i), byte(l.ord), 0xff, 0}}
	case "time":
		return lval{t: baseTime.Add(time.Duration(i)*time.Hour + time.Duration(l.ord)*time.Minute)}
	case "json":
		return lval{ss: []string{fmt.Sprint("a", i), "b,\"c"}}
	}
	panic("mk: " + l.class)
}

func canon(l *leaf, v lval) string {
	if v.null {
		return "NULL"
	}
	switch l.class {
	case "int", "uint":
		return strconv.FormatInt(v.i, 10)
	case "float":
		return strconv.FormatFloat(v.f, 'g', -1, 64)
	case "bool":
		return strconv.FormatBool(v.b)
	case "string", "tagged":
		return "s:" + v.s
	case "bytes":
		return "b:" + hex.EncodeToString(v.by)
	case "time":
		return "t:" + v.t.UTC().Format(time.RFC3339Nano)
	case "json":
		return "j:" + strings.Join(v.ss, "\x1f")
	}
	panic("canon")
}

// rawArg is what the harness binds in its own INSERT for this value.
func rawArg(l *leaf, v lval) interface{} {
	if v.null {
		return nil
	}
	switch l.class {
	case "int", "uint":
		return v.i
	case "float":
		return v.f
	case "bool":
		if v.b {
			return int64(1)
		}
		return int64(0)
	case "string":
		return v.s
	case "tagged":
		return "t:" + v.s
	case "bytes":
		return v.by
	case "time":
		return v.t
	case "json":
		b, _ := json.Marshal(v.ss)
		return string(b)
	}
	panic("rawArg")
}

// fromRaw canonicalises a cell read with raw SQL according to the leaf's class.
func fromRaw(l *leaf, cell interface{}) string {
	if cell == nil {
		return "NULL"
	}
	str := func() (string, bool) {
		switch x := cell.(type) {
		case string:
			return x, true
		case []byte:
			return string(x), true
		}
		return "", false
	}
	bad := fmt.Sprintf("?%T:%v", cell, cell)
	switch l.class {
	case "int", "uint":
		if x, ok := cell.(int64); ok {
			return strconv.FormatInt(x, 10)
		}
	case "float":
		switch x := cell.(type) {
		case float64:
			return strconv.FormatFloat(x, 'g', -1, 64)
		case int64:
			return strconv.FormatFloat(float64(x), 'g', -1, 64)
		}
	case "bool":
		switch x := cell.(type) {
		case bool:
			return strconv.FormatBool(x)
		case int64:
			if x == 0 || x == 1 {
				return strconv.FormatBool(x == 1)
			}
		}
	case "string":
		if s, ok := str(); ok {
			return "s:" + s
		}
	case "tagged":
		if s, ok := str(); ok && strings.HasPrefix(s, "t:") {
			return "s:" + s[2:]
		}
	case "bytes":
		switch x := cell.(type) {
		case []byte:
			return "b:" + hex.EncodeToString(x)
		case string:
			return "b:" + hex.EncodeToString([]byte(x))
		}
	case "time":
		switch x := cell.(type) {
		case time.Time:
			return "t:" + x.UTC().Format(time.RFC3339Nano)
		}
		if s, ok := str(); ok {
			for _, f := range []string{"2006-01-02 15:04:05.999999999-07:00", time.RFC3339Nano, "2006-01-02 15:04:05"} {
				if t, err := time.Parse(f, s); err == nil {
					return "t:" + t.UTC().Format(time.RFC3339Nano)
				}
			}
		}
	case "json":
		if s, ok := str(); ok {
			var ss []string
			if json.Unmarshal([]byte(s), &ss) == nil {
				return "j:" + strings.Join(ss, "\x1f")
			}
		}
	}
	return bad
}

func fieldAt(rv reflect.Value, path []string) reflect.Value {
	for _, p := range path {
		rv = rv.FieldByName(p)
	}
	return rv
}

// setGo stores the logical value into the struct (rv = addressable struct value).
func setGo(rv reflect.Value, l *leaf, v lval) {
	fv := fieldAt(rv, l.path)
	t := l.typ
	switch l.wrap {
	case "deleted":
		if v.null {
			fv.Set(reflect.ValueOf(gorm.DeletedAt{}))
		} else {
			fv.Set(reflect.ValueOf(gorm.DeletedAt{Time: v.t, Valid: true}))
		}
		return
	case "null":
		if v.null {
			fv.Set(reflect.Zero(t))
			return
		}
		switch x := fv.Addr().Interface().(type) {
		case *sql.NullInt64:
			*x = sql.NullInt64{Int64: v.i, Valid: true}
		case *sql.NullInt32:
			*x = sql.NullInt32{Int32: int32(v.i), Valid: true}
		case *sql.NullString:
			*x = sql.NullString{String: v.s, Valid: true}
		case *sql.NullBool:
			*x = sql.NullBool{Bool: v.b, Valid: true}
		case *sql.NullFloat64:
			*x = sql.NullFloat64{Float64: v.f, Valid: true}
		case *sql.NullTime:
			*x = sql.NullTime{Time: v.t, Valid: true}
		}
		return
	case "ptr":
		if v.null {
			fv.Set(reflect.Zero(t))
			return
		}
		p := reflect.New(t.Elem())
		setPlain(p.Elem(), l.class, v)
		fv.Set(p)
		return
	}
	setPlain(fv, l.class, v)
}

func setPlain(fv reflect.Value, class string, v lval) {
	switch class {
	case "int":
		fv.SetInt(v.i)
	case "uint":
		fv.SetUint(uint64(v.i))
	case "float":
		fv.SetFloat(v.f)
	case "bool":
		fv.SetBool(v.b)
	case "string", "tagged":
		fv.SetString(v.s)
	case "bytes":
		fv.SetBytes(append([]byte(nil), v.by...))
	case "time":
		fv.Set(reflect.ValueOf(v.t))
	case "json":
		fv.Set(reflect.ValueOf(append([]string(nil), v.ss...)))
	}
}

// fromGo canonicalises the Go field of a struct gorm filled.
func fromGo(rv reflect.Value, l *leaf) string {
	fv := fieldAt(rv, l.path)
	switch l.wrap {
	case "deleted":
		d := fv.Interface().(gorm.DeletedAt)
		if !d.Valid {
			return "NULL"
		}
		return "t:" + d.Time.UTC().Format(time.RFC3339Nano)
	case "null":
		switch x := fv.Interface().(type) {
		case sql.NullInt64:
			if x.Valid {
				return strconv.FormatInt(x.Int64, 10)
			}
		case sql.NullInt32:
			if x.Valid {
				return strconv.FormatInt(int64(x.Int32), 10)
			}
		case sql.NullString:
			if x.Valid {
				return "s:" + x.String
			}
		case sql.NullBool:
			if x.Valid {
				return strconv.FormatBool(x.Bool)
			}
		case sql.NullFloat64:
			if x.Valid {
				return strconv.FormatFloat(x.Float64, 'g', -1, 64)
			}
		case sql.NullTime:
			if x.Valid {
				return "t:" + x.Time.UTC().Format(time.RFC3339Nano)
			}
		}
		return "NULL"
	case "ptr":
		if fv.IsNil() {
			return "NULL"
		}
		fv = fv.Elem()
	}
	switch l.class {
	case "int":
		return strconv.FormatInt(fv.Int(), 10)
	case "uint":
		return strconv.FormatUint(fv.Uint(), 10)
	case "float":
		return strconv.FormatFloat(fv.Float(), 'g', -1, 64)
	case "bool":
		return strconv.FormatBool(fv.Bool())
	case "string", "tagged":
		return "s:" + fv.String()
	case "bytes":
		return "b:" + hex.EncodeToString(fv.Bytes())
	case "time":
		return "t:" + fv.Interface().(time.Time).UTC().Format(time.RFC3339Nano)
	case "json":
		return "j:" + strings.Join(fv.Interface().([]string), "\x1f")
	}
	panic("fromGo")
}

package c20

import (
	"fmt"
	"gorm.io/gorm"
	"reflect"
	"sort"
	"strings"

	"gorm.io/gorm/schema"

	"verif/core"
	"verif/vdb"
)

// ---- generated models with MANY2MANY relations keyed by generated columns ----
//
// A generated model (reflect.StructOf: no type name) cannot take part in a relation while its
// table is named per call (db.Table(t) would name the table of EVERY model of the call, the join
// table and the other side included). In `namer` histories the handle's NamingStrategy gives the
// anonymous type its table - what a type name does for a declared type - and nothing is said per
// call. Such a model may carry 1..2 many2many relations to declared types (Badge, Label, Topic,
// Venue, Squad), part of v1 or added in v2. The relation is keyed on the owner's side by the primary
// key (single, string, composite) or by a NON-PRIMARY column (foreignKey:F) that carries the whole
// index / uniqueIndex / unique grammar of the generator (and its respellings), on the other side by
// the primary key or by a non-primary unique column (references:Code). gorm derives the join table's
// columns from the key fields: their index / unique / uniqueIndex / column / autoIncrement settings
// are not the join table's - a join table whose key column were unique on its own could hold one
// row per owner (resp. per associated record).

// caseNamer is gorm's default naming strategy plus the table of the anonymous generated type.
type caseNamer struct {
	schema.NamingStrategy
	table string
}

func (n caseNamer) TableName(name string) string {
	if name == "" {
		return n.table
	}
	return n.NamingStrategy.TableName(name)
}

// declared types on the other side of the generated relations
type Badge struct {
	ID   uint
	Name string
}

type Label struct {
	ID   uint
	Code string `gorm:"size:16;not null; uniqueIndex"`
	Name string
}

type Topic struct {
	ID   int64  `gorm:"primaryKey"`
	Slug string `gorm:"size:24; unique"`
	Name string
}

type Venue struct {
	Code string `gorm:"primaryKey;size:8"`
	Name string
}

type Squad struct {
	ID   uint
	Num  int64 `gorm:"NOT NULL;UNIQUEINDEX"`
	Name string
}

type tgtDesc struct {
	name    string // type name
	field   string // relation field of the owner
	table   string
	typ     reflect.Type
	ref     string // referenced Go field ("" = primary key)
	refKey  string // Go field holding the referenced value
	refCol  string // its column
	joinDef string // default join column of this side
	class   string // value class of the referenced key
	text    string // declaration, for the violation detail
	cols    string // raw INSERT column list (key columns + name)
}

var targets = []*tgtDesc{
	{name: "Badge", field: "Badges", table: "badges", typ: reflect.TypeOf(Badge{}), refKey: "ID", refCol: "id", joinDef: "badge_id", class: "uint",
		text: "type Badge struct { ID uint; Name string }"},
	{name: "Label", field: "Labels", table: "labels", typ: reflect.TypeOf(Label{}), ref: "Code", refKey: "Code", refCol: "code", joinDef: "label_code", class: "string",
		text: "type Label struct { ID uint; Code string `gorm:\"size:16;not null; uniqueIndex\"`; Name string }"},
	{name: "Topic", field: "Topics", table: "topics", typ: reflect.TypeOf(Topic{}), ref: "Slug", refKey: "Slug", refCol: "slug", joinDef: "topic_slug", class: "string",
		text: "type Topic struct { ID int64 `gorm:\"primaryKey\"`; Slug string `gorm:\"size:24; unique\"`; Name string }"},
	{name: "Venue", field: "Venues", table: "venues", typ: reflect.TypeOf(Venue{}), refKey: "Code", refCol: "code", joinDef: "venue_code", class: "string",
		text: "type Venue struct { Code string `gorm:\"primaryKey;size:8\"`; Name string }"},
	{name: "Squad", field: "Squads", table: "squads", typ: reflect.TypeOf(Squad{}), ref: "Num", refKey: "Num", refCol: "num", joinDef: "squad_num", class: "int",
		text: "type Squad struct { ID uint; Num int64 `gorm:\"NOT NULL;UNIQUEINDEX\"`; Name string }"},
}

// relGen is one generated many2many relation of the model.
type relGen struct {
	f       *fieldGen // the relation field
	tgt     *tgtDesc
	join    string      // join table
	keys    []*fieldGen // the owner's key fields
	ownCols []string    // join columns of the owner's side (one per key field)
	refCol  string      // join column of the other side
	inV1    bool
	nonPK   bool
	bt      bool      // a belongs-to relation instead: fk is the foreign key column of the model's own table
	fk      *fieldGen // (belongs-to) the foreign key field
}

var keyKinds = []goKind{
	{"int64", reflect.TypeOf(int64(0))}, {"int", reflect.TypeOf(int(0))}, {"uint", reflect.TypeOf(uint(0))},
	{"uint32", reflect.TypeOf(uint32(0))}, {"string", reflect.TypeOf("")}, {"string", reflect.TypeOf("")},
}

// genKeyField synthesises a v1 column that keys a relation: plain int / uint / string, `column`,
// `not null`, `size`, `comment`, and the index / uniqueIndex / unique grammar - declared with the field (v1)
// or, late, added to it in v2 together with the relation.
func (m *model) genKeyField(r *core.Rand, nc nameCol, late bool) *fieldGen {
	k := core.Pick(r, keyKinds)
	f := &fieldGen{goName: nc.goName, snake: nc.col, col: nc.col, kind: k, inV1: true}
	f.class, f.wrap = classOf(k.typ)
	add := func(tag, feat string) {
		f.tags1 = append(f.tags1, tag)
		f.feats = append(f.feats, feat)
	}
	if r.Chance(1, 3) {
		f.col = "c_" + f.col
		add("column:"+f.col, "column")
	}
	if r.Chance(1, 2) {
		add("not null", "notnull")
	}
	if f.class == "string" && r.Chance(1, 2) {
		add(fmt.Sprintf("size:%d", core.Pick(r, []int{16, 64, 255})), "size")
	}
	if r.Chance(1, 8) {
		add("comment:some note", "comment")
	}
	addIdx := add
	if late {
		addIdx = func(tag, feat string) {
			f.tags2 = append(f.tags2, tag)
			f.feats2 = append(f.feats2, "+"+feat)
		}
	}
	if r.Chance(1, 4) {
		addIdx("unique", "unique")
		m.uniq = append(m.uniq, &uniqExp{Col: f.col, V2: late})
	}
	if r.Chance(4, 5) {
		addIdx(m.indexTag(r, f, late, false))
	}
	return f
}

// genRelations adds 1..2 many2many relations to declared types; names come from the END of free.
func (m *model) genRelations(r *core.Rand, free []nameCol) {
	n := r.Range(1, 2)
	ts := r.Perm(len(targets))
	var pks []*fieldGen
	for _, f := range m.fields {
		if f.pk {
			pks = append(pks, f)
		}
	}
	for k := 0; k < n && len(free) > 0; k++ {
		t := targets[ts[k]]
		rg := &relGen{tgt: t, join: m.table + "_" + t.table, inV1: r.Chance(1, 4)}
		if r.Chance(1, 4) {
			m.genBelongsTo(r, rg)
			continue
		}
		var tags, fks, jfks []string
		tags = append(tags, "many2many:"+rg.join)
		feat := "m2m:"
		if r.Chance(2, 3) {
			rg.nonPK = true
			nc := free[len(free)-1]
			free = free[:len(free)-1]
			kf := m.genKeyField(r, nc, !rg.inV1 && r.Chance(1, 3))
			m.fields = append(m.fields, kf)
			rg.keys = []*fieldGen{kf}
			feat += "col(" + strings.Join(append(append([]string(nil), kf.feats...), kf.feats2...), ",") + ")"
		} else {
			rg.keys = pks
			feat += "pk:" + m.pkKind
		}
		for _, kf := range rg.keys {
			fks = append(fks, kf.goName)
			jfks = append(jfks, "Owner"+kf.goName)
			rg.ownCols = append(rg.ownCols, "owner_"+kf.snake)
		}
		if rg.nonPK || r.Bool() {
			tags = append(tags, "foreignKey:"+strings.Join(fks, ","))
		}
		// the generated type has no name: the join column of its side is always named
		tags = append(tags, "joinForeignKey:"+strings.Join(jfks, ","))
		if t.ref != "" {
			tags = append(tags, "references:"+t.ref)
		}
		rg.refCol = t.joinDef
		if r.Bool() {
			tags = append(tags, "joinReferences:"+t.name+"Ref")
			rg.refCol = strings.TrimSuffix(t.table, "s") + "_ref"
		}
		feat += "->" + t.name
		rg.f = &fieldGen{goName: t.field, kind: goKind{"[]" + t.name, reflect.SliceOf(t.typ)}, inV1: rg.inV1, rel: rg, tags1: tags, feats: []string{feat}}
		m.fields = append(m.fields, rg.f)
		m.rels = append(m.rels, rg)
	}
}

// genBelongsTo: the model gains a foreign key column (pointer kind, index tag at times) and a belongs-to
// relation to the declared type, with gorm's default names (Badge *Badge + BadgeID *uint) or with names
// of its own (foreignKey:HomeBadgeKey, references:Code for a non-primary unique key of the other side).
// In v2 this adds a column AND a foreign key constraint to the populated table.
func (m *model) genBelongsTo(r *core.Rand, rg *relGen) {
	t := rg.tgt
	rg.bt = true
	keyT, _ := t.typ.FieldByName(t.refKey)
	relName, fkName := t.name, t.name+t.refKey
	var tags []string
	if t.ref != "" || r.Bool() {
		relName, fkName = "Home"+t.name, "Home"+t.name+"Key"
		tags = append(tags, "foreignKey:"+fkName)
		if t.ref != "" {
			tags = append(tags, "references:"+t.ref)
		}
	}
	col := schema.NamingStrategy{}.ColumnName("", fkName)
	fk := &fieldGen{goName: fkName, snake: col, col: col, kind: goKind{"*" + keyT.Type.String(), reflect.PtrTo(keyT.Type)}, inV1: rg.inV1}
	fk.class, fk.wrap = classOf(fk.kind.typ)
	if r.Bool() {
		tag, feat := m.indexTag(r, fk, !rg.inV1, false)
		fk.tags1, fk.feats = []string{tag}, []string{feat}
	}
	rg.fk = fk
	feat := "bt:" + strings.Join(fk.feats, ",") + "->" + t.name
	if len(tags) > 0 {
		feat += ":named"
	}
	rg.f = &fieldGen{goName: relName, kind: goKind{"*" + t.name, reflect.PtrTo(t.typ)}, inV1: rg.inV1, rel: rg, tags1: tags, feats: []string{feat}}
	m.fields = append(m.fields, fk, rg.f)
	m.rels = append(m.rels, rg)
}

func (m *model) targetTexts() []string {
	var out []string
	for _, rg := range m.rels {
		out = append(out, rg.tgt.text)
	}
	return out
}

// ---- values of the keys ----

// keyVal returns the i-th probe value of a key of the class.
func keyVal(class string, i int) interface{} {
	if class == "string" {
		return fmt.Sprintf("pk%d", i)
	}
	return int64(9000 + i)
}

// newTarget builds a record of the declared type with key number i (primary keys of integer kind are
// left to the database).
func newTarget(t *tgtDesc, i int, name string) reflect.Value {
	v := reflect.New(t.typ)
	v.Elem().FieldByName("Name").SetString(name)
	f := v.Elem().FieldByName(t.refKey)
	switch {
	case t.class == "string":
		f.SetString(fmt.Sprintf("k%d", i))
	case t.ref != "":
		f.SetInt(int64(500 + i))
	}
	return v
}

func (x *hist) rawTargetRow(t *tgtDesc) {
	var err error
	switch t.name {
	case "Badge":
		_, err = x.h.SQL.Exec("INSERT INTO badges(id,name) VALUES (900,'old b''dge')")
	case "Label":
		_, err = x.h.SQL.Exec("INSERT INTO labels(id,code,name) VALUES (900,'c900','old l''bel')")
	case "Topic":
		_, err = x.h.SQL.Exec("INSERT INTO topics(id,slug,name) VALUES (900,'s900','old t''pic')")
	case "Venue":
		_, err = x.h.SQL.Exec("INSERT INTO venues(code,name) VALUES ('v900','old v''nue')")
	case "Squad":
		_, err = x.h.SQL.Exec("INSERT INTO squads(id,num,name) VALUES (900,9900,'old sq''ad')")
	}
	if err != nil {
		panic(fmt.Sprintf("c20 harness: raw row for %s: %v", t.table, err))
	}
}

// sideTables dumps every table but the history's own one (the declared types' tables and the join tables).
func (x *hist) sideDump() []string {
	cols := map[string][]string{}
	for _, t := range vdb.Tables(x.h.SQL) {
		if t != x.table {
			cols[t] = tableCols(x.h, t)
		}
	}
	return dumpCols(x.h, cols)
}

// resolveJoins takes the join table and the join columns of every relation of the model version from
// gorm's own parse of the model (the statement does not fix their names); join columns that are not
// named after the joinForeignKey / joinReferences tag are counted, not judged.
func (x *hist) resolveJoins(t reflect.Type, v2 bool) {
	if x.m == nil || len(x.m.rels) == 0 {
		return
	}
	stmt := &gorm.Statement{DB: x.h.DB}
	if err := stmt.ParseWithSpecialTableName(reflect.New(t).Interface(), x.parseTable()); err != nil {
		panic(fmt.Sprintf("c20 harness: model does not parse: %v", err))
	}
	for _, rg := range x.m.rels {
		if !v2 && !rg.inV1 {
			continue
		}
		rel := stmt.Schema.Relationships.Relations[rg.f.goName]
		if rg.bt {
			if rel == nil || rel.Type != schema.BelongsTo || len(rel.References) != 1 || rel.References[0].ForeignKey.DBName != rg.fk.col || rel.References[0].PrimaryKey.DBName != rg.tgt.refCol {
				panic(fmt.Sprintf("c20 harness: %s is not the belongs-to relation over %s of the parsed model", rg.f.goName, rg.fk.col))
			}
			continue
		}
		if rel == nil || rel.Type != schema.Many2Many || rel.JoinTable == nil {
			panic(fmt.Sprintf("c20 harness: %s is not a many2many relation of the parsed model", rg.f.goName))
		}
		own := map[string]string{}
		ref := ""
		for _, r := range rel.References {
			if r.OwnPrimaryKey {
				own[r.PrimaryKey.Name] = r.ForeignKey.DBName
			} else {
				ref = r.ForeignKey.DBName
			}
		}
		named := rel.JoinTable.Table == rg.join && ref == rg.refCol
		cols := make([]string, len(rg.keys))
		for i, kf := range rg.keys {
			cols[i] = own[kf.goName]
			if cols[i] == "" {
				panic(fmt.Sprintf("c20 harness: relation %s has no join column for key field %s", rg.f.goName, kf.goName))
			}
			named = named && cols[i] == rg.ownCols[i]
		}
		if ref == "" || len(own) != len(rg.keys) {
			panic(fmt.Sprintf("c20 harness: relation %s: unexpected references", rg.f.goName))
		}
		if !named {
			x.c.Inc("join_columns_not_named_by_the_join_tags")
		}
		rg.join, rg.ownCols, rg.refCol = rel.JoinTable.Table, cols, ref
	}
}

// ---- what the tags of a relation's key fields look like (for the SIGNATURE of a violation only) ----

type keyTraits struct{ check, two, blank bool }

var strippedSettings = map[string]bool{"COLUMN": true, "AUTOINCREMENT": true, "INDEX": true, "UNIQUE": true, "UNIQUEINDEX": true}

// traits: does a key field of the relation declare a check; two or more of index / unique /
// uniqueIndex; one of the settings the join table must not take over (column, autoIncrement, index,
// unique, uniqueIndex) spelled with a blank BEHIND its name (`unique ;`, `index :name`, or
// `uniqueIndex; ` in front of an empty piece).
func (rg *relGen) traits(v2 bool) (t keyTraits) {
	for _, kf := range rg.keys {
		pieces := strings.Split(kf.tag(v2), ";")
		n := 0
		for i, p := range pieces {
			raw := p
			if c := strings.Index(p, ":"); c >= 0 {
				raw = p[:c]
			}
			name := strings.ToUpper(strings.TrimSpace(raw))
			switch name {
			case "CHECK":
				t.check = true
			case "INDEX", "UNIQUE", "UNIQUEINDEX":
				n++
			}
			if strippedSettings[name] && strings.TrimRight(raw, " ") != raw {
				t.blank = true
			}
			if name == "UNIQUEINDEX" && i+1 < len(pieces) && strings.TrimSpace(pieces[i+1]) == "" && pieces[i+1] != "" {
				t.blank = true
			}
		}
		if n >= 2 {
			t.two = true
		}
	}
	return
}

func (t keyTraits) cause() string {
	switch {
	case t.two:
		return "key-field-with-two-index-settings"
	case t.blank:
		return "blank-behind-setting-name-of-key-field"
	}
	return ""
}

// migrateErrorClass recognises the migration errors that come from a join table taking over settings of
// a relation's key field: `no such column: c` where c is the column of a key field that declares a
// check; `index n already exists` where n is an index named by a key field whose tag has a trait.
func (x *hist) migrateErrorClass(err error, v2 bool) string {
	if x.m == nil {
		return ""
	}
	msg := err.Error()
	for _, rg := range x.m.rels {
		if (!v2 && !rg.inV1) || rg.bt {
			continue
		}
		t := rg.traits(v2)
		for _, kf := range rg.keys {
			if t.check && msg == "no such column: "+kf.col {
				return ":join-table-takes-check-of-key-field"
			}
			if c := t.cause(); c != "" && strings.HasPrefix(msg, "index ") && strings.HasSuffix(msg, " already exists") {
				name := strings.TrimSuffix(strings.TrimPrefix(msg, "index "), " already exists")
				if strings.Contains(kf.tag(v2), ":"+name) || name == x.m.defIdx(kf.snake) {
					return ":join-table-takes-index-of-key-field:" + c
				}
			}
		}
	}
	return ""
}

// checkJoin: the join table of the relation exists with its columns and foreign keys, and holds
// several rows per owner and several rows per associated record (raw SQL, rolled back).
func (x *hist) checkJoin(rg *relGen, v2 bool) (missing, refused []string, cause string) {
	if !setOf(vdb.Tables(x.h.SQL))[rg.join] {
		return []string{"join table " + rg.join + " of relation " + rg.f.goName}, nil, ""
	}
	if !setOf(vdb.Tables(x.h.SQL))[rg.tgt.table] {
		missing = append(missing, "table "+rg.tgt.table+" (other side of relation "+rg.f.goName+")")
	}
	have := setOf(tableCols(x.h, rg.join))
	cols := append(append([]string(nil), rg.ownCols...), rg.refCol)
	for _, c := range cols {
		if !have[c] {
			missing = append(missing, "column "+rg.join+"."+c)
		}
	}
	if len(missing) > 0 {
		return
	}
	fks := fkList(x.h, rg.join)
	for _, c := range rg.ownCols {
		if !fks[c+"->"+x.table] {
			missing = append(missing, "foreign key "+rg.join+"."+c+"->"+x.table)
		}
	}
	if !fks[rg.refCol+"->"+rg.tgt.table] {
		missing = append(missing, "foreign key "+rg.join+"."+rg.refCol+"->"+rg.tgt.table)
	}
	// rows (owner 1, other 1), (owner 1, other 2), (owner 2, other 1)
	tx, err := x.h.SQL.Begin()
	if err != nil {
		panic(err)
	}
	defer tx.Rollback()
	q := make([]string, len(cols))
	ph := make([]string, len(cols))
	for i, c := range cols {
		q[i], ph[i] = "`"+c+"`", "?"
	}
	for _, p := range [][2]int{{1, 1}, {1, 2}, {2, 1}} {
		var args []interface{}
		for _, kf := range rg.keys {
			args = append(args, keyVal(kf.class, p[0]))
		}
		args = append(args, keyVal(rg.tgt.class, p[1]))
		if _, err := tx.Exec("INSERT INTO `"+rg.join+"` ("+strings.Join(q, ",")+") VALUES ("+strings.Join(ph, ",")+")", args...); err != nil {
			if !strings.Contains(err.Error(), "UNIQUE constraint failed") {
				panic(fmt.Sprintf("c20 harness: join probe on %s failed differently: %v", rg.join, err))
			}
			// the tag of the owner's key field names the class only when it is the owner's join column that refuses
			for _, c := range rg.ownCols {
				if strings.HasSuffix(err.Error(), "UNIQUE constraint failed: "+rg.join+"."+c) {
					cause = rg.traits(v2).cause()
				}
			}
			refused = append(refused, fmt.Sprintf("join table %s refuses the row %v next to the rows before it (owner 1 with two associated records, two owners with the same associated record): %v", rg.join, args, err))
			return
		}
	}
	x.c.Inc("join_table_probes")
	return
}

func (x *hist) joinDDL() map[string][]string {
	out := map[string][]string{}
	if x.m == nil {
		return out
	}
	for _, rg := range x.m.rels {
		if rg.bt {
			continue
		}
		rows, _ := vdb.RowMaps(x.h.SQL, "SELECT sql FROM sqlite_master WHERE tbl_name = ? AND sql IS NOT NULL ORDER BY type DESC, name", rg.join)
		for _, r := range rows {
			out[rg.join] = append(out[rg.join], fmt.Sprint(r["sql"]))
		}
	}
	return out
}

// checkJoins runs checkJoin for the relations of the model version; false = a violation was reported.
func (x *hist) checkJoins(v2 bool, ddl []string) bool {
	if x.m == nil {
		return true
	}
	ver := "v1"
	if v2 {
		ver = "v2"
	}
	var missing, refused, causes []string
	for _, rg := range x.m.rels {
		if !v2 && !rg.inV1 {
			continue
		}
		if rg.bt {
			if !setOf(vdb.Tables(x.h.SQL))[rg.tgt.table] {
				missing = append(missing, "table "+rg.tgt.table+" (other side of relation "+rg.f.goName+")")
			}
			if !fkList(x.h, x.table)[rg.fk.col+"->"+rg.tgt.table] {
				missing = append(missing, "foreign key "+x.table+"."+rg.fk.col+"->"+rg.tgt.table+" (relation "+rg.f.goName+")")
			}
			continue
		}
		mi, re, ca := x.checkJoin(rg, v2)
		missing, refused = append(missing, mi...), append(refused, re...)
		if len(re) > 0 {
			causes = append(causes, ca)
		}
	}
	if len(missing) > 0 {
		x.violation(ver+"_relation_object_missing", map[string]interface{}{"missing": missing, "schema_changing_statements": ddl, "join_table_ddl": x.joinDDL()})
		return false
	}
	if len(refused) > 0 {
		// a class of its own only when EVERY refusing join table has key fields with such a tag
		sig := ver + "_join_table_unique_on_one_key"
		sort.Strings(causes)
		if causes[0] != "" {
			sig += ":" + causes[len(causes)-1]
		}
		x.violation(sig, map[string]interface{}{"refused": refused, "schema_changing_statements": ddl, "join_table_ddl": x.joinDDL(),
			"expected": "the join table of a many2many relation is unique on (owner key, associated key) together; the index / unique / uniqueIndex settings of the key fields belong to the models' own tables"})
		return false
	}
	return true
}

func namesOf(slice reflect.Value) []string {
	var out []string
	for k := 0; k < slice.Len(); k++ {
		out = append(out, slice.Index(k).FieldByName("Name").String())
	}
	sort.Strings(out)
	return out
}

// joinNames reads, with raw SQL, the names of the records associated with the owner whose key values are given.
func (x *hist) joinNames(rg *relGen, owner reflect.Value) []string {
	var conds []string
	var args []interface{}
	for i, kf := range rg.keys {
		conds = append(conds, "j.`"+rg.ownCols[i]+"` = ?")
		args = append(args, fieldAt(owner, []string{kf.goName}).Interface())
	}
	rows, err := vdb.RowMaps(x.h.SQL, "SELECT t.name AS n FROM `"+rg.join+"` j JOIN `"+rg.tgt.table+"` t ON t.`"+rg.tgt.refCol+"` = j.`"+rg.refCol+"` WHERE "+strings.Join(conds, " AND "), args...)
	if err != nil {
		return []string{"ERR " + err.Error()}
	}
	var out []string
	for _, r := range rows {
		out = append(out, fmt.Sprint(r["n"]))
	}
	sort.Strings(out)
	return out
}

// relationRoundTrip: records of the new model WITH associated records are accepted and returned:
// a new record with two associated records per relation (Create), an old row that receives a new
// associated record and one of the first record's (Association().Append).
func (x *hist) relationRoundTrip(name2 string) {
	if x.m == nil || len(x.m.rels) == 0 {
		return
	}
	var problems []string
	// 1. a new record with two associated records under every relation
	_, vals := x.newRow(x.l2, true, false)
	rec := reflect.New(x.t2)
	for k, l := range x.l2 {
		if x.pkAuto && l.f.PrimaryKey {
			continue
		}
		setGo(rec.Elem(), l, vals[k])
	}
	var desc []string
	first := map[*relGen]reflect.Value{}
	for i, rg := range x.m.rels {
		f := rec.Elem().FieldByName(rg.f.goName)
		if rg.bt {
			// the foreign key is left to gorm: it comes from the nested record
			fkf := rec.Elem().FieldByName(rg.fk.goName)
			fkf.Set(reflect.Zero(fkf.Type()))
			f.Set(newTarget(rg.tgt, 10*i+1, rg.tgt.name+" one"))
			desc = append(desc, fmt.Sprintf("%s: nil, %s: &%s{new}", rg.fk.goName, rg.f.goName, rg.tgt.name))
			continue
		}
		a, b := newTarget(rg.tgt, 10*i+1, rg.tgt.name+" one"), newTarget(rg.tgt, 10*i+2, rg.tgt.name+" tw'o")
		f.Set(reflect.Append(reflect.Append(f, a.Elem()), b.Elem()))
		desc = append(desc, fmt.Sprintf("%s: 2 new %s", rg.f.goName, rg.tgt.name))
	}
	db, sel := x.sel()
	err := db.Create(rec.Interface()).Error
	x.op("%s.Create(&%s{...row %d..., %s}) -> err=%v", sel, name2, x.rows, strings.Join(desc, ", "), err)
	if err != nil {
		x.violation("create_v2_error", map[string]interface{}{"error": err.Error(), "how": "record with associated records"})
		return
	}
	pre, _ := x.sel()
	w, args := pkWhere(x.l2, rec.Elem())
	for _, rg := range x.m.rels {
		f := rec.Elem().FieldByName(rg.f.goName)
		pre = pre.Preload(rg.f.goName)
		if rg.bt {
			first[rg] = f.Elem()
			rows, err := vdb.RowMaps(x.h.SQL, "SELECT t.name AS n FROM `"+rg.tgt.table+"` t WHERE t.`"+rg.tgt.refCol+"` = (SELECT `"+rg.fk.col+"` FROM `"+x.table+"` WHERE "+w+")", args...)
			if err != nil || len(rows) != 1 || fmt.Sprint(rows[0]["n"]) != rg.tgt.name+" one" {
				problems = append(problems, fmt.Sprintf("raw: %s JOIN %s over %s for the created record: %v %v, created with %q", x.table, rg.tgt.table, rg.fk.col, rows, err, rg.tgt.name+" one"))
			}
			continue
		}
		first[rg] = f.Index(0)
		want := []string{rg.tgt.name + " one", rg.tgt.name + " tw'o"}
		if got := x.joinNames(rg, rec.Elem()); !same(got, want) {
			problems = append(problems, fmt.Sprintf("raw: %s JOIN %s for the created record: %q, created with %q", rg.join, rg.tgt.table, got, want))
		}
	}
	out := reflect.New(x.t2)
	if err := pre.Where(w, args...).First(out.Interface()).Error; err != nil {
		problems = append(problems, fmt.Sprintf("Preload(..).Where(%q, %v).First: %v", w, args, err))
	} else {
		for _, rg := range x.m.rels {
			if rg.bt {
				if g := out.Elem().FieldByName(rg.f.goName); g.IsNil() || g.Elem().FieldByName("Name").String() != rg.tgt.name+" one" || out.Elem().FieldByName(rg.fk.goName).IsNil() {
					problems = append(problems, fmt.Sprintf("Preload(%q).First returned %s=%v %s=%+v, created with a nested %q", rg.f.goName, rg.fk.goName, out.Elem().FieldByName(rg.fk.goName).Interface(), rg.f.goName, g.Interface(), rg.tgt.name+" one"))
				}
				continue
			}
			want := []string{rg.tgt.name + " one", rg.tgt.name + " tw'o"}
			if got := namesOf(out.Elem().FieldByName(rg.f.goName)); !same(got, want) {
				problems = append(problems, fmt.Sprintf("Preload(%q).First returned %q, created with %q", rg.f.goName, got, want))
			}
		}
	}
	// 2. an old row gains a new associated record and shares one with the record created above
	// (Append touches the owner's autoUpdateTime columns: not done when such a column carries a generated
	// check, whose range the time gorm writes lies outside of)
	timeChecked := false
	for _, l := range x.l2 {
		if l.f.AutoUpdateTime != 0 {
			for _, e := range x.m.chk {
				timeChecked = timeChecked || e.Col == l.col
			}
		}
	}
	if len(x.known) > 0 && len(problems) == 0 && !timeChecked {
		row := x.known[0]
		var conds []string
		for _, l := range pkLeaves(x.l1) {
			conds = append(conds, "`"+l.col+"` = "+sqlLit(row[l.col]))
		}
		old := reflect.New(x.t2)
		db, _ := x.sel()
		if err := db.Where(strings.Join(conds, " AND ")).First(old.Interface()).Error; err != nil {
			problems = append(problems, fmt.Sprintf("First(old row %v): %v", conds, err))
		} else {
			for i, rg := range x.m.rels {
				if rg.bt {
					continue
				}
				fresh := newTarget(rg.tgt, 10*i+3, rg.tgt.name+" three")
				shared := reflect.New(rg.tgt.typ)
				shared.Elem().Set(first[rg])
				db, sel := x.sel()
				err := db.Model(old.Interface()).Association(rg.f.goName).Append(fresh.Interface(), shared.Interface())
				x.op("%s.Model(&old /* First(&%s{}, %s) */).Association(%q).Append(&%s{new}, &%s{the first one of the record created before}) -> err=%v", sel, name2, strings.Join(conds, " AND "), rg.f.goName, rg.tgt.name, rg.tgt.name, err)
				if err != nil {
					problems = append(problems, fmt.Sprintf("Association(%q).Append on an old row: %v", rg.f.goName, err))
					continue
				}
				want := []string{rg.tgt.name + " one", rg.tgt.name + " three"}
				if got := x.joinNames(rg, old.Elem()); !same(got, want) {
					problems = append(problems, fmt.Sprintf("raw: %s JOIN %s for the old row: %q, appended %q", rg.join, rg.tgt.table, got, want))
				}
				back := reflect.New(x.t2)
				db, _ = x.sel()
				if err := db.Preload(rg.f.goName).Where(strings.Join(conds, " AND ")).First(back.Interface()).Error; err != nil {
					problems = append(problems, fmt.Sprintf("Preload(%q).First(old row): %v", rg.f.goName, err))
				} else if got := namesOf(back.Elem().FieldByName(rg.f.goName)); !same(got, want) {
					problems = append(problems, fmt.Sprintf("Preload(%q).First(old row) returned %q, appended %q", rg.f.goName, got, want))
				}
				// the record created before still has both of its own
				want = []string{rg.tgt.name + " one", rg.tgt.name + " tw'o"}
				if got := x.joinNames(rg, rec.Elem()); !same(got, want) {
					problems = append(problems, fmt.Sprintf("raw: %s JOIN %s for the created record after the Append to another owner: %q, expected %q", rg.join, rg.tgt.table, got, want))
				}
			}
		}
	}
	if len(problems) > 0 {
		x.violation("relation_roundtrip_v2", map[string]interface{}{"problems": problems, "join_table_ddl": x.joinDDL()})
		return
	}
	x.c.Inc("v2_records_with_associations_round_tripped")
}

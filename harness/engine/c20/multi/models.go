// Package multi holds the models of the "parallel relations" family of the C20 engine
// (engine/c20/multi.go): ONE owner model with SEVERAL has-one / has-many relations to the SAME
// child model, so that the child table carries one foreign key per relation, all of them to the
// same parent table. Version 1 types (…A, …B) and version 2 types (…Z) live on the same tables;
// every v2 type keeps the fields of the v1 types it can follow, with their tags.
package multi

// ---- version 1 ----

// LetterA: the child of the v1 owners with at most one relation.
type LetterA struct {
	ID         uint
	Body       string `gorm:"not null;default:''"`
	ReceiverID uint   `gorm:"index"`
}

func (LetterA) TableName() string { return "letters" }

// LetterB: the child of the v1 owners that already have two relations.
type LetterB struct {
	ID         uint
	Body       string `gorm:"not null;default:''"`
	ReceiverID uint   `gorm:"index"`
	SenderID   *uint  `gorm:"index"`
}

func (LetterB) TableName() string { return "letters" }

// PersonA0: no relation at all in version 1.
type PersonA0 struct {
	ID   uint
	Name string `gorm:"size:40"`
}

func (PersonA0) TableName() string { return "people" }

// PersonA1: one has-many.
type PersonA1 struct {
	ID       uint
	Name     string    `gorm:"size:40"`
	Received []LetterA `gorm:"foreignKey:ReceiverID;constraint:OnDelete:CASCADE"`
}

func (PersonA1) TableName() string { return "people" }

// PersonB2: two has-many to the same child, created with the table.
type PersonB2 struct {
	ID       uint
	Name     string    `gorm:"size:40"`
	Sent     []LetterB `gorm:"foreignKey:SenderID;constraint:OnDelete:SET NULL"`
	Received []LetterB `gorm:"foreignKey:ReceiverID;constraint:OnDelete:CASCADE"`
}

func (PersonB2) TableName() string { return "people" }

// PersonB2r: as PersonB2, declared the other way round.
type PersonB2r struct {
	ID       uint
	Name     string    `gorm:"size:40"`
	Received []LetterB `gorm:"foreignKey:ReceiverID;constraint:OnDelete:CASCADE"`
	Sent     []LetterB `gorm:"foreignKey:SenderID;constraint:OnDelete:SET NULL"`
}

func (PersonB2r) TableName() string { return "people" }

// OfficeA: a second owner-to-be, unrelated in version 1.
type OfficeA struct {
	ID   uint
	City string `gorm:"size:30"`
}

func (OfficeA) TableName() string { return "offices" }

// ---- version 2 ----

// LetterZ: every foreign key column a v2 owner may use (a column without a relation is a plain column).
type LetterZ struct {
	ID         uint
	Body       string `gorm:"not null;default:''"`
	ReceiverID uint   `gorm:"index"`
	SenderID   *uint  `gorm:"index"`
	CcID       *uint
	DraftOfID  *uint `gorm:"index"`
	OfficeID   *uint
	Subject    string `gorm:"size:60;default:'(none)'"`
}

func (LetterZ) TableName() string { return "letters" }

// Parcel: a child table that is new in version 2 (its foreign keys are part of CREATE TABLE).
type Parcel struct {
	ID     uint
	Label  string `gorm:"size:20"`
	FromID *uint  `gorm:"index"`
	ToID   *uint
}

func (Parcel) TableName() string { return "parcels" }

// Office: a second owner whose relation has the same NAME as one of Person's.
type Office struct {
	ID   uint
	City string    `gorm:"size:30"`
	Zip  *string   `gorm:"size:10"`
	Sent []LetterZ `gorm:"foreignKey:OfficeID"`
}

func (Office) TableName() string { return "offices" }

type PersonZr struct {
	ID       uint
	Name     string    `gorm:"size:40"`
	Nick     *string   `gorm:"index"`
	Received []LetterZ `gorm:"foreignKey:ReceiverID;constraint:OnDelete:CASCADE"`
}

func (PersonZr) TableName() string { return "people" }

type PersonZsr struct {
	ID       uint
	Name     string    `gorm:"size:40"`
	Nick     *string   `gorm:"index"`
	Sent     []LetterZ `gorm:"foreignKey:SenderID;constraint:OnDelete:SET NULL"`
	Received []LetterZ `gorm:"foreignKey:ReceiverID;constraint:OnDelete:CASCADE"`
}

func (PersonZsr) TableName() string { return "people" }

type PersonZrs struct {
	ID       uint
	Name     string    `gorm:"size:40"`
	Received []LetterZ `gorm:"foreignKey:ReceiverID;constraint:OnDelete:CASCADE"`
	Sent     []LetterZ `gorm:"foreignKey:SenderID;constraint:OnDelete:SET NULL"`
	Nick     *string   `gorm:"index"`
}

func (PersonZrs) TableName() string { return "people" }

// PersonZrsc: three has-many to letters, two to the new table parcels.
type PersonZrsc struct {
	ID       uint
	Name     string    `gorm:"size:40"`
	Nick     *string   `gorm:"index"`
	Received []LetterZ `gorm:"foreignKey:ReceiverID;constraint:OnDelete:CASCADE"`
	Sent     []LetterZ `gorm:"foreignKey:SenderID;constraint:OnDelete:SET NULL"`
	Copied   []LetterZ `gorm:"foreignKey:CcID"`
	Shipped  []Parcel  `gorm:"foreignKey:FromID;constraint:OnDelete:CASCADE"`
	Got      []Parcel  `gorm:"foreignKey:ToID"`
}

func (PersonZrsc) TableName() string { return "people" }

// PersonZcdsr: has-many and has-one mixed, a constraint with a name of its own, new ones declared first.
type PersonZcdsr struct {
	ID       uint
	Name     string    `gorm:"size:40"`
	Copied   []LetterZ `gorm:"foreignKey:CcID"`
	Draft    *LetterZ  `gorm:"foreignKey:DraftOfID;constraint:fk_letters_draft_owner,OnUpdate:CASCADE,OnDelete:SET NULL"`
	Got      []Parcel  `gorm:"foreignKey:ToID"`
	Shipped  []Parcel  `gorm:"foreignKey:FromID;constraint:OnDelete:CASCADE"`
	Sent     []LetterZ `gorm:"foreignKey:SenderID;constraint:OnDelete:SET NULL"`
	Received []LetterZ `gorm:"foreignKey:ReceiverID;constraint:OnDelete:CASCADE"`
	Nick     *string   `gorm:"index"`
}

func (PersonZcdsr) TableName() string { return "people" }

// PersonZrd: one has-many and one has-one.
type PersonZrd struct {
	ID       uint
	Name     string    `gorm:"size:40"`
	Nick     *string   `gorm:"index"`
	Received []LetterZ `gorm:"foreignKey:ReceiverID;constraint:OnDelete:CASCADE"`
	Draft    *LetterZ  `gorm:"foreignKey:DraftOfID;constraint:fk_letters_draft_owner,OnUpdate:CASCADE,OnDelete:SET NULL"`
}

func (PersonZrd) TableName() string { return "people" }

// ---- both directions between the same two models: the child also BELONGS TO the owner ----
// (the belongs-to's foreign key and the owner's has-many foreign keys are different constraints
// of the same child table to the same parent table, unless they use the same column)

// LetterY1 (v1, with PersonA0): the child belongs to the owner, the owner has no relation yet.
type LetterY1 struct {
	ID         uint
	Body       string    `gorm:"not null;default:''"`
	ReceiverID uint      `gorm:"index"`
	Receiver   *PersonA0 `gorm:"foreignKey:ReceiverID"`
}

func (LetterY1) TableName() string { return "letters" }

// PersonYs / LetterYs: belongs-to over receiver_id, has-many over sender_id.
type PersonYs struct {
	ID   uint
	Name string     `gorm:"size:40"`
	Nick *string    `gorm:"index"`
	Sent []LetterYs `gorm:"foreignKey:SenderID;constraint:OnDelete:SET NULL"`
}

func (PersonYs) TableName() string { return "people" }

type LetterYs struct {
	ID         uint
	Body       string    `gorm:"not null;default:''"`
	ReceiverID uint      `gorm:"index"`
	Receiver   *PersonYs `gorm:"foreignKey:ReceiverID"`
	SenderID   *uint     `gorm:"index"`
	CcID       *uint
	DraftOfID  *uint `gorm:"index"`
	OfficeID   *uint
	Subject    string `gorm:"size:60;default:'(none)'"`
}

func (LetterYs) TableName() string { return "letters" }

// PersonYrs / LetterYrs: the belongs-to and one of the two has-many use the same column.
type PersonYrs struct {
	ID       uint
	Name     string      `gorm:"size:40"`
	Received []LetterYrs `gorm:"foreignKey:ReceiverID;constraint:OnDelete:CASCADE"`
	Sent     []LetterYrs `gorm:"foreignKey:SenderID;constraint:OnDelete:SET NULL"`
	Nick     *string     `gorm:"index"`
}

func (PersonYrs) TableName() string { return "people" }

type LetterYrs struct {
	ID         uint
	Body       string `gorm:"not null;default:''"`
	ReceiverID uint   `gorm:"index"`
	SenderID   *uint  `gorm:"index"`
	CcID       *uint
	DraftOfID  *uint `gorm:"index"`
	OfficeID   *uint
	Subject    string     `gorm:"size:60;default:'(none)'"`
	Receiver   *PersonYrs `gorm:"foreignKey:ReceiverID"`
}

func (LetterYrs) TableName() string { return "letters" }

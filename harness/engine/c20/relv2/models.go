// Package relv2 holds version 2 of the static model families of the C20 engine (see relv1):
// every v1 field is kept with its v1 tags; fields, indexes, unique and check constraints and
// relations are added.
package relv2

import (
	"database/sql"
	"time"

	"gorm.io/gorm"
)

type Co struct {
	ID      int64  `gorm:"primaryKey"`
	Name    string `gorm:"size:40;uniqueIndex:ux_cos_name"`
	Country string `gorm:"size:2;default:'xx'"`
}

type Lang struct {
	Code   string `gorm:"primaryKey;size:8"`
	Title  string
	Native *string `gorm:"index"`
}

type Pet struct {
	ID     int64 `gorm:"primaryKey"`
	UserID uint  `gorm:"index"`
	Name   string
	Kind   string `gorm:"default:'cat';index"`
	Age    *int   `gorm:"check:age >= 0"`
}

type Prof struct {
	ID     int64 `gorm:"primaryKey"`
	UserID uint  `gorm:"uniqueIndex"`
	Bio    string
}

type User struct {
	gorm.Model
	Name      string `gorm:"index"`
	CoID      *int64
	Co        *Co     `gorm:"foreignKey:CoID"`
	Pets      []Pet   `gorm:"foreignKey:UserID"`
	Langs     []Lang  `gorm:"many2many:user_langs"`
	Age       int     `gorm:"default:18"`
	Email     *string `gorm:"uniqueIndex"`
	ManagerID *uint
	Manager   *User `gorm:"foreignKey:ManagerID"`
	Profile   *Prof `gorm:"foreignKey:UserID"`
}

// ---- single-table families with anonymous embedding ----

type Doc struct {
	gorm.Model
	Title  string `gorm:"size:64;index"`
	Body   *string
	Views  int64   `gorm:"default:0;index:idx_docs_lang_views,priority:2"`
	Slug   *string `gorm:"uniqueIndex"`
	Rating float64 `gorm:"check:rating >= 0"`
	Lang   string  `gorm:"size:8;default:'en';index:idx_docs_lang_views,priority:1"`
}

type Base struct {
	ID        string `gorm:"primaryKey;size:36"`
	CreatedAt time.Time
	Ver       int32 `gorm:"default:1"`
}

type Audit struct {
	By string `gorm:"size:30"`
	At *time.Time
}

type Acct struct {
	Base
	Owner   string  `gorm:"not null;uniqueIndex:ux_accts_owner"`
	Balance float64 `gorm:"check:chk_accts_bal,balance > -1000000"`
	Note    *string `gorm:"size:100"`
	Closed  *bool
	Limit   sql.NullInt64 `gorm:"column:lim;index"`
	Audit   Audit         `gorm:"embedded;embeddedPrefix:audit_"`
}

// ---- growing family: relations are ADDED in version 2 (engine/c20/grow.go) ----
// Book (and its leaner variants BookBT / BookHM, all on table `books`) gains belongs-to
// relations to Author (which itself gains a belongs-to to Publisher: a dependency chain of
// depth 2), a many2many to Tag and a has-many to Review.

type Shelf struct {
	ID   int64   `gorm:"primaryKey"`
	Name string  `gorm:"size:30"`
	Room *string `gorm:"index"`
}

type Publisher struct {
	ID      int64  `gorm:"primaryKey"`
	Name    string `gorm:"size:50;uniqueIndex:ux_publishers_name"`
	Country string `gorm:"size:2;default:'xx'"`
}

type Author struct {
	ID          uint
	Name        string `gorm:"index"`
	PublisherID *int64
	Publisher   *Publisher
	Born        *int `gorm:"check:born > 1000"`
}

type Tag struct {
	Code  string `gorm:"primaryKey;size:8"`
	Label string
	Color *string
}

type Review struct {
	ID     uint
	BookID uint `gorm:"index"`
	Stars  int  `gorm:"check:stars >= 0"`
	Text   string
}

// Book: every addition at once.
type Book struct {
	ID       uint
	Title    string `gorm:"size:64;not null"`
	Pages    int    `gorm:"default:0"`
	ShelfID  *int64
	Shelf    *Shelf
	AuthorID *uint
	Author   *Author
	EditorID *uint
	Editor   *Author  `gorm:"foreignKey:EditorID"`
	Isbn     *string  `gorm:"uniqueIndex:idx_books_isbn"`
	Tags     []Tag    `gorm:"many2many:book_tags;joinForeignKey:BookID"`
	Reviews  []Review `gorm:"foreignKey:BookID"`
}

// BookBT: only a belongs-to (new column + new foreign key on the existing table).
type BookBT struct {
	ID       uint
	Title    string `gorm:"size:64;not null"`
	Pages    int    `gorm:"default:0"`
	ShelfID  *int64
	Shelf    *Shelf
	AuthorID *uint
	Author   *Author
}

func (BookBT) TableName() string { return "books" }

// BookHM: only relations whose foreign keys live in OTHER (new) tables.
type BookHM struct {
	ID      uint
	Title   string `gorm:"size:64;not null"`
	Pages   int    `gorm:"default:0"`
	ShelfID *int64
	Shelf   *Shelf
	Isbn    *string  `gorm:"uniqueIndex:idx_books_isbn"`
	Tags    []Tag    `gorm:"many2many:book_tags;joinForeignKey:BookID"`
	Reviews []Review `gorm:"foreignKey:BookID"`
}

func (BookHM) TableName() string { return "books" }

package c20

import (
	"fmt"
	"reflect"
	"sort"
	"strings"

	"gorm.io/gorm"

	"verif/core"
	"verif/engine/c20/relv1"
	"verif/engine/c20/relv2"
	"verif/vdb"
)

// ---- growing family: RELATIONS are added in v2 to tables that exist and hold rows ----
//
// v1: books (-> shelves) and, each at random, unrelated authors / publishers / tags tables.
// v2: one of three Book variants on table `books` (belongs-to only; has-many + many2many only;
// everything) + Author (gains belongs-to Publisher: chain of depth 2) + new tables.
// Dimensions drawn per case: which tables exist in v1 (so a new foreign key points to an
// existing populated table or to a table that has to be created first), which models are passed
// to AutoMigrate and in which order (the others are reached through dependencies only), one call
// or two, db.AutoMigrate or db.Migrator().AutoMigrate, foreign key enforcement of the connection
// on/off, DisableForeignKeyConstraintWhenMigrating.

type growModel struct {
	name   string // type name in relv2
	table  string
	v1     interface{} // nil: no v1 version
	v2     interface{}
	cols1  []string
	cols2  []string        // added by v2
	idx1   map[string]bool // name -> unique
	idx2   map[string]bool
	fks1   []string // "from->table"
	fks2   []string
	passed bool
}

func setOf(xs []string) map[string]bool {
	m := map[string]bool{}
	for _, x := range xs {
		m[x] = true
	}
	return m
}

func fkList(h *vdb.Handle, table string) map[string]bool {
	rows, _ := vdb.RowMaps(h.SQL, "SELECT \"table\" AS t, \"from\" AS f FROM pragma_foreign_key_list(?)", table)
	out := map[string]bool{}
	for _, r := range rows {
		out[fmt.Sprint(r["f"], "->", r["t"])] = true
	}
	return out
}

func indexList(h *vdb.Handle, table string) map[string]bool {
	rows, _ := vdb.RowMaps(h.SQL, "SELECT name, \"unique\" AS u FROM pragma_index_list(?)", table)
	out := map[string]bool{}
	for _, r := range rows {
		out[fmt.Sprint(r["name"])] = fmt.Sprint(r["u"]) == "1"
	}
	return out
}

// copyFields copies the fields dst and src have in common (same name and type).
func copyFields(dst, src reflect.Value) {
	for i := 0; i < dst.NumField(); i++ {
		f := dst.Type().Field(i)
		if s := src.FieldByName(f.Name); s.IsValid() && s.Type() == f.Type {
			dst.Field(i).Set(s)
		}
	}
}

func runGrow(c *core.Ctx) {
	r := c.R
	variant := core.Pick(r, []string{"bt", "bt", "full", "full", "hm"})
	fkOn := r.Chance(2, 3)
	noFK := r.Chance(1, 8)
	o := vdb.Options{Config: gorm.Config{DisableForeignKeyConstraintWhenMigrating: noFK}}
	if fkOn {
		o.DSNExtra = "_foreign_keys=1"
	}
	h, err := vdb.Open(o)
	if err != nil {
		panic(err)
	}
	defer h.Close()
	if got := vdb.Ints(h.SQL, "PRAGMA foreign_keys"); len(got) != 1 || (got[0] == 1) != fkOn {
		panic(fmt.Sprintf("c20 harness: PRAGMA foreign_keys = %v, wanted enforcement %v", got, fkOn))
	}
	x := &relHist{c: c, h: h, models: "engine/c20/relv1 and relv2 (Shelf, Book/BookBT/BookHM, Author, Publisher, Tag, Review)"}
	x.op("gorm.Open(sqlite %q, &gorm.Config{DisableForeignKeyConstraintWhenMigrating: %v})", "file:...?mode=memory&cache=shared&"+o.DSNExtra, noFK)
	defer func() {
		if c.Verbose {
			for _, o := range x.ops {
				c.Logf("OP %s", o)
			}
		}
	}()

	hasAuthor, hasTags, hasReviews := variant != "hm", variant != "bt", variant != "bt"
	book := &growModel{name: "Book", table: "books", v1: &relv1.Book{}, cols1: []string{"id", "title", "pages", "shelf_id"}, fks1: []string{"shelf_id->shelves"}, passed: true}
	switch variant {
	case "bt":
		book.v2, book.cols2, book.fks2 = &relv2.BookBT{}, []string{"author_id"}, []string{"author_id->authors"}
	case "hm":
		book.v2, book.cols2, book.idx2 = &relv2.BookHM{}, []string{"isbn"}, map[string]bool{"idx_books_isbn": true}
	default:
		book.v2, book.cols2, book.idx2 = &relv2.Book{}, []string{"author_id", "editor_id", "isbn"}, map[string]bool{"idx_books_isbn": true}
		book.fks2 = []string{"author_id->authors", "editor_id->authors"}
	}
	shelf := &growModel{name: "Shelf", table: "shelves", v1: &relv1.Shelf{}, v2: &relv2.Shelf{}, cols1: []string{"id", "name"}, cols2: []string{"room"}, idx2: map[string]bool{"idx_shelves_room": false}}
	author := &growModel{name: "Author", table: "authors", v1: &relv1.Author{}, v2: &relv2.Author{}, cols1: []string{"id", "name"}, idx1: map[string]bool{"idx_authors_name": false},
		cols2: []string{"publisher_id", "born"}, fks2: []string{"publisher_id->publishers"}}
	publisher := &growModel{name: "Publisher", table: "publishers", v1: &relv1.Publisher{}, v2: &relv2.Publisher{}, cols1: []string{"id", "name"}, idx1: map[string]bool{"ux_publishers_name": true}, cols2: []string{"country"}}
	tag := &growModel{name: "Tag", table: "tags", v1: &relv1.Tag{}, v2: &relv2.Tag{}, cols1: []string{"code", "label"}, cols2: []string{"color"}}
	review := &growModel{name: "Review", table: "reviews", v2: &relv2.Review{}, cols2: []string{"id", "book_id", "stars", "text"}, idx2: map[string]bool{"idx_reviews_book_id": false}}
	if hasReviews {
		review.fks2 = []string{"book_id->books"}
	}

	// ---- v1
	in1 := map[*growModel]bool{book: true, shelf: true}
	v1 := []interface{}{book.v1}
	if r.Chance(2, 3) {
		v1 = append(v1, shelf.v1) // otherwise reached as a dependency of Book
	}
	for _, m := range []*growModel{author, publisher, tag} {
		if r.Bool() {
			in1[m] = true
			v1 = append(v1, m.v1)
		}
	}
	if _, err := x.migrate(perm(r, v1)); err != nil {
		x.violation("grow_migrate_v1_error", map[string]interface{}{"error": err.Error()})
		return
	}
	for _, m := range []*growModel{book, shelf, author, publisher, tag} {
		if in1[m] && !setOf(vdb.Tables(h.SQL))[m.table] {
			x.violation("grow_v1_object_missing", map[string]interface{}{"missing": "table " + m.table})
			return
		}
	}
	must := func(q string, a ...interface{}) {
		if _, err := h.SQL.Exec(q, a...); err != nil {
			panic(fmt.Sprintf("c20 harness: %s: %v", q, err))
		}
	}
	nS, nB := r.Range(1, 2), r.Range(1, 4)
	for i := 1; i <= nS; i++ {
		must("INSERT INTO shelves(id,name) VALUES (?,?)", i, fmt.Sprint("shelf ", i))
	}
	for i := 1; i <= nB; i++ {
		var sh interface{}
		if r.Bool() {
			sh = r.Range(1, nS)
		}
		must("INSERT INTO books(id,title,pages,shelf_id) VALUES (?,?,?,?)", i, fmt.Sprint("b'k ", i), 100+i, sh)
	}
	nA := 0
	if in1[author] {
		nA = r.Range(1, 3)
		for i := 1; i <= nA; i++ {
			must("INSERT INTO authors(id,name) VALUES (?,?)", i, fmt.Sprint("author ", i))
		}
	}
	if in1[publisher] {
		nP := r.Range(1, 2)
		for i := 1; i <= nP; i++ {
			must("INSERT INTO publishers(id,name) VALUES (?,?)", i, fmt.Sprint("pub ", i))
		}
	}
	if in1[tag] {
		must("INSERT INTO tags(code,label) VALUES ('t1','one'),('t2','two')")
	}
	x.op("raw rows: %d shelves, %d books, %d authors; publishers: %v, tags: %v", nS, nB, nA, in1[publisher], in1[tag])
	cols := map[string][]string{}
	for _, t := range vdb.Tables(h.SQL) {
		cols[t] = tableCols(h, t)
	}
	before := dumpCols(h, cols)
	schemaBefore := x.schemaSQL()

	ddl, err := x.migrate(perm(r, v1))
	if err != nil {
		x.violation("grow_remigrate_v1_error", map[string]interface{}{"error": err.Error()})
		return
	}
	if len(ddl) > 0 {
		x.violation("grow_remigrate_v1_ddl:"+ddlClass(ddl), map[string]interface{}{"schema_changing_statements": ddl, "schema_before": schemaBefore})
	}
	c.Inc("remigrations_checked")
	if after := dumpCols(h, cols); !same(before, after) {
		x.violation("grow_remigrate_v1_data", diff(before, after))
		return
	}

	// ---- v2: Book's variant always, the others at random (else reached as dependencies, or not at all)
	optional := []*growModel{shelf}
	if hasAuthor {
		optional = append(optional, author, publisher)
	}
	if hasTags {
		optional = append(optional, tag)
	}
	if hasReviews {
		optional = append(optional, review)
	}
	if r.Chance(1, 4) { // an unrelated model in the same call
		switch variant {
		case "bt":
			optional = append(optional, tag)
		case "hm":
			optional = append(optional, publisher)
		}
	}
	v2 := []interface{}{book.v2}
	for _, m := range optional {
		if r.Chance(2, 3) {
			m.passed = true
			v2 = append(v2, m.v2)
		}
	}
	viaMigrator, split := r.Chance(1, 4), r.Chance(1, 4)
	migrate2 := func(vals []interface{}) (ddl []string, err error) {
		groups := [][]interface{}{vals}
		if split && len(vals) > 1 {
			k := r.Range(1, len(vals)-1)
			// the foreign key of a has-many lives in the child table but is declared by the owner: a call
			// that migrates Review without having seen Book cannot know it (not generated, see Assumptions)
			vals = append([]interface{}(nil), vals...)
			bi, ri := -1, -1
			for i, v := range vals {
				switch v {
				case book.v2:
					bi = i
				case review.v2:
					ri = i
				}
			}
			if ri >= 0 && ri < k && bi >= k {
				vals[bi], vals[ri] = vals[ri], vals[bi]
			}
			groups = [][]interface{}{vals[:k], vals[k:]}
		}
		for _, g := range groups {
			mark := h.Rec.Mark()
			if viaMigrator {
				err = h.DB.Session(&gorm.Session{}).Migrator().AutoMigrate(g...)
				x.op("db.Migrator().AutoMigrate(%s) -> err=%v", names(g), err)
			} else {
				err = h.DB.Session(&gorm.Session{}).AutoMigrate(g...)
				x.op("db.AutoMigrate(%s) -> err=%v", names(g), err)
			}
			d := ddlOf(h.Rec.Since(mark))
			x.ops[len(x.ops)-1] += fmt.Sprintf(", %d schema-changing statements", len(d))
			ddl = append(ddl, d...)
			if err != nil {
				return
			}
		}
		return
	}
	args2 := perm(r, v2)
	ddl2, err := migrate2(args2)
	if err != nil {
		x.violation("grow_migrate_v2_error", map[string]interface{}{"error": err.Error(), "schema_before": schemaBefore, "schema_changing_statements": ddl2,
			"expected": "v2 = v1 + added fields/relations: the migration succeeds whatever the order of the arguments"})
		return
	}
	c.Add("v2_migration_statements", len(ddl2))
	if after := dumpCols(h, cols); !same(before, after) {
		d := diff(before, after)
		d["schema_changing_statements"] = ddl2
		x.violation("grow_v2_data_changed", d)
		return
	}

	// what must exist now: everything v1 had; v2's additions of every model that was passed; the
	// tables a passed model's belongs-to / many2many relations point to
	var missing []string
	tables := setOf(vdb.Tables(h.SQL))
	needTable := func(t, why string) {
		if !tables[t] {
			missing = append(missing, "table "+t+" ("+why+")")
		}
	}
	for _, m := range []*growModel{book, shelf, author, publisher, tag, review} {
		if !in1[m] && !m.passed {
			continue
		}
		needTable(m.table, "model passed to AutoMigrate")
		if !tables[m.table] {
			continue
		}
		have, idx, fks := setOf(tableCols(h, m.table)), indexList(h, m.table), fkList(h, m.table)
		wantCols, wantIdx, wantFK := []string{}, map[string]bool{}, []string{}
		if in1[m] {
			wantCols = append(wantCols, m.cols1...)
			for n, u := range m.idx1 {
				wantIdx[n] = u
			}
			wantFK = append(wantFK, m.fks1...)
		}
		if m.passed {
			wantCols = append(append(wantCols, m.cols1...), m.cols2...)
			for n, u := range m.idx1 {
				wantIdx[n] = u
			}
			for n, u := range m.idx2 {
				wantIdx[n] = u
			}
			wantFK = append(append(wantFK, m.fks1...), m.fks2...)
		}
		for _, cn := range wantCols {
			if !have[cn] {
				missing = append(missing, "column "+m.table+"."+cn)
			}
		}
		var ns []string
		for n := range wantIdx {
			ns = append(ns, n)
		}
		sort.Strings(ns)
		for _, n := range ns {
			if u, ok := idx[n]; !ok {
				missing = append(missing, "index "+n)
			} else if u != wantIdx[n] {
				missing = append(missing, fmt.Sprintf("index %s unique=%v, model says %v", n, u, wantIdx[n]))
			}
		}
		if !noFK {
			for _, fk := range wantFK {
				if !fks[fk] {
					missing = append(missing, "foreign key "+m.table+"."+fk)
				}
			}
		}
	}
	if hasAuthor {
		needTable("authors", "belongs-to of the passed Book model")
	}
	if author.passed {
		needTable("publishers", "belongs-to of the passed Author model")
	}
	if hasTags {
		needTable("tags", "many2many of the passed Book model")
		needTable("book_tags", "join table of the passed Book model")
		if tables["book_tags"] {
			have, fks := setOf(tableCols(h, "book_tags")), fkList(h, "book_tags")
			for _, cn := range []string{"book_id", "tag_code"} {
				if !have[cn] {
					missing = append(missing, "column book_tags."+cn)
				}
			}
			if !noFK {
				for _, fk := range []string{"book_id->books", "tag_code->tags"} {
					if !fks[fk] {
						missing = append(missing, "foreign key book_tags."+fk)
					}
				}
			}
		}
	}
	probe := func(what, q string, a ...interface{}) {
		tx, err := h.SQL.Begin()
		if err != nil {
			panic(err)
		}
		_, e := tx.Exec(q, a...)
		tx.Rollback()
		if e == nil {
			missing = append(missing, what+": a violating value was accepted")
		} else if !strings.Contains(e.Error(), "CHECK constraint failed") {
			panic(fmt.Sprintf("c20 harness: probe %s failed differently: %v", q, e))
		}
	}
	if author.passed && tables["authors"] && len(missing) == 0 {
		probe("check (born > 1000) on authors", "INSERT INTO authors(name,born) VALUES ('probe',5)")
	}
	if review.passed && tables["reviews"] && len(missing) == 0 {
		probe("check (stars >= 0) on reviews", "INSERT INTO reviews(book_id,stars,text) VALUES (1,-3,'probe')")
	}
	if len(missing) > 0 {
		x.violation("grow_v2_object_missing", map[string]interface{}{"missing": missing, "schema_changing_statements": ddl2, "schema_before": schemaBefore})
		return
	}

	// ---- the rows inserted under v1 are returned through the new model
	for i := 1; i <= nB; i++ {
		out := reflect.New(reflect.TypeOf(book.v2).Elem())
		if e := h.DB.Session(&gorm.Session{}).First(out.Interface(), i).Error; e != nil {
			x.violation("grow_v2_old_row_unreadable", map[string]interface{}{"key": i, "error": e.Error()})
			return
		}
		var got relv2.Book
		copyFields(reflect.ValueOf(&got).Elem(), out.Elem())
		if got.Title != fmt.Sprint("b'k ", i) || got.Pages != 100+i || got.AuthorID != nil || got.EditorID != nil || got.Isbn != nil {
			x.violation("grow_v2_old_row_differs", map[string]interface{}{"key": i, "returned": describeBook(&got), "inserted": fmt.Sprintf("title=%q pages=%d", fmt.Sprint("b'k ", i), 100+i)})
			return
		}
		c.Inc("old_rows_read_through_v2")
	}

	// ---- a record of the new model, with the new associations, is accepted and returned
	// (nested associations only of models that were passed: their tables are known to have v2's columns)
	must("INSERT INTO shelves(id,name) VALUES (77,'probe shelf')")
	sid := int64(77)
	isbn := fmt.Sprintf("isbn-%d", c.Case)
	spec := relv2.Book{Title: "new o'book", Pages: 321, ShelfID: &sid, Isbn: &isbn}
	var rawAuthor uint
	if hasAuthor {
		must("INSERT INTO authors(id,name) VALUES (88,'raw author')")
		rawAuthor = 88
		spec.EditorID = &rawAuthor
		if author.passed {
			born := 1970
			spec.Author = &relv2.Author{Name: "nested author", Born: &born, Publisher: &relv2.Publisher{Name: "nested pub", Country: "de"}}
		} else {
			spec.AuthorID = &rawAuthor
		}
	}
	if hasTags && tag.passed {
		col := "red"
		spec.Tags = []relv2.Tag{{Code: "t1", Label: "one", Color: &col}, {Code: "t9", Label: "nine"}}
	}
	if hasReviews && review.passed {
		spec.Reviews = []relv2.Review{{Stars: 4, Text: "fine"}, {Stars: 0, Text: "meh"}}
	}
	rec := reflect.New(reflect.TypeOf(book.v2).Elem())
	copyFields(rec.Elem(), reflect.ValueOf(spec))
	err = h.DB.Session(&gorm.Session{}).Create(rec.Interface()).Error
	id := rec.Elem().FieldByName("ID").Uint()
	x.op("db.Create(&%s{Title:%q, Pages:321, ShelfID:&77, Isbn:&%q, EditorID:%v, AuthorID:%v, Author:%s, Tags:%d, Reviews:%d}) -> id=%d err=%v", reflect.TypeOf(book.v2).Elem().String(),
		spec.Title, isbn, deref(spec.EditorID), deref(spec.AuthorID), describeAuthor(spec.Author), len(spec.Tags), len(spec.Reviews), id, err)
	if err != nil {
		x.violation("grow_create_v2_error", map[string]interface{}{"error": err.Error()})
	} else {
		var problems []string
		sel := []string{"title", "pages", "shelf_id"}
		sel = append(sel, book.cols2...)
		rows, _ := vdb.RowMaps(h.SQL, "SELECT "+strings.Join(sel, ",")+" FROM books WHERE id = ?", id)
		if len(rows) != 1 {
			problems = append(problems, fmt.Sprintf("%d rows in books with id %d", len(rows), id))
		} else {
			rw := rows[0]
			exp := map[string]string{"title": spec.Title, "pages": "321", "shelf_id": "77"}
			if variant != "bt" {
				exp["isbn"] = isbn
			}
			if variant == "full" {
				exp["editor_id"] = "88"
			}
			if hasAuthor && !author.passed {
				exp["author_id"] = "88"
			}
			for k, w := range exp {
				if g := fmt.Sprint(rw[k]); g != w {
					problems = append(problems, fmt.Sprintf("raw row: %s = %s, created with %s", k, g, w))
				}
			}
			if hasAuthor && author.passed {
				ar, _ := vdb.RowMaps(h.SQL, "SELECT a.name AS an, a.born AS born, p.name AS pn, p.country AS pc FROM authors a JOIN publishers p ON p.id = a.publisher_id WHERE a.id = ?", rw["author_id"])
				if len(ar) != 1 || fmt.Sprintf("%v|%v|%v|%v", ar[0]["an"], ar[0]["born"], ar[0]["pn"], ar[0]["pc"]) != "nested author|1970|nested pub|de" {
					problems = append(problems, fmt.Sprintf("raw: books.author_id=%v does not lead to the created author and publisher: %v", rw["author_id"], ar))
				}
			}
		}
		if n := len(spec.Tags); n > 0 {
			if g := vdb.Ints(h.SQL, "SELECT count(*) FROM book_tags bt JOIN tags t ON t.code = bt.tag_code WHERE bt.book_id = ?", id); len(g) != 1 || g[0] != int64(n) {
				problems = append(problems, fmt.Sprintf("raw: %v join rows in book_tags for the book, created with %d tags", g, n))
			}
		}
		if n := len(spec.Reviews); n > 0 {
			if g := vdb.Ints(h.SQL, "SELECT count(*) FROM reviews WHERE book_id = ?", id); len(g) != 1 || g[0] != int64(n) {
				problems = append(problems, fmt.Sprintf("raw: %v rows in reviews for the book, created with %d", g, n))
			}
		}
		out := reflect.New(reflect.TypeOf(book.v2).Elem())
		q := h.DB.Session(&gorm.Session{})
		if spec.Author != nil {
			q = q.Preload("Author.Publisher")
		}
		if len(spec.Tags) > 0 {
			q = q.Preload("Tags")
		}
		if len(spec.Reviews) > 0 {
			q = q.Preload("Reviews")
		}
		if e := q.First(out.Interface(), id).Error; e != nil {
			problems = append(problems, "First: "+e.Error())
		} else {
			var got relv2.Book
			copyFields(reflect.ValueOf(&got).Elem(), out.Elem())
			bad := got.Title != spec.Title || got.Pages != 321 || got.ShelfID == nil || *got.ShelfID != 77
			if variant != "bt" {
				bad = bad || got.Isbn == nil || *got.Isbn != isbn
			}
			if variant == "full" {
				bad = bad || got.EditorID == nil || *got.EditorID != 88
			}
			if hasAuthor && !author.passed {
				bad = bad || got.AuthorID == nil || *got.AuthorID != 88
			}
			if spec.Author != nil {
				bad = bad || got.Author == nil || got.Author.Name != "nested author" || got.Author.Born == nil || *got.Author.Born != 1970 ||
					got.Author.Publisher == nil || got.Author.Publisher.Name != "nested pub" || got.Author.Publisher.Country != "de"
			}
			if len(spec.Tags) > 0 {
				var cs []string
				for _, t := range got.Tags {
					cs = append(cs, t.Code+"/"+t.Label)
				}
				sort.Strings(cs)
				bad = bad || strings.Join(cs, ",") != "t1/one,t9/nine"
			}
			if len(spec.Reviews) > 0 {
				var cs []string
				for _, t := range got.Reviews {
					cs = append(cs, fmt.Sprint(t.Stars, "/", t.Text))
				}
				sort.Strings(cs)
				bad = bad || strings.Join(cs, ",") != "0/meh,4/fine"
			}
			if bad {
				problems = append(problems, fmt.Sprintf("First(+Preload) returned %s", describeBook(&got)))
			}
		}
		if len(problems) > 0 {
			x.violation("grow_roundtrip_v2", map[string]interface{}{"problems": problems})
		} else {
			c.Inc("v2_records_round_tripped")
		}
	}

	// ---- v2 again (another order of the same arguments)
	cols2 := map[string][]string{}
	for _, t := range vdb.Tables(h.SQL) {
		cols2[t] = tableCols(h, t)
	}
	before2 := dumpCols(h, cols2)
	schemaBefore = x.schemaSQL()
	ddl, err = migrate2(perm(r, v2))
	if err != nil {
		x.violation("grow_remigrate_v2_error", map[string]interface{}{"error": err.Error()})
		return
	}
	if len(ddl) > 0 {
		x.violation("grow_remigrate_v2_ddl:"+ddlClass(ddl), map[string]interface{}{"schema_changing_statements": ddl, "schema_before": schemaBefore})
	}
	c.Inc("remigrations_checked")
	if after := dumpCols(h, cols2); !same(before2, after) {
		x.violation("grow_remigrate_v2_data", diff(before2, after))
	}
	c.Inc("histories_growing_relations")
	if fkOn {
		c.Inc("histories_with_fk_enforcement")
	}
	if !x.failed {
		c.Shape("grow", variant, fkOn, noFK, names(v1), names(args2), split, viaMigrator)
		c.Inc("nontrivial_histories")
		// the order of the arguments mattered: a passed model precedes a passed model it depends on
		pos := map[string]int{}
		for i, v := range args2 {
			pos[reflect.TypeOf(v).Elem().Name()] = i + 1
		}
		if (hasAuthor && pos["Author"] > pos["Book"+map[string]string{"bt": "BT", "full": "", "hm": "HM"}[variant]]) || (pos["Author"] > 0 && pos["Publisher"] > pos["Author"]) {
			c.Inc("v2_dependant_listed_before_dependency")
			if fkOn && !noFK {
				c.Inc("v2_dependant_first_under_fk_enforcement")
			}
		}
		if c.WantSample() && c.Case%16 == 5 {
			c.Sample(map[string]interface{}{"family": "growing relations relv1 -> relv2", "operations": x.ops})
		}
	}
}

func deref(p *uint) string {
	if p == nil {
		return "nil"
	}
	return fmt.Sprint("&", *p)
}

func describeAuthor(a *relv2.Author) string {
	if a == nil {
		return "nil"
	}
	s := fmt.Sprintf("&Author{ID:%d, Name:%q", a.ID, a.Name)
	if a.Born != nil {
		s += fmt.Sprint(", Born:&", *a.Born)
	}
	if a.PublisherID != nil {
		s += fmt.Sprint(", PublisherID:&", *a.PublisherID)
	}
	if a.Publisher != nil {
		s += fmt.Sprintf(", Publisher:&Publisher{ID:%d, Name:%q, Country:%q}", a.Publisher.ID, a.Publisher.Name, a.Publisher.Country)
	}
	return s + "}"
}

func describeBook(b *relv2.Book) string {
	s := fmt.Sprintf("{ID:%d Title:%q Pages:%d", b.ID, b.Title, b.Pages)
	if b.ShelfID != nil {
		s += fmt.Sprint(" ShelfID:&", *b.ShelfID)
	}
	s += " AuthorID:" + deref(b.AuthorID) + " EditorID:" + deref(b.EditorID)
	if b.Isbn != nil {
		s += " Isbn:&" + *b.Isbn
	}
	s += " Author:" + describeAuthor(b.Author)
	s += fmt.Sprintf(" Tags:%+v Reviews:%+v}", b.Tags, b.Reviews)
	return s
}

// Package relv1 holds version 1 of the static model families of the C20 engine. Version 2
// lives in package relv2 under the same type names, as an application's models would after
// fields, indexes and constraints were added to them.
package relv1

import (
	"time"

	"gorm.io/gorm"
)

type Co struct {
	ID   int64  `gorm:"primaryKey"`
	Name string `gorm:"size:40;uniqueIndex:ux_cos_name"`
}

type Lang struct {
	Code  string `gorm:"primaryKey;size:8"`
	Title string
}

type Pet struct {
	ID     int64 `gorm:"primaryKey"`
	UserID uint  `gorm:"index"`
	Name   string
}

type User struct {
	gorm.Model
	Name  string `gorm:"index"`
	CoID  *int64
	Co    *Co    `gorm:"foreignKey:CoID"`
	Pets  []Pet  `gorm:"foreignKey:UserID"`
	Langs []Lang `gorm:"many2many:user_langs"`
}

// ---- single-table families with anonymous embedding ----

type Doc struct {
	gorm.Model
	Title string `gorm:"size:64;index"`
	Body  *string
	Views int64 `gorm:"default:0"`
}

type Base struct {
	ID        string `gorm:"primaryKey;size:36"`
	CreatedAt time.Time
	Ver       int32 `gorm:"default:1"`
}

type Acct struct {
	Base
	Owner   string `gorm:"not null;uniqueIndex:ux_accts_owner"`
	Balance float64
	Note    *string `gorm:"size:100"`
}

// ---- growing family: relations are ADDED in version 2 (engine/c20/grow.go) ----
// Version 1: books reference shelves; authors, publishers and tags (when they exist at
// all in version 1) are unrelated tables.

type Shelf struct {
	ID   int64  `gorm:"primaryKey"`
	Name string `gorm:"size:30"`
}

type Publisher struct {
	ID   int64  `gorm:"primaryKey"`
	Name string `gorm:"size:50;uniqueIndex:ux_publishers_name"`
}

type Author struct {
	ID   uint
	Name string `gorm:"index"`
}

type Tag struct {
	Code  string `gorm:"primaryKey;size:8"`
	Label string
}

type Book struct {
	ID      uint
	Title   string `gorm:"size:64;not null"`
	Pages   int    `gorm:"default:0"`
	ShelfID *int64
	Shelf   *Shelf
}

package c08

import (
	"fmt"
	"sort"
	"strings"

	"gorm.io/gorm"

	"verif/core"
	"verif/vdb"
)

// Association-mode WRITES on relations whose target model has a soft-delete field. Clear / Delete / Replace are
// finishers that issue statements of their own (an UPDATE that takes the foreign key away, or a Delete of the
// associated records when the association is in its Unscoped mode). Those statements are issued "without Unscoped"
// or "with Unscoped" exactly as the handle the association was opened on:
//
//	rows the call may touch  = the owner's rows of the relation that the handle sees
//	                           (live ones; with db.Unscoped() the marked ones as well), narrowed by the operation
//	                           (Clear: all, Delete(x..): the named ones, Replace(k): all but k)
//	what happens to them     = association detach mode: foreign key set to NULL, nothing else changes
//	                           association Unscoped() mode: a Delete - marks the (live) rows when the handle is
//	                           scoped, removes the rows physically when the handle is Unscoped
//	every other row          = unchanged, cell by cell
//
// The two switches are independent (see DESIGN section 4, round 6): db.Unscoped() is the statement's Unscoped the
// property speaks of, Association(..).Unscoped() only selects "delete the records" instead of "take the key away".

type rowSnap map[int64]map[string]string

func snapTable(table string) rowSnap {
	rows, err := vdb.RowMaps(H.SQL, "SELECT * FROM "+table+" ORDER BY id")
	must(err)
	out := rowSnap{}
	for _, r := range rows {
		m := map[string]string{}
		for k, v := range r {
			if v == nil {
				m[k] = "NULL"
			} else {
				m[k] = fmt.Sprint(v)
			}
		}
		out[r["id"].(int64)] = m
	}
	return out
}

func (s rowSnap) ids() []int64 {
	var out []int64
	for id := range s {
		out = append(out, id)
	}
	sort.Slice(out, func(i, j int) bool { return out[i] < out[j] })
	return out
}

func rowStr(m map[string]string) string {
	if m == nil {
		return "<no row>"
	}
	var ks []string
	for k := range m {
		ks = append(ks, k)
	}
	sort.Strings(ks)
	var sb strings.Builder
	for _, k := range ks {
		fmt.Fprintf(&sb, "%s=%s ", k, m[k])
	}
	return strings.TrimSpace(sb.String())
}

// expectation for one row
const (
	keepRow   = iota // unchanged cell by cell
	detachRow        // the given column is NULL, every other cell unchanged
	markRow          // still stored, deleted_at set (was live)
	goneRow          // removed physically
	anyRow           // not this property's subject (the record handed to Replace)
)

func checkRows(table, fk string, before, after rowSnap, exp map[int64]int, add func(string, ...interface{})) {
	what := map[int]string{keepRow: "unchanged", detachRow: fk + " set to NULL and nothing else changed", markRow: "still stored and marked", goneRow: "removed physically"}
	for _, id := range before.ids() {
		b, a := before[id], after[id]
		e := exp[id]
		ok := true
		switch e {
		case anyRow:
		case keepRow:
			ok = a != nil && rowStr(a) == rowStr(b)
		case detachRow:
			if ok = a != nil && a[fk] == "NULL"; ok {
				for k, v := range b {
					if k != fk && a[k] != v {
						ok = false
					}
				}
			}
		case markRow:
			ok = a != nil && a["deleted_at"] != "NULL"
		case goneRow:
			ok = a == nil
		}
		if !ok {
			add("%s row %d (soft-deleted before the call: %v): want it %s; before {%s} after {%s}", table, id, b["deleted_at"] != "NULL", what[e], rowStr(b), rowStr(a))
		}
	}
	for _, id := range after.ids() {
		if before[id] == nil && exp[id] != anyRow {
			add("%s row %d appeared: {%s}", table, id, rowStr(after[id]))
		}
	}
}

// runAssocWrite returns the signature of the case, its literal call, the problems found and whether the call had
// rows to touch.
func runAssocWrite(c *core.Ctx, d assocData) (sig, call string, problems []string, nontrivial bool) {
	r := c.R
	add := func(f string, a ...interface{}) { problems = append(problems, fmt.Sprintf(f, a...)) }
	rel := core.Pick(r, []string{"Items", "Items", "Pet", "Boss"})
	op := core.Pick(r, []string{"Clear", "Delete", "Replace"})
	if rel == "Boss" && op == "Replace" {
		op = "Clear" // what saving a new belongs-to target does to the owner row is C10's and C11's subject
	}
	dbU, asU := r.Bool(), r.Bool()
	root := H.DB.Session(&gorm.Session{})
	call = "db"
	if dbU {
		root = root.Unscoped()
		call += ".Unscoped()"
	}
	mode := func(as *gorm.Association) *gorm.Association {
		if asU {
			call += ".Unscoped()"
			return as.Unscoped()
		}
		return as
	}
	hs, ms := "scoped", "detach"
	if dbU {
		hs = "unscoped"
	}
	if asU {
		ms = "delete"
	}
	// what an association-level delete does to a row the handle sees
	del := markRow
	if dbU {
		del = goneRow
	}
	effect := detachRow
	if asU {
		effect = del
	}

	if rel != "Boss" {
		// has-many Items / has-one Pet of one owner
		table := "s_items"
		if rel == "Pet" {
			table = "s_pets"
		}
		o := int64(r.Range(1, d.owners))
		before := snapTable(table)
		var mine, visible []int64
		for _, id := range before.ids() {
			if before[id]["owner_id"] == fmt.Sprint(o) {
				mine = append(mine, id)
				if dbU || before[id]["deleted_at"] == "NULL" {
					visible = append(visible, id)
				}
			}
		}
		exp := map[int64]int{}
		as := root.Model(&Owner{ID: o}).Association(rel)
		call += fmt.Sprintf(".Model(&Owner{ID:%d}).Association(%q)", o, rel)
		as = mode(as)
		var err error
		switch op {
		case "Clear":
			call += ".Clear()"
			for _, id := range visible {
				exp[id] = effect
			}
			nontrivial = len(visible) > 0
			err = as.Clear()
		case "Delete":
			// name one or two rows of the table: the owner's (live or marked) or somebody else's
			all := before.ids()
			if len(all) == 0 {
				all = []int64{1}
			}
			pool := mine
			if len(pool) == 0 || r.Chance(1, 4) {
				pool = all
			}
			named := map[int64]bool{pool[r.Intn(len(pool))]: true}
			if r.Bool() {
				named[pool[r.Intn(len(pool))]] = true
			}
			var names []string
			var vals []interface{}
			var ids []int64
			for id := range named {
				ids = append(ids, id)
			}
			sort.Slice(ids, func(i, j int) bool { return ids[i] < ids[j] })
			for _, id := range ids {
				if rel == "Pet" {
					vals = append(vals, &SPet{ID: id})
					names = append(names, fmt.Sprintf("&SPet{ID:%d}", id))
				} else {
					vals = append(vals, &SItem{ID: id})
					names = append(names, fmt.Sprintf("&SItem{ID:%d}", id))
				}
			}
			call += ".Delete(" + strings.Join(names, ", ") + ")"
			for _, id := range visible {
				if named[id] {
					exp[id] = effect
					nontrivial = true
				}
			}
			err = as.Delete(vals...)
		case "Replace":
			// keep one live row of the owner (handed over with all its columns), the others go
			var live []int64
			for _, id := range mine {
				if before[id]["deleted_at"] == "NULL" {
					live = append(live, id)
				}
			}
			if len(live) == 0 {
				call += ".Replace()"
				for _, id := range visible {
					exp[id] = effect
				}
				nontrivial = len(visible) > 0
				err = as.Replace()
				break
			}
			k := live[r.Intn(len(live))]
			exp[k] = anyRow
			for _, id := range visible {
				if id != k {
					exp[id] = effect
					nontrivial = true
				}
			}
			if rel == "Pet" {
				var p SPet
				must(H.DB.Session(&gorm.Session{}).Unscoped().Take(&p, k).Error)
				call += fmt.Sprintf(".Replace(&SPet{ID:%d,OwnerID:%d,V:%d})", p.ID, p.OwnerID, p.V)
				err = as.Replace(&p)
			} else {
				var it SItem
				must(H.DB.Session(&gorm.Session{}).Unscoped().Take(&it, k).Error)
				call += fmt.Sprintf(".Replace(&SItem{ID:%d,OwnerID:%d,V:%d,BossID:%v})", it.ID, it.OwnerID, it.V, before[k]["boss_id"])
				err = as.Replace(&it)
			}
		}
		if err != nil {
			add("error: %v", err)
		} else {
			checkRows(table, "owner_id", before, snapTable(table), exp, add)
		}
	} else {
		// belongs-to Boss of one item row, live or (the handle may or may not see it) marked
		itemsBefore, bossBefore := snapTable("s_items"), snapTable("s_bosses")
		all := itemsBefore.ids()
		if len(all) == 0 {
			return "", "", nil, false
		}
		// prefer an item that has a boss
		it := all[r.Intn(len(all))]
		for try := 0; try < 4 && itemsBefore[it]["boss_id"] == "NULL"; try++ {
			it = all[r.Intn(len(all))]
		}
		itemSeen := dbU || itemsBefore[it]["deleted_at"] == "NULL"
		model := &SItem{ID: it}
		old := int64(0)
		bs := "nil"
		if v := itemsBefore[it]["boss_id"]; v != "NULL" {
			fmt.Sscan(v, &old)
			b := old
			model.BossID = &b
			bs = "&" + v
		}
		fmt.Sscan(itemsBefore[it]["owner_id"], &model.OwnerID)
		as := root.Model(model).Association("Boss")
		call += fmt.Sprintf(".Model(&SItem{ID:%d,BossID:%s}).Association(\"Boss\")", it, bs)
		as = mode(as)
		target := old
		var err error
		if op == "Clear" {
			call += ".Clear()"
			err = as.Clear()
		} else {
			// name the item's boss, or another one
			if old == 0 || r.Chance(1, 3) {
				target = core.Pick(r, []int64{1, 2, 1 + twinOff, 2 + twinOff})
			}
			call += fmt.Sprintf(".Delete(&SBoss{ID:%d})", target)
			err = as.Delete(&SBoss{ID: target})
		}
		if err != nil {
			add("error: %v", err)
		} else {
			hit := old != 0 && target == old
			expItems, expBoss := map[int64]int{}, map[int64]int{}
			if hit && itemSeen {
				expItems[it] = detachRow
				nontrivial = true
			}
			checkRows("s_items", "boss_id", itemsBefore, snapTable("s_items"), expItems, add)
			if asU && hit {
				if !itemSeen {
					// whether the old target of a record the handle does not see is deleted is not fixed by the statement
					expBoss[old] = anyRow
				} else if dbU || bossBefore[old]["deleted_at"] == "NULL" {
					expBoss[old] = del
				}
			}
			checkRows("s_bosses", "-", bossBefore, snapTable("s_bosses"), expBoss, add)
		}
	}
	sig = fmt.Sprintf("AssocWrite/%s/%s/%s/%s", rel, op, hs, ms)
	return
}

package c08

import (
	"fmt"
	"reflect"
	"sort"
	"strings"

	"gorm.io/gorm"

	"verif/core"
	"verif/pred"
	"verif/vdb"
)

// Soft-delete fields in every declaration form: the property speaks of "a model with a soft-delete
// field", however the field is declared. Every variant has the columns of the main model (so the same
// condition units apply) and one soft-delete column.

type Audit struct {
	DeletedAt gorm.DeletedAt
}

type VPtr struct {
	ID        int64 `gorm:"primaryKey"`
	A         int64
	B         *int64
	S         string
	T         *string
	Mark      int64
	DeletedAt *gorm.DeletedAt
}

type VEmb struct {
	ID   int64 `gorm:"primaryKey"`
	A    int64
	B    *int64
	S    string
	T    *string
	Mark int64
	Audit
}

type VEmbPtr struct {
	ID   int64 `gorm:"primaryKey"`
	A    int64
	B    *int64
	S    string
	T    *string
	Mark int64
	*Audit
}

type VEmbTag struct {
	ID   int64 `gorm:"primaryKey"`
	A    int64
	B    *int64
	S    string
	T    *string
	Mark int64
	Au   Audit `gorm:"embedded;embeddedPrefix:au_"`
}

type VCol struct {
	ID   int64 `gorm:"primaryKey"`
	A    int64
	B    *int64
	S    string
	T    *string
	Mark int64
	Gone gorm.DeletedAt `gorm:"column:removed_at"`
}

// VFirst: the soft-delete column is the model's first column
type VFirst struct {
	DeletedAt gorm.DeletedAt
	ID        int64 `gorm:"primaryKey"`
	A         int64
	B         *int64
	S         string
	T         *string
	Mark      int64
}

// VZero marks live rows with a fixed timestamp instead of NULL (zeroValue tag)
type VZero struct {
	ID        int64 `gorm:"primaryKey"`
	A         int64
	B         *int64
	S         string
	T         *string
	Mark      int64
	DeletedAt gorm.DeletedAt `gorm:"zeroValue:1970-01-01 00:00:01;default:1970-01-01 00:00:01"`
}

type variant struct {
	name  string
	table string
	col   string
	typ   reflect.Type
	// live: what the soft-delete column of a live row holds (SQL literal; empty = NULL)
	live string
}

func (v variant) liveLit() string {
	if v.live == "" {
		return "NULL"
	}
	return "'" + v.live + "'"
}

func (v variant) liveCond() string {
	if v.live == "" {
		return "$C IS NULL"
	}
	return "$C = '" + v.live + "'"
}

var variants = []variant{
	{"pointer field *gorm.DeletedAt", "v_ptrs", "deleted_at", reflect.TypeOf(VPtr{}), ""},
	{"anonymous embedded struct", "v_embs", "deleted_at", reflect.TypeOf(VEmb{}), ""},
	{"anonymous embedded pointer struct", "v_emb_ptrs", "deleted_at", reflect.TypeOf(VEmbPtr{}), ""},
	{"embedded by tag with prefix", "v_emb_tags", "au_deleted_at", reflect.TypeOf(VEmbTag{}), ""},
	{"renamed column", "v_cols", "removed_at", reflect.TypeOf(VCol{}), ""},
	{"soft-delete column first", "v_firsts", "deleted_at", reflect.TypeOf(VFirst{}), ""},
	{"live rows marked by a zero value (zeroValue tag)", "v_zeros", "deleted_at", reflect.TypeOf(VZero{}), "1970-01-01 00:00:01"},
}

func migrateVariants(db *gorm.DB) {
	for _, v := range variants {
		if err := db.AutoMigrate(reflect.New(v.typ).Interface()); err != nil {
			panic(err)
		}
	}
}

func (v variant) load(rows []pred.Row) {
	_, err := H.SQL.Exec("DELETE FROM " + v.table)
	must(err)
	for _, r := range rows {
		var b, t interface{}
		if r.B != nil {
			b = *r.B
		}
		if r.T != nil {
			t = *r.T
		}
		_, err = H.SQL.Exec("INSERT INTO "+v.table+"(id,a,b,s,t,mark,"+v.col+") VALUES (?,?,?,?,?,0,"+v.liveLit()+"),(?,?,?,?,?,0,?)",
			r.ID, r.A, b, r.S, t, twinOf(r.ID), r.A, b, r.S, t, delTime)
		must(err)
	}
}

func (v variant) ints(q string, args ...interface{}) []int64 {
	return vdb.Ints(H.SQL, strings.ReplaceAll(strings.ReplaceAll(q, "$T", v.table), "$C", v.col), args...)
}

func withTwins(ids []int64) []int64 {
	out := append([]int64(nil), ids...)
	for _, id := range ids {
		out = append(out, twinOf(id))
	}
	sort.Slice(out, func(i, j int) bool { return out[i] < out[j] })
	return out
}

func runVariant(c *core.Ctx, st pred.Style, table []pred.Row) {
	r := c.R
	v := core.Pick(r, variants)
	// 1..2 condition units, the first never an Or
	var cc chain
	for i, n := 0, r.Range(1, 2); i < n; i++ {
		op := core.Pick(r, []string{"where", "where", "not", "or"})
		if i == 0 && op == "or" {
			op = "where"
		}
		var u *pred.Unit
		for try := 0; ; try++ {
			u = pred.RandUnit(r, st)
			if u.Form == "struct" {
				continue // a struct condition of another model type is parsed with that type's table name in mind
			}
			if op != "not" || u.Neg != nil {
				break
			}
			if try > 8 {
				op = "where"
				break
			}
		}
		cc.steps = append(cc.steps, pred.GroupStep{Op: op, U: u})
	}
	want := pred.Infix(cc.steps).Select(table)
	desc := v.name + ": " + strings.TrimSuffix(cc.desc(), ".")
	c.Logf("VARIANT %s", desc)
	newPtr := func() interface{} { return reflect.New(v.typ).Interface() }
	newSlice := func() reflect.Value { return reflect.New(reflect.SliceOf(v.typ)) }
	idsOfSlice := func(sl reflect.Value) []int64 {
		var out []int64
		for i := 0; i < sl.Elem().Len(); i++ {
			out = append(out, sl.Elem().Index(i).FieldByName("ID").Int())
		}
		return pred.SortIDs(out)
	}
	root := H.DB.Session(&gorm.Session{})
	var problems []string
	add := func(f string, a ...interface{}) { problems = append(problems, fmt.Sprintf(f, a...)) }
	v.load(table)
	total := int64(2 * len(table))

	// reads
	sl := newSlice()
	if err := build(cc, root).Find(sl.Interface()).Error; err != nil {
		add("Find error: %v", err)
	} else if got := idsOfSlice(sl); !pred.IDsEqual(got, want) {
		add("Find returned ids %v, the live rows the chain selects are %v", got, want)
	}
	var n int64
	if err := build(cc, root.Model(newPtr())).Count(&n).Error; err != nil {
		add("Count error: %v", err)
	} else if n != int64(len(want)) {
		add("Count = %d, live matches %d", n, len(want))
	}
	sl = newSlice()
	if err := build(cc, root.Unscoped()).Find(sl.Interface()).Error; err != nil {
		add("Unscoped Find error: %v", err)
	} else if got := idsOfSlice(sl); !pred.IDsEqual(got, withTwins(want)) {
		add("Unscoped Find returned ids %v, live and marked matches are %v", got, withTwins(want))
	}
	// update: only live matches change
	if res := build(cc, root.Model(newPtr())).Update("mark", 7); res.Error != nil {
		add("Update error: %v", res.Error)
	} else if got := v.ints("SELECT id FROM $T WHERE mark = 7 ORDER BY id"); !pred.IDsEqual(got, want) {
		add("Update changed ids %v, live matches are %v", got, want)
	}
	// delete marks the live matches and removes nothing
	if res := build(cc, root).Delete(newPtr()); res.Error != nil {
		add("Delete error: %v", res.Error)
	} else {
		if cnt := v.ints("SELECT count(*) FROM $T")[0]; cnt != total {
			add("Delete removed rows physically: %d rows left of %d", cnt, total)
		}
		live := v.ints("SELECT id FROM $T WHERE " + v.liveCond() + " ORDER BY id")
		var wantLive []int64
		sel := map[int64]bool{}
		for _, id := range want {
			sel[id] = true
		}
		for _, rw := range table {
			if !sel[rw.ID] {
				wantLive = append(wantLive, rw.ID)
			}
		}
		if !pred.IDsEqual(live, pred.SortIDs(wantLive)) {
			add("after Delete the live ids are %v, want %v (matches %v marked, nothing else)", live, wantLive, want)
		}
		if tw := v.ints("SELECT count(*) FROM $T WHERE id > 100 AND id < 200 AND $C = ?", delTime)[0]; tw != int64(len(table)) {
			add("Delete touched rows that were already marked: %d of %d twins kept their mark time", tw, len(table))
		}
		// a repeated delete finds nothing to mark
		if res2 := build(cc, root).Delete(newPtr()); res2.Error == nil && res2.RowsAffected != 0 {
			add("repeated Delete affected %d rows", res2.RowsAffected)
		}
	}
	// unscoped delete removes live and marked matches physically
	v.load(table)
	if res := build(cc, root.Unscoped()).Delete(newPtr()); res.Error != nil {
		add("Unscoped Delete error: %v", res.Error)
	} else {
		left := v.ints("SELECT id FROM $T ORDER BY id")
		gone := map[int64]bool{}
		for _, id := range withTwins(want) {
			gone[id] = true
		}
		var wantLeft []int64
		for _, rw := range table {
			for _, id := range []int64{rw.ID, twinOf(rw.ID)} {
				if !gone[id] {
					wantLeft = append(wantLeft, id)
				}
			}
		}
		if !pred.IDsEqual(left, pred.SortIDs(wantLeft)) {
			add("after Unscoped Delete the table holds ids %v, want %v", left, wantLeft)
		}
	}
	// a finisher that reads and then writes on its own: FirstOrCreate with Assign stores the value in the record it
	// found, which is the lowest key among the rows the handle sees (with Unscoped possibly a marked one)
	if len(want) > 0 {
		hasOr := false
		for _, s := range cc.steps {
			hasOr = hasOr || s.Op == "or"
		}
		for _, uns := range []bool{false, true} {
			v.load(table)
			db, vis, name := root, want, "FirstOrCreate+Assign"
			if uns {
				db, vis, name = root.Unscoped(), withTwins(want), "Unscoped FirstOrCreate+Assign"
			}
			dest := newPtr()
			res := build(cc, db).Assign(map[string]interface{}{"mark": 7}).FirstOrCreate(dest)
			if res.Error != nil {
				add("%s error: %v", name, res.Error)
				continue
			}
			if id := reflect.ValueOf(dest).Elem().FieldByName("ID").Int(); id != vis[0] {
				add("%s returned id %d, want %d: the rows this handle sees and the chain selects are %v", name, id, vis[0], vis)
			}
			got := v.ints("SELECT id FROM $T WHERE mark = 7 ORDER BY id")
			stored := false
			for _, id := range got {
				stored = stored || id == vis[0]
			}
			if !stored || (!hasOr && len(got) != 1) {
				add("%s found record %d, the assigned value is stored in rows %v (RowsAffected=%d)", name, vis[0], got, res.RowsAffected)
			}
			if cnt := v.ints("SELECT count(*) FROM $T")[0]; cnt != total {
				add("%s: %d rows stored, were %d", name, cnt, total)
			}
			if !uns {
				if tw := v.ints("SELECT count(*) FROM $T WHERE id > 100 AND id < 200 AND mark = 0 AND $C = ?", delTime)[0]; tw != int64(len(table)) {
					add("%s touched rows that were marked: %d of %d twins unchanged", name, tw, len(table))
				}
			}
		}
	}
	c.Inc("variant_batteries")
	c.Inc("variant_" + v.table)
	if len(problems) > 0 {
		c.Violation("variant/"+v.table, map[string]interface{}{"model": v.name, "chain": desc, "problems": problems, "live_rows": len(table)})
		return
	}
	if len(want) > 0 {
		c.Shape("variant", v.table, cc.shape())
	}
}

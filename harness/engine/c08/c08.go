// Package c08: soft-deleted records are invisible and untouched unless Unscoped.
//
// Oracle: twin tables. Every live row has a soft-deleted twin (id+100) with identical
// user columns; conditions never mention id, so whatever matches a live row matches its
// twin. A twin id in any scoped result, a changed twin cell, or a changed physical row
// count is a refutation; with Unscoped the twins must show up and Delete must be physical.
package c08

import (
	"errors"
	"fmt"
	"sort"
	"strings"

	"gorm.io/gorm"
	"gorm.io/gorm/clause"

	"verif/core"
	"verif/pred"
	"verif/vdb"
)

type SRow struct {
	ID        int64 `gorm:"primaryKey"`
	A         int64
	B         *int64
	S         string
	T         *string
	Mark      int64
	DeletedAt gorm.DeletedAt
}

func (SRow) TableName() string { return "srws" }

// association family: every child kind is a soft-delete model
type Owner struct {
	ID    int64 `gorm:"primaryKey"`
	Name  string
	Items []SItem `gorm:"foreignKey:OwnerID"`
	Pet   *SPet   `gorm:"foreignKey:OwnerID"`
	Tags  []STag  `gorm:"many2many:owner_tags"`
	Marks []STag  `gorm:"many2many:owner_marks"` // through a join model that is itself soft-deleted (OwnerMark)
}

// ownerHook: while set, Owner's BeforeDelete deletes the owner's items through the handle it is given (a nested
// statement on a fresh statement: whether it is Unscoped is decided by PropagateUnscoped)
var ownerHook bool

func (o *Owner) BeforeDelete(tx *gorm.DB) error {
	if !ownerHook {
		return nil
	}
	return tx.Where("owner_id = ?", o.ID).Delete(&SItem{}).Error
}

// OwnerMark is the join model of Owner.Marks: a link is a record with a soft-delete field of its own
type OwnerMark struct {
	OwnerID   int64 `gorm:"primaryKey"`
	STagID    int64 `gorm:"primaryKey"`
	DeletedAt gorm.DeletedAt
}

type SItem struct {
	ID        int64 `gorm:"primaryKey"`
	OwnerID   int64
	V         int64
	BossID    *int64
	Boss      *SBoss
	DeletedAt gorm.DeletedAt
}

type SPet struct {
	ID        int64 `gorm:"primaryKey"`
	OwnerID   int64
	V         int64
	Owner     *Owner `gorm:"foreignKey:OwnerID"` // the way back: lets a query on pets join the owner and preload below it
	DeletedAt gorm.DeletedAt
}

type SBoss struct {
	ID        int64 `gorm:"primaryKey"`
	V         int64
	DeletedAt gorm.DeletedAt
}

type STag struct {
	ID        int64 `gorm:"primaryKey"`
	V         int64
	DeletedAt gorm.DeletedAt
}

const twinOff = 100
const delTime = "2020-02-02 02:02:02"

// Key layout of the twin tables: the soft-deleted twins always hold the keys 101..199; the live rows hold 1..99
// (liveBase 0: every twin has the HIGHER key) or 201..299 (liveBase 200: every twin has the LOWER key, so whatever
// takes "the first record by primary key" meets the marked row first). Chosen per case.
var liveBase int64

func twinOf(id int64) int64 { return id - liveBase + twinOff }
func isTwin(id int64) bool  { return id > twinOff && id < 2*twinOff }

const notTwinSQL = "NOT (id > 100 AND id < 200)"

func shiftTable(rows []pred.Row) []pred.Row {
	out := append([]pred.Row(nil), rows...)
	for i := range out {
		out[i].ID += liveBase
	}
	return out
}

func layoutNote() string {
	if liveBase == 0 {
		return "every live row (ids 1..) has a soft-deleted twin with id+100"
	}
	return "every live row (ids 201..) has a soft-deleted twin with id-100 (the twin has the lower key)"
}

var H *vdb.Handle

func initEnv(c *core.Ctx) {
	pred.AtomCols = []string{"a", "a", "b", "b", "s", "s", "t", "t"}
	h, err := vdb.Open(vdb.Options{})
	if err != nil {
		panic(err)
	}
	if err := h.DB.SetupJoinTable(&Owner{}, "Marks", &OwnerMark{}); err != nil {
		panic(err)
	}
	if err := h.DB.AutoMigrate(&SRow{}, &Owner{}, &SItem{}, &SPet{}, &SBoss{}, &STag{}, &OwnerMark{}); err != nil {
		panic(err)
	}
	H = h
	migrateVariants(h.DB)
}

func must(err error) {
	if err != nil {
		panic(err)
	}
}

func load(rows []pred.Row) {
	_, err := H.SQL.Exec("DELETE FROM srws")
	must(err)
	for _, r := range rows {
		var b, t interface{}
		if r.B != nil {
			b = *r.B
		}
		if r.T != nil {
			t = *r.T
		}
		_, err = H.SQL.Exec("INSERT INTO srws(id,a,b,s,t,mark,deleted_at) VALUES (?,?,?,?,?,0,NULL),(?,?,?,?,?,0,?)",
			r.ID, r.A, b, r.S, t, twinOf(r.ID), r.A, b, r.S, t, delTime)
		must(err)
	}
}

func twinDump() []string {
	return vdb.DumpTable(H.SQL, "srws")
}

func onlyTwins(d []string) []string {
	var out []string
	for _, l := range d {
		if !strings.Contains(l, "deleted_at=NULL") {
			out = append(out, l)
		}
	}
	return out
}

var paths = []string{"Find", "FindInline", "First", "Last", "Take", "Count", "Pluck", "Scan", "Rows", "FindInBatches", "CountThenFind", "CountThenPluck",
	"Update", "Updates", "UpdateColumn", "Delete", "UnscopedFind", "UnscopedCount", "UnscopedDelete", "UnscopedUpdate", "UnscopedBatchesNested",
	// finishers that pick one record by primary key and, for FirstOrCreate, follow the read with a write of their own
	"FirstOrInit", "UnscopedFirstOrInit", "UnscopedFirst", "UnscopedLast",
	"FirstOrCreate", "FirstOrCreateAssign", "FirstOrCreateAssign", "UnscopedFirstOrCreate", "UnscopedFirstOrCreateAssign", "UnscopedFirstOrCreateAssign"}

type chain struct {
	steps []pred.GroupStep
	path  string
	inl   *pred.Unit
}

func genChain(r *core.Rand, st pred.Style) chain {
	n := r.Range(0, 3)
	var cc chain
	for i := 0; i < n; i++ {
		op := core.Pick(r, []string{"where", "where", "not", "or", "or"})
		var u *pred.Unit
		for try := 0; ; try++ {
			u = pred.RandUnit(r, st)
			if op != "not" || u.Neg != nil {
				break
			}
			if try > 8 {
				op = "where"
				break
			}
		}
		cc.steps = append(cc.steps, pred.GroupStep{Op: op, U: u})
	}
	cc.path = core.Pick(r, paths)
	if cc.path == "FindInline" {
		cc.inl = pred.RandUnit(r, st)
	}
	return cc
}

func (cc chain) desc() string {
	parts := []string{}
	for _, s := range cc.steps {
		parts = append(parts, fmt.Sprintf("%s(%s)", strings.Title(s.Op), s.U.Desc))
	}
	d := "db"
	if len(parts) > 0 {
		d += "." + strings.Join(parts, ".")
	}
	d += "." + cc.path
	if cc.inl != nil {
		d += "[inline " + cc.inl.Desc + "]"
	}
	return d
}

func (cc chain) shape() string {
	parts := []string{}
	for _, s := range cc.steps {
		parts = append(parts, s.Op+":"+s.U.Form)
	}
	return strings.Join(parts, ",") + ">" + cc.path
}

func build(cc chain, db *gorm.DB) *gorm.DB {
	for _, s := range cc.steps {
		q, args := s.U.Query(H.DB)
		switch s.Op {
		case "where":
			db = db.Where(q, args...)
		case "not":
			db = db.Not(q, args...)
		default:
			db = db.Or(q, args...)
		}
	}
	return db
}

func hasTwin(ids []int64) []int64 {
	var out []int64
	for _, id := range ids {
		if isTwin(id) {
			out = append(out, id)
		}
	}
	return out
}

func idsOf(rows []SRow) []int64 {
	out := make([]int64, len(rows))
	for i, r := range rows {
		out[i] = r.ID
	}
	return out
}

func physCount() int64 { return vdb.Ints(H.SQL, "SELECT count(*) FROM srws")[0] }

func runChain(c *core.Ctx, cc chain, table []pred.Row) (problems []string, nontrivial bool) {
	root := H.DB.Session(&gorm.Session{})
	steps := append([]pred.GroupStep(nil), cc.steps...)
	if cc.inl != nil {
		steps = append(steps, pred.GroupStep{Op: "where", U: cc.inl})
	}
	want := pred.Infix(steps).Select(table) // live ids the chain matches
	firstIsOr := len(cc.steps) > 0 && cc.steps[0].Op == "or"
	before := twinDump()
	phys := physCount()
	add := func(f string, a ...interface{}) { problems = append(problems, fmt.Sprintf(f, a...)) }
	checkRead := func(ids []int64, err error, exact bool) {
		if err != nil {
			add("error: %v", err)
			return
		}
		if tw := hasTwin(ids); len(tw) > 0 {
			add("soft-deleted ids %v returned (live matches %v)", tw, want)
		}
		if exact && !firstIsOr {
			got := pred.SortIDs(append([]int64(nil), ids...))
			if !pred.IDsEqual(got, want) {
				add("ids %v differ from the live rows the chain selects %v", got, want)
			}
		}
		nontrivial = len(want) > 0
	}
	mutated := false
	switch cc.path {
	case "Find", "FindInline":
		var out []SRow
		var res *gorm.DB
		if cc.inl != nil {
			q, args := cc.inl.Query(H.DB)
			res = build(cc, root).Find(&out, append([]interface{}{q}, args...)...)
		} else {
			res = build(cc, root).Find(&out)
		}
		checkRead(idsOf(out), res.Error, true)
	case "First", "Last", "Take":
		var out SRow
		var res *gorm.DB
		switch cc.path {
		case "First":
			res = build(cc, root).First(&out)
		case "Last":
			res = build(cc, root).Last(&out)
		default:
			res = build(cc, root).Take(&out)
		}
		if errors.Is(res.Error, gorm.ErrRecordNotFound) {
			if len(want) > 0 && !firstIsOr {
				add("ErrRecordNotFound although live rows %v match", want)
			}
		} else {
			checkRead([]int64{out.ID}, res.Error, false)
			if res.Error == nil && !firstIsOr {
				if len(want) == 0 {
					add("returned id %d, no live row matches", out.ID)
				} else if cc.path == "First" && out.ID != want[0] {
					add("First returned %d, lowest live match is %d", out.ID, want[0])
				} else if cc.path == "Last" && out.ID != want[len(want)-1] {
					add("Last returned %d, highest live match is %d", out.ID, want[len(want)-1])
				}
			}
		}
	case "Count":
		var n int64
		res := build(cc, root.Model(&SRow{})).Count(&n)
		if res.Error != nil {
			add("error: %v", res.Error)
		} else if !firstIsOr && n != int64(len(want)) {
			add("Count=%d, live matches %d (a twin was counted or a live row missed)", n, len(want))
		} else if firstIsOr && n > int64(len(table)) {
			add("Count=%d exceeds the number of live rows %d", n, len(table))
		}
		nontrivial = len(want) > 0
	case "CountThenFind", "CountThenPluck":
		// the pagination idiom: one query value used for Count and then for the page
		q := build(cc, root.Model(&SRow{}))
		var n int64
		if err := q.Count(&n).Error; err != nil {
			add("error: %v", err)
			break
		}
		if !firstIsOr && n != int64(len(want)) {
			add("Count=%d, live matches %d", n, len(want))
		}
		if cc.path == "CountThenFind" {
			var out []SRow
			res := q.Limit(100).Find(&out)
			checkRead(idsOf(out), res.Error, true)
		} else {
			var ids []int64
			res := q.Pluck("id", &ids)
			checkRead(ids, res.Error, true)
		}
	case "Pluck":
		var ids []int64
		res := build(cc, root.Model(&SRow{})).Pluck("id", &ids)
		checkRead(ids, res.Error, true)
	case "Scan":
		var out []SRow
		res := build(cc, root.Model(&SRow{})).Scan(&out)
		checkRead(idsOf(out), res.Error, true)
	case "Rows":
		rows, err := build(cc, root.Model(&SRow{})).Rows()
		var ids []int64
		if err == nil {
			for rows.Next() {
				var r SRow
				if e := H.DB.ScanRows(rows, &r); e != nil {
					err = e
					break
				}
				ids = append(ids, r.ID)
			}
			rows.Close()
		}
		checkRead(ids, err, true)
	case "FindInBatches":
		var out []SRow
		var ids []int64
		bs := c.R.Range(1, 4)
		bound := len(table)*2/bs + 3
		batches := 0
		errBound := errors.New("batch bound exceeded")
		res := build(cc, root).FindInBatches(&out, bs, func(tx *gorm.DB, batch int) error {
			batches++
			if batches > bound {
				return errBound
			}
			ids = append(ids, idsOf(out)...)
			return nil
		})
		if errors.Is(res.Error, errBound) {
			// non-advancing cursor: decided by C15 (logical bound), not by this property
			c.Inc("findinbatches_bound_hit")
			if tw := hasTwin(ids); len(tw) > 0 {
				add("soft-deleted ids %v delivered by FindInBatches", tw)
			}
		} else {
			hasOr := false
			for _, s := range cc.steps {
				if s.Op == "or" {
					hasOr = true
				}
			}
			checkRead(ids, res.Error, !hasOr)
		}
	case "UnscopedBatchesNested":
		// statements issued through the handle a callback receives belong to an Unscoped operation, but
		// they did not ask for Unscoped themselves (and PropagateUnscoped is off): they see live rows only
		var out []SRow
		bs := c.R.Range(1, 4)
		bound := len(table)*2/bs + 3
		batches := 0
		errBound := errors.New("batch bound exceeded")
		var nestedProblems []string
		res := build(cc, root.Unscoped()).FindInBatches(&out, bs, func(tx *gorm.DB, batch int) error {
			batches++
			if batches > bound {
				return errBound
			}
			var n int64
			if err := tx.Model(&SRow{}).Count(&n).Error; err != nil {
				return err
			}
			if n != int64(len(table)) && len(nestedProblems) < 3 {
				nestedProblems = append(nestedProblems, fmt.Sprintf("a Count issued without Unscoped inside the batch callback of an Unscoped FindInBatches saw %d rows, live rows: %d", n, len(table)))
			}
			var ids []int64
			if err := tx.Model(&SRow{}).Order("id").Pluck("id", &ids).Error; err != nil {
				return err
			}
			if tw := hasTwin(ids); len(tw) > 0 && len(nestedProblems) < 3 {
				nestedProblems = append(nestedProblems, fmt.Sprintf("a Pluck issued without Unscoped inside the batch callback returned soft-deleted ids %v", tw))
			}
			return nil
		})
		if res.Error != nil && !errors.Is(res.Error, errBound) {
			add("error: %v", res.Error)
		}
		problems = append(problems, nestedProblems...)
		nontrivial = batches > 0
	case "Update", "Updates", "UpdateColumn":
		mutated = true
		var res *gorm.DB
		db := build(cc, root.Model(&SRow{}))
		switch cc.path {
		case "Update":
			res = db.Update("mark", 7)
		case "Updates":
			res = db.Updates(map[string]interface{}{"mark": 7})
		default:
			res = db.UpdateColumn("mark", 7)
		}
		if len(cc.steps) == 0 {
			if !errors.Is(res.Error, gorm.ErrMissingWhereClause) {
				add("global update not rejected: %v", res.Error)
			}
		} else if res.Error != nil {
			add("error: %v", res.Error)
		} else {
			changed := vdb.Ints(H.SQL, "SELECT id FROM srws WHERE mark = 7 ORDER BY id")
			if tw := hasTwin(changed); len(tw) > 0 {
				add("soft-deleted rows %v were updated", tw)
			}
			if !firstIsOr && !pred.IDsEqual(changed, want) {
				add("updated ids %v, live matches %v", changed, want)
			}
			nontrivial = len(want) > 0
		}
	case "Delete":
		mutated = true
		res := build(cc, root).Delete(&SRow{})
		if len(cc.steps) == 0 {
			if !errors.Is(res.Error, gorm.ErrMissingWhereClause) {
				add("global delete not rejected: %v", res.Error)
			}
		} else if res.Error != nil {
			add("error: %v", res.Error)
		} else {
			if n := physCount(); n != phys {
				add("physical row count changed %d -> %d on a scoped Delete", phys, n)
			}
			marked := vdb.Ints(H.SQL, "SELECT id FROM srws WHERE "+notTwinSQL+" AND deleted_at IS NOT NULL ORDER BY id")
			if !firstIsOr && !pred.IDsEqual(marked, want) {
				add("marked ids %v, live matches %v", marked, want)
			}
			if !firstIsOr && res.RowsAffected != int64(len(want)) {
				add("RowsAffected=%d, live matches %d", res.RowsAffected, len(want))
			}
			// repeated delete: the marked rows do not exist any more
			mid := twinDump()
			res2 := build(cc, root).Delete(&SRow{})
			if res2.Error != nil {
				add("second delete error: %v", res2.Error)
			} else if res2.RowsAffected != 0 {
				add("second scoped Delete affected %d rows", res2.RowsAffected)
			}
			if after := twinDump(); strings.Join(after, "\n") != strings.Join(mid, "\n") {
				add("second scoped Delete changed rows")
			}
			nontrivial = len(want) > 0
		}
	case "FirstOrInit", "UnscopedFirstOrInit", "UnscopedFirst", "UnscopedLast":
		// one record by primary key: the lowest (highest) key among the rows the handle sees - live matches, and
		// with Unscoped their marked twins as well
		uns := strings.HasPrefix(cc.path, "Unscoped")
		vis := want
		db := root
		if uns {
			vis = withTwins(want)
			if c.R.Bool() {
				db = build(cc, db.Unscoped())
			} else {
				db = build(cc, db).Unscoped()
			}
		} else {
			db = build(cc, db)
		}
		var out SRow
		var res *gorm.DB
		switch strings.TrimPrefix(cc.path, "Unscoped") {
		case "First":
			res = db.First(&out)
		case "Last":
			res = db.Last(&out)
		default:
			res = db.FirstOrInit(&out)
		}
		notFound := errors.Is(res.Error, gorm.ErrRecordNotFound) || (res.Error == nil && out.ID == 0)
		if res.Error != nil && !notFound {
			add("error: %v", res.Error)
		} else if !notFound && !uns && isTwin(out.ID) {
			add("soft-deleted id %d returned (live matches %v)", out.ID, want)
		} else if !firstIsOr {
			exp := int64(0)
			if len(vis) > 0 {
				exp = vis[0]
				if cc.path == "UnscopedLast" {
					exp = vis[len(vis)-1]
				}
			}
			if out.ID != exp {
				add("%s returned id %d (0 = none), want %d: the rows this handle sees and the chain selects are %v", cc.path, out.ID, exp, vis)
			}
		}
		nontrivial = len(want) > 0
	case "FirstOrCreate", "FirstOrCreateAssign", "UnscopedFirstOrCreate", "UnscopedFirstOrCreateAssign":
		// read-then-write in one finisher: the record found is the lowest key among the rows the handle sees, and the
		// update that stores the Assign values is issued by gorm itself - it has to see the same rows as the read
		mutated = true
		uns := strings.HasPrefix(cc.path, "Unscoped")
		assign := strings.HasSuffix(cc.path, "Assign")
		vis := want
		db := root
		unsLast := false
		if uns {
			vis = withTwins(want)
			if unsLast = c.R.Bool(); !unsLast {
				db = db.Unscoped()
			}
		}
		db = build(cc, db)
		how := ""
		if assign {
			if c.R.Bool() {
				db = db.Assign(map[string]interface{}{"mark": 7})
				how = "Assign(map[mark:7])"
			} else {
				db = db.Assign(SRow{Mark: 7})
				how = "Assign(SRow{Mark:7})"
			}
		} else if c.R.Bool() {
			db = db.Attrs(map[string]interface{}{"mark": 7}) // only used when a record is created
			how = "Attrs(map[mark:7])"
		}
		if unsLast {
			db = db.Unscoped()
			how += ".Unscoped()"
		}
		var out SRow
		res := db.FirstOrCreate(&out)
		hasOr := false
		for _, s := range cc.steps {
			hasOr = hasOr || s.Op == "or"
		}
		n := physCount()
		switch {
		case firstIsOr:
			// only the generic checks below
		case len(vis) == 0:
			// nothing matches, marked or not: a record is created (its values are not this property's subject)
			if res.Error != nil {
				c.Inc("firstorcreate_create_error")
			} else if n != phys+1 {
				add("%s %s: no row matches, physical row count %d -> %d, want one created row", cc.path, how, phys, n)
			}
		case res.Error != nil:
			add("error: %v", res.Error)
		default:
			if n != phys {
				add("%s %s: physical row count %d -> %d although the handle sees matching rows %v", cc.path, how, phys, n, vis)
			}
			if out.ID != vis[0] {
				add("%s %s returned id %d, want %d: the rows this handle sees and the chain selects are %v", cc.path, how, out.ID, vis[0], vis)
			}
			changed := vdb.Ints(H.SQL, "SELECT id FROM srws WHERE mark = 7 ORDER BY id")
			if assign {
				stored := false
				for _, id := range changed {
					stored = stored || id == vis[0]
				}
				if !stored {
					add("%s %s found record %d (soft-deleted: %v) and returned mark=%d, but the stored row does not hold the assigned value (RowsAffected=%d; rows holding it: %v)", cc.path, how, vis[0], isTwin(vis[0]), out.Mark, res.RowsAffected, changed)
				}
				if !hasOr && len(changed) > 1 {
					add("%s %s stored the assigned value in rows %v, the record found is %d", cc.path, how, changed, vis[0])
				}
			} else if len(changed) > 0 {
				add("%s %s changed rows %v although a record was found and nothing was assigned", cc.path, how, changed)
			}
		}
		nontrivial = len(want) > 0
	case "UnscopedFind":
		var out []SRow
		res := build(cc, root.Unscoped()).Find(&out)
		if res.Error != nil {
			add("error: %v", res.Error)
		} else if !firstIsOr {
			exp := withTwins(want)
			got := pred.SortIDs(idsOf(out))
			if !pred.IDsEqual(got, exp) {
				add("Unscoped ids %v, want live+twin %v", got, exp)
			}
			nontrivial = len(want) > 0
		}
	case "UnscopedCount":
		var n int64
		res := build(cc, root.Model(&SRow{}).Unscoped()).Count(&n)
		if res.Error != nil {
			add("error: %v", res.Error)
		} else if !firstIsOr && n != int64(2*len(want)) {
			add("Unscoped Count=%d, want %d", n, 2*len(want))
		}
		nontrivial = len(want) > 0
	case "UnscopedUpdate":
		mutated = true
		if len(cc.steps) > 0 {
			res := build(cc, root.Model(&SRow{}).Unscoped()).Update("mark", 7)
			if res.Error != nil {
				add("error: %v", res.Error)
			} else if !firstIsOr {
				changed := vdb.Ints(H.SQL, "SELECT id FROM srws WHERE mark = 7 ORDER BY id")
				exp := withTwins(want)
				if !pred.IDsEqual(changed, exp) {
					add("Unscoped Update changed %v, want %v", changed, exp)
				}
				nontrivial = len(want) > 0
			}
		}
	case "UnscopedDelete":
		mutated = true
		if len(cc.steps) > 0 {
			res := build(cc, root.Unscoped()).Delete(&SRow{})
			if res.Error != nil {
				add("error: %v", res.Error)
			} else if !firstIsOr {
				if n := physCount(); n != phys-int64(2*len(want)) {
					add("Unscoped Delete: physical rows %d -> %d, want %d removed", phys, n, 2*len(want))
				}
				nontrivial = len(want) > 0
			}
		}
	}
	if !strings.HasPrefix(cc.path, "Unscoped") {
		after := twinDump()
		bt, at := onlyTwins(before), onlyTwins(after)
		// rows marked by this very Delete are new members of the soft-deleted set; the
		// original twins must be unchanged
		orig := map[string]bool{}
		for _, l := range at {
			orig[l] = true
		}
		for _, l := range bt {
			if !orig[l] {
				add("soft-deleted row changed or vanished: %s", l)
			}
		}
	}
	if mutated {
		load(table)
	}
	return
}

// ---- association / join / preload paths -----------------------------------

type assocData struct {
	owners    int
	liveItems map[int64][]int64 // owner -> live item ids
	livePet   map[int64]int64   // owner -> live pet id (0 none)
	liveTags  map[int64][]int64
	liveBoss  map[int64]int64 // item id -> live boss id (0 = boss soft-deleted or absent)
	// Marks: links of the soft-delete join model OwnerMark to tags that are soft-delete records themselves; the link
	// and the tag are marked independently, so all four combinations occur
	markLinks map[int64][]markLink
}

type markLink struct {
	Tag        int64 // s_tags id: 1..3 live, 101..103 soft-deleted
	LinkMarked bool  // the owner_marks row is soft-deleted
}

// marksVisible: the tags a lookup through Marks has to deliver - scoped: live tags behind live links (a marked link
// and a marked tag do not exist); unscoped: every linked tag
func (d assocData) marksVisible(o int64, unscoped bool) []int64 {
	out := []int64{}
	for _, l := range d.markLinks[o] {
		if unscoped || (!l.LinkMarked && l.Tag < twinOff) {
			out = append(out, l.Tag)
		}
	}
	return pred.SortIDs(out)
}

func loadAssoc(r *core.Rand) assocData {
	for _, t := range []string{"owners", "s_items", "s_pets", "s_bosses", "s_tags", "owner_tags", "owner_marks"} {
		_, err := H.SQL.Exec("DELETE FROM " + t)
		must(err)
	}
	d := assocData{owners: r.Range(1, 3), liveItems: map[int64][]int64{}, livePet: map[int64]int64{}, liveTags: map[int64][]int64{}, liveBoss: map[int64]int64{}, markLinks: map[int64][]markLink{}}
	// bosses: 1,2 live ; 101,102 soft-deleted
	for _, id := range []int64{1, 2} {
		_, err := H.SQL.Exec("INSERT INTO s_bosses(id,v,deleted_at) VALUES (?,?,NULL),(?,?,?)", id, id*10, id+twinOff, id*10, delTime)
		must(err)
	}
	for _, id := range []int64{1, 2, 3} {
		_, err := H.SQL.Exec("INSERT INTO s_tags(id,v,deleted_at) VALUES (?,?,NULL),(?,?,?)", id, id*10, id+twinOff, id*10, delTime)
		must(err)
	}
	item := int64(0)
	for o := int64(1); o <= int64(d.owners); o++ {
		_, err := H.SQL.Exec("INSERT INTO owners(id,name) VALUES (?,?)", o, fmt.Sprint("o", o))
		must(err)
		n := r.Intn(4)
		for k := 0; k < n; k++ {
			item++
			var boss interface{}
			switch r.Intn(3) {
			case 0:
				b := int64(r.Range(1, 2))
				boss = b
				d.liveBoss[item] = b
			case 1:
				boss = int64(r.Range(1, 2)) + twinOff // points at a soft-deleted boss
			}
			_, err := H.SQL.Exec("INSERT INTO s_items(id,owner_id,v,boss_id,deleted_at) VALUES (?,?,?,?,NULL),(?,?,?,?,?)",
				item, o, k, boss, item+twinOff, o, k, boss, delTime)
			must(err)
			d.liveItems[o] = append(d.liveItems[o], item)
		}
		switch r.Intn(3) {
		case 0: // live pet + soft-deleted twin
			_, err := H.SQL.Exec("INSERT INTO s_pets(id,owner_id,v,deleted_at) VALUES (?,?,1,NULL),(?,?,1,?)", o, o, o+twinOff, o, delTime)
			must(err)
			d.livePet[o] = o
		case 1: // only a soft-deleted pet
			_, err := H.SQL.Exec("INSERT INTO s_pets(id,owner_id,v,deleted_at) VALUES (?,?,1,?)", o+twinOff, o, delTime)
			must(err)
		}
		for t := int64(1); t <= 3; t++ {
			if r.Bool() {
				_, err := H.SQL.Exec("INSERT INTO owner_tags(owner_id,s_tag_id) VALUES (?,?),(?,?)", o, t, o, t+twinOff)
				must(err)
				d.liveTags[o] = append(d.liveTags[o], t)
			}
		}
		// marks: owner o is linked to tag 1 and 2 by live links and to tag 3 by a link that is marked already
		_, err = H.SQL.Exec("INSERT INTO owner_marks(owner_id,s_tag_id,deleted_at) VALUES (?,1,NULL),(?,2,NULL),(?,3,?)", o, o, o, delTime)
		must(err)
		d.markLinks[o] = []markLink{{1, false}, {2, false}, {3, true}}
		// ... and to each soft-deleted tag by no link, a live link, or a marked link
		for t := int64(1) + twinOff; t <= 3+twinOff; t++ {
			switch r.Intn(3) {
			case 1:
				_, err = H.SQL.Exec("INSERT INTO owner_marks(owner_id,s_tag_id,deleted_at) VALUES (?,?,NULL)", o, t)
				must(err)
				d.markLinks[o] = append(d.markLinks[o], markLink{t, false})
			case 2:
				_, err = H.SQL.Exec("INSERT INTO owner_marks(owner_id,s_tag_id,deleted_at) VALUES (?,?,?)", o, t, delTime)
				must(err)
				d.markLinks[o] = append(d.markLinks[o], markLink{t, true})
			}
		}
	}
	return d
}

var assocPaths = []string{"PreloadItems", "PreloadItemsCond", "PreloadNested", "PreloadAll", "PreloadPet", "PreloadTags", "JoinsBoss", "InnerJoinsBoss", "JoinsPet",
	"AssocFindItems", "AssocCountItems", "AssocFindTags", "AssocCountTags", "AssocFindPet", "PreloadUnscoped", "UnscopedJoinsBoss", "UnscopedInnerJoinsBoss", "UnscopedJoinsPet", "JoinsPetCond", "JoinsBossCond",
	"JoinsPreloadBelow", "UnscopedJoinsPreloadBelow", "UnscopedPreloadNestedBelow",
	"UnscopedAssocFindItems", "UnscopedAssocCountItems", "UnscopedAssocFindPet", "UnscopedAssocFindTags", "UnscopedAssocCountTags",
	// many2many through a soft-delete JOIN MODEL to a soft-delete target: links and targets are marked independently
	"AssocFindMarks", "AssocCountMarks", "AssocFindMarksCond", "AssocCountMarksCond", "PreloadMarks", "PreloadMarksCond", "UnscopedAssocFindMarks", "UnscopedAssocCountMarks", "UnscopedPreloadMarks",
	// association lookups with the caller's own (always-true) conditions
	"AssocFindItemsCond", "AssocFindTagsCond", "AssocCountItemsCond"}

// alwaysTrue: a condition over the column v (>= 0 in every child row) that holds for every row, in a form whose
// top-level OR / NOT has to be grouped before the soft-delete filter is AND-ed to it
func alwaysTrue(r *core.Rand) (string, []interface{}) {
	switch r.Intn(4) {
	case 0:
		return "v >= ? OR v < ?", []interface{}{0, 0}
	case 1:
		return "v < ? OR v >= ?", []interface{}{0, 0}
	case 2:
		return "NOT v < ? OR v = ?", []interface{}{0, -1}
	}
	return "v >= ?", []interface{}{0}
}

func itemIDs(xs []SItem) []int64 {
	out := make([]int64, len(xs))
	for i, x := range xs {
		out[i] = x.ID
	}
	return pred.SortIDs(out)
}
func tagIDs(xs []STag) []int64 {
	out := make([]int64, len(xs))
	for i, x := range xs {
		out[i] = x.ID
	}
	return pred.SortIDs(out)
}

// runAssocDelete: Select(<relation>).Delete(&owner) deletes the owner's rows of that relation the way Delete does:
// marks the live ones and leaves marked ones as they are, or with Unscoped removes all of them physically.
func runAssocDelete(c *core.Ctx, path string, d assocData) (problems []string) {
	add := func(f string, a ...interface{}) { problems = append(problems, fmt.Sprintf(f, a...)) }
	root := H.DB.Session(&gorm.Session{})
	count := func(q string, a ...interface{}) int64 { return vdb.Ints(H.SQL, q, a...)[0] }
	const o = int64(1)
	itemsAll := count("SELECT count(*) FROM s_items WHERE owner_id = ?", o)
	itemsOther := count("SELECT count(*) FROM s_items WHERE owner_id <> ?", o)
	petsAll := count("SELECT count(*) FROM s_pets WHERE owner_id = ?", o)
	petsOther := count("SELECT count(*) FROM s_pets WHERE owner_id <> ?", o)
	db := root
	unscoped := strings.HasPrefix(path, "Unscoped")
	if unscoped {
		db = db.Unscoped()
	}
	var sel []string
	switch strings.TrimPrefix(strings.TrimPrefix(path, "Unscoped"), "DeleteSelect") {
	case "Items":
		sel = []string{"Items"}
	case "Pet":
		sel = []string{"Pet"}
	default:
		sel = []string{"Items", "Pet"}
	}
	args := make([]interface{}, len(sel)-1)
	for i, x := range sel[1:] {
		args[i] = x
	}
	if err := db.Select(sel[0], args...).Delete(&Owner{ID: o}).Error; err != nil {
		add("error: %v", err)
		return
	}
	if n := count("SELECT count(*) FROM owners WHERE id = ?", o); n != 0 {
		add("the owner row is still there")
	}
	for _, rel := range sel {
		table, all, other := "s_items", itemsAll, itemsOther
		if rel == "Pet" {
			table, all, other = "s_pets", petsAll, petsOther
		}
		left := count("SELECT count(*) FROM "+table+" WHERE owner_id = ?", o)
		live := count("SELECT count(*) FROM "+table+" WHERE owner_id = ? AND deleted_at IS NULL", o)
		old := count("SELECT count(*) FROM "+table+" WHERE owner_id = ? AND deleted_at = ?", o, delTime)
		if unscoped {
			if left != 0 {
				add("Unscoped delete with Select(%s): %d of the owner's %d rows in %s are still stored (%d of them live)", rel, left, all, table, live)
			}
		} else {
			if left != all {
				add("delete with Select(%s) removed rows of %s physically: %d of %d left", rel, table, left, all)
			}
			if live != 0 {
				add("delete with Select(%s): %d rows of %s are still live", rel, live, table)
			}
			if old*2 != all && table == "s_items" {
				add("delete with Select(%s): rows of %s that were marked before were marked again (%d of %d keep their old mark)", rel, table, old, all/2)
			}
		}
		if n := count("SELECT count(*) FROM "+table+" WHERE owner_id <> ?", o); n != other {
			add("rows of other owners in %s changed: %d -> %d", table, other, n)
		}
	}
	return
}

// runHookDelete: an Unscoped delete of an owner whose BeforeDelete hook deletes the owner's items through its handle.
// With PropagateUnscoped (a Session flag, with or without NewDB in the same call) the nested delete is Unscoped too:
// the items go physically, marked ones included. Without the flag the nested delete is an ordinary one.
func runHookDelete(c *core.Ctx, path string, d assocData) (problems []string) {
	add := func(f string, a ...interface{}) { problems = append(problems, fmt.Sprintf(f, a...)) }
	count := func(q string, a ...interface{}) int64 { return vdb.Ints(H.SQL, q, a...)[0] }
	const o = int64(1)
	all := count("SELECT count(*) FROM s_items WHERE owner_id = ?", o)
	other := count("SELECT count(*) FROM s_items WHERE owner_id <> ?", o)
	root := H.DB.Session(&gorm.Session{})
	switch path {
	case "HookDeletePropagate":
		root = root.Session(&gorm.Session{PropagateUnscoped: true})
	case "HookDeletePropagateNewDB":
		// a fresh handle derived from a used one, with the flag in the same call
		root = root.Where("1 = 1").Session(&gorm.Session{NewDB: true, PropagateUnscoped: true})
	}
	ownerHook = true
	err := root.Unscoped().Delete(&Owner{ID: o}).Error
	ownerHook = false
	if err != nil {
		add("error: %v", err)
		return
	}
	left := count("SELECT count(*) FROM s_items WHERE owner_id = ?", o)
	live := count("SELECT count(*) FROM s_items WHERE owner_id = ? AND deleted_at IS NULL", o)
	if path == "HookDeleteNoPropagate" {
		if left != all || live != 0 {
			add("without PropagateUnscoped the hook's delete is an ordinary one: %d of %d rows left, %d live (want all rows left, none live)", left, all, live)
		}
	} else if left != 0 {
		add("%s: the hook's delete under an Unscoped operation left %d of the owner's %d item rows (%d live): want them removed physically", path, left, all, live)
	}
	if n := count("SELECT count(*) FROM s_items WHERE owner_id <> ?", o); n != other {
		add("items of other owners changed: %d -> %d", other, n)
	}
	if n := count("SELECT count(*) FROM owners WHERE id = ?", o); n != 0 {
		add("the owner row is still there")
	}
	return
}

// runAssocMarks: association-mode Delete / Clear on a many-to-many relation whose links are soft-delete records:
// scoped, a link is marked (and a link marked before keeps its mark); with Unscoped the link rows are removed
// physically, marked or not. The tags themselves are never touched.
func runAssocMarks(c *core.Ctx, path string, d assocData) (problems []string) {
	add := func(f string, a ...interface{}) { problems = append(problems, fmt.Sprintf(f, a...)) }
	count := func(q string, a ...interface{}) int64 { return vdb.Ints(H.SQL, q, a...)[0] }
	const o = int64(1)
	root := H.DB.Session(&gorm.Session{})
	tagsBefore := count("SELECT count(*) FROM s_tags")
	othersBefore := count("SELECT count(*) FROM owner_marks WHERE owner_id <> ?", o)
	unscoped := strings.HasPrefix(path, "Unscoped")
	// (Unscoped of the handle, db.Unscoped(): the statement's Unscoped. Association(..).Unscoped() is another switch,
	// about the associated records, and not what is meant here)
	if unscoped {
		root = root.Unscoped()
	}
	as := root.Model(&Owner{ID: o}).Association("Marks")
	var targets []int64
	var err error
	if strings.HasSuffix(path, "ClearMarks") {
		targets = []int64{1, 2}
		err = as.Clear()
	} else {
		// one live link, or (Unscoped only: the scoped call does not see it) the link marked before
		targets = []int64{int64(1 + c.R.Intn(2))}
		if unscoped && c.R.Intn(3) == 0 {
			targets = []int64{3}
		}
		err = as.Delete(&STag{ID: targets[0]})
	}
	if err != nil {
		add("error: %v", err)
		return
	}
	for _, t := range targets {
		rows := count("SELECT count(*) FROM owner_marks WHERE owner_id = ? AND s_tag_id = ?", o, t)
		live := count("SELECT count(*) FROM owner_marks WHERE owner_id = ? AND s_tag_id = ? AND deleted_at IS NULL", o, t)
		if unscoped && rows != 0 {
			add("Unscoped %s: the link to tag %d is still stored (%d row, live: %d): want it removed physically", path, t, rows, live)
		}
		if !unscoped && (rows != 1 || live != 0) {
			add("%s: the link to tag %d: %d row stored, %d live: want it stored and marked", path, t, rows, live)
		}
	}
	if !unscoped {
		if n := count("SELECT count(*) FROM owner_marks WHERE owner_id = ? AND s_tag_id = 3 AND deleted_at = ?", o, delTime); n != 1 {
			add("%s: the link that was marked before did not keep its row and mark", path)
		}
	}
	if strings.HasSuffix(path, "ClearMarks") && unscoped {
		// (whether an Unscoped Clear also removes the link marked before is not fixed by the statement)
	} else if !strings.HasSuffix(path, "ClearMarks") {
		// the links not named stay as they were
		for _, t := range []int64{1, 2, 3} {
			named := false
			for _, x := range targets {
				named = named || x == t
			}
			if !named && count("SELECT count(*) FROM owner_marks WHERE owner_id = ? AND s_tag_id = ?", o, t) != 1 {
				add("%s: the link to tag %d, which was not named, is gone", path, t)
			}
		}
	}
	if n := count("SELECT count(*) FROM s_tags"); n != tagsBefore {
		add("%s changed the tags table (%d -> %d rows)", path, tagsBefore, n)
	}
	if n := count("SELECT count(*) FROM owner_marks WHERE owner_id <> ?", o); n != othersBefore {
		add("%s changed links of other owners (%d -> %d)", path, othersBefore, n)
	}
	return
}

func runAssoc(c *core.Ctx, path string, d assocData) (problems []string) {
	root := H.DB.Session(&gorm.Session{})
	add := func(f string, a ...interface{}) { problems = append(problems, fmt.Sprintf(f, a...)) }
	eq := func(what string, o int64, got, want []int64) {
		sort.Slice(want, func(i, j int) bool { return want[i] < want[j] })
		if !pred.IDsEqual(got, want) {
			add("%s of owner %d: loaded %v, live rows are %v", what, o, got, want)
		}
	}
	var owners []Owner
	switch path {
	case "PreloadItems", "PreloadItemsCond", "PreloadNested", "PreloadAll", "PreloadPet", "PreloadTags", "PreloadUnscoped", "PreloadMarks", "PreloadMarksCond", "UnscopedPreloadMarks":
		db := root
		switch path {
		case "PreloadMarks":
			db = db.Preload("Marks")
		case "PreloadMarksCond":
			q, args := alwaysTrue(c.R)
			db = db.Preload("Marks", append([]interface{}{q}, args...)...)
		case "UnscopedPreloadMarks":
			db = db.Unscoped().Preload("Marks")
		case "PreloadItems":
			db = db.Preload("Items")
		case "PreloadItemsCond":
			db = db.Preload("Items", "v >= ? OR v < ?", 0, 0)
		case "PreloadNested":
			db = db.Preload("Items.Boss")
		case "PreloadAll":
			db = db.Preload(clause.Associations)
		case "PreloadPet":
			db = db.Preload("Pet")
		case "PreloadTags":
			db = db.Preload("Tags")
		case "PreloadUnscoped":
			db = db.Preload("Items", func(tx *gorm.DB) *gorm.DB { return tx.Unscoped() })
		}
		if err := db.Order("id").Find(&owners).Error; err != nil {
			add("error: %v", err)
			return
		}
		if len(owners) != d.owners {
			add("owners loaded %d want %d", len(owners), d.owners)
		}
		for _, o := range owners {
			switch path {
			case "PreloadItems", "PreloadItemsCond", "PreloadNested", "PreloadAll":
				eq("Items", o.ID, itemIDs(o.Items), append([]int64(nil), d.liveItems[o.ID]...))
			case "PreloadUnscoped":
				want := append([]int64(nil), d.liveItems[o.ID]...)
				for _, id := range d.liveItems[o.ID] {
					want = append(want, id+twinOff)
				}
				eq("Items(unscoped)", o.ID, itemIDs(o.Items), want)
			}
			if path == "PreloadNested" {
				for _, it := range o.Items {
					want := d.liveBoss[it.ID]
					got := int64(0)
					if it.Boss != nil {
						got = it.Boss.ID
					}
					if got != want {
						add("item %d Boss loaded id %d, live boss is %d", it.ID, got, want)
					}
				}
			}
			if path == "PreloadPet" || path == "PreloadAll" {
				got := int64(0)
				if o.Pet != nil {
					got = o.Pet.ID
				}
				if got != d.livePet[o.ID] {
					add("owner %d Pet loaded id %d, live pet is %d", o.ID, got, d.livePet[o.ID])
				}
			}
			if path == "PreloadTags" || path == "PreloadAll" {
				eq("Tags", o.ID, tagIDs(o.Tags), append([]int64(nil), d.liveTags[o.ID]...))
			}
			if path == "PreloadMarks" || path == "PreloadMarksCond" || path == "PreloadAll" {
				eq("Marks (links "+fmt.Sprintf("%+v", d.markLinks[o.ID])+")", o.ID, tagIDs(o.Marks), d.marksVisible(o.ID, false))
			}
			if path == "UnscopedPreloadMarks" {
				eq("Marks under Unscoped (links "+fmt.Sprintf("%+v", d.markLinks[o.ID])+")", o.ID, tagIDs(o.Marks), d.marksVisible(o.ID, true))
			}
		}
	case "JoinsBoss", "InnerJoinsBoss":
		var items []SItem
		db := root.Joins("Boss")
		if path == "InnerJoinsBoss" {
			db = root.InnerJoins("Boss")
		}
		if err := db.Order("s_items.id").Find(&items).Error; err != nil {
			add("error: %v", err)
			return
		}
		seen := map[int64]bool{}
		for _, it := range items {
			seen[it.ID] = true
			if it.ID >= twinOff {
				add("soft-deleted item %d returned by Joins", it.ID)
			}
			got := int64(0)
			if it.Boss != nil {
				got = it.Boss.ID
			}
			if got != d.liveBoss[it.ID] {
				add("item %d joined Boss id %d, live boss is %d", it.ID, got, d.liveBoss[it.ID])
			}
		}
		for _, ids := range d.liveItems {
			for _, id := range ids {
				inner := path == "InnerJoinsBoss"
				if !seen[id] && (!inner || d.liveBoss[id] != 0) {
					add("live item %d missing from the join result", id)
				}
				if seen[id] && inner && d.liveBoss[id] == 0 {
					add("item %d has no live boss but was returned by InnerJoins", id)
				}
			}
		}
	case "UnscopedJoinsBoss", "UnscopedInnerJoinsBoss":
		// with Unscoped the marked rows are visible again: also the joined relation's
		var items []SItem
		db := root.Unscoped().Joins("Boss")
		if path == "UnscopedInnerJoinsBoss" {
			db = root.Unscoped().InnerJoins("Boss")
		}
		if err := db.Order("s_items.id").Find(&items).Error; err != nil {
			add("error: %v", err)
			return
		}
		rows, _ := vdb.RowMaps(H.SQL, "SELECT id, boss_id FROM s_items ORDER BY id")
		wantBoss := map[int64]int64{}
		for _, r := range rows {
			if b, ok := r["boss_id"].(int64); ok {
				wantBoss[r["id"].(int64)] = b
			} else if path == "UnscopedJoinsBoss" {
				wantBoss[r["id"].(int64)] = 0
			}
		}
		if len(items) != len(wantBoss) {
			add("Unscoped join returned %d items, %d expected (live and soft-deleted items, inner join keeps those with any boss row)", len(items), len(wantBoss))
		}
		for _, it := range items {
			got := int64(0)
			if it.Boss != nil {
				got = it.Boss.ID
			}
			if w, ok := wantBoss[it.ID]; ok && got != w {
				add("Unscoped: item %d joined Boss id %d, its boss row (live or soft-deleted) is %d", it.ID, got, w)
			}
		}
	case "UnscopedJoinsPet":
		if err := root.Unscoped().Joins("Pet").Order("owners.id").Find(&owners).Error; err != nil {
			add("error: %v", err)
			return
		}
		pets := vdb.Ints(H.SQL, "SELECT count(*) FROM s_pets")[0]
		withPet := vdb.Ints(H.SQL, "SELECT count(DISTINCT owner_id) FROM s_pets")[0]
		// a LEFT JOIN yields one row per (owner, pet) pair, owners without any pet once
		if int64(len(owners)) != pets+int64(d.owners)-withPet {
			add("Unscoped Joins(Pet) returned %d rows, want %d (every pet row, live or soft-deleted, joins)", len(owners), pets+int64(d.owners)-withPet)
		}
		for _, o := range owners {
			if has := vdb.Ints(H.SQL, "SELECT count(*) FROM s_pets WHERE owner_id = ?", o.ID)[0]; has > 0 && o.Pet == nil {
				add("Unscoped: owner %d has %d pet rows but none was joined", o.ID, has)
			}
		}
	case "JoinsPreloadBelow", "UnscopedJoinsPreloadBelow", "UnscopedPreloadNestedBelow":
		// a relation loaded by Joins with a Preload below it (and the same path as two preloads): the scope, or its
		// lifting by Unscoped, reaches the nested level too
		var pets []SPet
		db := root
		if path != "JoinsPreloadBelow" {
			db = db.Unscoped()
		}
		if path == "UnscopedPreloadNestedBelow" {
			db = db.Preload("Owner.Items")
		} else {
			db = db.Joins("Owner").Preload("Owner.Items")
		}
		if err := db.Order("s_pets.id").Find(&pets).Error; err != nil {
			add("error: %v", err)
			return
		}
		wantPets := vdb.Ints(H.SQL, "SELECT id FROM s_pets WHERE deleted_at IS NULL ORDER BY id")
		if path != "JoinsPreloadBelow" {
			wantPets = vdb.Ints(H.SQL, "SELECT id FROM s_pets ORDER BY id")
		}
		var gotPets []int64
		for _, p := range pets {
			gotPets = append(gotPets, p.ID)
			if p.Owner == nil {
				add("pet %d: owner not loaded", p.ID)
				continue
			}
			want := append([]int64(nil), d.liveItems[p.OwnerID]...)
			if path != "JoinsPreloadBelow" {
				for _, id := range d.liveItems[p.OwnerID] {
					want = append(want, id+twinOff)
				}
			}
			eq("Owner.Items of pet "+fmt.Sprint(p.ID), p.OwnerID, itemIDs(p.Owner.Items), want)
		}
		if !pred.IDsEqual(pred.SortIDs(gotPets), wantPets) {
			add("pets loaded %v, want %v", gotPets, wantPets)
		}
	case "JoinsPetCond", "JoinsBossCond":
		// association join with the caller's own ON conditions given as a handle: every unit is true for
		// every row of the joined table (v >= 1 in all of them, v = 1 in every pet), so the result must equal the plain join's
		// whatever mix of Where / Or / Not the handle carries
		col, rel := "v", "Pet"
		if path == "JoinsBossCond" {
			col, rel = "Boss.v", "Boss"
		}
		cond := H.DB.Session(&gorm.Session{})
		n := 1 + c.R.Intn(3)
		desc := ""
		for i := 0; i < n; i++ {
			k := c.R.Intn(8)
			if rel == "Boss" && (k == 2 || k == 5) {
				k-- // map keys are not qualified by gorm and "v" alone is ambiguous next to s_items.v: raw form instead
				if k == 4 {
					k = 3
				}
			}
			switch k {
			case 0:
				cond = cond.Where(col+" > ?", 0)
				desc += "W>"
			case 1:
				cond = cond.Where(col+" > ? OR "+col+" < ?", 0, 0)
				desc += "Wor"
			case 2:
				cond = cond.Where(map[string]interface{}{"v": 1})
				desc += "Wmap"
			case 3, 4:
				cond = cond.Or(col+" > ?", 0)
				desc += "O>"
			case 5:
				cond = cond.Or(map[string]interface{}{"v": 1})
				desc += "Omap"
			case 6:
				cond = cond.Not(col+" = ?", 0)
				desc += "N="
			case 7:
				cond = cond.Where(clause.Gt{Column: clause.Column{Table: rel, Name: "v"}, Value: 0})
				desc += "Wgt"
			}
			desc += ","
		}
		c.Shape(path + ":" + desc)
		if path == "JoinsPetCond" {
			if err := root.Joins("Pet", cond).Order("owners.id").Find(&owners).Error; err != nil {
				add("Joins(Pet, %s) error: %v", desc, err)
				return
			}
			if len(owners) != d.owners {
				add("Joins(Pet, %s): owners loaded %d want %d (a soft-deleted pet multiplied or removed a parent)", desc, len(owners), d.owners)
			}
			for _, o := range owners {
				got := int64(0)
				if o.Pet != nil {
					got = o.Pet.ID
				}
				if got != d.livePet[o.ID] {
					add("Joins(Pet, %s): owner %d joined Pet id %d, live pet is %d", desc, o.ID, got, d.livePet[o.ID])
				}
			}
		} else {
			var items []SItem
			if err := root.Joins("Boss", cond).Order("s_items.id").Find(&items).Error; err != nil {
				add("Joins(Boss, %s) error: %v", desc, err)
				return
			}
			for _, it := range items {
				if it.ID >= twinOff {
					add("soft-deleted item %d returned by Joins(Boss, %s)", it.ID, desc)
				}
				got := int64(0)
				if it.Boss != nil {
					got = it.Boss.ID
				}
				if got != d.liveBoss[it.ID] {
					add("Joins(Boss, %s): item %d joined Boss id %d, live boss is %d", desc, it.ID, got, d.liveBoss[it.ID])
				}
			}
		}
	case "JoinsPet":
		if err := root.Joins("Pet").Order("owners.id").Find(&owners).Error; err != nil {
			add("error: %v", err)
			return
		}
		if len(owners) != d.owners {
			add("owners loaded %d want %d (a soft-deleted pet multiplied or removed a parent)", len(owners), d.owners)
		}
		for _, o := range owners {
			got := int64(0)
			if o.Pet != nil {
				got = o.Pet.ID
			}
			if got != d.livePet[o.ID] {
				add("owner %d joined Pet id %d, live pet is %d", o.ID, got, d.livePet[o.ID])
			}
		}
	default:
		for o := int64(1); o <= int64(d.owners); o++ {
			ow := Owner{ID: o}
			switch path {
			case "AssocFindItems":
				var items []SItem
				if err := root.Model(&ow).Association("Items").Find(&items); err != nil {
					add("error: %v", err)
					continue
				}
				eq("Association(Items).Find", o, itemIDs(items), append([]int64(nil), d.liveItems[o]...))
			case "AssocCountItems":
				n := root.Model(&ow).Association("Items").Count()
				if n != int64(len(d.liveItems[o])) {
					add("Association(Items).Count of owner %d = %d, live %d", o, n, len(d.liveItems[o]))
				}
			case "AssocFindTags":
				var tags []STag
				if err := root.Model(&ow).Association("Tags").Find(&tags); err != nil {
					add("error: %v", err)
					continue
				}
				eq("Association(Tags).Find", o, tagIDs(tags), append([]int64(nil), d.liveTags[o]...))
			case "AssocCountTags":
				n := root.Model(&ow).Association("Tags").Count()
				if n != int64(len(d.liveTags[o])) {
					add("Association(Tags).Count of owner %d = %d, live %d", o, n, len(d.liveTags[o]))
				}
			case "AssocFindMarks", "AssocFindMarksCond", "UnscopedAssocFindMarks":
				var tags []STag
				db, uns, what := root, false, "Association(Marks).Find"
				if path == "UnscopedAssocFindMarks" {
					db, uns, what = root.Unscoped(), true, "Unscoped Association(Marks).Find"
				}
				var conds []interface{}
				if path == "AssocFindMarksCond" {
					q, args := alwaysTrue(c.R)
					conds = append([]interface{}{q}, args...)
					what += fmt.Sprintf("(%q)", q)
				}
				if err := db.Model(&ow).Association("Marks").Find(&tags, conds...); err != nil {
					add("error: %v", err)
					continue
				}
				eq(what+" (links "+fmt.Sprintf("%+v", d.markLinks[o])+")", o, tagIDs(tags), d.marksVisible(o, uns))
			case "AssocCountMarks", "AssocCountMarksCond", "UnscopedAssocCountMarks":
				db, uns := root, false
				if path == "UnscopedAssocCountMarks" {
					db, uns = root.Unscoped(), true
				}
				db = db.Model(&ow)
				what := path
				if path == "AssocCountMarksCond" {
					q, args := alwaysTrue(c.R)
					db = db.Where(q, args...)
					what += fmt.Sprintf(" Where(%q)", q)
				}
				n := db.Association("Marks").Count()
				if w := d.marksVisible(o, uns); n != int64(len(w)) {
					add("%s: Association(Marks).Count of owner %d = %d, want %d: the linked tags this handle sees are %v (links %+v; tags 1..3 live, 101..103 soft-deleted)", what, o, n, len(w), w, d.markLinks[o])
				}
			case "AssocFindItemsCond":
				var items []SItem
				q, args := alwaysTrue(c.R)
				if err := root.Model(&ow).Association("Items").Find(&items, append([]interface{}{q}, args...)...); err != nil {
					add("error: %v", err)
					continue
				}
				eq(fmt.Sprintf("Association(Items).Find(%q)", q), o, itemIDs(items), append([]int64(nil), d.liveItems[o]...))
			case "AssocCountItemsCond":
				q, args := alwaysTrue(c.R)
				n := root.Model(&ow).Where(q, args...).Association("Items").Count()
				if n != int64(len(d.liveItems[o])) {
					add("Model(&owner).Where(%q).Association(Items).Count of owner %d = %d, live %d", q, o, n, len(d.liveItems[o]))
				}
			case "AssocFindTagsCond":
				var tags []STag
				q, args := alwaysTrue(c.R)
				if err := root.Model(&ow).Association("Tags").Find(&tags, append([]interface{}{q}, args...)...); err != nil {
					add("error: %v", err)
					continue
				}
				eq(fmt.Sprintf("Association(Tags).Find(%q)", q), o, tagIDs(tags), append([]int64(nil), d.liveTags[o]...))
			case "UnscopedAssocFindItems":
				// association lookups through an Unscoped handle: the marked rows are visible again
				var items []SItem
				if err := root.Unscoped().Model(&ow).Association("Items").Find(&items); err != nil {
					add("error: %v", err)
					continue
				}
				eq("Unscoped Association(Items).Find", o, itemIDs(items), vdb.Ints(H.SQL, "SELECT id FROM s_items WHERE owner_id = ? ORDER BY id", o))
			case "UnscopedAssocCountItems":
				n := root.Unscoped().Model(&ow).Association("Items").Count()
				if w := vdb.Ints(H.SQL, "SELECT count(*) FROM s_items WHERE owner_id = ?", o)[0]; n != w {
					add("Unscoped Association(Items).Count of owner %d = %d, stored rows (live and marked) %d", o, n, w)
				}
			case "UnscopedAssocFindPet":
				var pets []SPet
				if err := root.Unscoped().Model(&ow).Association("Pet").Find(&pets); err != nil {
					add("error: %v", err)
					continue
				}
				var got []int64
				for _, p := range pets {
					got = append(got, p.ID)
				}
				eq("Unscoped Association(Pet).Find", o, pred.SortIDs(got), vdb.Ints(H.SQL, "SELECT id FROM s_pets WHERE owner_id = ? ORDER BY id", o))
			case "UnscopedAssocFindTags":
				var tags []STag
				if err := root.Unscoped().Model(&ow).Association("Tags").Find(&tags); err != nil {
					add("error: %v", err)
					continue
				}
				eq("Unscoped Association(Tags).Find", o, tagIDs(tags), vdb.Ints(H.SQL, "SELECT s_tag_id FROM owner_tags WHERE owner_id = ? ORDER BY s_tag_id", o))
			case "UnscopedAssocCountTags":
				n := root.Unscoped().Model(&ow).Association("Tags").Count()
				if w := vdb.Ints(H.SQL, "SELECT count(*) FROM owner_tags WHERE owner_id = ?", o)[0]; n != w {
					add("Unscoped Association(Tags).Count of owner %d = %d, linked tags (live and marked) %d", o, n, w)
				}
			case "AssocFindPet":
				var pets []SPet
				if err := root.Model(&ow).Association("Pet").Find(&pets); err != nil {
					add("error: %v", err)
					continue
				}
				var got []int64
				for _, p := range pets {
					got = append(got, p.ID)
				}
				var want []int64
				if d.livePet[o] != 0 {
					want = []int64{d.livePet[o]}
				}
				eq("Association(Pet).Find", o, got, want)
			}
		}
	}
	return
}

func run(c *core.Ctx) {
	r := c.R
	st := pred.Style{}
	switch c.Case % 3 {
	case 1:
		st = pred.Style{Case: true, Parens: true}
	case 2:
		st = pred.Style{Case: true, Parens: true, Whitespace: true}
	}
	liveBase = 0
	if r.Bool() {
		liveBase = 2 * twinOff
	}
	table := shiftTable(pred.RandTable(r, 8))
	load(table)
	for k := 0; k < 8; k++ {
		cc := genChain(r, st)
		desc := cc.desc()
		c.Logf("CHAIN %s", desc)
		problems, nontrivial := runChain(c, cc, table)
		c.Inc("chains")
		c.Inc("path_" + cc.path)
		if len(problems) > 0 {
			rows := []string{}
			for _, rw := range table {
				rows = append(rows, rw.String())
			}
			c.Violation(cc.path, map[string]interface{}{"chain": desc, "problems": problems, "live_rows": rows, "note": layoutNote()})
			load(table)
			continue
		}
		if nontrivial {
			c.Shape(cc.shape())
			c.Inc("nontrivial_chains")
			if c.WantSample() && k == 2 {
				c.Sample(map[string]interface{}{"chain": desc, "live_rows": len(table), "twins": len(table)})
			}
		}
	}
	// the same semantics for every way of declaring the soft-delete field
	runVariant(c, st, table)
	// association paths on a fresh graph
	d := loadAssoc(r)
	for k := 0; k < 4; k++ {
		p := core.Pick(r, assocPaths)
		c.Logf("ASSOC %s", p)
		problems := runAssoc(c, p, d)
		c.Inc("assoc_paths")
		c.Inc("path_" + p)
		if len(problems) > 0 {
			c.Violation(p, map[string]interface{}{"path": p, "problems": problems, "graph": fmt.Sprintf("%+v", d)})
			continue
		}
		nlive := 0
		for _, v := range d.liveItems {
			nlive += len(v)
		}
		if nlive > 0 {
			c.Shape("assoc", p, d.owners, nlive, len(d.liveTags), len(d.livePet))
		}
	}
	// writes that consume the graph come last: association-mode Clear / Delete / Replace ...
	if r.Chance(1, 3) {
		sig, call, problems, nontrivial := runAssocWrite(c, d)
		if sig != "" {
			c.Logf("ASSOC %s: %s", sig, call)
			c.Inc("assoc_paths")
			c.Inc("assoc_writes")
			if len(problems) > 0 {
				c.Violation(sig, map[string]interface{}{"call": call, "problems": problems, "graph": fmt.Sprintf("%+v", d),
					"note": "children: live ids 1.., soft-deleted twins id+100 with the same owner; bosses 1,2 live, 101,102 soft-deleted"})
			} else if nontrivial {
				c.Inc("nontrivial_assoc_writes")
				c.Shape("assocwrite", sig, d.owners)
			}
		}
	} else {
		// ... or deleting an owner together with selected relations, links of a soft-delete join model, a deleting hook
		p := core.Pick(r, []string{"DeleteSelectItems", "UnscopedDeleteSelectItems", "UnscopedDeleteSelectPet", "DeleteSelectPet", "UnscopedDeleteSelectBoth",
			"AssocDeleteMarks", "UnscopedAssocDeleteMarks", "UnscopedAssocDeleteMarks", "UnscopedAssocClearMarks", "AssocClearMarks",
			"HookDeletePropagate", "HookDeletePropagateNewDB", "HookDeleteNoPropagate"})
		c.Logf("ASSOC %s", p)
		var problems []string
		if strings.Contains(p, "Marks") {
			problems = runAssocMarks(c, p, d)
		} else if strings.HasPrefix(p, "HookDelete") {
			problems = runHookDelete(c, p, d)
		} else {
			problems = runAssocDelete(c, p, d)
		}
		c.Inc("assoc_paths")
		c.Inc("path_" + p)
		if len(problems) > 0 {
			c.Violation(p, map[string]interface{}{"path": p, "problems": problems, "graph": fmt.Sprintf("%+v", d)})
		} else {
			c.Shape("assoc", p, d.owners, len(d.liveItems[1]), d.livePet[1] != 0)
		}
	}
}

var Engine = &core.Engine{
	ID:    "C08",
	Level: "exploration",
	Rule: "twin tables: random live rows (0..8) each with a soft-deleted twin of identical user columns, in one of two key layouts chosen per case (twins above the live rows, or twins BELOW them so that whatever takes the first record by primary key meets the marked row first); chains of 0..3 Where/Not/Or units (C02 generator, id-free, leading Or included, hostile renderings in 2 of 3 cases) x 29 read/write paths (Find, inline, First/Last/Take, Count, Pluck, Scan, Rows, FindInBatches, Count-then-Find / Count-then-Pluck on one query value, Update(s), UpdateColumn, Delete + repeated Delete, Unscoped Find/Count/Update/Delete/First/Last, statements nested in an Unscoped FindInBatches, " +
		"FirstOrInit and FirstOrCreate with and without Assign / Attrs (map or struct), scoped and Unscoped (Unscoped first or last in the chain): the record found is the lowest key the handle sees and the update gorm issues for Assign stores the value in exactly that record), " +
		"plus a battery (Find, Count, Unscoped Find, Update, Delete, repeated Delete, Unscoped Delete, FirstOrCreate+Assign scoped and Unscoped under 1..2 condition units) on one of seven models that declare the soft-delete field differently (pointer field, anonymous embedded struct / pointer struct, embedded with prefix, renamed column, leading column, zeroValue tag), plus 40 association read paths (Joins with a handle of always-true ON conditions mixing Where/Or/Not forms; Preload plain/cond/nested/all/has-one/many2many/unscoped, Joins/InnerJoins belongs-to, Joins has-one, the same joins under Unscoped, Preload below Joins, Association Find/Count scoped and through an Unscoped handle; Association Find with inline conditions and Count below Model(..).Where(..) using an always-true condition with a top-level OR / NOT; and Association Find/Count (plain, with such a condition, through an Unscoped handle) and Preload (plain, with a condition, under Unscoped) of Marks, a many2many whose JOIN MODEL, registered with SetupJoinTable, carries a soft-delete field while the target is a soft-delete model too: link rows and tags are marked independently by raw SQL, per owner two live links and one marked link to live tags and for each soft-deleted tag no link, a live link or a marked link, and a scoped lookup has to deliver exactly the live tags behind live links, an Unscoped one every linked tag) over random owner graphs whose children all have soft-deleted twins, " +
		"plus one graph-consuming write per case: Select(relations).Delete(&owner), Delete/Clear of links with a soft-delete join model, a deleting hook under PropagateUnscoped, or (1 in 3) an association-mode write = relation (has-many Items, has-one Pet, belongs-to Boss) x Clear / Delete(named rows: the owner's live or marked ones, or another owner's) / Replace(one live row kept) x handle scoped or db.Unscoped() x association detach mode or Association.Unscoped() mode, compared cell by cell with the rows the handle sees; distinct = (op:form per unit, path) resp. (path, graph sizes) resp. (relation/op/handle/mode, owners); non-trivial = the chain matches at least one live row (so it also matches a twin), resp. the association write had rows to touch",
	Assumptions: []string{
		"conditions never mention the primary key, so a twin matches exactly when its live row does",
		"FindInBatches runs whose cursor does not advance are cut by a logical batch bound and only checked for twin ids (non-termination is C15's subject)",
		"chains starting with Or are checked for twin-disjointness and untouched twins only (C02 leaves their combination undefined)",
		"FirstOrCreate when no row matches at all (marked or not): only 'one row is created' is demanded when the call succeeds, the created values and errors of that path are not this property's subject; with an Or in the chain only 'the found record holds the assigned value' is demanded, not that no other row does (how the record's key combines with the OR group is C02's reading)",
		"db.Unscoped() (the statement's Unscoped) and Association(..).Unscoped() (delete the associated records instead of taking the key away) are independent switches; the record handed to an association Replace is not examined (saving it is C10/C11's subject), belongs-to Replace with a new target is not generated, and for a belongs-to owner row the handle does not see the fate of its old target under Association.Unscoped() is not examined",
		"the association graph keeps one key layout (twins above the live rows)",
		"Marks (soft-delete join model): Joins on a many2many relation is not supported by gorm and not generated; under db.Unscoped() lookups and preloads are expected to see every link row and every tag (both filters lifted together), a handle that lifts only one of the two filters (Association(..).Unscoped(), a preload callback calling Unscoped) is not generated for this relation; conditions handed to association lookups only mention the target's column v",
	},
	Cases: func(tier string) int {
		if tier == "thorough" {
			return 150000
		}
		return 12000
	},
	Batch:         func(string) int { return 128 },
	Run:           run,
	Init:          initEnv,
	MinNontrivial: 100,
}

// Package c12: association mode keeps stored links, counts and the in-memory value in agreement.
//
// Oracle: a link-set model per relation (owner -> set of targets, plus the set of existing
// target records). Every generated step (Append / Replace / Delete / Clear / Count / Find,
// scoped or Unscoped, on one owner value or on a slice of owner values) is applied to the
// model and executed by gorm; after EVERY step the foreign keys / join rows and the target
// table are read back with raw SQL and compared with the model, Association().Count() and
// Association().Find() are compared through the operated value and through a fresh value,
// and the distinct keys held by the in-memory relation field of every owner value that
// received every operation are compared with the model.
//
// Sessions: steps are also made behind db.Session(&gorm.Session{FullSaveAssociations: true}); in such
// a step one of the values of the call may, for the time of the call, be held by another relation
// field of the owner value as well (relSpec.others, type held): gorm then meets the same value twice
// in one save, and the relation of the kind must still come out as the call defines it.
package c12

import (
	"errors"
	"fmt"
	"reflect"
	"sort"
	"strings"

	"gorm.io/gorm"

	"verif/core"
	"verif/vdb"
)

var H *vdb.Handle

func initEnv(c *core.Ctx) {
	h, err := vdb.Open(vdb.Options{Config: gorm.Config{DisableForeignKeyConstraintWhenMigrating: true}})
	must(err)
	must(h.DB.SetupJoinTable(&User{}, "Clubs", &Membership{}))
	for g, ms := range modelGroups {
		if err := h.DB.AutoMigrate(ms...); err != nil {
			if g == "" {
				panic(err)
			}
			setupErr[g] = err
		}
	}
	for _, s := range specs {
		if s.group != "" && s.store == joinRows && setupErr[s.group] == nil {
			if err := s.resolveJoin(h.DB); err != nil {
				setupErr[s.group] = err
			}
		}
	}
	for _, s := range specs {
		if setupErr[s.group] == nil {
			must(s.checkOthers(h.DB))
		}
	}
	H = h
}

// ---- targets, arguments, steps ---------------------------------------------------

type targ struct {
	key     string // "" = brand-new record without key
	name    string
	keyOnly bool   // existing record passed with its key only
	class   string // new | newkey | gone | free | linked | other | dup | samecall | absent
}

type arg struct {
	form string // ptr | val | slice | ptrslice | sliceptr
	ts   []*targ
	val  interface{}
	lit  string
}

type ownerVal struct {
	ok      string
	ptr     reflect.Value // *Owner
	lit     string
	foreign bool            // its links were changed by something that did not pass through this value
	mem     map[string]bool // keys this value received through its own operations and did not give up
}

type step struct {
	op       string
	unscoped bool
	hard     bool // db.Unscoped() as well (permanent delete of soft-delete targets)
	byVal    bool // slice-level call on a []*Owner passed by value: db.Model(owners)
	sliceLvl bool
	none     bool  // Append / Replace that names no target at all: no argument, or only empty / nil slices
	via      int   // how the association handle of the call is obtained (viaChain ...)
	full     bool  // the call is made in a db.Session(&gorm.Session{FullSaveAssociations: true})
	held     *held // full Append / Replace: one of the values the call deals with is held by another relation field of the owner value too
	owners   []*ownerVal
	args     []arg
	call     string
}

// held: for the time of one call, another relation field of an owner value of the call (relSpec.others) holds
// a pointer to a value that the relation field of the kind holds after the call as well - one of the values
// passed to the call (the very value, not a copy), or (Append) one the field holds already.
type held struct {
	other  other
	owner  int // index in step.owners
	ai, ti int // the ti-th value of the ai-th argument, or
	mi     int // (ai < 0) the mi-th element of the relation field
	expr   string
	t      *targ // the argument target (nil for an element of the field)
	// observed when the call is made
	key  string // key of the record the value names ("" = brand-new record without a key)
	pos  int    // position of the value in the relation field after the call ...
	n    int    // ... which then holds n elements,
	same int    // `same` of them being this very value;
	// gorm saves the first element of every key (elements without a key: all of them): of these
	rest     int  // `rest` are other values,
	lastElem bool // and the last one is this very value
}

// argPtr: pointer to the i-th value an argument carries (the value itself, whatever the literal form).
func argPtr(a arg, i int) reflect.Value {
	v := reflect.ValueOf(a.val)
	switch a.form {
	case "ptr":
		return v
	case "slice":
		return v.Index(i).Addr()
	case "ptrslice":
		return v.Elem().Index(i).Addr()
	case "sliceptr":
		return v.Index(i)
	}
	panic("argPtr: form " + a.form)
}

func argPtrLit(name string, a arg, i int) string {
	switch a.form {
	case "ptr":
		return name
	case "slice":
		return fmt.Sprintf("&%s[%d]", name, i)
	case "ptrslice":
		return fmt.Sprintf("&(*%s)[%d]", name, i)
	}
	return fmt.Sprintf("%s[%d]", name, i)
}

func (st *step) flat() []*targ {
	var out []*targ
	for _, a := range st.args {
		out = append(out, a.ts...)
	}
	return out
}

// tsFor: the targets the call names for its i-th owner (Append / Replace on a slice of owners: the
// i-th argument - none when the call has no arguments at all; otherwise every target of the call).
func (st *step) tsFor(i int) []*targ {
	if st.sliceLvl && (st.op == "Append" || st.op == "Replace") {
		if i >= len(st.args) {
			return nil
		}
		return st.args[i].ts
	}
	return st.flat()
}

func (s *relSpec) buildArg(form string, ts []*targ) arg {
	a := arg{form: form, ts: ts}
	tn := s.targetT.Name()
	lits := make([]string, len(ts))
	switch form {
	case "ptr":
		a.val = s.newTarget(*ts[0]).Addr().Interface()
		a.lit = "&" + s.targetLit(*ts[0], true)
	case "val":
		a.val = s.newTarget(*ts[0]).Interface()
		a.lit = s.targetLit(*ts[0], true)
	case "slice", "ptrslice":
		sl := reflect.MakeSlice(reflect.SliceOf(s.targetT), len(ts), len(ts))
		for i, t := range ts {
			sl.Index(i).Set(s.newTarget(*t))
			lits[i] = s.targetLit(*t, false)
		}
		a.lit = "[]" + tn + "{" + strings.Join(lits, ", ") + "}"
		if form == "ptrslice" {
			p := reflect.New(sl.Type())
			p.Elem().Set(sl)
			a.val = p.Interface()
			a.lit = "&" + a.lit
		} else {
			a.val = sl.Interface()
		}
	case "nilslice":
		// var items []T (nothing collected); Append(items)
		a.val = reflect.Zero(reflect.SliceOf(s.targetT)).Interface()
		a.lit = "[]" + tn + "(nil)"
	case "sliceptr":
		sl := reflect.MakeSlice(reflect.SliceOf(reflect.PointerTo(s.targetT)), len(ts), len(ts))
		for i, t := range ts {
			sl.Index(i).Set(s.newTarget(*t).Addr())
			lits[i] = s.targetLit(*t, false)
		}
		a.val = sl.Interface()
		a.lit = "[]*" + tn + "{" + strings.Join(lits, ", ") + "}"
	}
	return a
}

// ---- reference model ---------------------------------------------------------------

type model struct {
	spec  *relSpec
	links map[string]map[string]bool // owner key -> target keys (every owner row has an entry)
	recs  map[string]string          // existing (live) target records: key -> name
	soft  map[string]bool            // soft-deleted target records (may still be stored)
}

type effect struct {
	changed  bool
	steals   [][2]string // (robbed owner, target)
	deleted  []string    // records deleted by an Unscoped call
	hardGone []string    // records that must be physically absent afterwards
}

func sortedKeys(m map[string]bool) []string {
	out := make([]string, 0, len(m))
	for k := range m {
		out = append(out, k)
	}
	sort.Strings(out)
	return out
}

func (m *model) linkedTo(t string) []string {
	var out []string
	for o, set := range m.links {
		if set[t] {
			out = append(out, o)
		}
	}
	sort.Strings(out)
	return out
}

func (m *model) link(o, t string, eff *effect) {
	if m.spec.store == fkTarget {
		for _, o2 := range m.linkedTo(t) {
			if o2 != o {
				delete(m.links[o2], t)
				eff.steals = append(eff.steals, [2]string{o2, t})
				eff.changed = true
			}
		}
	}
	if !m.links[o][t] {
		m.links[o][t] = true
		eff.changed = true
	}
}

func (m *model) unlink(o, t string, st *step, eff *effect) {
	delete(m.links[o], t)
	eff.changed = true
	if st != nil && st.unscoped && m.spec.deletesRecords() {
		if _, ok := m.recs[t]; ok {
			delete(m.recs, t)
			eff.deleted = append(eff.deleted, t)
			if m.spec.soft && !st.hard {
				m.soft[t] = true
			} else {
				eff.hardGone = append(eff.hardGone, t)
			}
		}
	}
}

func (m *model) replace(o string, ts []string, st *step, eff *effect) {
	want := map[string]bool{}
	for _, t := range ts {
		want[t] = true
	}
	for _, t := range sortedKeys(m.links[o]) {
		if !want[t] {
			m.unlink(o, t, st, eff)
		}
	}
	for _, t := range ts {
		m.link(o, t, eff)
	}
}

func (m *model) appendTo(o string, ts []string, st *step, eff *effect) {
	if len(ts) == 0 {
		return
	}
	if m.spec.single {
		m.replace(o, ts, st, eff)
		return
	}
	for _, t := range ts {
		m.link(o, t, eff)
	}
}

func (m *model) remove(o string, ts []string, st *step, eff *effect) {
	for _, t := range ts {
		if m.links[o][t] {
			m.unlink(o, t, st, eff)
		}
	}
}

func keysOf(ts []*targ) []string {
	out := make([]string, len(ts))
	for i, t := range ts {
		out[i] = t.key
	}
	return out
}

// apply executes one step on the model (all targets carry keys by now).
func (m *model) apply(st *step) *effect {
	eff := &effect{}
	switch st.op {
	case "Append", "Replace":
		for i, ov := range st.owners {
			ts := keysOf(st.tsFor(i))
			if st.op == "Append" {
				m.appendTo(ov.ok, ts, st, eff)
			} else {
				m.replace(ov.ok, ts, st, eff)
			}
		}
	case "Delete":
		ts := keysOf(st.flat())
		for _, ov := range st.owners {
			m.remove(ov.ok, ts, st, eff)
		}
	case "Clear":
		for _, ov := range st.owners {
			m.replace(ov.ok, nil, st, eff)
		}
	}
	return eff
}

func (m *model) linkDump() map[string][]string {
	out := map[string][]string{}
	for o, set := range m.links {
		out[o] = sortedKeys(set)
	}
	return out
}

// ---- one case -----------------------------------------------------------------------

var (
	ownerPoolC     = []string{"a_b" + ksep + "c", "a" + ksep + "b_c", "a" + ksep + "b", "x" + ksep + "y", "x_y" + ksep + "z", "x" + ksep + "y_z"}
	targetPoolC    = []string{"p_q" + ksep + "r", "p" + ksep + "q_r", "p" + ksep + "q", "m" + ksep + "n", "m_n" + ksep + "o", "m" + ksep + "n_o", "s" + ksep + "t"}
	ownerPoolFree  = []string{"a_b" + ksep + "c", "a" + ksep + "b", "x" + ksep + "y", "x_y" + ksep + "z", "k" + ksep + "l"}
	targetPoolFree = []string{"p_q" + ksep + "r", "p" + ksep + "q", "m" + ksep + "n", "m_n" + ksep + "o", "s" + ksep + "t", "s t" + ksep + "u", "v" + ksep + "w"}
	modeNames      = []string{"single", "two_values", "slice"}
	umNames        = []string{"scoped", "unscoped", "mixed"}
)

func collide(keys []string) bool {
	seen := map[string]string{}
	for _, k := range keys {
		j := strings.ReplaceAll(k, ksep, "_")
		if p, ok := seen[j]; ok && p != k {
			return true
		}
		seen[j] = k
	}
	return false
}

type kase struct {
	c        *core.Ctx
	r        *core.Rand
	spec     *relSpec
	mode, um int
	m        *model
	owners   []string // all owner keys of the operated owner table
	vals     []*ownerVal
	slice    reflect.Value              // *[]Owner in slice mode
	ptrElems bool                       // slice mode: the owners are a []*Owner
	pool     string                     // name of the key pools in use
	universe []string                   // application-assigned keys: unused target keys
	dead     map[string]map[string]bool // soft-delete join model: soft-deleted join rows seeded with raw SQL (owner -> targets)
	gone     map[string]string          // records removed for good by an Unscoped call of this sequence: key -> name
	callUsed map[string]bool            // keys of new / re-created records already named in the call being generated
	noShare  bool                       // belongs-to with Unscoped steps: a target is never linked to two owners
	newSeq   int
	calls    []string
	seedDump map[string]interface{}
	seedErr  string
	shape    []string
	changes  int
}

func (k *kase) seed() {
	s, r := k.spec, k.r
	for _, t := range s.tables {
		_, err := H.SQL.Exec("DELETE FROM " + t)
		must(err)
	}
	H.SQL.Exec("DELETE FROM sqlite_sequence")
	s.surr = nil
	k.m = &model{spec: s, links: map[string]map[string]bool{}, recs: map[string]string{}, soft: map[string]bool{}}
	// owners
	var opool, tpool []string
	if len(s.pools) > 0 {
		// (the string-key many-to-many: half of the cases use a universe without colliding keys)
		ps := s.pools[r.Intn(len(s.pools))]
		opool, tpool, k.pool = ps.o, ps.t, ps.name
		k.c.Inc("cases_" + s.name + "_keys_" + ps.name)
	}
	k.gone = map[string]string{}
	k.dead = map[string]map[string]bool{}
	if opool != nil {
		p := r.Perm(len(opool))
		for i := 0; i < 4; i++ {
			k.owners = append(k.owners, okey(s.ownerTab, opool[p[i]]))
		}
	} else {
		p := r.Perm(4)
		for i := 0; i < 4; i++ {
			k.owners = append(k.owners, okey(s.ownerTab, fmt.Sprint(p[i]+1)))
		}
	}
	all := append([]string(nil), k.owners...)
	if s.poly {
		all = append(all, okey("teams", "1"), okey("teams", "2"), okey("teams", "3"))
	}
	for _, o := range all {
		k.m.links[o] = map[string]bool{}
		s.insOwner(o, "o-"+o)
	}
	// existing target records
	ne := r.Range(3, 6)
	if s.assigned {
		p := r.Perm(len(tpool))
		for i, j := range p {
			if i < ne {
				k.m.recs[tpool[j]] = fmt.Sprintf("e%d", i+1)
			} else {
				k.universe = append(k.universe, tpool[j])
			}
		}
	} else {
		for i := 1; i <= ne; i++ {
			k.m.recs[fmt.Sprint(i)] = fmt.Sprintf("e%d", i)
		}
	}
	for _, t := range sortedKeys(boolSet(k.m.recs)) {
		s.insTarget(t, k.m.recs[t])
	}
	var leftovers []string
	// operated owners
	nOp := 1
	switch k.mode {
	case 1:
		nOp = 2
	case 2:
		// (now and then the slice holds one record only)
		nOp = core.Pick(r, []int{1, 2, 2, 2, 3, 3, 3})
		k.c.Inc(fmt.Sprintf("cases_owner_slice_of_%d", nOp))
	}
	seedOperated := r.Chance(1, 3)
	seedable := append([]string(nil), all[nOp:]...)
	if seedOperated {
		seedable = all
	}
	recKeys := sortedKeys(boolSet(k.m.recs))
	seeded := map[string]bool{}
	for n := r.Range(0, 7); n > 0; n-- {
		o := core.Pick(r, seedable)
		t := core.Pick(r, recKeys)
		if k.noShare && len(k.m.linkedTo(t)) > 0 {
			continue
		}
		eff := &effect{}
		k.m.appendTo(o, []string{t}, nil, eff)
		seeded[o] = true
		for _, st := range eff.steals {
			seeded[st[0]] = true
		}
	}
	for _, o := range all {
		for _, t := range sortedKeys(k.m.links[o]) {
			if err := s.tryLink(o, t); err != nil {
				if s.store == joinRows && s.group != "" {
					// the generated join table refuses a link set the property quantifies over (a record
					// linked to two owners, an owner linked to two records)
					k.seedErr = fmt.Sprintf("raw-SQL insert of the join row (%s, %s) into %s, links so far %v: %v", o, t, s.jt, s.readLinks(), err)
					return
				}
				panic(err)
			}
		}
	}
	// what earlier removals left behind without being links (see insLeftover)
	if (s.soft && s.store == fkTarget) || s.softJoin {
		for i, n := 0, r.Range(0, 3); i < n; i++ {
			o := core.Pick(r, all)
			if s.softJoin {
				t := core.Pick(r, recKeys)
				if k.dead[o][t] || k.m.links[o][t] {
					continue
				}
				if k.dead[o] == nil {
					k.dead[o] = map[string]bool{}
				}
				k.dead[o][t] = true
				s.insLeftover(o, t, "")
				leftovers = append(leftovers, fmt.Sprintf("soft-deleted join row (%s, %s)", o, t))
			} else {
				t := fmt.Sprint(ne + 1 + i)
				k.m.soft[t] = true
				s.insLeftover(o, t, fmt.Sprintf("z%d", i+1))
				leftovers = append(leftovers, fmt.Sprintf("soft-deleted record %s whose key column still names %s", t, o))
			}
			k.c.Inc("seeded_soft_deleted_leftovers")
		}
	}
	// owner values
	mk := func(v reflect.Value, o string) string {
		fk := ""
		lit := s.ownerLit(o)
		if s.store == fkOwner {
			for t := range k.m.links[o] {
				fk = t
				// the value is a loaded record (scalar columns set, relation field not preloaded)
				lit = strings.TrimSuffix(lit, "}") + ", " + keyLit(s.ownerT, s.fks, t) + "}"
			}
		}
		s.setOwner(v, o, "o-"+o, fk)
		return lit
	}
	if k.mode == 2 {
		// a slice of records: []Owner, or []*Owner (half of the slice cases)
		k.ptrElems = r.Bool()
		et, amp := s.ownerT, "&"
		if k.ptrElems {
			et, amp = reflect.PointerTo(s.ownerT), ""
			k.c.Inc("cases_owner_slice_of_pointers")
		}
		k.slice = reflect.New(reflect.SliceOf(et))
		k.slice.Elem().Set(reflect.MakeSlice(reflect.SliceOf(et), nOp, nOp))
		lits := []string{}
		for i := 0; i < nOp; i++ {
			e := k.slice.Elem().Index(i)
			if k.ptrElems {
				e.Set(reflect.New(s.ownerT))
				e = e.Elem()
			}
			lit := mk(e, k.owners[i])
			k.vals = append(k.vals, &ownerVal{ok: k.owners[i], ptr: e.Addr(), lit: fmt.Sprintf("%sowners[%d]", amp, i), foreign: seeded[k.owners[i]], mem: map[string]bool{}})
			lits = append(lits, strings.TrimPrefix(lit, s.ownerT.Name()))
		}
		k.calls = append(k.calls, fmt.Sprintf("owners := []%s%s{%s}", map[bool]string{true: "*"}[k.ptrElems], s.ownerT.Name(), strings.Join(lits, ", ")))
	} else {
		for i := 0; i < nOp; i++ {
			p := reflect.New(s.ownerT)
			lit := mk(p.Elem(), k.owners[i])
			k.vals = append(k.vals, &ownerVal{ok: k.owners[i], ptr: p, lit: fmt.Sprintf("&u%d", i+1), foreign: seeded[k.owners[i]], mem: map[string]bool{}})
			k.calls = append(k.calls, fmt.Sprintf("u%d := %s", i+1, lit))
		}
	}
	k.seedDump = map[string]interface{}{"owner_rows": all, "target_records": copyMap(k.m.recs), "links(owner->targets)": k.m.linkDump()}
	if len(leftovers) > 0 {
		k.seedDump["not_links"] = leftovers
	}
}

func boolSet(m map[string]string) map[string]bool {
	out := map[string]bool{}
	for k := range m {
		out[k] = true
	}
	return out
}

func copyMap(m map[string]string) map[string]string {
	out := map[string]string{}
	for k, v := range m {
		out[k] = v
	}
	return out
}

// relinkSoftJoin: many-to-many through a soft-delete join model - a target whose join row to the
// owner is still stored soft-deleted (left by an earlier removal) may be appended to that owner
// again ("Append adds"). On the unchanged tree this is a deviation of gorm with its own signature
// (many2many-soft-delete-join-model-relink-after-removal-not-stored); false = not generated.
const relinkSoftJoin = true

// pickTargets chooses n targets for owner o; avoid = keys that must not be chosen (no-share rules).
func (k *kase) pickTargets(o string, n int, forDelete bool, allowNew bool, avoid map[string]bool, noOther bool) []*targ {
	r, m := k.r, k.m
	var out []*targ
	var deadRows map[string]int
	if k.spec.softJoin && !relinkSoftJoin && !forDelete {
		deadRows = k.spec.readDead()[o]
	}
	for len(out) < n {
		var linked, free, other, gone []string
		for _, t := range sortedKeys(boolSet(m.recs)) {
			if avoid[t] || deadRows[t] > 0 {
				continue
			}
			ls := m.linkedTo(t)
			switch {
			case m.links[o][t]:
				linked = append(linked, t)
			case len(ls) == 0:
				free = append(free, t)
			default:
				if !noOther {
					other = append(other, t)
				}
			}
		}
		// records that an Unscoped call of this sequence removed for good (no row left)
		for _, t := range sortedKeys(boolSet(k.gone)) {
			if _, live := m.recs[t]; !live && !m.soft[t] && !avoid[t] && !k.callUsed[t] {
				gone = append(gone, t)
			}
		}
		var dupCands []*targ
		for _, p := range out {
			if p.class != "new" && p.class != "newkey" && p.class != "gone" {
				dupCands = append(dupCands, p)
			}
		}
		weighted := []string{"new", "new", "new", "newkey", "gone", "gone", "gone", "free", "free", "free", "linked", "linked", "other", "other", "dup"}
		if forDelete {
			weighted = []string{"linked", "linked", "linked", "linked", "linked", "free", "other", "other", "dup", "absent"}
		}
		avail := map[string]bool{"new": allowNew && (!k.spec.assigned || len(k.universe) > 0), "newkey": allowNew && !k.spec.assigned && !k.spec.softJoin && !k.spec.noNewKey,
			"gone": allowNew && len(gone) > 0, "absent": forDelete && (len(gone) > 0 || !k.spec.assigned || len(k.universe) > 0),
			"free": len(free) > 0, "linked": len(linked) > 0, "other": len(other) > 0, "dup": len(dupCands) > 0}
		var classes []string
		for _, cl := range weighted {
			if avail[cl] {
				classes = append(classes, cl)
			}
		}
		if len(classes) == 0 {
			return out
		}
		cl := core.Pick(r, classes)
		var t *targ
		switch cl {
		case "new":
			// a record that does not exist yet; its key comes from the database, or (application-
			// assigned keys) with the value
			k.newSeq++
			if k.spec.assigned {
				i := r.Intn(len(k.universe))
				t = &targ{key: k.universe[i], name: fmt.Sprintf("n%d", k.newSeq), class: "new"}
				k.universe = append(k.universe[:i], k.universe[i+1:]...)
			} else {
				t = &targ{name: fmt.Sprintf("n%d", k.newSeq), class: "new"}
			}
		case "newkey":
			// a record that does not exist yet, with a key chosen by the application although the
			// database could assign one (far away from the keys the database hands out)
			k.newSeq++
			t = &targ{key: fmt.Sprint(1000 - 10*k.newSeq), name: fmt.Sprintf("n%d", k.newSeq), class: "newkey"}
			k.callUsed[t.key] = true
		case "gone":
			// a value of a record that an earlier Unscoped call of the sequence removed: key still set
			key := core.Pick(r, gone)
			t = &targ{key: key, name: k.gone[key], class: "gone", keyOnly: r.Chance(1, 5)}
			k.callUsed[key] = true
		case "absent":
			// Delete of a record that has no row (removed earlier, or never stored)
			switch {
			case len(gone) > 0 && (r.Bool() || (k.spec.assigned && len(k.universe) == 0)):
				key := core.Pick(r, gone)
				t = &targ{key: key, name: k.gone[key], class: "absent", keyOnly: r.Bool()}
			case k.spec.assigned:
				t = &targ{key: core.Pick(r, k.universe), name: "never", class: "absent", keyOnly: r.Bool()}
			default:
				t = &targ{key: fmt.Sprint(2000 + r.Intn(5)), name: "never", class: "absent", keyOnly: r.Bool()}
			}
		case "free", "linked", "other":
			pool := map[string][]string{"free": free, "linked": linked, "other": other}[cl]
			key := core.Pick(r, pool)
			t = &targ{key: key, name: m.recs[key], class: cl, keyOnly: r.Chance(1, 5)}
		case "dup":
			p := core.Pick(r, dupCands)
			t = &targ{key: p.key, name: p.name, class: "dup", keyOnly: r.Chance(1, 5)}
		}
		out = append(out, t)
	}
	return out
}

// splitArgs distributes targets over arguments of random literal forms.
func (k *kase) splitArgs(ts []*targ, forDelete bool) []arg {
	var args []arg
	for len(ts) > 0 {
		n := k.r.Range(1, len(ts))
		forms := []string{"slice", "ptrslice", "sliceptr"}
		if n == 1 {
			forms = []string{"ptr", "ptr", "ptr", "slice", "ptrslice", "sliceptr"}
			if forDelete {
				forms = append(forms, "val", "val")
			}
		}
		args = append(args, k.spec.buildArg(core.Pick(k.r, forms), ts[:n]))
		ts = ts[n:]
	}
	if (forDelete || !k.spec.single) && k.r.Chance(1, 10) {
		// a slice in which nothing was collected among (Delete without targets: instead of) the arguments: it names no target
		at := k.r.Intn(len(args) + 1)
		e := k.spec.buildArg(core.Pick(k.r, emptyForms), nil)
		args = append(args[:at], append([]arg{e}, args[at:]...)...)
		k.c.Inc("calls_with_an_empty_slice_among_the_arguments")
	}
	return args
}

var emptyForms = []string{"slice", "ptrslice", "sliceptr", "nilslice"}

func (k *kase) genStep(i int) *step {
	r, s := k.r, k.spec
	st := &step{}
	k.callUsed = map[string]bool{}
	st.op = core.Pick(r, []string{"Append", "Append", "Append", "Replace", "Replace", "Delete", "Delete", "Clear", "Count", "Find"})
	switch k.um {
	case 1:
		st.unscoped = true
	case 2:
		st.unscoped = r.Bool()
	}
	// one call in four (kinds whose owner has further relations to the same records: one in two) is made in a
	// session that saves a value with ALL its relations
	if r.Chance(1, 4) || (len(s.others) > 0 && r.Chance(1, 3)) {
		st.full = true
	}
	reads := st.op == "Count" || st.op == "Find"
	if st.unscoped && (s.soft || s.softJoin) && s.store != fkOwner && !reads {
		// (Count / Find through db.Unscoped() read soft-deleted rows on purpose: not generated;
		// belongs to: whether db.Unscoped() makes the deletion of the old target permanent differs
		// between Delete and Replace/Clear and is not fixed by the statement: not generated)
		st.hard = r.Chance(1, 3)
	}
	switch k.mode {
	case 0:
		st.owners = k.vals[:1]
	case 1:
		st.owners = []*ownerVal{core.Pick(r, k.vals)}
	case 2:
		if r.Chance(3, 5) {
			st.sliceLvl = true
			st.owners = k.vals
			st.byVal = k.ptrElems && r.Bool()
		} else {
			st.owners = []*ownerVal{core.Pick(r, k.vals)}
		}
	}
	noOther := k.noShare
	avoid := map[string]bool{}
	crossAvoid := k.noShare
	if st.sliceLvl && st.unscoped && s.store == fkTarget && (st.op == "Append" || st.op == "Replace") {
		// which record an Unscoped call deletes when one call moves a target between two of
		// its owners is not fixed by the statement: not generated
		crossAvoid = true
		for _, ov := range k.vals {
			for t := range k.m.links[ov.ok] {
				avoid[t] = true
			}
		}
	}
	switch st.op {
	case "Append", "Replace":
		if k.genNone(st) {
			break
		}
		if st.sliceLvl {
			var named []*targ // existing records the call names for the owners handled so far
			for idx, ov := range st.owners {
				av := map[string]bool{}
				for t := range avoid {
					if !k.m.links[ov.ok][t] {
						av[t] = true
					}
				}
				if st.op == "Append" && s.store == fkTarget && !s.single {
					// a later owner of the same call would save its whole in-memory field again
					// (documented Append behaviour) before it could be reloaded: not generated
					for _, later := range st.owners[idx+1:] {
						for t := range later.mem {
							av[t] = true
						}
					}
				}
				var ts []*targ
				// relations in which one record may be linked to several owners (join rows; key columns of
				// several owners naming one record): one call in three names a record for this owner that
				// it names for an earlier owner as well
				var again *targ
				if len(named) > 0 && (s.store == joinRows || (s.store == fkOwner && !k.noShare)) && r.Chance(1, 3) {
					if p := core.Pick(r, named); !av[p.key] {
						again = &targ{key: p.key, name: p.name, class: "samecall", keyOnly: r.Chance(1, 5)}
						k.c.Inc("slice_calls_naming_one_record_for_two_owners")
					}
				}
				if s.single {
					ts = k.pickTargets(ov.ok, 1, false, true, av, noOther)
					if len(ts) == 0 {
						return nil
					}
					if again != nil {
						ts = []*targ{again}
					}
					st.args = append(st.args, s.buildArg("ptr", ts))
				} else {
					n := core.Pick(r, []int{0, 1, 1, 1, 2, 2, 3})
					ts = k.pickTargets(ov.ok, n, false, true, av, noOther)
					if again != nil {
						at := r.Intn(len(ts) + 1)
						ts = append(ts[:at:at], append([]*targ{again}, ts[at:]...)...)
					}
					form := core.Pick(r, []string{"slice", "ptrslice", "sliceptr"})
					if len(ts) == 1 && r.Bool() {
						form = "ptr"
					}
					st.args = append(st.args, s.buildArg(form, ts))
				}
				for _, t := range ts {
					if t.class == "free" || t.class == "linked" || t.class == "other" {
						named = append(named, t)
					}
				}
				if crossAvoid {
					for _, t := range ts {
						if t.key != "" {
							avoid[t.key] = true
						}
					}
				}
			}
		} else {
			o := st.owners[0].ok
			if s.single {
				ts := k.pickTargets(o, 1, false, true, avoid, noOther)
				if len(ts) == 0 {
					return nil
				}
				st.args = []arg{s.buildArg("ptr", ts)}
			} else {
				n := core.Pick(r, []int{1, 1, 1, 2, 2, 3, 4})
				if st.op == "Replace" && r.Chance(1, 12) {
					n = 0
				}
				ts := k.pickTargets(o, n, false, true, avoid, noOther)
				if n == 0 {
					st.none = true
					st.args = []arg{s.buildArg(core.Pick(r, emptyForms), nil)}
				} else {
					st.args = k.splitArgs(ts, false)
				}
			}
		}
	case "Delete":
		// any owner of the call may hold the named targets
		o := core.Pick(r, st.owners).ok
		n := core.Pick(r, []int{0, 1, 1, 1, 2, 2, 3})
		if n == 0 && !r.Chance(1, 4) {
			n = 1
		}
		ts := k.pickTargets(o, n, true, false, nil, false)
		if len(ts) == 0 {
			k.c.Inc("delete_without_targets")
			if s.composite {
				k.c.Inc("delete_without_targets_composite_keys")
			}
		}
		st.args = k.splitArgs(ts, true)
	}
	// how the handle is obtained: mostly one chain; one scoped call in three goes through a handle from
	// which an Unscoped() variant was derived before (the variant is a separate handle: the call stays
	// scoped); one Unscoped call in four goes through Unscoped().Unscoped()
	if st.unscoped {
		if r.Chance(1, 4) {
			st.via = viaTwice
		}
	} else if r.Chance(1, 3) {
		st.via = viaSibling
	}
	k.genHeld(st)
	// literal call
	recv := st.owners[0].lit
	if st.sliceLvl {
		recv = "&owners"
		if st.byVal {
			recv = "owners"
		}
	}
	db := "db"
	if st.full {
		db = "db.Session(&gorm.Session{FullSaveAssociations: true})"
	}
	if st.hard {
		db += ".Unscoped()"
	}
	call := fmt.Sprintf("%s.Model(%s).Association(%q)", db, recv, s.field)
	if st.via == viaSibling {
		call = "h := " + call + "; purge := h.Unscoped(); _ = purge; h"
	}
	if st.unscoped {
		call += ".Unscoped()"
	}
	if st.via == viaTwice {
		call += ".Unscoped()"
	}
	lits := []string{}
	for _, a := range st.args {
		lits = append(lits, a.lit)
	}
	if h := st.held; h != nil {
		// the arguments are named, so that the literal can show which value the other field holds
		pre := ""
		for i, a := range st.args {
			pre += fmt.Sprintf("a%d := %s; ", i+1, a.lit)
			lits[i] = fmt.Sprintf("a%d", i+1)
		}
		ov := strings.TrimPrefix(st.owners[h.owner].lit, "&")
		if h.ai >= 0 {
			h.expr = argPtrLit(fmt.Sprintf("a%d", h.ai+1), st.args[h.ai], h.ti)
		} else {
			h.expr = fmt.Sprintf("%s.%s[%d]", ov, s.field, h.mi)
		}
		call = fmt.Sprintf("%s%s.%s = %s; %s", pre, ov, h.other.field, h.expr, call)
	}
	switch st.op {
	case "Find":
		call += ".Find(&out)"
	default:
		call += "." + st.op + "(" + strings.Join(lits, ", ") + ")"
	}
	if h := st.held; h != nil {
		call += fmt.Sprintf("; %s.%s = nil", strings.TrimPrefix(st.owners[h.owner].lit, "&"), h.other.field)
	}
	st.call = call
	return st
}

// genHeld: two full Append / Replace calls in three (kinds with relSpec.others, calls that name a target):
// before the call the caller stores, in another relation field of one owner value of the call, a pointer to
// one of the values this call passes for that owner (any position, any class) or (Append, one in four) to a
// value the relation field holds already; after the call the other field is set to nil again. The relation
// of the kind must come out as the call defines it - whatever else a full save stores on the way.
func (k *kase) genHeld(st *step) {
	r, s := k.r, k.spec
	if !st.full || st.none || len(s.others) == 0 || (st.op != "Append" && st.op != "Replace") || !r.Chance(2, 3) {
		return
	}
	h := &held{other: core.Pick(r, s.others), owner: r.Intn(len(st.owners)), ai: -1}
	type cand struct{ ai, ti int }
	var cands []cand
	for ai, a := range st.args {
		if st.sliceLvl && ai != h.owner {
			continue
		}
		for ti := range a.ts {
			cands = append(cands, cand{ai, ti})
		}
	}
	nMem := reflect.Indirect(st.owners[h.owner].ptr.Elem().FieldByName(s.field)).Len()
	switch {
	case st.op == "Append" && nMem > 0 && len(cands) > 0 && r.Chance(1, 4):
		h.mi = r.Intn(nMem)
	case len(cands) > 0:
		// (the last value passed is as likely as all the others together)
		c := cands[len(cands)-1]
		if r.Bool() {
			c = core.Pick(r, cands)
		}
		h.ai, h.ti, h.t = c.ai, c.ti, st.args[c.ai].ts[c.ti]
	default:
		return
	}
	st.held = h
}

// genNone: every now and then an Append / Replace names no target at all - no argument (typically
// Append(items...) with an empty list: every kind, one owner value or a slice of owner values), or
// (multi-valued kinds, one owner value) only empty / nil slices in which nothing was collected.
// Append then adds nothing - every link, record and in-memory field stays; Replace sets the empty set.
func (k *kase) genNone(st *step) bool {
	r, s := k.r, k.spec
	den := 8
	if st.op == "Replace" {
		den = 14
	}
	if !r.Chance(1, den) {
		return false
	}
	st.none = true
	if st.sliceLvl || s.single || r.Chance(2, 5) {
		return true // no argument at all
	}
	for i, n := 0, core.Pick(r, []int{1, 1, 2}); i < n; i++ {
		st.args = append(st.args, s.buildArg(core.Pick(r, emptyForms), nil))
	}
	return true
}

func (k *kase) assoc(recv interface{}, st *step) *gorm.Association {
	db := H.DB.Session(&gorm.Session{})
	if st != nil && st.full {
		db = H.DB.Session(&gorm.Session{FullSaveAssociations: true})
	}
	if st != nil && st.hard {
		db = db.Unscoped()
	}
	a := db.Model(recv).Association(k.spec.field)
	if st != nil && st.via == viaSibling {
		// the caller keeps a handle and derives an Unscoped() variant from it (for a later purge);
		// the handle itself is then used for the - scoped - call
		purge := a.Unscoped()
		_ = purge
	}
	if st != nil && st.unscoped {
		a = a.Unscoped()
	}
	if st != nil && st.via == viaTwice {
		a = a.Unscoped()
	}
	return a
}

const (
	viaChain   = iota // db.Model(v).Association(f)[.Unscoped()].Op(...)
	viaSibling        // h := db.Model(v).Association(f); _ = h.Unscoped(); h.Op(...) - a scoped call
	viaTwice          // db.Model(v).Association(f).Unscoped().Unscoped().Op(...)
)

// readUnscoped: Count / Find through db.Model(v).Association(f).Unscoped()
var readUnscoped = &step{unscoped: true}

type problem struct {
	what string
	msg  string
	unsc bool // a Count / Find issued through Association(..).Unscoped()
	slc  bool // a Count / Find issued on a slice of owner values
}

// sliceLinks: what a slice of owner values holds - its links as a sorted multiset of target keys (one
// entry per (owner, target) link) and the distinct linked records.
func (m *model) sliceLinks(owners []string) (links, set []string) {
	seen := map[string]bool{}
	for _, o := range owners {
		for t := range m.links[o] {
			links = append(links, t)
			seen[t] = true
		}
	}
	sort.Strings(links)
	return links, sortedKeys(seen)
}

// checkSliceCount / checkSliceFind: Count and Find on a slice of owner values report exactly the links
// of these owners - one per (owner, target) pair: a record linked to two of the owners through join rows
// is two links. Belongs to: the key columns of two owners may name the same record; gorm reads the
// referenced records there, so the distinct records are accepted as well as one per link.
func (k *kase) checkSliceCount(n int64, owners []string) string {
	links, set := k.m.sliceLinks(owners)
	if len(links) != len(set) {
		k.c.Inc("owner_slice_reads_with_a_record_linked_to_several_of_the_owners")
	}
	if n == int64(len(links)) || (k.spec.store == fkOwner && n == int64(len(set))) {
		return ""
	}
	return fmt.Sprintf("= %d, the owners %v hold %d links %v (%d distinct records)", n, owners, len(links), links, len(set))
}

func (k *kase) checkSliceFind(found []string, owners []string) string {
	links, set := k.m.sliceLinks(owners)
	if len(links) != len(set) {
		k.c.Inc("owner_slice_reads_with_a_record_linked_to_several_of_the_owners")
	}
	if eqStrs(found, links) || (k.spec.store == fkOwner && eqStrs(found, set)) {
		return ""
	}
	return fmt.Sprintf("returned %v, the owners %v hold the links %v (one row per link)", found, owners, links)
}

func (k *kase) findKeys(recv interface{}, st *step) ([]string, error) {
	out := reflect.New(reflect.SliceOf(k.spec.targetT))
	if err := k.assoc(recv, st).Find(out.Interface()); err != nil {
		return nil, err
	}
	var keys []string
	for i := 0; i < out.Elem().Len(); i++ {
		keys = append(keys, k.spec.pkOf(out.Elem().Index(i)))
	}
	sort.Strings(keys)
	return keys, nil
}

func distinct(xs []string) []string {
	set := map[string]bool{}
	for _, x := range xs {
		set[x] = true
	}
	return sortedKeys(set)
}

func eqStrs(a, b []string) bool {
	if len(a) != len(b) {
		return false
	}
	for i := range a {
		if a[i] != b[i] {
			return false
		}
	}
	return true
}

// exec runs the step through gorm and returns the error of the call plus (Count/Find) results.
func (k *kase) exec(st *step) (err error, count int64, found []string) {
	var recv interface{} = st.owners[0].ptr.Interface()
	if st.sliceLvl {
		recv = k.slice.Interface()
		if st.byVal {
			recv = k.slice.Elem().Interface()
		}
	}
	vals := make([]interface{}, len(st.args))
	for i, a := range st.args {
		vals[i] = a.val
	}
	if h := st.held; h != nil {
		ov := st.owners[h.owner].ptr.Elem()
		rel := func() reflect.Value { return reflect.Indirect(ov.FieldByName(k.spec.field)) }
		var p reflect.Value
		if h.ai >= 0 {
			p = argPtr(st.args[h.ai], h.ti)
		} else {
			p = rel().Index(h.mi)
		}
		ov.FieldByName(h.other.field).Set(p)
		defer func() {
			ov.FieldByName(h.other.field).Set(reflect.Zero(p.Type()))
			h.key = k.spec.pkOf(p.Elem())
			f := rel()
			h.n, h.pos, h.same, h.rest = f.Len(), -1, 0, 0
			seen := map[string]bool{}
			for i := 0; i < f.Len(); i++ {
				is := f.Index(i).Pointer() == p.Pointer()
				if is {
					h.pos = i
					h.same++
				}
				key := k.spec.pkOf(f.Index(i).Elem())
				if key != "" && seen[key] {
					continue
				}
				seen[key] = true
				h.lastElem = is
				if !is {
					h.rest++
				}
			}
		}()
	}
	switch st.op {
	case "Append":
		err = k.assoc(recv, st).Append(vals...)
	case "Replace":
		err = k.assoc(recv, st).Replace(vals...)
	case "Delete":
		err = k.assoc(recv, st).Delete(vals...)
	case "Clear":
		err = k.assoc(recv, st).Clear()
	case "Count":
		a := k.assoc(recv, st)
		count = a.Count()
		err = a.Error
	case "Find":
		found, err = k.findKeys(recv, st)
	}
	return
}

// checkState compares the database, Count/Find and the in-memory values with the model.
func (k *kase) checkState(st *step, eff *effect) []problem {
	s, m := k.spec, k.m
	var ps []problem
	add := func(what, f string, a ...interface{}) {
		ps = append(ps, problem{what: what, msg: fmt.Sprintf(f, a...)})
	}
	// stored links of every owner row (operated owners, bystanders, decoy owner type)
	db := s.readLinks()
	owners := map[string]bool{}
	for o := range m.links {
		owners[o] = true
	}
	for o := range db {
		owners[o] = true
	}
	for _, o := range sortedKeys(owners) {
		var got []string
		for t, n := range db[o] {
			for i := 0; i < n; i++ {
				got = append(got, t)
			}
		}
		sort.Strings(got)
		want := sortedKeys(m.links[o])
		if !eqStrs(got, want) {
			add("links", "stored links of %s are %v, the sequence defines %v", o, got, want)
		}
	}
	k.c.Inc("link_comparisons")
	// target records
	recs := s.readRecs()
	for _, t := range sortedKeys(boolSet(m.recs)) {
		r, ok := recs[t]
		if !ok {
			add("records", "associated record %s (%q) no longer exists", t, m.recs[t])
		} else if r.soft {
			add("records", "associated record %s (%q) is soft-deleted", t, m.recs[t])
		} else if r.name != m.recs[t] {
			k.c.Inc("target_name_changed(not checked)")
		}
	}
	var stored []string
	for t := range recs {
		stored = append(stored, t)
	}
	sort.Strings(stored)
	for _, t := range stored {
		r := recs[t]
		if _, live := m.recs[t]; live {
			continue
		}
		if r.soft && m.soft[t] {
			continue
		}
		if r.soft {
			add("records", "record %s is soft-deleted in the table but the model never had it", t)
		} else if m.soft[t] {
			add("records", "record %s was deleted by an Unscoped association call but is live again", t)
		} else {
			add("records", "record %s exists although the sequence deleted it with Unscoped (or never created it)", t)
		}
	}
	if eff != nil {
		for _, t := range eff.hardGone {
			if _, ok := recs[t]; ok {
				add("records", "record %s should be permanently deleted by the Unscoped call but is still stored", t)
			}
		}
	}
	// Count / Find through every operated value and through a fresh value; in-memory field
	for _, ov := range k.vals {
		want := sortedKeys(m.links[ov.ok])
		fresh := reflect.New(s.ownerT)
		fk := ""
		if s.store == fkOwner {
			fk = s.ownerFK(ov.ok)
		}
		s.setOwner(fresh.Elem(), ov.ok, "o-"+ov.ok, fk)
		for _, via := range []struct {
			name string
			recv interface{}
			how  *step
		}{{ov.lit, ov.ptr.Interface(), nil}, {"a fresh " + s.ownerLit(ov.ok), fresh.Interface(), nil},
			{"a fresh " + s.ownerLit(ov.ok) + " with Association(..).Unscoped()", fresh.Interface(), readUnscoped}} {
			a := k.assoc(via.recv, via.how)
			n := a.Count()
			if a.Error != nil {
				add("error", "Count through %s: %v", via.name, a.Error)
			} else if n != int64(len(want)) {
				add("count", "Count through %s = %d, links of %s are %v", via.name, n, ov.ok, want)
				ps[len(ps)-1].unsc = via.how != nil
			}
			got, err := k.findKeys(via.recv, via.how)
			if err != nil {
				add("error", "Find through %s: %v", via.name, err)
			} else if !eqStrs(got, want) {
				add("find", "Find through %s returned %v, links of %s are %v", via.name, got, ov.ok, want)
				ps[len(ps)-1].unsc = via.how != nil
			}
			k.c.Add("count_find_comparisons", 2)
			if via.how != nil {
				k.c.Add("count_find_comparisons_through_unscoped_handle", 2)
			}
		}
		if !ov.foreign {
			got := distinct(s.memKeys(ov.ptr.Elem()))
			if !eqStrs(got, want) {
				add("inmemory", "in-memory field %s of %s holds records %v, links of %s are %v", s.field, ov.lit, got, ov.ok, want)
			}
			k.c.Inc("inmemory_comparisons")
		} else {
			k.c.Inc("inmemory_skipped(value did not receive every operation)")
		}
	}
	// Count / Find on slices of owner values: the operated slice, and a fresh slice that holds the
	// operated owners in reverse order plus a bystander owner row (whose seeded links often name
	// records the operated owners are linked to as well)
	type view struct {
		name   string
		recv   interface{}
		owners []string
		how    *step
	}
	var views []view
	var opKeys []string
	for _, ov := range k.vals {
		opKeys = append(opKeys, ov.ok)
	}
	if k.mode == 2 {
		views = append(views, view{"&owners", k.slice.Interface(), opKeys, nil})
	}
	var fkeys []string
	for i := len(opKeys) - 1; i >= 0; i-- {
		fkeys = append(fkeys, opKeys[i])
	}
	if len(k.owners) > len(opKeys) {
		fkeys = append(fkeys, k.owners[len(opKeys)])
	}
	fs := reflect.New(reflect.SliceOf(s.ownerT))
	fs.Elem().Set(reflect.MakeSlice(reflect.SliceOf(s.ownerT), len(fkeys), len(fkeys)))
	flits := make([]string, len(fkeys))
	for i, o := range fkeys {
		fk := ""
		if s.store == fkOwner {
			fk = s.ownerFK(o)
		}
		s.setOwner(fs.Elem().Index(i), o, "o-"+o, fk)
		flits[i] = strings.TrimPrefix(s.ownerLit(o), s.ownerT.Name())
	}
	fname := "a fresh &[]" + s.ownerT.Name() + "{" + strings.Join(flits, ", ") + "}"
	views = append(views, view{fname, fs.Interface(), fkeys, nil}, view{fname + " with Association(..).Unscoped()", fs.Interface(), fkeys, readUnscoped})
	for _, v := range views {
		a := k.assoc(v.recv, v.how)
		n := a.Count()
		if a.Error != nil {
			add("error", "Count through %s: %v", v.name, a.Error)
		} else if msg := k.checkSliceCount(n, v.owners); msg != "" {
			add("count", "Count through %s %s", v.name, msg)
			ps[len(ps)-1].unsc, ps[len(ps)-1].slc = v.how != nil, true
		}
		got, err := k.findKeys(v.recv, v.how)
		if err != nil {
			add("error", "Find through %s: %v", v.name, err)
		} else if msg := k.checkSliceFind(got, v.owners); msg != "" {
			add("find", "Find through %s %s", v.name, msg)
			ps[len(ps)-1].unsc, ps[len(ps)-1].slc = v.how != nil, true
		}
		k.c.Add("count_find_comparisons_on_owner_slices", 2)
	}
	return ps
}

func (k *kase) run() {
	c, s := k.c, k.spec
	if err := setupErr[s.group]; err != nil {
		// the models of this kind could not be migrated (on the unchanged tree they can): no record of
		// the relation can be saved, let alone linked
		c.Inc("deviation_schema-setup-failed:" + s.name)
		c.Violation("schema-setup-failed:"+s.name, map[string]interface{}{"relation": s.name, "call": "db.AutoMigrate(<models of group " + s.group + ">)", "observed": err.Error(), "expected": "no error: the join table / key columns of the relation are created"})
		return
	}
	k.seed()
	if k.seedErr != "" {
		c.Inc("deviation_join-table-rejects-link-set:" + s.name)
		c.Violation("join-table-rejects-link-set:"+s.name, map[string]interface{}{"relation": s.name, "observed": k.seedErr, "expected": "a many-to-many join table stores any set of (owner, record) pairs",
			"links(owner->targets)": k.m.linkDump()})
		return
	}
	c.Logf("CASE %d relation=%s mode=%s unscoped=%s seed=%v", c.Case, s.name, modeNames[k.mode], umNames[k.um], k.seedDump)
	for _, l := range k.calls {
		c.Logf("  %s", l)
	}
	fail := func(sig string, st *step, ps []problem) {
		msgs := []string{}
		for _, p := range ps {
			msgs = append(msgs, p.what+": "+p.msg)
		}
		d := map[string]interface{}{"relation": s.name, "key_pools": k.pool, "owner_mode": modeNames[k.mode], "unscoped_mode": umNames[k.um], "initial_state": k.seedDump,
			"calls": k.calls, "problems": msgs, "expected_links": k.m.linkDump(), "stored_links": s.readLinks()}
		if st != nil {
			d["failed_call"] = st.call
		}
		c.Inc("deviation_" + sig)
		c.Violation(sig, d)
	}
	// the seeded state itself must read back as the model
	if ps := k.checkState(nil, nil); len(ps) > 0 {
		if onlySliceReads(ps) {
			fail("count-find-on-owner-slice-differs:"+s.name+":seeded-state", nil, ps)
		} else if onlyUnscopedReads(ps) {
			fail("count-find-through-unscoped-handle-differs:"+s.name+":seeded-state", nil, ps)
		} else {
			fail("seed-readback", nil, ps)
		}
		return
	}
	nSteps := k.r.Range(3, 8)
	for i := 0; i < nSteps; i++ {
		st := k.genStep(i)
		if st == nil {
			continue
		}
		k.calls = append(k.calls, st.call)
		c.Logf("  STEP %d %s", i, st.call)
		c.Inc("steps")
		c.Inc("op_" + st.op)
		if st.unscoped {
			c.Inc("steps_unscoped")
		}
		if st.sliceLvl {
			c.Inc("steps_on_owner_slice")
		}
		if st.byVal {
			c.Inc("steps_on_owner_slice_passed_by_value")
		}
		switch st.via {
		case viaSibling:
			c.Inc("scoped_steps_through_a_handle_an_unscoped_variant_was_derived_from")
			if s.deletesRecords() && st.op != "Count" && st.op != "Find" {
				c.Inc("scoped_writes_through_such_a_handle_on_kinds_where_unscoped_deletes_records")
			}
		case viaTwice:
			c.Inc("unscoped_steps_through_unscoped_twice")
		}
		// snapshot used to attribute a deviation to a known class counterfactually
		snap := k.snapshot()
		err, count, found := k.exec(st)
		var ps []problem
		if st.full {
			c.Inc("steps_in_a_full_save_session")
			c.Inc("steps_in_a_full_save_session_" + st.op)
		}
		if h := st.held; h != nil {
			c.Inc("full_save_calls_with_a_value_held_by_another_relation_too")
			c.Inc("full_save_calls_with_a_value_held_by_" + s.ownerT.Name() + "." + h.other.field)
			if h.ai < 0 {
				c.Inc("full_save_calls_held_value_is_an_element_the_field_held_before")
			}
			switch {
			case h.rest == 0:
				c.Inc("full_save_calls_held_value_is_all_the_field_holds")
			case h.lastElem:
				c.Inc("full_save_calls_held_value_is_the_last_of_several_values")
			case h.pos >= 0:
				c.Inc("full_save_calls_held_value_is_followed_by_other_values")
			}
		}
		if st.none {
			c.Inc("steps_naming_no_target_" + st.op)
			if len(st.args) == 0 {
				c.Inc("steps_without_arguments_" + st.op)
			}
			if s.single {
				c.Inc("steps_naming_no_target_single_valued_kind_" + st.op)
			}
			if st.op == "Append" {
				linked := 0
				for _, ov := range st.owners {
					linked += len(k.m.links[ov.ok])
				}
				if linked > 0 {
					c.Inc("append_nothing_to_owners_that_hold_links")
				}
			}
		}
		if err != nil && st.op == "Append" && st.sliceLvl && len(st.args) == 0 && errors.Is(err, gorm.ErrInvalidValueOfLength) {
			// Append() without arguments on a slice of owners: gorm may refuse the call (one argument per
			// owner is documented); refused or not, it names no target and must change nothing
			c.Inc("append_without_arguments_on_owner_slice_refused(invalid length)")
			err = nil
		}
		if err != nil {
			ps = append(ps, problem{what: "error", msg: fmt.Sprintf("call returned error: %v", err)})
		}
		// keys of brand-new records
		ok := true
		for _, t := range st.flat() {
			c.Inc("target_" + t.class)
			if t.key == "" {
				ids := s.idsByName(t.name)
				if len(ids) != 1 {
					ps = append(ps, problem{what: "records", msg: fmt.Sprintf("brand-new record %q is stored %d times (keys %v), want once", t.name, len(ids), ids)})
					ok = false
					continue
				}
				t.key = ids[0]
			}
			if t.class == "new" || t.class == "newkey" || t.class == "gone" {
				// the call stores the record (again)
				k.m.recs[t.key] = t.name
				delete(k.gone, t.key)
			}
		}
		if !ok || err != nil {
			fail(k.sig(st, ps, snap, false), st, ps)
			return
		}
		names := copyMap(k.m.recs)
		eff := k.m.apply(st)
		for _, t := range eff.hardGone {
			k.gone[t] = names[t]
		}
		if eff.changed {
			k.changes++
		}
		c.Add("links_taken_over_from_another_owner", len(eff.steals))
		c.Add("records_deleted_by_unscoped", len(eff.deleted))
		// bookkeeping of what each value received
		for idx, ov := range st.owners {
			ts := st.tsFor(idx)
			switch st.op {
			case "Append":
				if s.single && len(ts) > 0 {
					ov.mem = map[string]bool{}
				}
				for _, t := range ts {
					ov.mem[t.key] = true
				}
			case "Replace":
				ov.mem = map[string]bool{}
				for _, t := range ts {
					ov.mem[t.key] = true
				}
				ov.foreign = false
			case "Clear":
				ov.mem = map[string]bool{}
				ov.foreign = false
			case "Delete":
				for _, t := range ts {
					delete(ov.mem, t.key)
				}
			}
		}
		if s.single && st.op == "Append" {
			for idx, ov := range st.owners {
				if len(st.tsFor(idx)) > 0 {
					ov.foreign = false // Append on has-one / belongs-to sets the only link
				}
			}
		}
		robbed := map[*ownerVal]bool{}
		for _, stl := range eff.steals {
			for _, ov := range k.vals {
				if ov.ok == stl[0] {
					ov.foreign = true // for the comparison after this step; refreshed below
					robbed[ov] = true
				}
			}
		}
		// explicit Count / Find steps
		if st.op == "Count" || st.op == "Find" {
			var oks []string
			for _, ov := range st.owners {
				oks = append(oks, ov.ok)
			}
			if st.op == "Count" {
				if msg := k.checkSliceCount(count, oks); msg != "" {
					ps = append(ps, problem{"count", "Count() " + msg, st.unscoped, st.sliceLvl})
				}
			} else if msg := k.checkSliceFind(found, oks); msg != "" {
				ps = append(ps, problem{"find", "Find " + msg, st.unscoped, st.sliceLvl})
			}
		}
		ps = append(ps, k.checkState(st, eff)...)
		if len(ps) > 0 {
			fail(k.sig(st, ps, snap, true), st, ps)
			return
		}
		// an owner value that lost a target to another owner is stale by the caller's own
		// doing: it is reloaded from the database (relation loaded) before it is used again
		for _, ov := range k.vals {
			if robbed[ov] {
				k.refresh(ov)
			}
		}
		cls := map[string]bool{}
		for _, t := range st.flat() {
			cls[t.class] = true
		}
		if st.none {
			cls[fmt.Sprintf("none(%d args)", len(st.args))] = true
		}
		sh := fmt.Sprintf("%s/%v/%v/%s/%v", st.op, st.unscoped, st.sliceLvl, strings.Join(sortedKeys(cls), "+"), eff.changed)
		if st.full {
			sh += "/full"
		}
		if h := st.held; h != nil {
			sh += fmt.Sprintf("/%s:%v:%v", h.other.field, h.lastElem, h.rest == 0)
		}
		k.shape = append(k.shape, sh)
	}
	if k.changes >= 2 {
		c.Shape(s.name, k.pool, k.mode, k.ptrElems, k.um, strings.Join(k.shape, ";"))
		c.Inc("nontrivial_sequences")
		c.Inc("nontrivial_" + s.name)
		if c.WantSample() && c.Case%7 == 3 {
			c.Sample(map[string]interface{}{"relation": s.name, "owner_mode": modeNames[k.mode], "initial_state": k.seedDump, "calls": k.calls, "final_links": k.m.linkDump()})
		}
	}
}

// refresh replaces an owner value by the record as stored now: scalar columns and the
// relation field are read with raw SQL (what db.Preload(field).First(&value) would load).
func (k *kase) refresh(ov *ownerVal) {
	s := k.spec
	stored := s.readLinks()[ov.ok]
	recs := s.readRecs()
	var ts []targ
	ov.mem = map[string]bool{}
	for _, t := range sortedKeys(intSet(stored)) {
		if r, ok := recs[t]; ok && !r.soft {
			ts = append(ts, targ{key: t, name: r.name})
			ov.mem[t] = true
		}
	}
	v := ov.ptr.Elem()
	v.Set(reflect.Zero(s.ownerT))
	fk := ""
	if s.store == fkOwner {
		fk = s.ownerFK(ov.ok)
	}
	s.setOwner(v, ov.ok, "o-"+ov.ok, fk)
	s.setRelation(v, ov.ok, ts)
	ov.foreign = false
	k.c.Inc("owner_values_refreshed_after_takeover")
	line := fmt.Sprintf("// %s reloaded from the database after another owner took over one of its targets: db.Preload(%q).First(%s) -> %s %v", ov.lit, s.field, ov.lit, s.field, sortedKeys(ov.mem))
	k.calls = append(k.calls, line)
	k.c.Logf("  %s", line)
}

func intSet(m map[string]int) map[string]bool {
	out := map[string]bool{}
	for k := range m {
		out[k] = true
	}
	return out
}

// onlySliceReads: every disagreement is a Count / Find issued on a slice of owner values.
func onlySliceReads(ps []problem) bool {
	for _, p := range ps {
		if !p.slc {
			return false
		}
	}
	return len(ps) > 0
}

// onlyUnscopedReads: every disagreement is a Count / Find issued through Association(..).Unscoped().
func onlyUnscopedReads(ps []problem) bool {
	for _, p := range ps {
		if !p.unsc {
			return false
		}
	}
	return len(ps) > 0
}

type snapshot struct {
	links map[string]map[string]bool
	dead  map[string]map[string]int  // soft-delete join model: soft-deleted join rows stored before the step
	mem   map[string]map[string]bool // owner key -> keys held by its operated value
	raw   map[string]string          // belongs to through several key columns: the key columns of every owner row as stored before the step
}

func cloneSets(m map[string]map[string]bool) map[string]map[string]bool {
	out := map[string]map[string]bool{}
	for o, set := range m {
		out[o] = map[string]bool{}
		for t := range set {
			out[o][t] = true
		}
	}
	return out
}

func (k *kase) snapshot() *snapshot {
	sn := &snapshot{links: cloneSets(k.m.links), mem: map[string]map[string]bool{}, dead: k.spec.readDead()}
	if k.spec.store == fkOwner && len(k.spec.fks) > 1 {
		sn.raw = k.spec.readRawFK()
	}
	for _, ov := range k.vals {
		sn.mem[ov.ok] = map[string]bool{}
		for t := range ov.mem {
			sn.mem[ov.ok][t] = true
		}
	}
	return sn
}

func sameLinks(model map[string]map[string]bool, db map[string]map[string]int) bool {
	for o, set := range model {
		if len(set) != len(db[o]) {
			return false
		}
		for t := range set {
			if db[o][t] != 1 {
				return false
			}
		}
	}
	for o, set := range db {
		if len(set) > 0 && model[o] == nil {
			return false
		}
	}
	return true
}

func argKeys(st *step, i int) []string {
	var out []string
	for _, t := range st.tsFor(i) {
		if t.key != "" {
			out = append(out, t.key)
		}
	}
	return out
}

// sig gives every class of deviation one stable signature. A named class is only assigned
// when the stored links equal what the class predicts (counterfactual model) resp. when the
// circumstances and the kinds of disagreement are exactly those of the class.
func (k *kase) sig(st *step, ps []problem, sn *snapshot, applied bool) string {
	s := k.spec
	whats := map[string]bool{}
	for _, p := range ps {
		whats[p.what] = true
	}
	only := func(allowed ...string) bool {
		for w := range whats {
			ok := false
			for _, a := range allowed {
				ok = ok || a == w
			}
			if !ok {
				return false
			}
		}
		return true
	}
	stored := s.readLinks()
	if applied && st.via == viaSibling && !st.unscoped && s.deletesRecords() && only("records") && sameLinks(k.m.links, stored) {
		// counterfactual: the scoped call behaved like the Unscoped() variant that was derived from its
		// handle - the links are right, and the records that are gone (or soft-deleted) are records
		// whose link to an owner of the call this very call removed
		unlinked := map[string]bool{}
		for _, ov := range st.owners {
			for t := range sn.links[ov.ok] {
				if !k.m.links[ov.ok][t] {
					unlinked[t] = true
				}
			}
		}
		recs := s.readRecs()
		lost, within := 0, true
		for t := range k.m.recs {
			if r, ok := recs[t]; !ok || r.soft {
				lost++
				within = within && unlinked[t]
			}
		}
		if lost > 0 && within {
			return "scoped-call-deletes-records-after-unscoped-variant-was-derived-from-its-handle:" + s.name + ":" + st.op
		}
	}
	if applied && s.store == joinRows && st.op == "Replace" && st.sliceLvl {
		// counterfactual: the clean-up keeps every join row whose target occurs in ANY argument
		all := map[string]bool{}
		for i := range st.owners {
			for _, t := range argKeys(st, i) {
				all[t] = true
			}
		}
		alt := cloneSets(k.m.links)
		for _, ov := range st.owners {
			for t := range sn.links[ov.ok] {
				if all[t] {
					alt[ov.ok][t] = true
				}
			}
		}
		if sameLinks(alt, stored) && !sameLinks(k.m.links, stored) {
			return "many2many-owner-slice-replace-keeps-other-owners-targets"
		}
	}
	if applied && s.store == joinRows && !s.assigned && (st.op == "Append" || st.op == "Replace") {
		// counterfactual: the targets of one owner are stored by one INSERT ... ON CONFLICT DO NOTHING
		// RETURNING id; the returned keys are handed to the values without a key in order, values
		// that came with a key are skipped - also when the INSERT did store them. The j-th keyless
		// record then receives the key of the j-th stored row.
		alt := cloneSets(k.m.links)
		shifted := false
		for i, ov := range st.owners {
			ts := st.tsFor(i)
			set := map[string]bool{}
			if st.op == "Append" {
				for t := range sn.links[ov.ok] {
					set[t] = true
				}
			}
			var inserted []string
			var keyless []*targ
			for _, t := range ts {
				switch t.class {
				case "new":
					inserted = append(inserted, t.key)
					keyless = append(keyless, t)
				case "newkey", "gone":
					inserted = append(inserted, t.key)
					set[t.key] = true
				default:
					set[t.key] = true
				}
			}
			for j, t := range keyless {
				set[inserted[j]] = true
				shifted = shifted || inserted[j] != t.key
			}
			alt[ov.ok] = set
		}
		if shifted && sameLinks(alt, stored) && !sameLinks(k.m.links, stored) {
			if st.full {
				// (the known finding is about the ON CONFLICT DO NOTHING insert of a call outside a full-save session)
				return "many2many-keyless-new-record-after-keyed-new-record-takes-its-key:full-save"
			}
			return "many2many-keyless-new-record-after-keyed-new-record-takes-its-key"
		}
	}
	if applied && s.softJoin && (st.op == "Append" || st.op == "Replace") {
		// counterfactual: a link whose join row is still stored soft-deleted (left by an earlier
		// removal) is not stored again - the INSERT of the join row conflicts with the dead row
		alt := cloneSets(k.m.links)
		dropped := false
		for i, ov := range st.owners {
			for _, t := range argKeys(st, i) {
				if sn.dead[ov.ok][t] > 0 && !sn.links[ov.ok][t] && alt[ov.ok][t] {
					delete(alt[ov.ok], t)
					dropped = true
				}
			}
		}
		if dropped && sameLinks(alt, stored) && !sameLinks(k.m.links, stored) {
			return "many2many-soft-delete-join-model-relink-after-removal-not-stored"
		}
	}
	if applied && st.full && s.store == fkOwner && len(s.fks) > 1 && (st.op == "Append" || st.op == "Replace") {
		// counterfactual: in a full-save session the owner row is written without a column selection, so a
		// written: that part keeps what the row held before (NULL, or the part of the previous key)
		alt := cloneSets(k.m.links)
		kept := false
		for i, ov := range st.owners {
			ts, old := argKeys(st, i), sn.raw[ov.ok]
			if len(ts) != 1 || old == "" {
				continue
			}
			np, op := keyParts(s.fks, ts[0]), keyParts(s.fks, old)
			for j, f := range s.fks {
				if np[j] == "" || (f.isInt && np[j] == "0") {
					kept = kept || np[j] != op[j]
					np[j] = op[j]
				}
			}
			alt[ov.ok] = map[string]bool{strings.Join(np, ksep): true}
		}
		if kept && sameLinks(alt, stored) && !sameLinks(k.m.links, stored) {
			return "belongs-to-full-save-keeps-old-value-of-zero-valued-key-part:" + s.name
		}
	}
	if h := st.held; applied && h != nil && s.store == fkTarget && h.rest == 0 && h.key != "" && only("links", "count", "find", "inmemory") {
		// counterfactual: every value the relation field holds was saved through ANOTHER relation field of
		// the owner value earlier in the same full save, and the save of this relation was skipped as
		// "saved already": the row of the value carries the key column as the value held it before the call
		// (none - the values passed are not loaded from a link) and the link is not stored
		alt := cloneSets(k.m.links)
		for o := range alt {
			delete(alt[o], h.key)
		}
		if sameLinks(alt, stored) && !sameLinks(k.m.links, stored) {
			return "full-save-skips-relation-whose-values-were-all-saved-through-another-relation:" + s.name
		}
	}
	if s.store == fkOwner && (!applied || sameLinks(k.m.links, stored)) {
		// (classes of the two integer-key belongs-to kinds keep their names; other kinds carry theirs)
		keyKind, kind := ":"+s.name, ":"+s.name
		switch s.name {
		case "belongs_to":
			keyKind, kind = ":pointer-key", ""
		case "belongs_to_valkey":
			keyKind, kind = ":value-key", ""
		}
		switch {
		case st.unscoped && (st.op == "Append" || st.op == "Replace") && only("records", "count", "find"):
			return "belongs-to-unscoped-replace-deletes-wrong-record" + keyKind
		case st.unscoped && st.op == "Delete" && only("records", "count", "find"):
			return "belongs-to-unscoped-delete-deletes-unnamed-record" + kind
		case st.unscoped && st.op == "Clear" && whats["error"]:
			return "belongs-to-unscoped-clear-error" + kind
		case !st.unscoped && st.op == "Delete" && only("count", "find"):
			viaFresh := false
			for _, p := range ps {
				viaFresh = viaFresh || strings.Contains(p.msg, "a fresh")
			}
			if !viaFresh {
				return "belongs-to-delete-keeps-key-in-value" + kind
			}
		}
	}
	if s.composite {
		// not explained by a counterfactual class: colliding keys among the records / owners this call deals with
		var tks, oks []string
		for _, t := range st.flat() {
			tks = append(tks, t.key)
		}
		for _, ov := range st.owners {
			_, key := splitOwner(ov.ok)
			oks = append(oks, key)
			tks = append(tks, sortedKeys(sn.links[ov.ok])...)
			tks = append(tks, sortedKeys(sn.mem[ov.ok])...)
			tks = append(tks, sortedKeys(k.m.links[ov.ok])...)
		}
		if collide(tks) || collide(oks) {
			return "composite-key-collision"
		}
	}
	if onlySliceReads(ps) {
		// stored links, records, the in-memory field and Count / Find of every single owner value agree
		// with the model; only Count / Find on a slice of owner values differ
		sg := "count-find-on-owner-slice-differs:" + s.name + ":after-" + st.op
		if onlyUnscopedReads(ps) {
			sg += ":unscoped-handle-only"
		}
		return sg
	}
	if onlyUnscopedReads(ps) {
		// stored links, records, the in-memory field and Count / Find through scoped handles all
		// agree with the model; only Count / Find through Association(..).Unscoped() differ
		return "count-find-through-unscoped-handle-differs:" + s.name + ":after-" + st.op
	}
	parts := []string{ps[0].what, s.name, st.op}
	if st.none {
		parts = append(parts, "no-targets")
	}
	if st.unscoped {
		parts = append(parts, "unscoped")
	}
	if st.full {
		parts = append(parts, "full-save")
	}
	if st.via == viaTwice && only("records") {
		parts = append(parts, "unscoped-twice")
	}
	if st.sliceLvl {
		parts = append(parts, "owner-slice")
	}
	return strings.Join(parts, ":")
}

func run(c *core.Ctx) {
	nk := len(specs)
	k := &kase{c: c, r: c.R, spec: specs[c.Case%nk], mode: (c.Case / nk) % 3, um: (c.Case / (nk * 3)) % 3}
	k.noShare = k.spec.store == fkOwner && k.um != 0
	c.Inc("cases_" + k.spec.name)
	c.Inc("cases_mode_" + modeNames[k.mode])
	c.Inc("cases_" + umNames[k.um])
	k.run()
}

var Engine = &core.Engine{
	ID:    "C12",
	Level: "exploration",
	Rule: "one sequence per case: relation kind (has many, has many with soft-delete targets, has one, belongs to with value / pointer key column, many-to-many, polymorphic has many, polymorphic has one, many-to-many with two-column string keys; soft delete: has one, polymorphic has many and belongs to with soft-delete targets, many-to-many through a join model with a soft-delete column (SetupJoinTable), where a removed link is a soft-deleted join row; " +
		"key shapes: belongs to a record with an application-assigned string key, belongs to a record with a two-column (integer,string) key through value key columns, has many through a two-column foreign key, many-to-many with two-column keys on both sides - in these three the keys are drawn from pools in which a part holds its zero value (site 0, slug \"\", locale \"\") and keys share parts; " +
		"keys that are not the conventional ID column: many-to-many and has many that reference a NATURAL key - a renamed, sized, uniquely indexed string column that is not the primary key (foreignKey / references; tags with several of column, index, unique, uniqueIndex in different orders; values carry natural key and primary key as a loaded record does), many-to-many between models whose primary keys live in renamed, explicitly auto-incremented columns - for these the join table is the one gorm generates from the tags of the referenced columns (its column names are read from the parsed relation); " +
		"polymorphic shapes: polymorphic:Owner, polymorphicType + polymorphicId named one by one, and a polymorphicValue chosen by the application (usr) next to a decoy owner type with the default value) " +
		"x owner mode (one owner value; two owner values; a slice of 1..3 owner values - []Owner or []*Owner, the latter also passed by value - incl. calls on single elements) x scoping (scoped; Unscoped; mixed) are enumerated from the case index; " +
		"owners/targets/links are seeded with raw SQL (bystander owners, a decoy polymorphic owner type with equal keys, optionally links of the operated owners; soft-delete kinds: 0..3 leftovers of earlier removals that are not links - soft-deleted target rows whose key column still names an owner, soft-deleted join rows); 3..8 random steps Append/Replace/Delete/Clear/Count/Find (every one of them, Count and Find included, through Association(..) or Association(..).Unscoped() according to the scoping of the case; writes on soft-delete kinds also behind db.Unscoped()) - how the handle is obtained varies: one chain; (one scoped call in three) a kept handle h from which an Unscoped() variant was derived first - h := db.Model(v).Association(f); purge := h.Unscoped(); h.Op(..), a scoped call that must only unlink: counted; (one Unscoped call in four) Association(f).Unscoped().Unscoped() - with targets drawn from brand-new (key from the database), brand-new with a key chosen by the application, a value of a record that an earlier Unscoped step of the sequence removed for good (key still set), existing unlinked, already linked, linked to another owner, duplicate-in-call, (slice-level Append / Replace on many-to-many and belongs-to kinds, one call in three per later owner) a record the same call names for an earlier owner of the slice as well, and (Delete) a record without a row, in literal forms &T, T, []T, &[]T, []*T; " +
		"sessions: one step in four (kinds with further relations, below: about one in two) is made in db.Session(&gorm.Session{FullSaveAssociations: true}) - every operation, reads included; an Append / Replace then saves the owner value with ALL its relation fields and every column of the passed records, and must still define exactly the same links; " +
		"a value held by TWO relation fields (kinds whose relation field holds pointers and whose owner model has further pointer relations to the same records through key columns of their own: has many with soft-delete targets + User.TopSItem (has one) / User.FavSItem (belongs to); many-to-many with renamed keys + Author.FavBook (belongs to); many-to-many with two-column string keys + Org.Main (belongs to, two key columns) - gorm saves belongs to before the owner row, then has one, has many, many-to-many): in two full-save Append / Replace calls in three that name a target, the caller first stores in such a field of one owner value of the call a pointer to one of the VERY values the call passes for that owner (any literal form: a, &a[i], &(*a)[i], a[i]; any target class; half of the time the last value passed, else any position) or (Append, one in four) to an element the relation field already holds, and sets the field to nil again after the call; counted by where the value ends up among the values gorm saves for the relation (the only one / the last of several / followed by others); " +
		"calls that name NO target: about one Append in eight and one Replace in ten has no argument at all (Append(items...) with an empty list - every kind incl. has one / belongs to / polymorphic has one, one owner value and a slice of owner values) or (multi-valued kinds) only empty / nil slices ([]T{}, &[]T{}, []*T{}, []T(nil)); one call in ten (multi-valued Append/Replace, every Delete) carries such an empty slice among its other arguments; Delete without targets is Delete() or Delete(<empty slice>); Append of nothing must leave links, records, Count/Find and the in-memory field as they are (on owners that hold links: counted), Replace of nothing is Clear; " +
		"after every step raw-SQL links and target rows, Count/Find (operated value and fresh value through a scoped handle, fresh value also through an Unscoped() association handle), Count/Find on SLICES of owner values (the operated slice; a fresh slice holding the operated owners in reverse order plus a bystander owner row, through a scoped and an Unscoped() association handle - in every owner mode, so records linked to several owners of the slice are the rule: counted) and the in-memory relation field are compared with the link-set model; on a slice, Count must be the number of (owner, target) links and Find must return one row per link; distinct = (kind, key pools, owner mode, slice element kind, scoping, per step: op, unscoped, slice-level, target classes, changed); non-trivial = at least two steps changed the link set",
	Assumptions: []string{
		"every association OPERATION is made on a fresh db.Model(value).Association(name): a handle never carries two operations (gorm's handles share one statement and are not reusable). Deriving an Unscoped() variant from a handle is not an operation: the handle stays scoped and is then used for one call",
		"natural-key kinds: a value of a stored record carries its natural key AND its database-assigned primary key (as loaded); a brand-new record carries the natural key only; what gorm does with a value that names a stored natural key but no primary key (a second insert meets the unique index) is not fixed by the statement: not generated",
		"how gorm names the columns of a generated join table is not part of the property (they are read from the parsed relation); a generated join table that cannot be migrated, or that refuses a raw-SQL link set in which a record has two owners / an owner two records, is a violation (schema-setup-failed / join-table-rejects-link-set): no sequence could store those links",
		"many-to-many with renamed primary keys: new records with an application-chosen key are not generated (that class, and known finding KF-C12-7 with it, stays with the plain many-to-many)",
		"has-one / belongs-to Append and Replace get exactly one target (&T) per owner, or no argument at all; Append/Replace on a slice of owners get exactly one argument per owner (association.go: ErrInvalidValueOfLength otherwise), or no argument at all",
		"a slice argument (empty or not) is never passed to a has-one / belongs-to Append / Replace: which element becomes the target, and what an empty one means there, is not fixed by the statement (gorm forwards it to Replace, which re-saves the owner's in-memory field)",
		"Append() without arguments on a slice of owners: gorm may refuse it with ErrInvalidValueOfLength (it does for has many / many-to-many) or accept it (has one / belongs to); either way the call names no target and everything must stay as it is; any other error is a violation",
		"target arguments are addressable (&T, slices); a plain struct value T is only passed to Delete",
		"records that have no row (brand-new, with or without a key; removed earlier) are never passed twice in one call; brand-new records are never passed to Delete (a key without a row is: it must change nothing)",
		"a key never consists of zero values only (gorm treats an all-zero key as 'no key' by design); keys with SOME zero-valued part are generated for owners and targets",
		"a value of a record removed earlier is only passed again when no row is left (belongs to / has one / has many after Unscoped; soft-delete targets only after db.Unscoped()): what Append does with a row that is still stored soft-deleted is not fixed by the statement",
		"application-chosen integer keys (1000-10n) stay clear of the keys the database hands out; after such an insert the database continues above them",
		"has-one / has-many: appending a target that is linked to another owner moves the link (the key column holds one owner); the owner value that lost the target is stale by the caller's own doing (Append re-saves a value's whole relation field, documented behaviour), so it is reloaded from the database (scalar columns + relation field, as db.Preload(field).First(&value)) right after that step and before it is used again; takeovers are counted",
		"a slice-level Append never gives an owner a target that a LATER owner of the same call holds in memory (the later owner would re-save it inside the same call, before any reload is possible)",
		"a value whose links were seeded with raw SQL (not loaded into its relation field) counts as not having received every operation until its next Replace/Clear",
		"belongs-to cases with Unscoped steps never link one target to two owners (deleting a shared target would leave a dangling key the statement says nothing about)",
		"an Unscoped Append/Replace on a slice of has-one/has-many owners never moves a target between two owners of that call",
		"Count / Find on a slice of owners report the links of these owners, one per (owner, target) pair: a record linked to two of the owners through join rows counts twice and is returned twice (has one / has many: a record has one owner, so links and records coincide); belongs to only: when the key columns of several owners name one record, the distinct referenced records are accepted as well as one per link (the statement does not say whether a shared referenced record is one link or several there)",
		"the fresh slice used for reads never names an owner row twice",
		"Delete() / Delete(<empty slice>) without targets is generated for every kind (multi-column keys too, since the empty multi-column IN renders a row of NULLs) and must change nothing",
		"many-to-many: Unscoped removes join rows only (targets survive), as scoped",
		"Association(..).Unscoped() only changes what a removal does to the associated records: Count and Find through an Unscoped() handle must report exactly the links, as through a scoped handle (checked after every step on every kind); Count / Find behind db.Unscoped() (which reads soft-deleted rows on purpose) are not generated",
		"soft-deleted target rows whose key column still names an owner, and soft-deleted join rows of a soft-delete join model, are not links (that is what an Unscoped resp. any removal leaves behind); they are seeded as well and never passed as arguments",
		"belongs to a soft-delete target: writes behind db.Unscoped() are not generated (whether the old target is then removed permanently differs between Delete and Replace/Clear and is not fixed by the statement)",
		"many-to-many through a soft-delete join model: a link is a join row that is not soft-deleted; db.Unscoped() writes may remove join rows permanently or not (not checked); new records with an application-chosen key are not generated for this kind (that class is covered by the plain many-to-many); relinkSoftJoin (c12.go) says whether a target whose join row to the owner is still stored soft-deleted is appended to that owner again",
		"soft-delete targets: a record deleted through Unscoped association mode must be soft-deleted or gone, with db.Unscoped() gone; whether older soft-deleted rows are purged later is not checked",
		"belongs to through value key columns: a row whose key columns are all NULL or zero names no target",
		"only existence of associated records is demanded, not their other columns",
		"db.Session(&gorm.Session{FullSaveAssociations: true}) in front of Association() changes how much an Append / Replace stores (every column of the passed records - only the existence of records is demanded anyway - and every relation field of the owner value), not which links the call defines: the same oracle applies. Owner values hold nothing in their other relation fields, except for the one call in which a field is made to hold one of the values of that call; what the full save writes into the key column(s) of that OTHER relation (s_items.top_user_id, users.fav_s_item_id, authors.fav_book_no, orgs.main_p1/main_p2) is not checked",
		"the other relation field is set right before the call and set to nil right after it (a pointer that stayed there would be saved again by every later full save of that owner value - also after the sequence removed its record - which the statement says nothing about); it only ever points to a value that the relation field of the kind holds after the call as well (Append: passed or already held; Replace: passed)",
		"two deviations of the unchanged tree that this workload shows have signatures of their own, assigned by counterfactual: belongs-to-full-save-keeps-old-value-of-zero-valued-key-part:<kind> (full-save Append / Replace of a belongs-to target whose multi-column key has a zero-valued part: the stored key column(s) equal the new key except that every zero-valued part still holds what the row held before the call) and full-save-skips-relation-whose-values-were-all-saved-through-another-relation:<kind> (has many: every value gorm saves for the relation is the value another relation field holds; the stored links equal the model except that this record is linked to nobody)",
		"not generated: self-referential and circular relations (a target that refers back to its owner), Select / Omit sessions in front of Association(), conditions passed to Find",
	},
	Cases: func(tier string) int {
		// one block = every (relation kind, owner mode, scoping) once
		if tier == "thorough" {
			return len(specs) * 9 * 2000
		}
		return len(specs) * 9 * 160
	},
	Batch: func(tier string) int {
		if tier == "thorough" {
			return len(specs) * 9 * 20
		}
		return len(specs) * 9 * 4
	},
	Run:           run,
	Init:          initEnv,
	MinNontrivial: 3000,
}

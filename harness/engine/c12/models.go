package c12

import (
	"fmt"
	"reflect"
	"strconv"
	"strings"

	"gorm.io/gorm"
	"gorm.io/gorm/schema"
)

// ---- models -----------------------------------------------------------------

// User is the owner of every single-column-key relation kind.
type User struct {
	ID     int64 `gorm:"primaryKey"`
	Name   string
	BossID *int64
	Boss   *Boss // belongs to, pointer field, pointer key column
	CoID   int64
	Co     Co       // belongs to, struct field, non-pointer key column
	Items  []Item   `gorm:"foreignKey:UserID"` // has many, struct elements, non-pointer key column
	SItems []*SItem `gorm:"foreignKey:UserID"` // has many, pointer elements, soft-delete target
	// two more relations to the records of SItems, through key columns of their own (a user's top item: has
	// one; a user's favourite item: belongs to): gorm saves them BEFORE SItems when a value is saved with
	// all its relations (Session{FullSaveAssociations: true}); see relSpec.others
	TopSItem   *SItem `gorm:"foreignKey:TopUserID"`
	FavSItemID *int64
	FavSItem   *SItem `gorm:"foreignKey:FavSItemID"`
	Pet        Pet    `gorm:"foreignKey:UserID"` // has one, struct field
	Tags       []Tag  `gorm:"many2many:user_tags"`
	Toys       []Toy  `gorm:"polymorphic:Owner"`                      // polymorphic has many
	Badge      *Badge `gorm:"polymorphic:Owner;polymorphicValue:usr"` // polymorphic has one, pointer field, type value chosen by the application
	// belongs to a record whose (single, string) key is assigned by the application
	MedalCode *string
	Medal     *Medal `gorm:"foreignKey:MedalCode;references:Code"`
	// belongs to a record with a two-column key (integer + string), value key columns, struct field
	HomeSite int64
	HomeSlug string
	Home     Page `gorm:"foreignKey:HomeSite,HomeSlug;references:Site,Slug"`
	// soft-delete targets of the other relation kinds
	SPet    *SPet  `gorm:"foreignKey:UserID"`                               // has one, pointer field, soft-delete target
	SToys   []SToy `gorm:"polymorphicType:OwnerType;polymorphicId:OwnerID"` // polymorphic has many (type / id columns named one by one), soft-delete target
	SBossID *int64
	SBoss   *SBoss // belongs to a soft-delete target
	// many-to-many through a join model that has a soft-delete column (SetupJoinTable)
	Clubs []Club `gorm:"many2many:memberships"`
}

type SPet struct {
	ID        int64 `gorm:"primaryKey"`
	Name      string
	UserID    *int64
	DeletedAt gorm.DeletedAt
}

type SToy struct {
	ID        int64 `gorm:"primaryKey"`
	Name      string
	OwnerID   int64
	OwnerType string
	DeletedAt gorm.DeletedAt
}

type SBoss struct {
	ID        int64 `gorm:"primaryKey"`
	Name      string
	DeletedAt gorm.DeletedAt
}

type Club struct {
	ID   int64 `gorm:"primaryKey"`
	Name string
}

// Membership: join model of User.Clubs; removing a link soft-deletes its row.
type Membership struct {
	UserID    int64 `gorm:"primaryKey"`
	ClubID    int64 `gorm:"primaryKey"`
	DeletedAt gorm.DeletedAt
}

// Medal: single string key chosen by the application.
type Medal struct {
	Code string `gorm:"primaryKey"`
	Name string
}

// Page: two-column key (integer + string) whose parts may hold their zero value (site 0,
// slug ""); owner of a has-many through a two-column foreign key and of a many-to-many
// whose targets have such a key as well; target of User.Home.
type Page struct {
	Site   int64  `gorm:"primaryKey;autoIncrement:false"`
	Slug   string `gorm:"primaryKey"`
	Name   string
	Notes  []Note  `gorm:"foreignKey:PageSite,PageSlug;references:Site,Slug"`
	Labels []Label `gorm:"many2many:page_labels"`
}

type Note struct {
	ID       int64 `gorm:"primaryKey"`
	Name     string
	PageSite *int64
	PageSlug *string
}

// Label: two-column key (integer + string), the default locale is the empty string.
type Label struct {
	ID     int64  `gorm:"primaryKey;autoIncrement:false"`
	Locale string `gorm:"primaryKey"`
	Name   string
}

// Team is a second polymorphic owner type with the same key values as users (decoy).
type Team struct {
	ID    int64 `gorm:"primaryKey"`
	Name  string
	Toys  []Toy  `gorm:"polymorphic:Owner"`
	Badge *Badge `gorm:"polymorphic:Owner"`
	SToys []SToy `gorm:"polymorphic:Owner"`
}

type Boss struct {
	ID   int64 `gorm:"primaryKey"`
	Name string
}

type Co struct {
	ID   int64 `gorm:"primaryKey"`
	Name string
}

type Item struct {
	ID     int64 `gorm:"primaryKey"`
	Name   string
	UserID int64
}

type SItem struct {
	ID        int64 `gorm:"primaryKey"`
	Name      string
	UserID    *int64
	TopUserID *int64 // key column of User.TopSItem
	DeletedAt gorm.DeletedAt
}

type Pet struct {
	ID     int64 `gorm:"primaryKey"`
	Name   string
	UserID *int64
}

type Tag struct {
	ID   int64 `gorm:"primaryKey"`
	Name string
}

type Toy struct {
	ID        int64 `gorm:"primaryKey"`
	Name      string
	OwnerID   int64
	OwnerType string
}

type Badge struct {
	ID        int64 `gorm:"primaryKey"`
	Name      string
	OwnerID   *int64
	OwnerType string
}

// Org / Part: many-to-many with composite string keys on both sides.
type Org struct {
	K1    string `gorm:"primaryKey"`
	K2    string `gorm:"primaryKey"`
	Name  string
	Parts []*Part `gorm:"many2many:org_parts"` // pointer elements
	// belongs to one of the records Parts links as well (saved before Parts in a full save)
	MainP1 *string
	MainP2 *string
	Main   *Part `gorm:"foreignKey:MainP1,MainP2;references:P1,P2"`
}

type Part struct {
	P1   string `gorm:"primaryKey"`
	P2   string `gorm:"primaryKey"`
	Name string
}

// ---- keys that are not the conventional `ID` column ------------------------------------
//
// Article / Topic / Remark: relations that reference a NATURAL key - a renamed, sized, uniquely
// indexed column that is not the primary key (many-to-many: foreignKey + references on both
// sides, the join table is generated from the tags of these columns; has many: references).
// The tags carry several of the settings gorm has to drop when it derives join-table columns
// (column, index, unique, uniqueIndex), in different orders.
type Article struct {
	ID      int64  `gorm:"primaryKey"`
	Code    string `gorm:"column:acode;size:32;uniqueIndex"`
	Name    string
	Topics  []Topic  `gorm:"many2many:article_topics;foreignKey:Code;References:Slug"`
	Remarks []Remark `gorm:"foreignKey:ArticleCode;references:Code"`
}

type Topic struct {
	ID   int64  `gorm:"primaryKey"`
	Slug string `gorm:"index;column:tslug;size:64;unique"`
	Name string
}

type Remark struct {
	ID          int64 `gorm:"primaryKey"`
	Name        string
	ArticleCode *string `gorm:"column:art;size:32;index"`
}

// Author / Book: primary keys stored in renamed, explicitly auto-incremented columns
// (many-to-many with a generated join table, pointer elements).
type Author struct {
	ID    int64 `gorm:"column:author_no;primaryKey;autoIncrement"`
	Name  string
	Books []*Book `gorm:"many2many:author_books"`
	// belongs to one of the records Books links as well (saved before Books in a full save)
	FavBookID *int64 `gorm:"column:fav_book_no"`
	FavBook   *Book  `gorm:"foreignKey:FavBookID"`
}

type Book struct {
	ID   int64 `gorm:"primaryKey;autoIncrement;column:book_no"`
	Name string
}

// modelGroups: migrated group by group, so that a schema that cannot be set up is reported for
// the relation kinds that use it (setupErr) instead of taking every kind down.
var modelGroups = map[string][]interface{}{
	"":         allModels,
	"articles": {&Article{}, &Topic{}, &Remark{}},
	"authors":  {&Author{}, &Book{}},
}

var setupErr = map[string]error{}

var allModels = []interface{}{&User{}, &Team{}, &Boss{}, &Co{}, &Item{}, &SItem{}, &Pet{}, &Tag{}, &Toy{}, &Badge{}, &Org{}, &Part{}, &Medal{}, &Page{}, &Note{}, &Label{}, &SPet{}, &SToy{}, &SBoss{}, &Club{}}

// ---- relation specifications -------------------------------------------------

const (
	fkTarget = iota // key column(s) on the target row (has one, has many, polymorphic)
	fkOwner         // key column(s) on the owner row (belongs to)
	joinRows        // join table (many to many)
)

const ksep = "|" // separator of key parts in model keys (never part of a generated key part)

// kf is one part of a key: struct field, column, and whether it is an integer (else a string).
type kf struct {
	field string
	col   string
	isInt bool
}

// poolSet: the keys a case draws from. o == nil: owners are users 1..4; t == nil: targets get
// integer keys from the database (1..n seeded), otherwise the application assigns the keys.
type poolSet struct {
	name string
	o, t []string
}

type relSpec struct {
	name      string // relation kind
	field     string // relation field of the owner
	store     int
	single    bool // at most one link per owner
	poly      bool
	soft      bool // the target model has a soft-delete column
	softJoin  bool // many-to-many through a join model with a soft-delete column: a removed link is a soft-deleted join row
	composite bool // string keys whose naive "_" joins collide (signature class composite-key-collision)
	assigned  bool // target keys are chosen by the application (a new record comes with its key)
	ownerT    reflect.Type
	targetT   reflect.Type
	ownerTab  string
	targetTab string
	okeys     []kf   // owner key (default: ID)
	tkeys     []kf   // target key (default: ID)
	fks       []kf   // fkTarget: key columns on the target (-> okeys); fkOwner: on the owner (-> tkeys)
	jt        string // join table, with the columns naming the owner / the target
	jtO, jtT  []string
	pools     []poolSet
	tables    []string          // tables emptied per case
	linkSQL   string            // -> (target key, owner key "table:key")
	recSQL    string            // -> (target key, name, soft-deleted 0/1)
	deadSQL   string            // softJoin: soft-deleted join rows -> (target key, owner key "table:key")
	group     string            // model group (modelGroups) the kind needs
	polyVal   map[string]string // polymorphic: owner table -> type value, where the value is not the table name
	noNewKey  bool              // new records with an application-chosen key are not generated (covered by the plain many-to-many)
	// the relation references a natural key (okeys / tkeys) that is not the primary key: the rows also
	// have a database-assigned primary key, which loaded values carry (looked up with raw SQL)
	oSurr, tSurr *kf
	surr         map[string]int64 // cache of the look-ups of one case
	// others: further relation fields of the owner model that point to records of the SAME target model through
	// key columns of their own (pointer fields; the relation field of the kind holds pointers too, so one value
	// can be held by both). A full save stores them before the relation of the kind.
	others []other
}

type other struct {
	field string
	kind  schema.RelationshipType
}

var idKey = []kf{{"ID", "id", true}}

// keyExpr renders a key as text, parts joined by ksep (NULL parts are shown as <null>).
func keyExpr(cols ...string) string {
	ps := make([]string, len(cols))
	for i, c := range cols {
		ps[i] = "COALESCE(CAST(" + c + " AS TEXT),'<null>')"
	}
	return strings.Join(ps, " || '"+ksep+"' || ")
}

var (
	// two-column keys (integer, string); every key has a non-zero part, many have a zero part,
	// and keys share parts with each other
	pagePool  = []string{"0" + ksep + "index", "1" + ksep + "", "1" + ksep + "index", "2" + ksep + "", "0" + ksep + "home", "1" + ksep + "home", "2" + ksep + "index", "3" + ksep + "x"}
	labelPool = []string{"1" + ksep + "", "1" + ksep + "en", "2" + ksep + "", "0" + ksep + "en", "2" + ksep + "en", "0" + ksep + "de", "3" + ksep + "de", "1" + ksep + "de", "3" + ksep + ""}
	medalPool = []string{"gold", "silver", "bronze", "tin", "g old", "Gold", "iron", "0"}
)

var specs = []*relSpec{
	{name: "has_many", field: "Items", store: fkTarget, ownerT: reflect.TypeOf(User{}), targetT: reflect.TypeOf(Item{}), ownerTab: "users", targetTab: "items",
		fks:     []kf{{"UserID", "user_id", true}},
		tables:  []string{"users", "items"},
		linkSQL: "SELECT CAST(id AS TEXT), 'users:' || user_id FROM items WHERE user_id IS NOT NULL",
		recSQL:  "SELECT CAST(id AS TEXT), name, 0 FROM items"},
	{name: "has_many_soft", field: "SItems", store: fkTarget, soft: true, ownerT: reflect.TypeOf(User{}), targetT: reflect.TypeOf(SItem{}), ownerTab: "users", targetTab: "s_items",
		fks:     []kf{{"UserID", "user_id", true}},
		others:  []other{{"TopSItem", schema.HasOne}, {"FavSItem", schema.BelongsTo}},
		tables:  []string{"users", "s_items"},
		linkSQL: "SELECT CAST(id AS TEXT), 'users:' || user_id FROM s_items WHERE user_id IS NOT NULL AND deleted_at IS NULL",
		recSQL:  "SELECT CAST(id AS TEXT), name, deleted_at IS NOT NULL FROM s_items"},
	{name: "has_one", field: "Pet", store: fkTarget, single: true, ownerT: reflect.TypeOf(User{}), targetT: reflect.TypeOf(Pet{}), ownerTab: "users", targetTab: "pets",
		fks:     []kf{{"UserID", "user_id", true}},
		tables:  []string{"users", "pets"},
		linkSQL: "SELECT CAST(id AS TEXT), 'users:' || user_id FROM pets WHERE user_id IS NOT NULL",
		recSQL:  "SELECT CAST(id AS TEXT), name, 0 FROM pets"},
	{name: "belongs_to_valkey", field: "Co", store: fkOwner, single: true, ownerT: reflect.TypeOf(User{}), targetT: reflect.TypeOf(Co{}), ownerTab: "users", targetTab: "cos",
		fks:     []kf{{"CoID", "co_id", true}},
		tables:  []string{"users", "cos"},
		linkSQL: "SELECT CAST(co_id AS TEXT), 'users:' || id FROM users WHERE co_id IS NOT NULL",
		recSQL:  "SELECT CAST(id AS TEXT), name, 0 FROM cos"},
	{name: "belongs_to", field: "Boss", store: fkOwner, single: true, ownerT: reflect.TypeOf(User{}), targetT: reflect.TypeOf(Boss{}), ownerTab: "users", targetTab: "bosses",
		fks:     []kf{{"BossID", "boss_id", true}},
		tables:  []string{"users", "bosses"},
		linkSQL: "SELECT CAST(boss_id AS TEXT), 'users:' || id FROM users WHERE boss_id IS NOT NULL",
		recSQL:  "SELECT CAST(id AS TEXT), name, 0 FROM bosses"},
	{name: "many2many", field: "Tags", store: joinRows, ownerT: reflect.TypeOf(User{}), targetT: reflect.TypeOf(Tag{}), ownerTab: "users", targetTab: "tags",
		jt: "user_tags", jtO: []string{"user_id"}, jtT: []string{"tag_id"},
		tables:  []string{"users", "tags", "user_tags"},
		linkSQL: "SELECT CAST(tag_id AS TEXT), 'users:' || user_id FROM user_tags",
		recSQL:  "SELECT CAST(id AS TEXT), name, 0 FROM tags"},
	{name: "poly_has_many", field: "Toys", store: fkTarget, poly: true, ownerT: reflect.TypeOf(User{}), targetT: reflect.TypeOf(Toy{}), ownerTab: "users", targetTab: "toys",
		fks:     []kf{{"OwnerID", "owner_id", true}},
		tables:  []string{"users", "teams", "toys"},
		linkSQL: "SELECT CAST(id AS TEXT), COALESCE(owner_type,'') || ':' || owner_id FROM toys WHERE owner_id IS NOT NULL",
		recSQL:  "SELECT CAST(id AS TEXT), name, 0 FROM toys"},
	{name: "poly_has_one", field: "Badge", store: fkTarget, single: true, poly: true, ownerT: reflect.TypeOf(User{}), targetT: reflect.TypeOf(Badge{}), ownerTab: "users", targetTab: "badges",
		fks:     []kf{{"OwnerID", "owner_id", true}},
		tables:  []string{"users", "teams", "badges"},
		polyVal: map[string]string{"users": "usr"},
		linkSQL: "SELECT CAST(id AS TEXT), CASE owner_type WHEN 'usr' THEN 'users' WHEN 'users' THEN 'users?' ELSE COALESCE(owner_type,'') END || ':' || owner_id FROM badges WHERE owner_id IS NOT NULL",
		recSQL:  "SELECT CAST(id AS TEXT), name, 0 FROM badges"},
	{name: "many2many_composite", field: "Parts", store: joinRows, composite: true, assigned: true, ownerT: reflect.TypeOf(Org{}), targetT: reflect.TypeOf(Part{}), ownerTab: "orgs", targetTab: "parts",
		okeys: []kf{{"K1", "k1", false}, {"K2", "k2", false}}, tkeys: []kf{{"P1", "p1", false}, {"P2", "p2", false}},
		jt: "org_parts", jtO: []string{"org_k1", "org_k2"}, jtT: []string{"part_p1", "part_p2"},
		others:  []other{{"Main", schema.BelongsTo}},
		pools:   []poolSet{{"colliding", ownerPoolC, targetPoolC}, {"collision_free", ownerPoolFree, targetPoolFree}},
		tables:  []string{"orgs", "parts", "org_parts"},
		linkSQL: "SELECT part_p1 || '" + ksep + "' || part_p2, 'orgs:' || org_k1 || '" + ksep + "' || org_k2 FROM org_parts",
		recSQL:  "SELECT p1 || '" + ksep + "' || p2, name, 0 FROM parts"},
	// ---- soft delete on the other relation kinds ----
	{name: "has_one_soft", field: "SPet", store: fkTarget, single: true, soft: true, ownerT: reflect.TypeOf(User{}), targetT: reflect.TypeOf(SPet{}), ownerTab: "users", targetTab: "s_pets",
		fks:     []kf{{"UserID", "user_id", true}},
		tables:  []string{"users", "s_pets"},
		linkSQL: "SELECT CAST(id AS TEXT), 'users:' || user_id FROM s_pets WHERE user_id IS NOT NULL AND deleted_at IS NULL",
		recSQL:  "SELECT CAST(id AS TEXT), name, deleted_at IS NOT NULL FROM s_pets"},
	{name: "poly_has_many_soft", field: "SToys", store: fkTarget, poly: true, soft: true, ownerT: reflect.TypeOf(User{}), targetT: reflect.TypeOf(SToy{}), ownerTab: "users", targetTab: "s_toys",
		fks:     []kf{{"OwnerID", "owner_id", true}},
		tables:  []string{"users", "teams", "s_toys"},
		linkSQL: "SELECT CAST(id AS TEXT), COALESCE(owner_type,'') || ':' || owner_id FROM s_toys WHERE owner_id IS NOT NULL AND deleted_at IS NULL",
		recSQL:  "SELECT CAST(id AS TEXT), name, deleted_at IS NOT NULL FROM s_toys"},
	{name: "belongs_to_soft", field: "SBoss", store: fkOwner, single: true, soft: true, ownerT: reflect.TypeOf(User{}), targetT: reflect.TypeOf(SBoss{}), ownerTab: "users", targetTab: "s_bosses",
		fks:     []kf{{"SBossID", "s_boss_id", true}},
		tables:  []string{"users", "s_bosses"},
		linkSQL: "SELECT CAST(s_boss_id AS TEXT), 'users:' || id FROM users WHERE s_boss_id IS NOT NULL",
		recSQL:  "SELECT CAST(id AS TEXT), name, deleted_at IS NOT NULL FROM s_bosses"},
	{name: "many2many_soft_join", field: "Clubs", store: joinRows, softJoin: true, ownerT: reflect.TypeOf(User{}), targetT: reflect.TypeOf(Club{}), ownerTab: "users", targetTab: "clubs",
		jt: "memberships", jtO: []string{"user_id"}, jtT: []string{"club_id"},
		tables:  []string{"users", "clubs", "memberships"},
		linkSQL: "SELECT CAST(club_id AS TEXT), 'users:' || user_id FROM memberships WHERE deleted_at IS NULL",
		deadSQL: "SELECT CAST(club_id AS TEXT), 'users:' || user_id FROM memberships WHERE deleted_at IS NOT NULL",
		recSQL:  "SELECT CAST(id AS TEXT), name, 0 FROM clubs"},
	// ---- key shapes: keys chosen by the application, multi-column keys with zero-valued parts ----
	{name: "belongs_to_strkey", field: "Medal", store: fkOwner, single: true, assigned: true, ownerT: reflect.TypeOf(User{}), targetT: reflect.TypeOf(Medal{}), ownerTab: "users", targetTab: "medals",
		tkeys: []kf{{"Code", "code", false}}, fks: []kf{{"MedalCode", "medal_code", false}},
		pools:   []poolSet{{"strings", nil, medalPool}},
		tables:  []string{"users", "medals"},
		linkSQL: "SELECT " + keyExpr("medal_code") + ", 'users:' || id FROM users WHERE medal_code IS NOT NULL",
		recSQL:  "SELECT " + keyExpr("code") + ", name, 0 FROM medals"},
	{name: "belongs_to_2colkey", field: "Home", store: fkOwner, single: true, assigned: true, ownerT: reflect.TypeOf(User{}), targetT: reflect.TypeOf(Page{}), ownerTab: "users", targetTab: "pages",
		tkeys: []kf{{"Site", "site", true}, {"Slug", "slug", false}}, fks: []kf{{"HomeSite", "home_site", true}, {"HomeSlug", "home_slug", false}},
		pools:  []poolSet{{"zero_parts", nil, pagePool}},
		tables: []string{"users", "pages"},
		// value key columns: (NULL | 0, NULL | "") is "no link"
		linkSQL: "SELECT " + keyExpr("home_site", "home_slug") + ", 'users:' || id FROM users WHERE NOT (COALESCE(home_site,0) = 0 AND COALESCE(home_slug,'') = '')",
		recSQL:  "SELECT " + keyExpr("site", "slug") + ", name, 0 FROM pages"},
	{name: "has_many_2colfk", field: "Notes", store: fkTarget, ownerT: reflect.TypeOf(Page{}), targetT: reflect.TypeOf(Note{}), ownerTab: "pages", targetTab: "notes",
		okeys: []kf{{"Site", "site", true}, {"Slug", "slug", false}}, fks: []kf{{"PageSite", "page_site", true}, {"PageSlug", "page_slug", false}},
		pools:   []poolSet{{"zero_parts", pagePool, nil}},
		tables:  []string{"pages", "notes"},
		linkSQL: "SELECT CAST(id AS TEXT), 'pages:' || " + keyExpr("page_site", "page_slug") + " FROM notes WHERE page_site IS NOT NULL OR page_slug IS NOT NULL",
		recSQL:  "SELECT CAST(id AS TEXT), name, 0 FROM notes"},
	{name: "many2many_2colkeys", field: "Labels", store: joinRows, assigned: true, ownerT: reflect.TypeOf(Page{}), targetT: reflect.TypeOf(Label{}), ownerTab: "pages", targetTab: "labels",
		okeys: []kf{{"Site", "site", true}, {"Slug", "slug", false}}, tkeys: []kf{{"ID", "id", true}, {"Locale", "locale", false}},
		jt: "page_labels", jtO: []string{"page_site", "page_slug"}, jtT: []string{"label_id", "label_locale"},
		pools:   []poolSet{{"zero_parts", pagePool, labelPool}},
		tables:  []string{"pages", "labels", "page_labels"},
		linkSQL: "SELECT " + keyExpr("label_id", "label_locale") + ", 'pages:' || " + keyExpr("page_site", "page_slug") + " FROM page_labels",
		recSQL:  "SELECT " + keyExpr("id", "locale") + ", name, 0 FROM labels"},
	// ---- keys that are not the conventional ID column ----
	{name: "many2many_natural_keys", field: "Topics", store: joinRows, assigned: true, group: "articles", ownerT: reflect.TypeOf(Article{}), targetT: reflect.TypeOf(Topic{}), ownerTab: "articles", targetTab: "topics",
		okeys: []kf{{"Code", "acode", false}}, tkeys: []kf{{"Slug", "tslug", false}}, oSurr: &kf{"ID", "id", true}, tSurr: &kf{"ID", "id", true},
		jt:     "article_topics", // (join columns: resolveJoin)
		pools:  []poolSet{{"natural", codePool, slugPool}},
		tables: []string{"articles", "topics", "article_topics"},
		recSQL: "SELECT tslug, name, 0 FROM topics"},
	{name: "has_many_natural_key", field: "Remarks", store: fkTarget, group: "articles", ownerT: reflect.TypeOf(Article{}), targetT: reflect.TypeOf(Remark{}), ownerTab: "articles", targetTab: "remarks",
		okeys: []kf{{"Code", "acode", false}}, oSurr: &kf{"ID", "id", true}, fks: []kf{{"ArticleCode", "art", false}},
		pools:   []poolSet{{"natural", codePool, nil}},
		tables:  []string{"articles", "remarks"},
		linkSQL: "SELECT CAST(id AS TEXT), 'articles:' || art FROM remarks WHERE art IS NOT NULL",
		recSQL:  "SELECT CAST(id AS TEXT), name, 0 FROM remarks"},
	{name: "many2many_renamed_pk", field: "Books", store: joinRows, group: "authors", noNewKey: true, ownerT: reflect.TypeOf(Author{}), targetT: reflect.TypeOf(Book{}), ownerTab: "authors", targetTab: "books",
		okeys: []kf{{"ID", "author_no", true}}, tkeys: []kf{{"ID", "book_no", true}},
		jt:     "author_books", // (join columns: resolveJoin)
		others: []other{{"FavBook", schema.BelongsTo}},
		tables: []string{"authors", "books", "author_books"},
		recSQL: "SELECT CAST(book_no AS TEXT), name, 0 FROM books"},
}

var (
	codePool = []string{"a-1", "b-2", "c-3", "d-4", "e-5"}
	slugPool = []string{"go", "sql", "orm", "db", "web", "api", "cli", "net"}
)

func init() {
	for _, s := range specs {
		if s.okeys == nil {
			s.okeys = idKey
		}
		if s.tkeys == nil {
			s.tkeys = idKey
		}
	}
}

// resolveJoin reads the names of the join-table columns of a many-to-many kind from the relation as
// gorm parsed it (how gorm names them is not part of the property; which rows they hold is).
func (s *relSpec) resolveJoin(db *gorm.DB) error {
	stmt := &gorm.Statement{DB: db}
	if err := stmt.Parse(reflect.New(s.ownerT).Interface()); err != nil {
		return err
	}
	rel := stmt.Schema.Relationships.Relations[s.field]
	if rel == nil || rel.JoinTable == nil {
		return fmt.Errorf("%s.%s is not parsed as a many-to-many relation", s.ownerT.Name(), s.field)
	}
	s.jt = rel.JoinTable.Table
	s.jtO, s.jtT = make([]string, len(s.okeys)), make([]string, len(s.tkeys))
	for _, ref := range rel.References {
		kfs, dst := s.tkeys, s.jtT
		if ref.OwnPrimaryKey {
			kfs, dst = s.okeys, s.jtO
		}
		for i, f := range kfs {
			if f.field == ref.PrimaryKey.Name {
				dst[i] = ref.ForeignKey.DBName
			}
		}
	}
	for _, c := range append(append([]string(nil), s.jtO...), s.jtT...) {
		if c == "" {
			return fmt.Errorf("%s.%s: the parsed relation does not reference the key fields %v / %v", s.ownerT.Name(), s.field, s.okeys, s.tkeys)
		}
	}
	s.linkSQL = "SELECT " + keyExpr(s.jtT...) + ", '" + s.ownerTab + ":' || " + keyExpr(s.jtO...) + " FROM " + s.jt
	return nil
}

// checkOthers: the further relation fields (others) are parsed as what the workload takes them for.
func (s *relSpec) checkOthers(db *gorm.DB) error {
	if len(s.others) == 0 {
		return nil
	}
	stmt := &gorm.Statement{DB: db}
	if err := stmt.Parse(reflect.New(s.ownerT).Interface()); err != nil {
		return err
	}
	main := stmt.Schema.Relationships.Relations[s.field]
	for _, o := range s.others {
		rel := stmt.Schema.Relationships.Relations[o.field]
		if rel == nil || rel.Type != o.kind || rel.FieldSchema != main.FieldSchema || rel.Field.FieldType.Kind() != reflect.Ptr {
			return fmt.Errorf("%s.%s is not parsed as a %s relation to %s held by pointer: %+v", s.ownerT.Name(), o.field, o.kind, s.targetT.Name(), rel)
		}
		for _, ref := range rel.References {
			for _, mref := range main.References {
				if ref.ForeignKey == mref.ForeignKey {
					return fmt.Errorf("%s.%s shares the key column %s with %s", s.ownerT.Name(), o.field, ref.ForeignKey.DBName, s.field)
				}
			}
		}
	}
	if et := main.Field.IndirectFieldType.Elem(); et.Kind() != reflect.Ptr {
		return fmt.Errorf("%s.%s does not hold pointers", s.ownerT.Name(), s.field)
	}
	return nil
}

// typeValue: the polymorphic type value of an owner table.
func (s *relSpec) typeValue(table string) string {
	if v, ok := s.polyVal[table]; ok {
		return v
	}
	return table
}

// deletesRecords: an Unscoped association call deletes the targets whose link it removes
// (has one / has many / belongs to); for many-to-many only the join rows go, as always.
func (s *relSpec) deletesRecords() bool { return s.store != joinRows }

func okey(table, key string) string { return table + ":" + key }

func splitOwner(ok string) (table, key string) {
	i := strings.IndexByte(ok, ':')
	return ok[:i], ok[i+1:]
}

func must(err error) {
	if err != nil {
		panic(err)
	}
}

func atoi(s string) int64 {
	n, err := strconv.ParseInt(s, 10, 64)
	must(err)
	return n
}

// ---- keys ------------------------------------------------------------------------

func keyParts(kfs []kf, key string) []string {
	p := strings.Split(key, ksep)
	if len(p) != len(kfs) {
		panic(fmt.Sprintf("key %q does not have %d parts", key, len(kfs)))
	}
	return p
}

// keyArgs: the parts of a key as SQL arguments.
func keyArgs(kfs []kf, key string) []interface{} {
	p := keyParts(kfs, key)
	out := make([]interface{}, len(p))
	for i, f := range kfs {
		if f.isInt {
			out[i] = atoi(p[i])
		} else {
			out[i] = p[i]
		}
	}
	return out
}

func kcols(kfs []kf) []string {
	out := make([]string, len(kfs))
	for i, f := range kfs {
		out[i] = f.col
	}
	return out
}

func qmarks(n int) string { return strings.TrimSuffix(strings.Repeat("?,", n), ",") }

func eqAll(cols []string) string {
	ps := make([]string, len(cols))
	for i, c := range cols {
		ps[i] = c + " = ?"
	}
	return strings.Join(ps, " AND ")
}

func setAll(cols []string) string {
	ps := make([]string, len(cols))
	for i, c := range cols {
		ps[i] = c + " = ?"
	}
	return strings.Join(ps, ", ")
}

// setPart stores one key part in a struct field (integer or string, value or pointer).
func setPart(f reflect.Value, part string, isInt bool) {
	if f.Kind() == reflect.Ptr {
		p := reflect.New(f.Type().Elem())
		setPart(p.Elem(), part, isInt)
		f.Set(p)
		return
	}
	if isInt {
		f.SetInt(atoi(part))
	} else {
		f.SetString(part)
	}
}

// setKey stores a key in the given fields of a struct value.
func setKey(v reflect.Value, kfs []kf, key string) {
	for i, p := range keyParts(kfs, key) {
		setPart(v.FieldByName(kfs[i].field), p, kfs[i].isInt)
	}
}

// keyOfFields reads a key from struct fields ("" when every part holds its zero value / nil).
func keyOfFields(v reflect.Value, kfs []kf) string {
	parts := make([]string, len(kfs))
	allZero := true
	for i, f := range kfs {
		fv := v.FieldByName(f.field)
		if fv.Kind() == reflect.Ptr {
			if fv.IsNil() {
				parts[i] = "<nil>"
				continue
			}
			fv = fv.Elem()
			allZero = false
		}
		if f.isInt {
			parts[i] = strconv.FormatInt(fv.Int(), 10)
		} else {
			parts[i] = fv.String()
		}
		if !fv.IsZero() {
			allZero = false
		}
	}
	if allZero {
		return ""
	}
	return strings.Join(parts, ksep)
}

// keyLit renders "Field:value, ..." for a composite literal.
func keyLit(v reflect.Type, kfs []kf, key string) string {
	ps := keyParts(kfs, key)
	out := make([]string, len(kfs))
	for i, f := range kfs {
		val := ps[i]
		typ := "int64"
		if !f.isInt {
			val = strconv.Quote(ps[i])
			typ = "string"
		}
		if sf, ok := v.FieldByName(f.field); ok && sf.Type.Kind() == reflect.Ptr {
			val = "&[]" + typ + "{" + val + "}[0]"
		}
		out[i] = f.field + ":" + val
	}
	return strings.Join(out, ", ")
}

// ---- raw-SQL seeding -----------------------------------------------------------

func (s *relSpec) insOwner(ok, name string) {
	table, key := splitOwner(ok)
	_, err := H.SQL.Exec("INSERT INTO "+table+"("+strings.Join(kcols(s.okeys), ",")+",name) VALUES ("+qmarks(len(s.okeys)+1)+")", append(keyArgs(s.okeys, key), name)...)
	must(err)
}

func (s *relSpec) insTarget(tk, name string) {
	_, err := H.SQL.Exec("INSERT INTO "+s.targetTab+"("+strings.Join(kcols(s.tkeys), ",")+",name) VALUES ("+qmarks(len(s.tkeys)+1)+")", append(keyArgs(s.tkeys, tk), name)...)
	must(err)
}

func (s *relSpec) insLink(ok, tk string) { must(s.tryLink(ok, tk)) }

// tryLink stores one link with raw SQL.
func (s *relSpec) tryLink(ok, tk string) error {
	table, key := splitOwner(ok)
	oa, ta := keyArgs(s.okeys, key), keyArgs(s.tkeys, tk)
	var err error
	switch {
	case s.store == joinRows:
		_, err = H.SQL.Exec("INSERT INTO "+s.jt+"("+strings.Join(append(append([]string(nil), s.jtO...), s.jtT...), ",")+") VALUES ("+qmarks(len(oa)+len(ta))+")", append(oa, ta...)...)
	case s.store == fkOwner:
		_, err = H.SQL.Exec("UPDATE "+table+" SET "+setAll(kcols(s.fks))+" WHERE "+eqAll(kcols(s.okeys)), append(ta, oa...)...)
	case s.poly:
		_, err = H.SQL.Exec("UPDATE "+s.targetTab+" SET "+setAll(kcols(s.fks))+", owner_type = ? WHERE "+eqAll(kcols(s.tkeys)), append(append(oa, s.typeValue(table)), ta...)...)
	default:
		_, err = H.SQL.Exec("UPDATE "+s.targetTab+" SET "+setAll(kcols(s.fks))+" WHERE "+eqAll(kcols(s.tkeys)), append(oa, ta...)...)
	}
	return err
}

// insLeftover stores what an earlier removal leaves behind without being a link: for a
// soft-delete target model a soft-deleted target row whose key column(s) still name the owner
// (has one / has many / polymorphic), for a soft-delete join model a soft-deleted join row.
func (s *relSpec) insLeftover(ok, tk, name string) {
	const when = "2001-02-03 04:05:06"
	var err error
	if s.softJoin {
		_, key := splitOwner(ok)
		oa, ta := keyArgs(s.okeys, key), keyArgs(s.tkeys, tk)
		_, err = H.SQL.Exec("INSERT INTO "+s.jt+"("+strings.Join(append(append([]string(nil), s.jtO...), s.jtT...), ",")+",deleted_at) VALUES ("+qmarks(len(oa)+len(ta)+1)+")", append(append(oa, ta...), when)...)
	} else {
		s.insTarget(tk, name)
		s.insLink(ok, tk)
		_, err = H.SQL.Exec("UPDATE "+s.targetTab+" SET deleted_at = ? WHERE "+eqAll(kcols(s.tkeys)), append([]interface{}{when}, keyArgs(s.tkeys, tk)...)...)
	}
	must(err)
}

// ---- raw-SQL read back -----------------------------------------------------------

func (s *relSpec) readLinks() map[string]map[string]int { return s.readPairs(s.linkSQL) }

// readDead: the soft-deleted join rows (owner -> target -> rows) of a soft-delete join model.
func (s *relSpec) readDead() map[string]map[string]int {
	if s.deadSQL == "" {
		return nil
	}
	return s.readPairs(s.deadSQL)
}

func (s *relSpec) readPairs(q string) map[string]map[string]int {
	rows, err := H.SQL.Query(q)
	must(err)
	defer rows.Close()
	out := map[string]map[string]int{}
	for rows.Next() {
		var t, o string
		must(rows.Scan(&t, &o))
		if out[o] == nil {
			out[o] = map[string]int{}
		}
		out[o][t]++
	}
	must(rows.Err())
	return out
}

// readRawFK (belongs to): the key column(s) of every owner row as stored (NULL parts shown as <null>).
func (s *relSpec) readRawFK() map[string]string {
	out := map[string]string{}
	for o, set := range s.readPairs("SELECT " + keyExpr(kcols(s.fks)...) + ", '" + s.ownerTab + ":' || " + keyExpr(kcols(s.okeys)...) + " FROM " + s.ownerTab) {
		for raw := range set {
			out[o] = raw
		}
	}
	return out
}

type dbRec struct {
	name string
	soft bool
}

func (s *relSpec) readRecs() map[string]dbRec {
	rows, err := H.SQL.Query(s.recSQL)
	must(err)
	defer rows.Close()
	out := map[string]dbRec{}
	for rows.Next() {
		var k string
		var name *string
		var soft int
		must(rows.Scan(&k, &name, &soft))
		r := dbRec{soft: soft != 0}
		if name != nil {
			r.name = *name
		}
		out[k] = r
	}
	must(rows.Err())
	return out
}

// idsByName finds the key a brand-new record received (names of new records are unique).
func (s *relSpec) idsByName(name string) []string {
	rows, err := H.SQL.Query("SELECT "+keyExpr(kcols(s.tkeys)...)+" FROM "+s.targetTab+" WHERE name = ?", name)
	must(err)
	defer rows.Close()
	var out []string
	for rows.Next() {
		var k string
		must(rows.Scan(&k))
		out = append(out, k)
	}
	return out
}

// ownerFK reads the key column(s) of a belongs-to owner row: the key of the target it names,
// "" when the row names none (every column NULL or zero).
func (s *relSpec) ownerFK(ok string) string {
	table, key := splitOwner(ok)
	cols := kcols(s.fks)
	sel := make([]string, len(cols))
	for i, c := range cols {
		sel[i] = "CAST(" + c + " AS TEXT)"
	}
	vals := make([]*string, len(cols))
	ptrs := make([]interface{}, len(cols))
	for i := range vals {
		ptrs[i] = &vals[i]
	}
	must(H.SQL.QueryRow("SELECT "+strings.Join(sel, ",")+" FROM "+table+" WHERE "+eqAll(kcols(s.okeys)), keyArgs(s.okeys, key)...).Scan(ptrs...))
	parts := make([]string, len(cols))
	allNull, allZero := true, true
	for i, v := range vals {
		if v != nil {
			allNull = false
			parts[i] = *v
		} else if s.fks[i].isInt {
			parts[i] = "0"
		}
		if !(parts[i] == "" || (s.fks[i].isInt && parts[i] == "0")) {
			allZero = false
		}
	}
	if allNull || (len(cols) > 1 && allZero) {
		return ""
	}
	return strings.Join(parts, ksep)
}

// ---- reflection helpers ------------------------------------------------------------

// surrogate looks up the database-assigned primary key of the row that holds a natural key
// (0: no such row). Keys are never reassigned within a case, so hits are cached per case.
func (s *relSpec) surrogate(table string, surr *kf, kfs []kf, key string) int64 {
	ck := table + ":" + key
	if id, ok := s.surr[ck]; ok {
		return id
	}
	var id int64
	err := H.SQL.QueryRow("SELECT "+surr.col+" FROM "+table+" WHERE "+eqAll(kcols(kfs)), keyArgs(kfs, key)...).Scan(&id)
	if err != nil {
		return 0
	}
	if s.surr == nil {
		s.surr = map[string]int64{}
	}
	s.surr[ck] = id
	return id
}

// newTarget builds an addressable target value.
func (s *relSpec) newTarget(t targ) reflect.Value {
	v := reflect.New(s.targetT).Elem()
	if t.key != "" {
		setKey(v, s.tkeys, t.key)
		if s.tSurr != nil {
			// a record that exists is passed as loaded: natural key and primary key
			if id := s.surrogate(s.targetTab, s.tSurr, s.tkeys, t.key); id != 0 {
				v.FieldByName(s.tSurr.field).SetInt(id)
			}
		}
	}
	if !t.keyOnly {
		v.FieldByName("Name").SetString(t.name)
	}
	return v
}

func (s *relSpec) targetLit(t targ, withType bool) string {
	var parts []string
	if t.key != "" {
		if s.tSurr != nil {
			if id := s.surrogate(s.targetTab, s.tSurr, s.tkeys, t.key); id != 0 {
				parts = append(parts, fmt.Sprintf("%s:%d", s.tSurr.field, id))
			}
		}
		parts = append(parts, keyLit(s.targetT, s.tkeys, t.key))
	}
	if !t.keyOnly {
		parts = append(parts, fmt.Sprintf("Name:%q", t.name))
	}
	body := "{" + strings.Join(parts, ", ") + "}"
	if withType {
		return s.targetT.Name() + body
	}
	return body
}

// pkOf returns the model key of a target value ("" = zero key).
func (s *relSpec) pkOf(v reflect.Value) string { return keyOfFields(v, s.tkeys) }

// memKeys returns the keys of the records held by the relation field of an owner value
// (with multiplicity; zero-key values and nil pointers are not records).
func (s *relSpec) memKeys(owner reflect.Value) []string {
	f := owner.FieldByName(s.field)
	for f.Kind() == reflect.Ptr {
		if f.IsNil() {
			return nil
		}
		f = f.Elem()
	}
	var out []string
	switch f.Kind() {
	case reflect.Slice:
		for i := 0; i < f.Len(); i++ {
			e := f.Index(i)
			if e.Kind() == reflect.Ptr {
				if e.IsNil() {
					continue
				}
				e = e.Elem()
			}
			if k := s.pkOf(e); k != "" {
				out = append(out, k)
			}
		}
	case reflect.Struct:
		if k := s.pkOf(f); k != "" {
			out = append(out, k)
		}
	}
	return out
}

// setOwner fills the scalar columns of an owner value (as a loaded record without preloads);
// fk (belongs to): key of the target its key column(s) name, "" = none.
func (s *relSpec) setOwner(v reflect.Value, ok, name string, fk string) {
	table, key := splitOwner(ok)
	setKey(v, s.okeys, key)
	if s.oSurr != nil {
		v.FieldByName(s.oSurr.field).SetInt(s.surrogate(table, s.oSurr, s.okeys, key))
	}
	v.FieldByName("Name").SetString(name)
	if s.store == fkOwner && fk != "" {
		setKey(v, s.fks, fk)
	}
}

func (s *relSpec) ownerLit(ok string) string {
	table, key := splitOwner(ok)
	if s.oSurr != nil {
		return fmt.Sprintf("%s{%s:%d, %s}", s.ownerT.Name(), s.oSurr.field, s.surrogate(table, s.oSurr, s.okeys, key), keyLit(s.ownerT, s.okeys, key))
	}
	return s.ownerT.Name() + "{" + keyLit(s.ownerT, s.okeys, key) + "}"
}

// setRelation loads the given records into the relation field of an owner value, with the
// key columns a loaded child carries.
func (s *relSpec) setRelation(owner reflect.Value, ok string, ts []targ) {
	table, key := splitOwner(ok)
	mk := func(t targ) reflect.Value {
		v := s.newTarget(t)
		if s.store == fkTarget {
			if s.poly {
				v.FieldByName("OwnerType").SetString(s.typeValue(table))
			}
			setKey(v, s.fks, key)
		}
		return v
	}
	f := owner.FieldByName(s.field)
	ft := f.Type()
	switch ft.Kind() {
	case reflect.Slice:
		sl := reflect.MakeSlice(ft, 0, len(ts))
		for _, t := range ts {
			if ft.Elem().Kind() == reflect.Ptr {
				sl = reflect.Append(sl, mk(t).Addr())
			} else {
				sl = reflect.Append(sl, mk(t))
			}
		}
		f.Set(sl)
	case reflect.Ptr:
		if len(ts) == 0 {
			f.Set(reflect.Zero(ft))
		} else {
			f.Set(mk(ts[0]).Addr())
		}
	default:
		if len(ts) == 0 {
			f.Set(reflect.Zero(ft))
		} else {
			f.Set(mk(ts[0]))
		}
	}
}

package c12

import (
	"fmt"
	"reflect"
	"strconv"
	"strings"

	"gorm.io/gorm"
)

// ---- models -----------------------------------------------------------------

// User is the owner of every single-column-key relation kind.
type User struct {
	ID     int64 `gorm:"primaryKey"`
	Name   string
	BossID *int64
	Boss   *Boss // belongs to, pointer field, pointer key column
	CoID   int64
	Co     Co       // belongs to, struct field, non-pointer key column
	Items  []Item   `gorm:"foreignKey:UserID"` // has many, struct elements, non-pointer key column
	SItems []*SItem `gorm:"foreignKey:UserID"` // has many, pointer elements, soft-delete target
	Pet    Pet      `gorm:"foreignKey:UserID"` // has one, struct field
	Tags   []Tag    `gorm:"many2many:user_tags"`
	Toys   []Toy    `gorm:"polymorphic:Owner"` // polymorphic has many
	Badge  *Badge   `gorm:"polymorphic:Owner"` // polymorphic has one, pointer field
}

// Team is a second polymorphic owner type with the same key values as users (decoy).
type Team struct {
	ID    int64 `gorm:"primaryKey"`
	Name  string
	Toys  []Toy  `gorm:"polymorphic:Owner"`
	Badge *Badge `gorm:"polymorphic:Owner"`
}

type Boss struct {
	ID   int64 `gorm:"primaryKey"`
	Name string
}

type Co struct {
	ID   int64 `gorm:"primaryKey"`
	Name string
}

type Item struct {
	ID     int64 `gorm:"primaryKey"`
	Name   string
	UserID int64
}

type SItem struct {
	ID        int64 `gorm:"primaryKey"`
	Name      string
	UserID    *int64
	DeletedAt gorm.DeletedAt
}

type Pet struct {
	ID     int64 `gorm:"primaryKey"`
	Name   string
	UserID *int64
}

type Tag struct {
	ID   int64 `gorm:"primaryKey"`
	Name string
}

type Toy struct {
	ID        int64 `gorm:"primaryKey"`
	Name      string
	OwnerID   int64
	OwnerType string
}

type Badge struct {
	ID        int64 `gorm:"primaryKey"`
	Name      string
	OwnerID   *int64
	OwnerType string
}

// Org / Part: many-to-many with composite string keys on both sides.
type Org struct {
	K1    string `gorm:"primaryKey"`
	K2    string `gorm:"primaryKey"`
	Name  string
	Parts []*Part `gorm:"many2many:org_parts"` // pointer elements
}

type Part struct {
	P1   string `gorm:"primaryKey"`
	P2   string `gorm:"primaryKey"`
	Name string
}

var allModels = []interface{}{&User{}, &Team{}, &Boss{}, &Co{}, &Item{}, &SItem{}, &Pet{}, &Tag{}, &Toy{}, &Badge{}, &Org{}, &Part{}}

// ---- relation specifications -------------------------------------------------

const (
	fkTarget = iota // key column on the target row (has one, has many, polymorphic)
	fkOwner         // key column on the owner row (belongs to)
	joinRows        // join table (many to many)
)

const ksep = "|" // separator of composite key parts in model keys (never part of a generated key)

type relSpec struct {
	name      string // relation kind
	field     string // relation field of the owner
	store     int
	single    bool // at most one link per owner
	poly      bool
	soft      bool
	composite bool
	ownerT    reflect.Type
	targetT   reflect.Type
	ownerTab  string
	targetTab string
	fkCol     string // belongs-to: key column on the owner row
	fkField   string
	tables    []string // tables emptied per case
	linkSQL   string   // -> (target key, owner key "table:key")
	recSQL    string   // -> (target key, name, soft-deleted 0/1)
}

var specs = []*relSpec{
	{name: "has_many", field: "Items", store: fkTarget, ownerT: reflect.TypeOf(User{}), targetT: reflect.TypeOf(Item{}), ownerTab: "users", targetTab: "items",
		tables:  []string{"users", "items"},
		linkSQL: "SELECT CAST(id AS TEXT), 'users:' || user_id FROM items WHERE user_id IS NOT NULL",
		recSQL:  "SELECT CAST(id AS TEXT), name, 0 FROM items"},
	{name: "has_many_soft", field: "SItems", store: fkTarget, soft: true, ownerT: reflect.TypeOf(User{}), targetT: reflect.TypeOf(SItem{}), ownerTab: "users", targetTab: "s_items",
		tables:  []string{"users", "s_items"},
		linkSQL: "SELECT CAST(id AS TEXT), 'users:' || user_id FROM s_items WHERE user_id IS NOT NULL AND deleted_at IS NULL",
		recSQL:  "SELECT CAST(id AS TEXT), name, deleted_at IS NOT NULL FROM s_items"},
	{name: "has_one", field: "Pet", store: fkTarget, single: true, ownerT: reflect.TypeOf(User{}), targetT: reflect.TypeOf(Pet{}), ownerTab: "users", targetTab: "pets",
		tables:  []string{"users", "pets"},
		linkSQL: "SELECT CAST(id AS TEXT), 'users:' || user_id FROM pets WHERE user_id IS NOT NULL",
		recSQL:  "SELECT CAST(id AS TEXT), name, 0 FROM pets"},
	{name: "belongs_to_valkey", field: "Co", store: fkOwner, single: true, ownerT: reflect.TypeOf(User{}), targetT: reflect.TypeOf(Co{}), ownerTab: "users", targetTab: "cos", fkCol: "co_id", fkField: "CoID",
		tables:  []string{"users", "cos"},
		linkSQL: "SELECT CAST(co_id AS TEXT), 'users:' || id FROM users WHERE co_id IS NOT NULL",
		recSQL:  "SELECT CAST(id AS TEXT), name, 0 FROM cos"},
	{name: "belongs_to", field: "Boss", store: fkOwner, single: true, ownerT: reflect.TypeOf(User{}), targetT: reflect.TypeOf(Boss{}), ownerTab: "users", targetTab: "bosses", fkCol: "boss_id", fkField: "BossID",
		tables:  []string{"users", "bosses"},
		linkSQL: "SELECT CAST(boss_id AS TEXT), 'users:' || id FROM users WHERE boss_id IS NOT NULL",
		recSQL:  "SELECT CAST(id AS TEXT), name, 0 FROM bosses"},
	{name: "many2many", field: "Tags", store: joinRows, ownerT: reflect.TypeOf(User{}), targetT: reflect.TypeOf(Tag{}), ownerTab: "users", targetTab: "tags",
		tables:  []string{"users", "tags", "user_tags"},
		linkSQL: "SELECT CAST(tag_id AS TEXT), 'users:' || user_id FROM user_tags",
		recSQL:  "SELECT CAST(id AS TEXT), name, 0 FROM tags"},
	{name: "poly_has_many", field: "Toys", store: fkTarget, poly: true, ownerT: reflect.TypeOf(User{}), targetT: reflect.TypeOf(Toy{}), ownerTab: "users", targetTab: "toys",
		tables:  []string{"users", "teams", "toys"},
		linkSQL: "SELECT CAST(id AS TEXT), COALESCE(owner_type,'') || ':' || owner_id FROM toys WHERE owner_id IS NOT NULL",
		recSQL:  "SELECT CAST(id AS TEXT), name, 0 FROM toys"},
	{name: "poly_has_one", field: "Badge", store: fkTarget, single: true, poly: true, ownerT: reflect.TypeOf(User{}), targetT: reflect.TypeOf(Badge{}), ownerTab: "users", targetTab: "badges",
		tables:  []string{"users", "teams", "badges"},
		linkSQL: "SELECT CAST(id AS TEXT), COALESCE(owner_type,'') || ':' || owner_id FROM badges WHERE owner_id IS NOT NULL",
		recSQL:  "SELECT CAST(id AS TEXT), name, 0 FROM badges"},
	{name: "many2many_composite", field: "Parts", store: joinRows, composite: true, ownerT: reflect.TypeOf(Org{}), targetT: reflect.TypeOf(Part{}), ownerTab: "orgs", targetTab: "parts",
		tables:  []string{"orgs", "parts", "org_parts"},
		linkSQL: "SELECT part_p1 || '" + ksep + "' || part_p2, 'orgs:' || org_k1 || '" + ksep + "' || org_k2 FROM org_parts",
		recSQL:  "SELECT p1 || '" + ksep + "' || p2, name, 0 FROM parts"},
}

// deletesRecords: an Unscoped association call deletes the targets whose link it removes
// (has one / has many / belongs to); for many-to-many only the join rows go, as always.
func (s *relSpec) deletesRecords() bool { return s.store != joinRows }

func okey(table, key string) string { return table + ":" + key }

func splitOwner(ok string) (table, key string) {
	i := strings.IndexByte(ok, ':')
	return ok[:i], ok[i+1:]
}

func must(err error) {
	if err != nil {
		panic(err)
	}
}

func atoi(s string) int64 {
	n, err := strconv.ParseInt(s, 10, 64)
	must(err)
	return n
}

// ---- raw-SQL seeding -----------------------------------------------------------

func (s *relSpec) insOwner(ok, name string) {
	table, key := splitOwner(ok)
	if s.composite {
		p := strings.Split(key, ksep)
		_, err := H.SQL.Exec("INSERT INTO orgs(k1,k2,name) VALUES (?,?,?)", p[0], p[1], name)
		must(err)
		return
	}
	_, err := H.SQL.Exec("INSERT INTO "+table+"(id,name) VALUES (?,?)", atoi(key), name)
	must(err)
}

func (s *relSpec) insTarget(tk, name string) {
	if s.composite {
		p := strings.Split(tk, ksep)
		_, err := H.SQL.Exec("INSERT INTO parts(p1,p2,name) VALUES (?,?,?)", p[0], p[1], name)
		must(err)
		return
	}
	_, err := H.SQL.Exec("INSERT INTO "+s.targetTab+"(id,name) VALUES (?,?)", atoi(tk), name)
	must(err)
}

func (s *relSpec) insLink(ok, tk string) {
	table, key := splitOwner(ok)
	var err error
	switch {
	case s.composite:
		o := strings.Split(key, ksep)
		t := strings.Split(tk, ksep)
		_, err = H.SQL.Exec("INSERT INTO org_parts(org_k1,org_k2,part_p1,part_p2) VALUES (?,?,?,?)", o[0], o[1], t[0], t[1])
	case s.store == joinRows:
		_, err = H.SQL.Exec("INSERT INTO user_tags(user_id,tag_id) VALUES (?,?)", atoi(key), atoi(tk))
	case s.store == fkOwner:
		_, err = H.SQL.Exec("UPDATE users SET "+s.fkCol+" = ? WHERE id = ?", atoi(tk), atoi(key))
	case s.poly:
		_, err = H.SQL.Exec("UPDATE "+s.targetTab+" SET owner_id = ?, owner_type = ? WHERE id = ?", atoi(key), table, atoi(tk))
	default:
		_, err = H.SQL.Exec("UPDATE "+s.targetTab+" SET user_id = ? WHERE id = ?", atoi(key), atoi(tk))
	}
	must(err)
}

// ---- raw-SQL read back -----------------------------------------------------------

func (s *relSpec) readLinks() map[string]map[string]int {
	rows, err := H.SQL.Query(s.linkSQL)
	must(err)
	defer rows.Close()
	out := map[string]map[string]int{}
	for rows.Next() {
		var t, o string
		must(rows.Scan(&t, &o))
		if out[o] == nil {
			out[o] = map[string]int{}
		}
		out[o][t]++
	}
	must(rows.Err())
	return out
}

type dbRec struct {
	name string
	soft bool
}

func (s *relSpec) readRecs() map[string]dbRec {
	rows, err := H.SQL.Query(s.recSQL)
	must(err)
	defer rows.Close()
	out := map[string]dbRec{}
	for rows.Next() {
		var k string
		var name *string
		var soft int
		must(rows.Scan(&k, &name, &soft))
		r := dbRec{soft: soft != 0}
		if name != nil {
			r.name = *name
		}
		out[k] = r
	}
	must(rows.Err())
	return out
}

// idByName finds the key a brand-new record received (names of new records are unique).
func (s *relSpec) idsByName(name string) []string {
	rows, err := H.SQL.Query("SELECT CAST(id AS TEXT) FROM "+s.targetTab+" WHERE name = ?", name)
	must(err)
	defer rows.Close()
	var out []string
	for rows.Next() {
		var k string
		must(rows.Scan(&k))
		out = append(out, k)
	}
	return out
}

func (s *relSpec) ownerFK(ok string) *int64 {
	_, key := splitOwner(ok)
	var v *int64
	must(H.SQL.QueryRow("SELECT "+s.fkCol+" FROM users WHERE id = ?", atoi(key)).Scan(&v))
	return v
}

// ---- reflection helpers ------------------------------------------------------------

// newTarget builds an addressable target value.
func (s *relSpec) newTarget(t targ) reflect.Value {
	v := reflect.New(s.targetT).Elem()
	if s.composite {
		p := strings.Split(t.key, ksep)
		v.FieldByName("P1").SetString(p[0])
		v.FieldByName("P2").SetString(p[1])
	} else if t.key != "" {
		v.FieldByName("ID").SetInt(atoi(t.key))
	}
	if !t.keyOnly {
		v.FieldByName("Name").SetString(t.name)
	}
	return v
}

func (s *relSpec) targetLit(t targ, withType bool) string {
	var parts []string
	if s.composite {
		p := strings.Split(t.key, ksep)
		parts = append(parts, fmt.Sprintf("P1:%q, P2:%q", p[0], p[1]))
	} else if t.key != "" {
		parts = append(parts, "ID:"+t.key)
	}
	if !t.keyOnly {
		parts = append(parts, fmt.Sprintf("Name:%q", t.name))
	}
	body := "{" + strings.Join(parts, ", ") + "}"
	if withType {
		return s.targetT.Name() + body
	}
	return body
}

// pkOf returns the model key of a target value ("" = zero key).
func (s *relSpec) pkOf(v reflect.Value) string {
	if s.composite {
		a, b := v.FieldByName("P1").String(), v.FieldByName("P2").String()
		if a == "" && b == "" {
			return ""
		}
		return a + ksep + b
	}
	n := v.FieldByName("ID").Int()
	if n == 0 {
		return ""
	}
	return strconv.FormatInt(n, 10)
}

// memKeys returns the keys of the records held by the relation field of an owner value
// (with multiplicity; zero-key values and nil pointers are not records).
func (s *relSpec) memKeys(owner reflect.Value) []string {
	f := owner.FieldByName(s.field)
	for f.Kind() == reflect.Ptr {
		if f.IsNil() {
			return nil
		}
		f = f.Elem()
	}
	var out []string
	switch f.Kind() {
	case reflect.Slice:
		for i := 0; i < f.Len(); i++ {
			e := f.Index(i)
			if e.Kind() == reflect.Ptr {
				if e.IsNil() {
					continue
				}
				e = e.Elem()
			}
			if k := s.pkOf(e); k != "" {
				out = append(out, k)
			}
		}
	case reflect.Struct:
		if k := s.pkOf(f); k != "" {
			out = append(out, k)
		}
	}
	return out
}

// setOwner fills the scalar columns of an owner value (as a loaded record without preloads).
func (s *relSpec) setOwner(v reflect.Value, ok, name string, boss *int64) {
	_, key := splitOwner(ok)
	if s.composite {
		p := strings.Split(key, ksep)
		v.FieldByName("K1").SetString(p[0])
		v.FieldByName("K2").SetString(p[1])
	} else {
		v.FieldByName("ID").SetInt(atoi(key))
	}
	v.FieldByName("Name").SetString(name)
	if s.store == fkOwner && boss != nil {
		b := *boss
		if f := v.FieldByName(s.fkField); f.Kind() == reflect.Ptr {
			f.Set(reflect.ValueOf(&b))
		} else {
			f.SetInt(b)
		}
	}
}

func (s *relSpec) ownerLit(ok string) string {
	_, key := splitOwner(ok)
	if s.composite {
		p := strings.Split(key, ksep)
		return fmt.Sprintf("Org{K1:%q, K2:%q}", p[0], p[1])
	}
	return "User{ID:" + key + "}"
}

// setRelation loads the given records into the relation field of an owner value, with the
// key columns a loaded child carries.
func (s *relSpec) setRelation(owner reflect.Value, ok string, ts []targ) {
	table, key := splitOwner(ok)
	mk := func(t targ) reflect.Value {
		v := s.newTarget(t)
		if s.store == fkTarget {
			name := "UserID"
			if s.poly {
				name = "OwnerID"
				v.FieldByName("OwnerType").SetString(table)
			}
			id := atoi(key)
			if f := v.FieldByName(name); f.Kind() == reflect.Ptr {
				f.Set(reflect.ValueOf(&id))
			} else {
				f.SetInt(id)
			}
		}
		return v
	}
	f := owner.FieldByName(s.field)
	ft := f.Type()
	switch ft.Kind() {
	case reflect.Slice:
		sl := reflect.MakeSlice(ft, 0, len(ts))
		for _, t := range ts {
			if ft.Elem().Kind() == reflect.Ptr {
				sl = reflect.Append(sl, mk(t).Addr())
			} else {
				sl = reflect.Append(sl, mk(t))
			}
		}
		f.Set(sl)
	case reflect.Ptr:
		if len(ts) == 0 {
			f.Set(reflect.Zero(ft))
		} else {
			f.Set(mk(ts[0]).Addr())
		}
	default:
		if len(ts) == 0 {
			f.Set(reflect.Zero(ft))
		} else {
			f.Set(mk(ts[0]))
		}
	}
}

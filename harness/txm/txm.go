// Package txm is the model family of the transactional engines (C05, C13, C18): a
// user with every relation kind, hooks on parent and children that log their
// invocations, can fail at a chosen invocation, and write an audit row through the
// *gorm.DB they are handed.
package txm

import (
	"errors"
	"fmt"
	"strings"

	"gorm.io/gorm"
)

type Company struct {
	ID   int64 `gorm:"primaryKey"`
	Name string
}

type Profile struct {
	ID     int64 `gorm:"primaryKey"`
	UserID int64
	Bio    string
}

type Line struct {
	ID      int64 `gorm:"primaryKey"`
	OrderID int64
	Qty     int64
}

type Order struct {
	ID     int64 `gorm:"primaryKey"`
	UserID int64
	Item   string
	Stamp  string
	Lines  []Line
}

type Role struct {
	ID   int64 `gorm:"primaryKey"`
	Name string
}

type Note struct {
	ID        int64 `gorm:"primaryKey"`
	OwnerID   int64
	OwnerType string
	Text      string
}

type User struct {
	ID        int64 `gorm:"primaryKey"`
	Name      string
	Age       int64
	Stamp     string // set by BeforeSave / BeforeCreate hooks
	Stamp2    string // set through tx.Statement.SetColumn
	CompanyID *int64
	Company   *Company
	Profile   *Profile
	Orders    []Order
	Roles     []Role `gorm:"many2many:user_roles"`
	Notes     []Note `gorm:"polymorphic:Owner"`
}

type Audit struct {
	ID  int64 `gorm:"primaryKey"`
	Msg string
}

var AllModels = []interface{}{&Company{}, &Profile{}, &Line{}, &Order{}, &Role{}, &Note{}, &User{}, &Audit{}}

var AllTables = []string{"companies", "profiles", "lines", "orders", "roles", "notes", "users", "user_roles", "audits"}

// ---- hook instrumentation --------------------------------------------------

type HookEvent struct {
	Hook string // BeforeSave ...
	Type string // User | Order
	Ptr  string // identity of the in-memory record
	Name string // payload: Name / Item
	// CtxVal is tx.Statement.Context.Value(CtxKey)
	CtxVal interface{}
	// Mark is the length of the driver event log when the hook was entered
	Mark int
	// ConnPool identity of the handle the hook received
	Pool string
}

func (e HookEvent) String() string { return e.Hook + ":" + e.Type + ":" + e.Name }

// ErrHook is the sentinel returned by a failing hook.
type ErrHook struct {
	At int
	// Cause, when set, is what the hook's error wraps (a hook may fail with any error value: its own
	// timeout, a not-found from a lookup, ...); errors.Is sees it, errors.As still finds *ErrHook
	Cause error
}

func (e *ErrHook) Error() string {
	if e.Cause != nil {
		return fmt.Sprintf("verif: hook invocation %d failed: %v", e.At, e.Cause)
	}
	return fmt.Sprintf("verif: hook invocation %d failed", e.At)
}

func (e *ErrHook) Unwrap() error { return e.Cause }

// H is the per-process hook state (engines using it run operations sequentially).
var H struct {
	Log    []HookEvent
	Count  int
	FailAt int   // 1-based invocation to fail, 0 = none
	Cause  error // wrapped by the failing hook's error (nil = plain sentinel)
	// Bare: the failing hook returns Cause itself, unwrapped (what `return tx.First(&ref).Error` yields)
	Bare bool
	// Failed is the error value the failing hook returned (nil if none failed)
	Failed error
	// AfterProbe: after-hooks of the parent model address "the current record" of the statement
	// (SetColumn after a create, Changed after an update), as hooks that audit changes do; per-record
	// dispatch must make that work in the after phase too
	AfterProbe bool
	Audit      bool // write an audit row through tx in every Before*/After* write hook
	SetCols    bool // before-hooks set Stamp (direct) and Stamp2 (SetColumn)
	Enabled    bool
	CtxKey     interface{}
	MarkFn     func() int
}

func ResetHooks() {
	H.Log = nil
	H.Count = 0
	H.FailAt = 0
	H.Failed = nil
}

func hook(name, typ string, ptr interface{}, payload string, tx *gorm.DB, write bool) error {
	if !H.Enabled {
		return nil
	}
	H.Count++
	ev := HookEvent{Hook: name, Type: typ, Ptr: fmt.Sprintf("%p", ptr), Name: payload}
	if H.CtxKey != nil && tx != nil && tx.Statement != nil && tx.Statement.Context != nil {
		ev.CtxVal = tx.Statement.Context.Value(H.CtxKey)
	}
	if H.MarkFn != nil {
		ev.Mark = H.MarkFn()
	}
	if tx != nil && tx.Statement != nil {
		ev.Pool = fmt.Sprintf("%T", tx.Statement.ConnPool)
	}
	H.Log = append(H.Log, ev)
	if H.Audit && write && tx != nil {
		if err := tx.Exec("INSERT INTO audits(msg) VALUES (?)", name+":"+typ+":"+payload).Error; err != nil {
			return err
		}
	}
	if H.FailAt == H.Count {
		if H.Bare && H.Cause != nil {
			H.Failed = H.Cause
		} else {
			H.Failed = &ErrHook{At: H.Count, Cause: H.Cause}
		}
		return H.Failed
	}
	return nil
}

func (u *User) BeforeSave(tx *gorm.DB) error {
	if H.Enabled && H.SetCols {
		u.Stamp = "bs:" + u.Name
	}
	return hook("BeforeSave", "User", u, u.Name, tx, true)
}
func (u *User) BeforeCreate(tx *gorm.DB) error {
	if H.Enabled && H.SetCols {
		tx.Statement.SetColumn("Stamp2", "bc:"+u.Name)
	}
	return hook("BeforeCreate", "User", u, u.Name, tx, true)
}
func (u *User) AfterCreate(tx *gorm.DB) error {
	if H.Enabled && H.AfterProbe {
		// in memory only (the row is written already): addresses "the current record" of the statement
		tx.Statement.SetColumn("Stamp2", "ac:"+u.Name)
	}
	return hook("AfterCreate", "User", u, u.Name, tx, true)
}
func (u *User) BeforeUpdate(tx *gorm.DB) error {
	if H.Enabled && H.SetCols {
		tx.Statement.SetColumn("Stamp2", "bu")
	}
	return hook("BeforeUpdate", "User", u, u.Name, tx, true)
}
func (u *User) AfterUpdate(tx *gorm.DB) error {
	if H.Enabled && H.AfterProbe {
		tx.Statement.Changed("Name")
	}
	return hook("AfterUpdate", "User", u, u.Name, tx, true)
}
func (u *User) AfterSave(tx *gorm.DB) error { return hook("AfterSave", "User", u, u.Name, tx, true) }
func (u *User) BeforeDelete(tx *gorm.DB) error {
	return hook("BeforeDelete", "User", u, u.Name, tx, true)
}
func (u *User) AfterDelete(tx *gorm.DB) error {
	return hook("AfterDelete", "User", u, u.Name, tx, true)
}
func (u *User) AfterFind(tx *gorm.DB) error { return hook("AfterFind", "User", u, u.Name, tx, false) }

func (o *Order) BeforeSave(tx *gorm.DB) error {
	if H.Enabled && H.SetCols {
		o.Stamp = "bs:" + o.Item
	}
	return hook("BeforeSave", "Order", o, o.Item, tx, true)
}
func (o *Order) BeforeCreate(tx *gorm.DB) error {
	return hook("BeforeCreate", "Order", o, o.Item, tx, true)
}
func (o *Order) AfterCreate(tx *gorm.DB) error {
	return hook("AfterCreate", "Order", o, o.Item, tx, true)
}
func (o *Order) AfterSave(tx *gorm.DB) error { return hook("AfterSave", "Order", o, o.Item, tx, true) }
func (o *Order) AfterFind(tx *gorm.DB) error { return hook("AfterFind", "Order", o, o.Item, tx, false) }

// IsInjected reports whether err carries one of the harness' sentinels.
func IsHookErr(err error) bool {
	var he *ErrHook
	if errors.As(err, &he) {
		return true
	}
	// a hook that failed with a bare error value: that value must be in the chain
	return H.Failed != nil && err != nil && errors.Is(err, H.Failed)
}

// LogShape is the hook sequence without record payloads (hook:type per invocation).
func LogShape(evs []HookEvent) string {
	s := make([]string, len(evs))
	for i, e := range evs {
		s[i] = e.Hook + ":" + e.Type
	}
	return strings.Join(s, " ")
}

func LogString(evs []HookEvent) string {
	s := make([]string, len(evs))
	for i, e := range evs {
		s[i] = e.String()
	}
	return strings.Join(s, " ")
}

// ---- seed data ---------------------------------------------------------------

// SeedSQL restores the fixed pre-state: two companies, two roles, three users of
// which the first owns a full graph. Keys of new records start well above these.
const SeedSQL = `
DELETE FROM user_roles; DELETE FROM notes; DELETE FROM lines; DELETE FROM orders; DELETE FROM profiles;
DELETE FROM users; DELETE FROM roles; DELETE FROM companies; DELETE FROM audits; DELETE FROM sqlite_sequence;
INSERT INTO companies(id,name) VALUES (1,'acme'),(2,'globex');
INSERT INTO roles(id,name) VALUES (1,'admin'),(2,'dev');
INSERT INTO users(id,name,age,stamp,stamp2,company_id) VALUES (1,'ann',30,'','',1),(2,'bob',40,'','',NULL),(3,'cy',50,'','',2);
INSERT INTO profiles(id,user_id,bio) VALUES (1,1,'ann-bio'),(2,3,'cy-bio');
INSERT INTO orders(id,user_id,item,stamp) VALUES (1,1,'pen',''),(2,1,'ink',''),(3,2,'cup','');
INSERT INTO lines(id,order_id,qty) VALUES (1,1,2),(2,1,3),(3,3,1);
INSERT INTO user_roles(user_id,role_id) VALUES (1,1),(1,2),(2,2);
INSERT INTO notes(id,owner_id,owner_type,text) VALUES (1,1,'users','n1'),(2,2,'users','n2');
`

package txm

import (
	"fmt"

	"gorm.io/gorm"
	"gorm.io/gorm/clause"

	"verif/core"
)

// Counts is the number of rows an operation is expected to add per table when it
// applies completely (creates only).
type Counts map[string]int

// Op is one write operation, rebuilt with fresh in-memory records on every Run.
type Op struct {
	Kind string
	Desc string
	// Run executes the operation on db and returns the result handle.
	Run func(db *gorm.DB) *gorm.DB
	// Adds is non-nil for pure creates: rows added per table on complete application.
	Adds Counts
	// Records returns the top-level in-memory records of the last Run (for key checks).
	Records func() []*User
}

type graphGen struct {
	r    *core.Rand
	n    int
	adds Counts
	tag  string
}

func (g *graphGen) name(p string) string {
	g.n++
	return fmt.Sprintf("%s%s%d", p, g.tag, g.n)
}

func (g *graphGen) user(depth int) *User {
	r := g.r
	u := &User{Name: g.name("u"), Age: int64(r.Range(18, 70))}
	g.adds["users"]++
	switch r.Intn(4) {
	case 0:
		u.Company = &Company{Name: g.name("co")}
		g.adds["companies"]++
	case 1:
		u.Company = &Company{ID: 1, Name: "acme"} // existing
	case 2:
		id := int64(2)
		u.CompanyID = &id
	}
	if depth > 0 {
		if r.Bool() {
			u.Profile = &Profile{Bio: g.name("bio")}
			g.adds["profiles"]++
		}
		for i := r.Intn(3); i > 0; i-- {
			o := Order{Item: g.name("it")}
			g.adds["orders"]++
			for j := r.Intn(3); j > 0; j-- {
				o.Lines = append(o.Lines, Line{Qty: int64(r.Range(1, 9))})
				g.adds["lines"]++
			}
			u.Orders = append(u.Orders, o)
		}
		for i := r.Intn(3); i > 0; i-- {
			if r.Bool() {
				u.Roles = append(u.Roles, Role{Name: g.name("role")})
				g.adds["roles"]++
			} else {
				// existing role; at most once per user (a duplicate link would hit nothing new)
				dup := false
				for _, x := range u.Roles {
					if x.ID == 1 {
						dup = true
					}
				}
				if dup {
					continue
				}
				u.Roles = append(u.Roles, Role{ID: 1, Name: "admin"})
			}
			g.adds["user_roles"]++
		}
		for i := r.Intn(3); i > 0; i-- {
			u.Notes = append(u.Notes, Note{Text: g.name("note")})
			g.adds["notes"]++
		}
	}
	return u
}

var OpKinds = []string{"Create", "CreateSlice", "CreatePtrSlice", "CreateInBatches", "SaveNew", "SaveExisting", "FullSave",
	"Update", "UpdatesStruct", "UpdatesAssoc", "UpdatesWhere", "UpdateColumn", "Delete", "DeleteSelect", "DeleteSelectAll", "DeleteWhere",
	"DeleteReturning", "DeleteSelectReturning", "UpdatesReturning"}

// GenOp builds the operation identified by (kind, seed).
func GenOp(kind string, seed uint64) Op {
	mk := func() (*graphGen, *core.Rand) {
		r := core.NewRand(seed)
		return &graphGen{r: r, adds: Counts{}, tag: fmt.Sprintf("_%d_", seed%997)}, r
	}
	var last []*User
	op := Op{Kind: kind, Records: func() []*User { return last }}
	switch kind {
	case "Create":
		g, _ := mk()
		u := g.user(1)
		op.Adds = g.adds
		op.Desc = fmt.Sprintf("db.Create(&User%s)", descUser(u))
		op.Run = func(db *gorm.DB) *gorm.DB {
			g, _ := mk()
			u := g.user(1)
			last = []*User{u}
			return db.Create(u)
		}
	case "CreateSlice", "CreatePtrSlice":
		g, r := mk()
		n := r.Range(2, 3)
		var ds []string
		for i := 0; i < n; i++ {
			ds = append(ds, descUser(g.user(1)))
		}
		op.Adds = g.adds
		op.Desc = fmt.Sprintf("db.Create(&[]User{%v})", ds)
		op.Run = func(db *gorm.DB) *gorm.DB {
			g, r := mk()
			n := r.Range(2, 3)
			if kind == "CreateSlice" {
				us := make([]User, 0, n)
				for i := 0; i < n; i++ {
					us = append(us, *g.user(1))
				}
				last = nil
				for i := range us {
					last = append(last, &us[i])
				}
				return db.Create(&us)
			}
			var us []*User
			for i := 0; i < n; i++ {
				us = append(us, g.user(1))
			}
			last = us
			return db.Create(&us)
		}
	case "CreateInBatches":
		g, r := mk()
		n := r.Range(3, 5)
		bs := r.Range(1, 3)
		for i := 0; i < n; i++ {
			g.user(i % 2)
		}
		op.Adds = g.adds
		op.Desc = fmt.Sprintf("db.CreateInBatches(%d users, %d)", n, bs)
		op.Run = func(db *gorm.DB) *gorm.DB {
			g, r := mk()
			n := r.Range(3, 5)
			bs := r.Range(1, 3)
			us := make([]User, 0, n)
			for i := 0; i < n; i++ {
				us = append(us, *g.user(i % 2))
			}
			last = nil
			for i := range us {
				last = append(last, &us[i])
			}
			return db.CreateInBatches(&us, bs)
		}
	case "SaveNew":
		g, _ := mk()
		u := g.user(1)
		op.Adds = g.adds
		op.Desc = fmt.Sprintf("db.Save(&User%s)", descUser(u))
		op.Run = func(db *gorm.DB) *gorm.DB {
			g, _ := mk()
			u := g.user(1)
			last = []*User{u}
			return db.Save(u)
		}
	case "SaveExisting":
		op.Desc = "db.Save(&User{ID:1, Name:'ann2', Company:{ID:1}, Orders:[{ID:1,Item:'pen'},{Item:new}], Roles:[{ID:2},{new}]})"
		op.Run = func(db *gorm.DB) *gorm.DB {
			g, _ := mk()
			u := &User{ID: 1, Name: "ann2", Age: 31, Company: &Company{ID: 1, Name: "acme"},
				Orders: []Order{{ID: 1, UserID: 1, Item: "pen"}, {Item: g.name("it")}},
				Roles:  []Role{{ID: 2, Name: "dev"}, {Name: g.name("role")}}}
			last = []*User{u}
			return db.Save(u)
		}
	case "FullSave":
		op.Desc = "db.Session(FullSaveAssociations).Save(&User{ID:1, Profile:{ID:1,Bio:'x'}, Orders:[{ID:1,Item:'pen2',Lines:[{ID:1,Qty:9},{new}]}], Notes:[{ID:1,Text:'n1x'}]})"
		op.Run = func(db *gorm.DB) *gorm.DB {
			u := &User{ID: 1, Name: "ann3", Age: 32, Profile: &Profile{ID: 1, UserID: 1, Bio: "x"},
				Orders: []Order{{ID: 1, UserID: 1, Item: "pen2", Lines: []Line{{ID: 1, OrderID: 1, Qty: 9}, {Qty: 7}}}},
				Notes:  []Note{{ID: 1, OwnerID: 1, OwnerType: "users", Text: "n1x"}}}
			last = []*User{u}
			return db.Session(&gorm.Session{FullSaveAssociations: true}).Save(u)
		}
	case "Update":
		_, r := mk()
		id := int64(r.Range(1, 3))
		op.Desc = fmt.Sprintf("db.Model(&User{ID:%d}).Update(\"name\", \"zed\")", id)
		op.Run = func(db *gorm.DB) *gorm.DB {
			u := &User{ID: id}
			last = []*User{u}
			return db.Model(u).Update("name", "zed")
		}
	case "UpdatesStruct":
		_, r := mk()
		id := int64(r.Range(1, 3))
		op.Desc = fmt.Sprintf("db.Model(&User{ID:%d}).Updates(User{Name:'upd', Age:77})", id)
		op.Run = func(db *gorm.DB) *gorm.DB {
			u := &User{ID: id}
			last = []*User{u}
			return db.Model(u).Updates(User{Name: "upd", Age: 77})
		}
	case "UpdatesAssoc":
		op.Desc = "db.Model(&User{ID:2}).Updates(User{Name:'upd', Orders:[{new}], Profile:{new}})"
		op.Run = func(db *gorm.DB) *gorm.DB {
			g, _ := mk()
			u := &User{ID: 2}
			last = []*User{u}
			return db.Model(u).Updates(User{Name: "upd", Orders: []Order{{Item: g.name("it")}}, Profile: &Profile{Bio: g.name("bio")}})
		}
	case "UpdatesWhere":
		op.Desc = "db.Model(&User{}).Where(\"age >= ?\", 40).Updates(map{age: 99})"
		op.Run = func(db *gorm.DB) *gorm.DB {
			last = nil
			return db.Model(&User{}).Where("age >= ?", 40).Updates(map[string]interface{}{"age": 99})
		}
	case "UpdateColumn":
		op.Desc = "db.Model(&User{ID:1}).UpdateColumn(\"age\", 5)"
		op.Run = func(db *gorm.DB) *gorm.DB {
			u := &User{ID: 1}
			last = []*User{u}
			return db.Model(u).UpdateColumn("age", 5)
		}
	case "Delete":
		_, r := mk()
		id := int64(r.Range(1, 3))
		op.Desc = fmt.Sprintf("db.Delete(&User{ID:%d})", id)
		op.Run = func(db *gorm.DB) *gorm.DB {
			u := &User{ID: id}
			last = []*User{u}
			return db.Delete(u)
		}
	case "DeleteSelect":
		_, r := mk()
		sets := [][]string{{"Orders"}, {"Profile"}, {"Orders", "Profile"}, {"Roles"}, {"Notes"}, {"Orders", "Roles", "Notes"}}
		sel := sets[r.Intn(len(sets))]
		id := int64(r.Range(1, 2))
		op.Desc = fmt.Sprintf("db.Select(%q).Delete(&User{ID:%d})", sel, id)
		op.Run = func(db *gorm.DB) *gorm.DB {
			u := &User{ID: id}
			last = []*User{u}
			args := make([]interface{}, len(sel)-1)
			for i, s := range sel[1:] {
				args[i] = s
			}
			return db.Select(sel[0], args...).Delete(u)
		}
	case "DeleteSelectAll":
		op.Desc = "db.Select(clause.Associations).Delete(&User{ID:1})"
		op.Run = func(db *gorm.DB) *gorm.DB {
			u := &User{ID: 1}
			last = []*User{u}
			return db.Select(clause.Associations).Delete(u)
		}
	case "DeleteWhere":
		op.Desc = "db.Where(\"age >= ?\", 40).Delete(&User{})"
		op.Run = func(db *gorm.DB) *gorm.DB {
			last = nil
			return db.Where("age >= ?", 40).Delete(&User{})
		}
	case "DeleteReturning":
		_, r := mk()
		id := int64(r.Range(1, 3))
		op.Desc = fmt.Sprintf("db.Clauses(clause.Returning{}).Delete(&User{ID:%d})", id)
		op.Run = func(db *gorm.DB) *gorm.DB {
			u := &User{ID: id}
			last = []*User{u}
			return db.Clauses(clause.Returning{}).Delete(u)
		}
	case "DeleteSelectReturning":
		_, r := mk()
		sets := [][]string{{"Orders"}, {"Profile"}, {"Orders", "Profile"}, {"Roles"}, {"Notes"}}
		sel := sets[r.Intn(len(sets))]
		id := int64(r.Range(1, 2))
		cols := [][]clause.Column{nil, {{Name: "name"}}, {{Name: "id"}, {Name: "age"}}}[r.Intn(3)]
		op.Desc = fmt.Sprintf("db.Clauses(clause.Returning{Columns: %v}).Select(%q).Delete(&User{ID:%d})", cols, sel, id)
		op.Run = func(db *gorm.DB) *gorm.DB {
			u := &User{ID: id}
			last = []*User{u}
			args := make([]interface{}, len(sel)-1)
			for i, s := range sel[1:] {
				args[i] = s
			}
			return db.Clauses(clause.Returning{Columns: cols}).Select(sel[0], args...).Delete(u)
		}
	case "UpdatesReturning":
		_, r := mk()
		id := int64(r.Range(1, 3))
		op.Desc = fmt.Sprintf("db.Model(&User{ID:%d}).Clauses(clause.Returning{}).Updates(User{Name:'upd', Age:77})", id)
		op.Run = func(db *gorm.DB) *gorm.DB {
			u := &User{ID: id}
			last = []*User{u}
			return db.Model(u).Clauses(clause.Returning{}).Updates(User{Name: "upd", Age: 77})
		}
	default:
		panic("txm: op kind " + kind)
	}
	return op
}

func descUser(u *User) string {
	co := "nil"
	if u.Company != nil {
		co = fmt.Sprintf("{ID:%d %s}", u.Company.ID, u.Company.Name)
	} else if u.CompanyID != nil {
		co = fmt.Sprintf("id=%d", *u.CompanyID)
	}
	nl := 0
	for _, o := range u.Orders {
		nl += len(o.Lines)
	}
	return fmt.Sprintf("{%s company:%s profile:%v orders:%d(lines:%d) roles:%d notes:%d}", u.Name, co, u.Profile != nil, len(u.Orders), nl, len(u.Roles), len(u.Notes))
}

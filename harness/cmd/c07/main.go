package main

import (
	"verif/core"
	"verif/engine/c07"
)

func main() { core.Main(c07.Engine) }

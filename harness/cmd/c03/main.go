package main

import (
	"verif/core"
	"verif/engine/c03"
)

func main() { core.Main(c03.Engine) }

package main

import (
	"verif/core"
	"verif/engine/c14"
)

func main() { core.Main(c14.Engine) }

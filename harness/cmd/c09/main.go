package main

import (
	"verif/core"
	"verif/engine/c09"
)

func main() { core.Main(c09.Engine) }

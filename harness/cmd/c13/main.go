package main

import (
	"verif/core"
	"verif/engine/c13"
)

func main() { core.Main(c13.Engine) }

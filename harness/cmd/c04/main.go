package main

import (
	"verif/core"
	"verif/engine/c04"
)

func main() { core.Main(c04.Engine) }

package main

import (
	"verif/core"
	"verif/engine/c01"
)

func main() { core.Main(c01.EngineC06) }

package main

import (
	"verif/core"
	"verif/engine/c12"
)

func main() { core.Main(c12.Engine) }

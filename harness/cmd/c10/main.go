package main

import (
	"verif/core"
	"verif/engine/c10"
)

func main() { core.Main(c10.Engine) }

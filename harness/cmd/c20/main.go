package main

import (
	"verif/core"
	"verif/engine/c20"
)

func main() { core.Main(c20.Engine) }

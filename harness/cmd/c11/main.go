package main

import (
	"verif/core"
	"verif/engine/c11"
)

func main() { core.Main(c11.Engine) }

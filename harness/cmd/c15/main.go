package main

import (
	"verif/core"
	"verif/engine/c15"
)

func main() { core.Main(c15.Engine) }

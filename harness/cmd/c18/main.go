package main

import (
	"verif/core"
	"verif/engine/c18"
)

func main() { core.Main(c18.Engine) }

package main

import (
	"verif/core"
	"verif/engine/c05"
)

func main() { core.Main(c05.Engine) }

package main

import (
	"verif/core"
	"verif/engine/c02"
)

func main() { core.Main(c02.Engine) }

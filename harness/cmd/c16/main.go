package main

import (
	"verif/core"
	"verif/engine/c16"
)

func main() { core.Main(c16.Engine) }

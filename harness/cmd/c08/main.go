package main

import (
	"verif/core"
	"verif/engine/c08"
)

func main() { core.Main(c08.Engine) }

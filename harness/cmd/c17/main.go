package main

import (
	"verif/core"
	"verif/engine/c17"
)

func main() { core.Main(c17.Engine) }

// Demo for mutant C11/s. Place: copy to tests/zz_demo_c11_test.go, then run
//   cd tests && GOFLAGS=-mod=mod GOPROXY=off GOSUMDB=off GOTOOLCHAIN=local go test -count=1 -run 'TestZZDemoC11PreloadScopeOrSoftDeleted' .
package tests_test

import (
	"testing"

	"gorm.io/gorm"
	. "gorm.io/gorm/utils/tests"
)

func TestZZDemoC11PreloadScopeOrSoftDeleted(t *testing.T) {
	user := User{Name: "zzc11-owner", Pets: []*Pet{{Name: "zzc11-a"}, {Name: "zzc11-b"}, {Name: "zzc11-c"}}}
	if err := DB.Create(&user).Error; err != nil {
		t.Fatal(err)
	}
	// soft delete the pet that matches the FIRST alternative of the OR below
	if err := DB.Delete(user.Pets[0]).Error; err != nil {
		t.Fatal(err)
	}

	var got User
	err := DB.Preload("Pets", func(tx *gorm.DB) *gorm.DB {
		return tx.Where("name = ?", "zzc11-a").Or("name = ?", "zzc11-b")
	}).First(&got, user.ID).Error
	if err != nil {
		t.Fatal(err)
	}

	if len(got.Pets) != 1 || got.Pets[0].Name != "zzc11-b" {
		names := []string{}
		for _, p := range got.Pets {
			names = append(names, p.Name)
		}
		t.Fatalf("preload with an OR scope must attach only the live pet zzc11-b, got %v (a soft-deleted pet was attached)", names)
	}
}

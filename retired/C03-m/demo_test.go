// Demo for mutant "m" (Statement.AddVar lost its dedicated []byte case; byte slices now
// go through the generic reflect slice branch, whose "empty slice" shortcut writes (NULL)).
//
// Placement: copy to tests/zz_demo_m_test.go (module gorm.io/gorm/tests), then
//
//	cd tests && go test -count=1 -run 'TestDemoM' .
//
// FAILS with MUTANTS/m/patch.diff applied, PASSES on the unchanged tree.
package tests_test

import (
	"path/filepath"
	"testing"

	"gorm.io/driver/sqlite"
	"gorm.io/gorm"
	"gorm.io/gorm/logger"
)

type demoMBlob struct {
	ID      uint
	Tag     string
	Payload []byte
}

func openDemoM(t *testing.T) *gorm.DB {
	t.Helper()
	db, err := gorm.Open(sqlite.Open(filepath.Join(t.TempDir(), "demo_m.db")), &gorm.Config{Logger: logger.Discard})
	if err != nil {
		t.Fatalf("open: %v", err)
	}
	if err := db.AutoMigrate(&demoMBlob{}); err != nil {
		t.Fatalf("migrate: %v", err)
	}
	return db
}

func countNullPayloads(t *testing.T, db *gorm.DB) int64 {
	t.Helper()
	var n int64
	if err := db.Model(&demoMBlob{}).Where("payload IS NULL").Count(&n).Error; err != nil {
		t.Fatalf("count: %v", err)
	}
	return n
}

// An empty but non-nil byte slice is a zero-length BLOB, not NULL: it must come back non-nil.
func TestDemoM_EmptyBytesStruct(t *testing.T) {
	db := openDemoM(t)

	recs := []demoMBlob{
		{Tag: "empty", Payload: []byte{}},
		{Tag: "nil", Payload: nil},
		{Tag: "one", Payload: []byte{0}},
	}
	if err := db.Create(&recs).Error; err != nil {
		t.Fatalf("create: %v", err)
	}

	var out []demoMBlob
	if err := db.Order("id").Find(&out).Error; err != nil || len(out) != 3 {
		t.Fatalf("find: %v (%d rows)", err, len(out))
	}
	if out[0].Payload == nil || len(out[0].Payload) != 0 {
		t.Errorf("empty payload loaded as %#v, want []byte{}", out[0].Payload)
	}
	if out[1].Payload != nil {
		t.Errorf("nil payload loaded as %#v, want nil", out[1].Payload)
	}
	if len(out[2].Payload) != 1 || out[2].Payload[0] != 0 {
		t.Errorf("payload {0} loaded as %#v", out[2].Payload)
	}
	if n := countNullPayloads(t, db); n != 1 {
		t.Errorf("%d rows hold NULL in payload, want 1 (only the nil one)", n)
	}

	// and into a map
	m := map[string]interface{}{}
	if err := db.Model(&demoMBlob{}).Where("tag = ?", "empty").Take(&m).Error; err != nil {
		t.Fatalf("take map: %v", err)
	}
	if b, ok := m["payload"].([]byte); !ok || b == nil || len(b) != 0 {
		t.Errorf("map payload = %#v, want []byte{}", m["payload"])
	}
}

// the same through Create from a map
func TestDemoM_EmptyBytesMap(t *testing.T) {
	db := openDemoM(t)

	if err := db.Model(&demoMBlob{}).Create(map[string]interface{}{"tag": "empty", "payload": []byte{}}).Error; err != nil {
		t.Fatalf("create from map: %v", err)
	}
	var out demoMBlob
	if err := db.First(&out).Error; err != nil {
		t.Fatalf("first: %v", err)
	}
	if out.Payload == nil {
		t.Errorf("empty payload loaded as nil")
	}
	if n := countNullPayloads(t, db); n != 0 {
		t.Errorf("%d rows hold NULL in payload, want 0", n)
	}
}

// Demo for mutant i (callbacks/create.go, AfterCreate).
//
// Placement: copy to tests/zz_demo_i_test.go (package tests_test, uses the suite's global DB on SQLite).
// Run:       cd tests && go test -count=1 -run 'TestZZDemoIValueReceiverAfterCreateOnce' .
//
// A model whose AfterCreate hook has a VALUE receiver and that declares no AfterSave hook must get the hook
// exactly once when a single struct is created (here the hook writes one audit row through the hook handle).
package tests_test

import (
	"testing"

	"gorm.io/gorm"
)

type ZZDemoIOrder struct {
	ID   uint
	Code string
}

type ZZDemoIAudit struct {
	ID      uint
	OrderID uint
	Note    string
}

var zzDemoICalls int

// value receiver, and the model has no AfterSave hook
func (o ZZDemoIOrder) AfterCreate(tx *gorm.DB) error {
	zzDemoICalls++
	return tx.Create(&ZZDemoIAudit{OrderID: o.ID, Note: "created " + o.Code}).Error
}

func TestZZDemoIValueReceiverAfterCreateOnce(t *testing.T) {
	DB.Migrator().DropTable(&ZZDemoIOrder{}, &ZZDemoIAudit{})
	if err := DB.AutoMigrate(&ZZDemoIOrder{}, &ZZDemoIAudit{}); err != nil {
		t.Fatalf("migrate: %v", err)
	}

	// single struct
	zzDemoICalls = 0
	order := ZZDemoIOrder{Code: "A-1"}
	if err := DB.Create(&order).Error; err != nil {
		t.Fatalf("create: %v", err)
	}
	if zzDemoICalls != 1 {
		t.Errorf("AfterCreate fired %d times for one created struct, want exactly 1", zzDemoICalls)
	}
	var audits int64
	DB.Model(&ZZDemoIAudit{}).Where("order_id = ?", order.ID).Count(&audits)
	if audits != 1 {
		t.Errorf("%d audit rows written for order %d, want exactly 1", audits, order.ID)
	}

	// slices behave the same in both trees: once per element
	zzDemoICalls = 0
	orders := []ZZDemoIOrder{{Code: "B-1"}, {Code: "B-2"}}
	if err := DB.Create(&orders).Error; err != nil {
		t.Fatalf("create slice: %v", err)
	}
	if zzDemoICalls != 2 {
		t.Errorf("AfterCreate fired %d times for a slice of two, want 2", zzDemoICalls)
	}
}

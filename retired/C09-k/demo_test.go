// Demo for mutant C09-k (finisher_api.go (*DB).Delete, inline conditions).
//
// Placement: copy to tests/zz_demo_c09k_test.go (package tests_test, uses the shared SQLite DB of tests/).
// Run:  cd tests && GOFLAGS=-mod=mod go test -count=1 -run 'TestZZDemoC09kEmptyInlineCondition' .
//
// Delete of a PLAIN (not soft-deleting) model with an inline condition that degenerates to nothing
// ("" / empty map / empty id slice / all-zero struct) and a value without primary key: the guard has to
// answer gorm.ErrMissingWhereClause before anything is sent to the database.
package tests_test

import (
	"errors"
	"testing"

	"gorm.io/gorm"
)

type DemoC09kNote struct {
	ID   uint
	Text string
}

func TestZZDemoC09kEmptyInlineCondition(t *testing.T) {
	DB.Migrator().DropTable(&DemoC09kNote{})
	if err := DB.AutoMigrate(&DemoC09kNote{}); err != nil {
		t.Fatalf("migrate: %v", err)
	}
	defer DB.Migrator().DropTable(&DemoC09kNote{})

	notes := []DemoC09kNote{{Text: "a"}, {Text: "b"}, {Text: "c"}}
	if err := DB.Create(&notes).Error; err != nil {
		t.Fatalf("create: %v", err)
	}

	// count the statements that really reach the connection
	executed := 0
	cbName := "demo_c09k:count"
	if err := DB.Callback().Delete().After("gorm:delete").Register(cbName, func(tx *gorm.DB) {
		if tx.Statement.SQL.Len() > 0 && !errors.Is(tx.Error, gorm.ErrMissingWhereClause) {
			executed++
		}
	}); err != nil {
		t.Fatalf("register: %v", err)
	}
	defer DB.Callback().Delete().Remove(cbName)

	var noIDs []uint
	forms := map[string]interface{}{
		"empty string":    "",
		"empty map":       map[string]interface{}{},
		"empty id slice":  noIDs,
		"all-zero struct": DemoC09kNote{},
	}
	for name, cond := range forms {
		res := DB.Delete(&DemoC09kNote{}, cond)
		if !errors.Is(res.Error, gorm.ErrMissingWhereClause) {
			t.Errorf("Delete(&DemoC09kNote{}, %s): expected ErrMissingWhereClause, got %v", name, res.Error)
		}
	}
	if executed != 0 {
		t.Errorf("%d condition-less DELETE statements went past the guard", executed)
	}

	var count int64
	DB.Model(&DemoC09kNote{}).Count(&count)
	if count != 3 {
		t.Errorf("expected 3 rows left, got %d", count)
	}

	// an effective inline condition is still accepted
	if err := DB.Delete(&DemoC09kNote{}, "text = ?", "a").Error; err != nil {
		t.Errorf("Delete with inline condition failed: %v", err)
	}
}

// Demo for mutant C09/h.
// Place:  cp MUTANTS/h/demo_test.go tests/zz_demo_c09h_test.go
// Run:    cd tests && go test -count=1 -run 'TestC09hInlineEmptyConditionDelete' .
package tests_test

import (
	"errors"
	"testing"

	"gorm.io/gorm"
)

type c09hPlain struct {
	ID   uint `gorm:"primaryKey"`
	Name string
}

// A Delete whose only "condition" is an empty inline form (empty string, empty map,
// empty slice, all-zero struct) on a model WITHOUT soft delete must be rejected with
// ErrMissingWhereClause and must not remove any row.
func TestC09hInlineEmptyConditionDelete(t *testing.T) {
	DB.Migrator().DropTable(&c09hPlain{})
	if err := DB.AutoMigrate(&c09hPlain{}); err != nil {
		t.Fatalf("migrate: %v", err)
	}
	defer DB.Migrator().DropTable(&c09hPlain{})

	forms := map[string]interface{}{
		"empty string": "",
		"empty map":    map[string]interface{}{},
		"empty slice":  []int64{},
		"zero struct":  c09hPlain{},
	}

	for name, form := range forms {
		DB.Session(&gorm.Session{AllowGlobalUpdate: true}).Delete(&c09hPlain{})
		rows := []c09hPlain{{Name: "a"}, {Name: "b"}, {Name: "c"}}
		if err := DB.Create(&rows).Error; err != nil {
			t.Fatalf("create: %v", err)
		}

		res := DB.Delete(&c09hPlain{}, form)
		if !errors.Is(res.Error, gorm.ErrMissingWhereClause) {
			t.Errorf("%s: Delete(&plain{}, <empty>) should return ErrMissingWhereClause, got err=%v rows=%d", name, res.Error, res.RowsAffected)
		}

		var count int64
		DB.Model(&c09hPlain{}).Count(&count)
		if count != 3 {
			t.Errorf("%s: rows must be untouched by a condition-less Delete, %d of 3 left", name, count)
		}
	}

	// a real inline condition is still accepted
	if err := DB.Delete(&c09hPlain{}, "name = ?", "a").Error; err != nil {
		t.Errorf("Delete with a real inline condition rejected: %v", err)
	}
}

// Demo for mutant C09-j (clause/where.go Where.MergeClause).
//
// Placement: copy to tests/zz_demo_c09j_test.go (package tests_test, uses the shared SQLite DB of tests/).
// Run:  cd tests && GOFLAGS=-mod=mod go test -count=1 -run 'TestZZDemoC09jEmptyWhereClause' .
//
// A dynamic filter list that happens to be empty is handed over as clause.Where{Exprs: filters}.
// No effective condition is supplied, so neither the Delete nor the Update may change a row.
package tests_test

import (
	"testing"

	"gorm.io/gorm/clause"
)

type DemoC09jItem struct {
	ID   uint
	Name string
}

func TestZZDemoC09jEmptyWhereClause(t *testing.T) {
	DB.Migrator().DropTable(&DemoC09jItem{})
	if err := DB.AutoMigrate(&DemoC09jItem{}); err != nil {
		t.Fatalf("migrate: %v", err)
	}
	defer DB.Migrator().DropTable(&DemoC09jItem{})

	items := []DemoC09jItem{{Name: "a"}, {Name: "b"}, {Name: "c"}}
	if err := DB.Create(&items).Error; err != nil {
		t.Fatalf("create: %v", err)
	}

	var filters []clause.Expression // no filter was selected

	// Update
	res := DB.Model(&DemoC09jItem{}).Clauses(clause.Where{Exprs: filters}).Update("name", "overwritten")
	if res.Error == nil {
		t.Errorf("Update without an effective condition returned no error (rows affected %d)", res.RowsAffected)
	}
	var count int64
	DB.Model(&DemoC09jItem{}).Where("name = ?", "overwritten").Count(&count)
	if count != 0 {
		t.Errorf("Update without an effective condition changed %d rows", count)
	}

	// Delete
	res = DB.Clauses(clause.Where{Exprs: filters}).Delete(&DemoC09jItem{})
	if res.Error == nil {
		t.Errorf("Delete without an effective condition returned no error (rows affected %d)", res.RowsAffected)
	}
	DB.Model(&DemoC09jItem{}).Count(&count)
	if count != 3 {
		t.Errorf("Delete without an effective condition removed rows: %d of 3 left", count)
	}

	// a real condition merged after the empty one still works and hits only its row
	res = DB.Clauses(clause.Where{Exprs: filters}).Where("name = ?", "a").Delete(&DemoC09jItem{})
	if res.Error != nil {
		t.Errorf("Delete with a condition failed: %v", res.Error)
	}
}

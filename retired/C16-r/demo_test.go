// Demo for mutant r (callbacks/update.go, Update: the schema's update clauses are added after the assignments).
//
// Placement: copy to tests/zz_demo_r_test.go (package tests_test, module gorm.io/gorm/tests).
// Run:       cd tests && go test -count=1 -run 'TestDemoR' .
//
// PASSES on the unchanged tree, FAILS with the mutant applied.
package tests_test

import (
	"context"
	"path/filepath"
	"testing"

	"gorm.io/driver/sqlite"
	"gorm.io/gorm"
)

// a soft-delete model: the soft-delete clause groups "a OR b" before it adds "deleted_at IS NULL"
type DemoRItem struct {
	ID        uint `gorm:"primaryKey"`
	Name      string
	Age       int
	DeletedAt gorm.DeletedAt
}

func demoRDB(t *testing.T) *gorm.DB {
	db, err := gorm.Open(sqlite.Open(filepath.Join(t.TempDir(), "demo_r.db")), &gorm.Config{})
	if err != nil {
		t.Fatalf("open: %v", err)
	}
	if err := db.AutoMigrate(&DemoRItem{}); err != nil {
		t.Fatalf("migrate: %v", err)
	}
	return db
}

func demoRRows(t *testing.T, db *gorm.DB) map[uint]DemoRItem {
	var rows []DemoRItem
	if err := db.Unscoped().Order("id").Find(&rows).Error; err != nil {
		t.Fatal(err)
	}
	m := map[uint]DemoRItem{}
	for _, r := range rows {
		m[r.ID] = r
	}
	return m
}

// FirstOrCreate with an Or condition and Assign: the first match (row 1) is returned and gets the assigned value;
// no other row is written (at most one row).
func TestDemoRFirstOrCreateOrConditionAssignWritesOneRow(t *testing.T) {
	for _, withSession := range []bool{false, true} {
		db := demoRDB(t)
		seed := []DemoRItem{{ID: 1, Name: "a", Age: 1}, {ID: 2, Name: "a", Age: 2}, {ID: 3, Name: "b", Age: 3}, {ID: 4, Name: "c", Age: 4}}
		if err := db.Create(&seed).Error; err != nil {
			t.Fatal(err)
		}

		chain := db.Where(DemoRItem{Name: "a"}).Or(map[string]interface{}{"name": "b"})
		if withSession {
			chain = chain.WithContext(context.Background()).Session(&gorm.Session{})
		}

		var got DemoRItem
		res := chain.Assign(DemoRItem{Age: 9}).FirstOrCreate(&got)
		if res.Error != nil {
			t.Fatal(res.Error)
		}
		if got.ID != 1 || got.Name != "a" || got.Age != 9 {
			t.Errorf("session=%v: returned record: want {1 a 9}, got %+v", withSession, got)
		}
		if res.RowsAffected != 1 {
			t.Errorf("session=%v: FirstOrCreate wrote %d rows, want 1", withSession, res.RowsAffected)
		}

		rows := demoRRows(t, db)
		want := map[uint]int{1: 9, 2: 2, 3: 3, 4: 4}
		if len(rows) != len(want) {
			t.Errorf("session=%v: want %d rows, got %+v", withSession, len(want), rows)
		}
		for id, age := range want {
			if rows[id].Age != age {
				t.Errorf("session=%v: row %d: want age %d, got %+v", withSession, id, age, rows[id])
			}
		}
	}
}

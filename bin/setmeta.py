#!/usr/bin/env python3
# usage: setmeta.py <seeded-id> <history text>   (marks the change as detected by "<prop> quick")
import json,sys
m,h=sys.argv[1],sys.argv[2]
p=f'/verif/seeded/{m}/meta.json'; d=json.load(open(p)); d['detected_by']=[m[:3]+' quick']; d['history']=h; json.dump(d,open(p,'w'),indent=1)

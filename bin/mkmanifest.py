#!/usr/bin/env python3
"""Regenerates /verif/MANIFEST.json from bin/manifest_checks.json (one entry per built engine)
and properties.jsonl (every property without an engine is listed under not_applicable
with the reason 'not built yet' -- never wired to a fake pass)."""
import json, os, subprocess
V = '/verif'
checks_src = json.load(open(f'{V}/bin/manifest_checks.json'))
props = [json.loads(l) for l in open(f'{V}/properties.jsonl')]
hooks_commits = checks_src.get('_hook_commits', [])
checks = []
na = []
for p in props:
    pid = p['id']
    c = checks_src.get(pid)
    if not c or c.get('not_applicable'):
        na.append({'property_id': pid, 'reason': (c or {}).get('not_applicable', 'engine not built yet in this round (design in DESIGN.md section 2); nothing is claimed')})
        continue
    checks.append({
        'property_id': pid,
        'quick_cmd': f'bin/check {pid} quick',
        'thorough_cmd': f'bin/check {pid} thorough',
        'evidence_file': f'/verif/evidence/{pid}.json',
        'replay_cmd_template': f'bin/check {pid} --replay {{path}}',
        'engine': c.get('engine', pid.lower()),
        'level_claimed': {'category': c['level'], 'text': c['text'], 'design_ref': f'DESIGN.md section 2 {pid}'},
        'level_note': c['note'],
        'technique': c['technique'],
    })
m = {
    'version': 1,
    'setup_cmd': 'bin/setup',
    'hooks': {
        'guard': 'verif',
        'enable': 'go build -tags verif (bin/check passes it for every engine build); hook package gorm.io/gorm/utils/verifhook',
        'baseline_off_cmd': 'bin/baseline_off',
        'source_commits': hooks_commits,
        'add_only': True,
    },
    'engines': [{'name': c['engine'] if 'engine' in c else k.lower(), 'path': f'harness/engine/{k.lower()}', 'serves_properties': [k],
                 'kind_free_text': c['technique']} for k, c in checks_src.items() if not k.startswith('_') and not c.get('not_applicable')],
    'checks': checks,
    'notes': 'Runtime monitoring only: every check executes the real gorm code from /repo (module replace) and decides on observed executions. exit 0 held / 1 violation / 2 inconclusive.',
    'not_applicable': na,
}
json.dump(m, open(f'{V}/MANIFEST.json', 'w'), indent=1)
print('checks', len(checks), 'not_applicable', len(na))

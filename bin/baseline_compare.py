#!/usr/bin/env python3
"""usage: bin/baseline_off > out.json; bin/baseline_compare.py out.json
Compares go test -json output with the stable_pass list of /root/.vp/BASELINE.json."""
import json, sys
base = set(json.load(open('/root/.vp/BASELINE.json'))['stable_pass'])
passed, failed = set(), set()
for line in open(sys.argv[1], errors='replace'):
    line = line.strip()
    if not line.startswith('{'):
        continue
    try:
        e = json.loads(line)
    except Exception:
        continue
    if e.get('Test') and e.get('Action') in ('pass', 'fail'):
        (passed if e['Action'] == 'pass' else failed).add(f"{e['Package']}::{e['Test']}")
missing = base - passed
print(f"baseline={len(base)} passed_now={len(passed)} failed_now={len(failed)} baseline_not_passing={len(missing)}")
for m in sorted(missing)[:20]:
    print("  MISSING", m)
sys.exit(1 if missing else 0)

#!/usr/bin/env python3
"""usage: mk84.py <sweep summary.txt>: refreshes the case counts and wall times of DESIGN.md section 8.4 from a sweep
(bin/sweep) and leaves the 'deviations' column as it is."""
import re, sys
rows = {}
for l in open(sys.argv[1]):
    m = re.match(r'(C\d\d) (quick|thorough) seed=(\d+) rc=(\d+) .*evaluations=(\d+) distinct_nontrivial=(\d+) violations=(\d+) known=(\d+) wall=([\d.]+)s', l)
    if m:
        rows.setdefault(m.group(1), {}).setdefault(m.group(2), []).append((int(m.group(5)), int(m.group(6)), float(m.group(9)), int(m.group(8))))
p = '/verif/DESIGN.md'
s = open(p).read()
i = s.index('### 8.4 Per-property state')
j = s.index('\n## 9.', i)
out = []
for l in s[i:j].split('\n'):
    m = re.match(r'\| (C\d\d) \| (\w+) \| (.*?) \| (.*?) \| (.*) \|$', l)
    if m and m.group(1) in rows:
        r = rows[m.group(1)]
        q = r.get('quick', []); t = r.get('thorough', [])
        qs = '%d cases, %d distinct non-trivial, %.0f s' % (q[0][0], q[0][1], max(x[2] for x in q)) if q else m.group(3)
        ts = '%d cases, %d distinct non-trivial, %.0f s' % (t[0][0], t[0][1], t[0][2]) if t else m.group(4)
        l = '| %s | %s | %s | %s | %s |' % (m.group(1), m.group(2), qs, ts, m.group(5))
    out.append(l)
blk = '\n'.join(out).replace('| id | engine | quick (cases / wall) | thorough | deviations from section 2 |', '| id | engine | quick (cases, distinct shapes, longest wall of three seeds in the final sweep) | thorough (seed 1) | deviations from section 2 |')
open(p, 'w').write(s[:i] + blk + s[j:])
print('ok', len(rows))

#!/usr/bin/env python3
"""usage: store_round.py <round-number> <MUTBASE> <results-dir> [IDs...]
Stores the confirmed changes of a round (lines written by bin/round2) under /verif/seeded/ with their first verdict."""
import sys, re, os, subprocess, glob
rnd, base, rdir = sys.argv[1:4]
ids = sys.argv[4:] or [os.path.basename(f)[:-4] for f in sorted(glob.glob(rdir + '/C??.txt'))]
for pid in ids:
    f = f'{rdir}/{pid}.txt'
    if not os.path.exists(f):
        continue
    for line in open(f):
        m = re.match(r'(C\d\d)-(\w) \|', line)
        if not m:
            continue
        name = f'{m.group(1)}-{m.group(2)}'
        if os.path.exists(f'/verif/seeded/{name}/meta.json') or os.path.exists(f'/verif/retired/{name}/meta.json'):
            print(name, 'already stored'); continue
        if 'NOT CONFIRMED' in line or 'CONFIRMED' not in line:
            print(name, 'NOT CONFIRMED:', line[:300]); continue
        ex = re.search(r'== ' + pid + r' quick exit=(\d)', line)
        sigs = sorted(set(re.findall(r'sig=(\S+)', line)))
        if ex and ex.group(1) == '1':
            det, hist = f'{pid} quick', f'round {rnd}: caught at once ({", ".join(sigs[:4])})'
        elif ex and ex.group(1) == '0':
            det, hist = '', f'round {rnd}: MISSED by the check as it stood'
        else:
            det, hist = '', f'round {rnd}: INCONCLUSIVE run of the check as it stood'
        subprocess.run(['/verif/bin/keep_mutant.py', f'{base}/{pid}/MUTANTS/{m.group(2)}', name, pid, det, hist], check=True)
        print(name, hist[:120])
